(** C16 (pub/sub router) — property theorems. *)
Require Import Selium.Base Selium.PubSub Selium.PubSubSpec Selium.P_PubSub.
Open Scope N_scope.

(** whenever the router's future completes (only possible after the registration channel was
    closed), the buffered message has been handed over and every live subscriber holds, flushed,
    everything pulled since its registration *)
Theorem c16_ps_flushed_at_completion : forall tr s, run init tr = Some s -> c16_state_ok s = true.
Proof. exact run_c16. Qed.
Print Assumptions c16_ps_flushed_at_completion.

Example c16_example :
  exists s, run init
    [EBegin; EEnd false; EQueue (QSink 0) true; EQueue (QStream 0) false;
     EBegin; EStream 0 (SItem 5); ESinkReady 0 RPending; EEnd false;
     EClose true; EBegin; ESinkReady 0 ROk; ESinkSend 0 5 true; ESinkFlush 0 ROk; EEnd true] = Some s
  /\ ctl s = PDone /\ delivered_all s = true.
Proof. eexists. vm_compute. repeat split; reflexivity. Qed.
