(** C16 — property theorems (statements and [exact]s only).
    "Finishes in bounded time": proved is that (1) once the registration channel is closed a poll
    of either router returns Pending only because a sink answered Pending in that step, (2) a
    poll after close in which no sink answers Pending therefore completes the future, and does so
    after a number of peer calls bounded by the data handed over in it (the C09 potential
    argument), and (3) between two peer calls the loop makes finitely many moves.  That the
    future is polled again after close is c09_*_never_parks_unarmed plus the wake-bit
    correspondence.  NOT proved: that the mock/peer answers every call (the model accepts traces,
    it does not generate them), i.e. wall-clock time; the shut engine checks that on the server. *)
Require Import Selium.Base Selium.PubSub Selium.PubSubSpec Selium.P_PubSub Selium.P_PubSubPark.
Require Import Selium.ReqRep Selium.ReqRepSpec Selium.P_ReqRep Selium.P_ReqRepOrder.
Require Import Selium.P_PubSubWork Selium.P_ReqRepWork.
Open Scope N_scope.

(** whenever the router's future completes (only possible after the registration channel was
    closed), the buffered message has been handed over and every live subscriber holds, flushed,
    everything pulled since its registration *)
Theorem c16_ps_flushed_at_completion : forall tr s, run init tr = Some s -> c16_state_ok s = true.
Proof. exact run_c16. Qed.
Print Assumptions c16_ps_flushed_at_completion.

(** once closed, the pub/sub router returns Pending only when a subscriber sink answered Pending
    in that very step: [step s e = Some s'] ends a poll with Pending only for such an [e] *)
Theorem c16_ps_closed_pending_only_from_sinks : forall tr s e s',
  run init tr = Some s -> closed s = true -> step s e = Some s' -> ctl s' = PReturn false ->
  sink_pending e = true.
Proof. exact ps_closed_pending_only_from_sinks. Qed.
Print Assumptions c16_ps_closed_pending_only_from_sinks.

(** the same for the request/reply router *)
Theorem c16_rr_closed_pending_only_from_sinks : forall tr s e s',
  rrun rinit tr = Some s -> rclosed s = true -> rstep s e = Some s' -> rctl s' = RReturn false ->
  rr_pending_answer e = true.
Proof. exact rr_closed_pending_only_from_sinks. Qed.
Print Assumptions c16_rr_closed_pending_only_from_sinks.

(** after close, from every reachable state between two polls: a poll in which no subscriber
    answers Pending ends by completing the future ([EEnd true]), after at most
    [(data + queued + 1) * cap] peer calls *)
Theorem c16_ps_poll_after_close_completes : forall tr0 s0 seg r s1,
  run init tr0 = Some s0 -> closed s0 = true -> ctl s0 = PIdle ->
  run s0 (EBegin :: seg ++ [EEnd r]) = Some s1 ->
  forallb peer_call seg = true -> forallb (fun e => negb (sink_pending e)) seg = true ->
  r = true /\ (List.length seg <= (data_calls seg + nQ s0 + 1) * cap s0)%nat.
Proof. exact ps_poll_after_close_completes. Qed.
Print Assumptions c16_ps_poll_after_close_completes.

Theorem c16_rr_poll_after_close_completes : forall tr0 s0 seg r s1,
  rrun rinit tr0 = Some s0 -> rclosed s0 = true -> rctl s0 = RIdle ->
  rrun s0 (VBegin :: seg ++ [VEnd r]) = Some s1 ->
  forallb rpeer_call seg = true -> forallb (fun e => negb (rr_pending_answer e)) seg = true ->
  r = true /\ (List.length seg <= (rdata_calls seg + rQ s0 + 1) * rcap s0)%nat.
Proof. exact rr_poll_after_close_completes. Qed.
Print Assumptions c16_rr_poll_after_close_completes.

Example c16_example :
  exists s, run init
    [EBegin; EEnd false; EQueue (QSink 0) true; EQueue (QStream 0) false;
     EBegin; EStream 0 (SItem 5); ESinkReady 0 RPending; EEnd false;
     EClose true; EBegin; ESinkReady 0 ROk; ESinkSend 0 5 true; ESinkFlush 0 ROk; EEnd true] = Some s
  /\ ctl s = PDone /\ delivered_all s = true.
Proof. eexists. vm_compute. repeat split; reflexivity. Qed.
