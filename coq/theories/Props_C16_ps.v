(** C16 — property theorems (statements and [exact]s only).
    PARTIAL: "finishes in bounded time" is split into (proved) once the registration channel is
    closed a poll of either router returns Pending only because a sink answered Pending in that
    step -- so with subscribers / requestors that accept data every poll returns Ready -- and
    (checked on implementation traces, not proved) that a poll does return, i.e. performs bounded
    work (obs_c09_bounded_ok, spin guard); that the future is polled again after close is
    c09_*_never_parks_unarmed plus the wake-bit correspondence. *)
Require Import Selium.Base Selium.PubSub Selium.PubSubSpec Selium.P_PubSub Selium.P_PubSubPark.
Require Import Selium.ReqRep Selium.ReqRepSpec Selium.P_ReqRep Selium.P_ReqRepOrder.
Open Scope N_scope.

(** whenever the router's future completes (only possible after the registration channel was
    closed), the buffered message has been handed over and every live subscriber holds, flushed,
    everything pulled since its registration *)
Theorem c16_ps_flushed_at_completion : forall tr s, run init tr = Some s -> c16_state_ok s = true.
Proof. exact run_c16. Qed.
Print Assumptions c16_ps_flushed_at_completion.

(** once closed, the pub/sub router returns Pending only when a subscriber sink answered Pending
    in that very step: [step s e = Some s'] ends a poll with Pending only for such an [e] *)
Theorem c16_ps_closed_pending_only_from_sinks : forall tr s e s',
  run init tr = Some s -> closed s = true -> step s e = Some s' -> ctl s' = PReturn false ->
  sink_pending e = true.
Proof. exact ps_closed_pending_only_from_sinks. Qed.
Print Assumptions c16_ps_closed_pending_only_from_sinks.

(** the same for the request/reply router *)
Theorem c16_rr_closed_pending_only_from_sinks : forall tr s e s',
  rrun rinit tr = Some s -> rclosed s = true -> rstep s e = Some s' -> rctl s' = RReturn false ->
  rr_pending_answer e = true.
Proof. exact rr_closed_pending_only_from_sinks. Qed.
Print Assumptions c16_rr_closed_pending_only_from_sinks.

Example c16_example :
  exists s, run init
    [EBegin; EEnd false; EQueue (QSink 0) true; EQueue (QStream 0) false;
     EBegin; EStream 0 (SItem 5); ESinkReady 0 RPending; EEnd false;
     EClose true; EBegin; ESinkReady 0 ROk; ESinkSend 0 5 true; ESinkFlush 0 ROk; EEnd true] = Some s
  /\ ctl s = PDone /\ delivered_all s = true.
Proof. eexists. vm_compute. repeat split; reflexivity. Qed.
