(** C04 — model of the requestor's bookkeeping (client/src/streams/request_reply/requestor.rs):
    one atomic u32 counter shared by all clones, a map of pending calls, one background reader
    matching replies to pending calls by req_id, a per-call timeout.  Replies may arrive in any
    order, late, never, twice, or with ids that match nothing. *)
Require Import Selium.Base.
Open Scope N_scope.

Inductive cev :=
| CCall (c : N)                          (* a call starts: queue_request assigns the next id *)
| CReply (id : option N) (payload : N)   (* the reader pulls a reply frame (req_id header parsed or absent/garbled) *)
| CTimeout (c : N).                      (* call c's timer fires before its reply was delivered *)

Inductive cres := ResOk (payload : N) (id : N) | ResTimeout.

Record cst := {
  c_next : N;                      (* RequestId counter (u32, wraps) *)
  c_pending : list (N * N);        (* (req_id, call) entries of pending_requests *)
  c_done : list (N * cres);        (* outcome of finished calls *)
  c_assigned : list (N * N);       (* ghost: (call, req_id it was given) *)
  c_calls : N;                     (* ghost: number of calls started *)
}.

Definition c_init : cst := {| c_next := 0; c_pending := []; c_done := []; c_assigned := []; c_calls := 0 |}.

Definition is_done (c : N) (s : cst) : bool := existsb (fun p => fst p =? c) (c_done s).

Fixpoint take_id (id : N) (l : list (N * N)) : option (N * list (N * N)) :=
  match l with
  | [] => None
  | (i, c) :: r =>
    if i =? id then Some (c, r)
    else match take_id id r with Some (c', r') => Some (c', (i, c) :: r') | None => None end
  end.

(** HashMap::insert: an existing entry with the same key is replaced *)
Definition insert_id (id c : N) (l : list (N * N)) : list (N * N) :=
  (id, c) :: filter (fun p => negb (fst p =? id)) l.

Definition cstep (s : cst) (e : cev) : cst :=
  match e with
  | CCall c =>
    let id := c_next s in
    {| c_next := (id + 1) mod 2 ^ 32; c_pending := insert_id id c (c_pending s); c_done := c_done s;
       c_assigned := (c, id) :: c_assigned s; c_calls := c_calls s + 1 |}
  | CReply (Some id) p =>
    match take_id id (c_pending s) with
    | Some (c, rest) =>
      (* pending.send(payload): delivered unless the waiter is gone (timed out) *)
      {| c_next := c_next s; c_pending := rest;
         c_done := if is_done c s then c_done s else (c, ResOk p id) :: c_done s;
         c_assigned := c_assigned s; c_calls := c_calls s |}
    | None => s
    end
  | CReply None _ => s
  | CTimeout c =>
    if is_done c s then s
    else {| c_next := c_next s; c_pending := c_pending s; c_done := (c, ResTimeout) :: c_done s;
            c_assigned := c_assigned s; c_calls := c_calls s |}
  end.

Definition crun (evs : list cev) : cst := fold_left cstep evs c_init.

(** well-formed histories: call names are unique, a timeout refers to a started call *)
Fixpoint calls_of (evs : list cev) : list N :=
  match evs with [] => [] | CCall c :: r => c :: calls_of r | _ :: r => calls_of r end.
