(** Round-trip lemmas for the codec combinators. *)
Require Import Selium.Base Selium.Bytes Selium.Utf8 Selium.Bincode.
Require Import ZifyBool ZifyN ZifyNat.
Ltac Zify.zify_post_hook ::= Z.div_mod_to_equations.
Open Scope N_scope.

Lemma le_bytes_length k n : List.length (le_bytes k n) = k.
Proof. revert n; induction k; intros; cbn [le_bytes List.length]; [reflexivity|now rewrite IHk]. Qed.

Lemma le_val_le_bytes k : forall n, n < 256 ^ N.of_nat k -> le_val (le_bytes k n) = n.
Proof.
  induction k as [|k IH]; intros n Hn.
  - cbn in *. lia.
  - cbn [le_bytes le_val].
    rewrite IH.
    + lia.
    + replace (N.of_nat (S k)) with (N.succ (N.of_nat k)) in Hn by lia.
      rewrite N.pow_succ_r' in Hn. lia.
Qed.

Lemma be_val_be_bytes k n : n < 256 ^ N.of_nat k -> be_val (be_bytes k n) = n.
Proof. intros. unfold be_val, be_bytes. rewrite rev_involutive. now apply le_val_le_bytes. Qed.

Lemma be_bytes_length k n : List.length (be_bytes k n) = k.
Proof. unfold be_bytes. now rewrite rev_length, le_bytes_length. Qed.

Lemma firstn_app_exact {A} (l r : list A) : firstn (List.length l) (l ++ r) = l.
Proof. rewrite firstn_app, Nat.sub_diag, firstn_all. cbn. now rewrite app_nil_r. Qed.

Lemma skipn_app_exact {A} (l r : list A) : skipn (List.length l) (l ++ r) = r.
Proof. rewrite skipn_app, Nat.sub_diag, skipn_all. reflexivity. Qed.

Lemma take_app k (h r : bytes) : List.length h = k -> take k (h ++ r) = Some (h, r).
Proof.
  intros <-. unfold take. rewrite app_length.
  destruct (Nat.leb_spec (List.length h) (List.length h + List.length r)); [|lia].
  now rewrite firstn_app_exact, skipn_app_exact.
Qed.

Lemma c_uint_ok k : codec_ok (c_uint k).
Proof.
  intros n rest Hwf. cbn [c_uint dec enc wf] in *.
  rewrite take_app by apply le_bytes_length. now rewrite le_val_le_bytes.
Qed.

Lemma dec_u64_app n rest : n < 2 ^ 64 -> dec c_u64 (le_bytes 8 n ++ rest) = Some (n, rest).
Proof. intros H. apply (c_uint_ok 8 n rest). exact H. Qed.

Lemma c_bytes_ok : codec_ok c_bytes.
Proof.
  intros b rest Hwf. cbn [c_bytes dec enc wf] in *.
  rewrite <- app_assoc.
  rewrite dec_u64_app by exact Hwf.
  unfold blen. rewrite app_length.
  destruct (N.leb_spec (N.of_nat (List.length b)) (N.of_nat (List.length b + List.length rest))); [|lia].
  rewrite Nat2N.id. now rewrite firstn_app_exact, skipn_app_exact.
Qed.

Lemma c_string_ok : codec_ok c_string.
Proof.
  intros s rest [Hlen Hutf]. cbn [c_string dec enc].
  rewrite c_bytes_ok by exact Hlen. now rewrite Hutf.
Qed.

Lemma c_pair_ok {A B} (ca : codec A) (cb : codec B) : codec_ok ca -> codec_ok cb -> codec_ok (c_pair ca cb).
Proof.
  intros Ha Hb [a b] rest [Hwa Hwb]. cbn [c_pair dec enc fst snd] in *.
  rewrite <- app_assoc, Ha by assumption. now rewrite Hb.
Qed.

Lemma c_option_ok {A} (ca : codec A) : codec_ok ca -> codec_ok (c_option ca).
Proof.
  intros Ha [a|] rest Hwf; cbn [c_option dec enc app] in *; [|reflexivity].
  now rewrite Ha.
Qed.

Lemma dec_n_ok {A} (ca : codec A) : codec_ok ca -> forall l rest fuel,
  Forall (wf ca) l -> Forall (fun a => enc ca a <> []) l ->
  (List.length (concat (map (enc ca) l)) <= fuel)%nat ->
  dec_n ca fuel (N.of_nat (List.length l)) (concat (map (enc ca) l) ++ rest) = Some (l, rest).
Proof.
  intros Hok. induction l as [|a l IH]; intros rest fuel Hwf Hne Hfuel.
  - destruct fuel; reflexivity.
  - inversion Hwf as [|? ? Hwa Hwl]; subst. inversion Hne as [|? ? Hna Hnl]; subst.
    cbn [map concat List.length] in *.
    rewrite app_length in Hfuel.
    assert (Hpos : (0 < List.length (enc ca a))%nat) by (destruct (enc ca a); [contradiction|cbn; lia]).
    destruct fuel as [|fuel]; [lia|].
    cbn [dec_n].
    destruct (N.eqb_spec (N.of_nat (S (List.length l))) 0); [lia|].
    rewrite <- app_assoc, Hok by assumption.
    replace (N.of_nat (S (List.length l)) - 1) with (N.of_nat (List.length l)) by lia.
    rewrite IH by (assumption || lia). reflexivity.
Qed.

Lemma c_seq_ok {A} (ca : codec A) : codec_ok ca -> codec_ok (c_seq ca).
Proof.
  intros Hok l rest (Hlen & Hwf & Hne). cbn [c_seq dec enc].
  rewrite <- app_assoc.
  rewrite dec_u64_app by exact Hlen.
  apply dec_n_ok; try assumption. rewrite app_length. lia.
Qed.

Lemma c_iso_ok {A B} (f : A -> B) (g : B -> A) (ca : codec A) : codec_ok ca -> codec_ok (c_iso f g ca).
Proof.
  intros Hok b rest [Hwf Hfg]. cbn [c_iso dec enc] in *. now rewrite Hok, Hfg.
Qed.

#[export] Hint Resolve c_uint_ok c_bytes_ok c_string_ok c_pair_ok c_option_ok c_seq_ok c_iso_ok : codec.
