(** C11 (pub/sub router) — no subscriber registration is dropped inside the router: every
    subscriber socket it took from its registration channel is still waiting in its queue or was
    adopted into the fan-out (and is then owed every later message: c01). *)
Require Import Selium.Base Selium.PubSub Selium.PubSubSpec Selium.P_Vec Selium.P_PubSub Selium.P_PubSubPark.
Open Scope N_scope.

Definition sub_placed (s : st) (k : N) : Prop :=
  In (QSink k) (queue s) \/ In k (map fst (g_adopt (gh s))).

Definition PsRegInv (s : st) : Prop := forall k, In (QSink k) (g_used (gh s)) -> sub_placed s k.

Inductive ps_reg_effect (s s' : st) : Prop :=
| PG_same : queue s' = queue s -> g_used (gh s') = g_used (gh s) -> g_adopt (gh s') = g_adopt (gh s) -> ps_reg_effect s s'
| PG_enq q : queue s' = queue s ++ [q] -> g_used (gh s') = q :: g_used (gh s) -> g_adopt (gh s') = g_adopt (gh s) -> ps_reg_effect s s'
| PG_stream j : queue s = QStream j :: queue s' -> g_used (gh s') = g_used (gh s) -> g_adopt (gh s') = g_adopt (gh s) -> ps_reg_effect s s'
| PG_sink k n : queue s = QSink k :: queue s' -> g_used (gh s') = g_used (gh s) -> g_adopt (gh s') = g_adopt (gh s) ++ [(k, n)] -> ps_reg_effect s s'.

Lemma internal_reg s s' : internal s = Some s' -> ps_reg_effect s s'.
Proof.
  intros H. unfold internal in H.
  crush_matches H; injection H as <-;
    first [ solve [apply PG_same; simp_st; auto]
          | solve [eapply PG_stream; simp_st; eauto]
          | solve [eapply PG_sink; simp_st; eauto] ].
Qed.

Lemma step_raw_reg s e s' : step_raw s e = Some s' -> ps_reg_effect s s'.
Proof.
  intros H. unfold step_raw in H.
  crush_matches H; injection H as <-;
    first [ solve [apply PG_same; simp_st; auto]
          | solve [eapply PG_enq; simp_st; eauto] ].
Qed.

Lemma psreginv_effect s s' : PsRegInv s -> ps_reg_effect s s' -> PsRegInv s'.
Proof.
  intros HI Eff k Hk. unfold sub_placed.
  destruct Eff as [Hq Hu Ha | q Hq Hu Ha | j Hq Hu Ha | k0 n Hq Hu Ha]; rewrite Hu in Hk; rewrite ?Ha.
  - rewrite Hq. exact (HI k Hk).
  - rewrite Hq, in_app_iff. cbn [In]. destruct Hk as [<-|Hk]; [left; right; now left|].
    destruct (HI k Hk) as [H|H]; [left; now left|now right].
  - destruct (HI k Hk) as [H|H]; [|now right]. rewrite Hq in H. destruct H as [H|H]; [discriminate|now left].
  - rewrite map_app, in_app_iff. cbn [map fst In].
    destruct (HI k Hk) as [H|H]; [|right; now left]. rewrite Hq in H.
    destruct H as [H|H]; [injection H as <-; right; right; now left|now left].
Qed.

Theorem ps_subscriber_registration_never_dropped tr s : run init tr = Some s ->
  forall k, In (QSink k) (g_used (gh s)) -> In (QSink k) (queue s) \/ In k (map fst (g_adopt (gh s))).
Proof.
  intros H. revert H. apply (ps_lift_run PsRegInv).
  - intros a b Ha Hi. exact (psreginv_effect a b Ha (internal_reg _ _ Hi)).
  - intros a e b Ha Hr. exact (psreginv_effect a b Ha (step_raw_reg _ _ _ Hr)).
  - intros k [].
Qed.
