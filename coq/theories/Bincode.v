(** The part of bincode 1.3 (fixint, little endian, `deserialize` from a slice, trailing bytes
    allowed) that the wire structs use, as codec combinators: an encoder, a parser and a
    well-formedness predicate under which the parser inverts the encoder on any continuation. *)
Require Import Selium.Base Selium.Bytes Selium.Utf8.
Open Scope N_scope.

Definition parser (A : Type) := bytes -> option (A * bytes).

Record codec (A : Type) := Codec {
  enc : A -> bytes;
  dec : parser A;
  wf : A -> Prop;
}.
Arguments Codec {A} enc dec wf.
Arguments enc {A} c a.
Arguments dec {A} c b.
Arguments wf {A} c a.

Definition codec_ok {A} (c : codec A) : Prop :=
  forall a rest, wf c a -> dec c (enc c a ++ rest) = Some (a, rest).

(** fixed-width little-endian integers *)
Definition take (k : nat) (b : bytes) : option (bytes * bytes) :=
  if Nat.leb k (List.length b) then Some (firstn k b, skipn k b) else None.

Definition c_uint (k : nat) : codec N :=
  Codec (le_bytes k)
        (fun b => match take k b with Some (h, r) => Some (le_val h, r) | None => None end)
        (fun n => n < 256 ^ N.of_nat k).
Definition c_u8 := c_uint 1.
Definition c_u32 := c_uint 4.
Definition c_u64 := c_uint 8.

(** length-prefixed byte strings (serde bytes / Vec<u8> / bytes::Bytes) *)
Definition c_bytes : codec bytes :=
  Codec (fun b => le_bytes 8 (blen b) ++ b)
        (fun b => match dec c_u64 b with
                  | Some (n, r) => if n <=? blen r then Some (firstn (N.to_nat n) r, skipn (N.to_nat n) r) else None
                  | None => None
                  end)
        (fun b => blen b < 2 ^ 64).

(** String: bytes that must be valid UTF-8 *)
Definition c_string : codec bytes :=
  Codec (enc c_bytes)
        (fun b => match dec c_bytes b with
                  | Some (s, r) => if utf8_valid s then Some (s, r) else None
                  | None => None
                  end)
        (fun s => blen s < 2 ^ 64 /\ utf8_valid s = true).

Definition c_pair {A B} (ca : codec A) (cb : codec B) : codec (A * B) :=
  Codec (fun p => enc ca (fst p) ++ enc cb (snd p))
        (fun b => match dec ca b with
                  | Some (a, r) => match dec cb r with Some (x, r') => Some ((a, x), r') | None => None end
                  | None => None
                  end)
        (fun p => wf ca (fst p) /\ wf cb (snd p)).

Definition c_option {A} (ca : codec A) : codec (option A) :=
  Codec (fun o => match o with None => [0] | Some a => 1 :: enc ca a end)
        (fun b => match b with
                  | 0 :: r => Some (None, r)
                  | 1 :: r => match dec ca r with Some (a, r') => Some (Some a, r') | None => None end
                  | _ => None
                  end)
        (fun o => match o with None => True | Some a => wf ca a end).

(** sequences: u64 count, then the elements.  The parser stops with an error as soon as an
    element fails; [fuel] bounds the recursion by the input length (every element of the wire
    types consumes at least one byte, see [c_seq_ok]'s use). *)
Fixpoint dec_n {A} (ca : codec A) (fuel : nat) (count : N) (b : bytes) : option (list A * bytes) :=
  if count =? 0 then Some ([], b) else
  match fuel with
  | O => None
  | S f =>
    match dec ca b with
    | Some (a, r) => match dec_n ca f (count - 1) r with Some (l, r') => Some (a :: l, r') | None => None end
    | None => None
    end
  end.

Definition c_seq {A} (ca : codec A) : codec (list A) :=
  Codec (fun l => le_bytes 8 (N.of_nat (List.length l)) ++ concat (map (enc ca) l))
        (fun b => match dec c_u64 b with
                  | Some (n, r) => dec_n ca (List.length r) n r
                  | None => None
                  end)
        (fun l => N.of_nat (List.length l) < 2 ^ 64 /\ Forall (wf ca) l /\ Forall (fun a => enc ca a <> []) l).

(** isomorphic view (records as nested pairs) *)
Definition c_iso {A B} (f : A -> B) (g : B -> A) (ca : codec A) : codec B :=
  Codec (fun b => enc ca (g b))
        (fun bs => match dec ca bs with Some (a, r) => Some (f a, r) | None => None end)
        (fun b => wf ca (g b) /\ f (g b) = b).
