(** C07 — the grammar in the property's own words, independent of the regexes. *)
Require Import Selium.Base.
Open Scope N_scope.

Definition is_name_char (c : N) : bool :=
  ((65 <=? c) && (c <=? 90))        (* A-Z *)
  || ((97 <=? c) && (c <=? 122))    (* a-z *)
  || ((48 <=? c) && (c <=? 57))     (* 0-9 *)
  || (c =? 95)                      (* _ *)
  || (c =? 45).                     (* - *)

Definition component_ok (l : list N) : bool :=
  Nat.leb 3 (List.length l) && Nat.leb (List.length l) 64 && forallb is_name_char l.

Definition reserved_word : list N := [115; 101; 108; 105; 117; 109].   (* "selium" *)

Fixpoint has_prefix (pre s : list N) : bool :=
  match pre, s with
  | [], _ => true
  | p :: pr, c :: sr => (p =? c) && has_prefix pr sr
  | _ :: _, [] => false
  end.

(** a (namespace, topic) pair is a legal name *)
Definition name_ok (ns tp : list N) : bool :=
  component_ok ns && component_ok tp && negb (has_prefix reserved_word ns).
