(** C06 / C14 — the standard payload codecs (standard/src/codecs) and the compression wrappers
    (standard/src/compression) as far as selium's own code goes.  The compression libraries are
    [Section] variables with a stated contract. *)
Require Import Selium.Base Selium.Bytes Selium.Utf8 Selium.Bincode.
Open Scope N_scope.

(** StringCodec: encode = the UTF-8 bytes; decode = String::from_utf8 *)
Definition string_encode (s : bytes) : bytes := s.
Definition string_decode (b : bytes) : option bytes := if utf8_valid b then Some b else None.

(** BytesCodec *)
Definition bytes_encode (v : bytes) : bytes := v.
Definition bytes_decode (b : bytes) : option bytes := Some b.

(** BincodeCodec<T>: bincode::serialize / bincode::deserialize (trailing bytes allowed) *)
Definition bincode_encode {A} (c : codec A) (a : A) : bytes := enc c a.
Definition bincode_decode {A} (c : codec A) (b : bytes) : option A :=
  match dec c b with Some (a, _) => Some a | None => None end.

(** the item types the harness instantiates BincodeCodec with *)
Definition c_Dummy : codec (bytes * N) := c_pair c_string c_u64.            (* struct { foo: String, bar: u64 } *)
Definition c_VecString : codec (list bytes) := c_seq c_string.              (* Vec<String> *)
Definition c_OptT : codec (option (N * bytes)) := c_option (c_pair c_u32 c_bytes).   (* Option<(u32, Vec<u8>)> *)
