(** C04 — every Ok carries the reply produced for exactly that call. *)
Require Import Selium.Base Selium.ClientReqRep.
Require Import ZifyBool ZifyN ZifyNat.
Ltac Zify.zify_post_hook ::= Z.div_mod_to_equations.
Open Scope N_scope.

Record CInv (s : cst) : Prop := {
  ci_next : c_next s = c_calls s;                         (* no wrap so far *)
  ci_small : c_calls s < 2 ^ 32;
  ci_pending_assigned : forall id c, In (id, c) (c_pending s) -> In (c, id) (c_assigned s);
  ci_assigned_lt : forall c id, In (c, id) (c_assigned s) -> id < c_calls s;
  ci_assigned_fun : forall c id id', In (c, id) (c_assigned s) -> In (c, id') (c_assigned s) -> id = id';
  ci_assigned_inj : forall c c' id, In (c, id) (c_assigned s) -> In (c', id) (c_assigned s) -> c = c';
  ci_done_ok : forall c p id, In (c, ResOk p id) (c_done s) -> In (c, id) (c_assigned s);
  ci_done_once : NoDup (map fst (c_done s));
}.

Lemma cinv_init : CInv c_init.
Proof. constructor; cbn; try (intros; contradiction); try reflexivity; try (change (2 ^ 32) with 4294967296; lia); constructor. Qed.

Lemma take_id_in id l c rest : take_id id l = Some (c, rest) ->
  In (id, c) l /\ forall x, In x rest -> In x l.
Proof.
  revert c rest. induction l as [|[i c0] l IH]; intros c rest H; [discriminate|].
  cbn [take_id] in H. destruct (N.eqb_spec i id) as [->|Hne].
  - injection H as <- <-. split; [now left|]. intros x Hx. now right.
  - destruct (take_id id l) as [[c' r']|] eqn:E; [|discriminate]. injection H as <- <-.
    destruct (IH c' r' eq_refl) as [H1 H2]. split; [now right|].
    intros x [<-|Hx]; [now left|right; auto].
Qed.

Lemma is_done_spec c s : is_done c s = true <-> In c (map fst (c_done s)).
Proof.
  unfold is_done. rewrite existsb_exists. split.
  - intros ([c' r] & Hin & Heq). cbn in Heq. apply N.eqb_eq in Heq. subst. apply in_map_iff. now exists (c, r).
  - intros H. apply in_map_iff in H as ([c' r] & Heq & Hin). cbn in Heq. subst. exists (c, r). split; [exact Hin|apply N.eqb_refl].
Qed.

Lemma cinv_step s e :
  CInv s ->
  (match e with CCall c => ~ In c (map fst (c_assigned s)) /\ c_calls s + 1 < 2 ^ 32 | _ => True end) ->
  CInv (cstep s e).
Proof.
  intros HI Hwf. destruct HI. change (2 ^ 32) with 4294967296 in *.
  destruct e as [c|[id|] p|c]; cbn [cstep]; change (2 ^ 32) with 4294967296 in *.
  - destruct Hwf as [Hfresh Hlt].
    constructor; cbn [c_next c_pending c_done c_assigned c_calls].
    + rewrite ci_next0. rewrite N.mod_small by lia. reflexivity.
    + lia.
    + intros id c0 Hin. unfold insert_id in Hin. destruct Hin as [Heq|Hin].
      * injection Heq as <- <-. now left.
      * apply filter_In in Hin as [Hin _]. right. eauto.
    + intros c0 id [Heq|Hin]; [injection Heq as <- <-; lia|]. specialize (ci_assigned_lt0 _ _ Hin). lia.
    + intros c0 id id' [H1|H1] [H2|H2].
      * congruence.
      * injection H1 as <- <-. exfalso. apply Hfresh. apply in_map_iff. now exists (c, id').
      * injection H2 as <- <-. exfalso. apply Hfresh. apply in_map_iff. now exists (c, id).
      * eauto.
    + intros c0 c' id [H1|H1] [H2|H2].
      * congruence.
      * injection H1 as <- <-. specialize (ci_assigned_lt0 _ _ H2). lia.
      * injection H2 as <- <-. specialize (ci_assigned_lt0 _ _ H1). lia.
      * eauto.
    + intros c0 p id Hin. right. eauto.
    + exact ci_done_once0.
  - destruct (take_id id (c_pending s)) as [[c rest]|] eqn:E; [|now constructor].
    destruct (take_id_in _ _ _ _ E) as [Hin Hsub].
    constructor; cbn [c_next c_pending c_done c_assigned c_calls]; auto.
    + intros c0 p0 id0 Hd. destruct (is_done c s) eqn:Ed; [eauto|].
      destruct Hd as [Heq|Hd]; [|eauto]. injection Heq as <- <- <-. eauto.
    + destruct (is_done c s) eqn:Ed; [exact ci_done_once0|].
      cbn [map fst]. constructor; [|exact ci_done_once0].
      intros Hc. apply is_done_spec in Hc. congruence.
  - now constructor.
  - destruct (is_done c s) eqn:Ed; [now constructor|].
    constructor; cbn [c_next c_pending c_done c_assigned c_calls]; auto.
    + intros c0 p id [Heq|Hd]; [discriminate|eauto].
    + cbn [map fst]. constructor; [|exact ci_done_once0]. intros Hc. apply is_done_spec in Hc. congruence.
Qed.

(** histories in which call names are unique and fewer than 2^32 calls are made *)
Fixpoint wf_history (s : cst) (evs : list cev) : Prop :=
  match evs with
  | [] => True
  | e :: r =>
    (match e with CCall c => ~ In c (map fst (c_assigned s)) /\ c_calls s + 1 < 2 ^ 32 | _ => True end) /\
    wf_history (cstep s e) r
  end.

Lemma cinv_run evs : forall s, CInv s -> wf_history s evs -> CInv (fold_left cstep evs s).
Proof.
  induction evs as [|e evs IH]; intros s HI Hwf; [exact HI|].
  cbn [fold_left]. destruct Hwf as [H1 H2]. apply IH; [now apply cinv_step|exact H2].
Qed.

(** * C04: an Ok result is the reply that carried the id given to exactly that call; each call
    finishes at most once; ids given to different calls differ *)
Theorem own_reply evs :
  wf_history c_init evs ->
  let s := crun evs in
  (forall c p id, In (c, ResOk p id) (c_done s) -> In (c, id) (c_assigned s)) /\
  (forall c c' id, In (c, id) (c_assigned s) -> In (c', id) (c_assigned s) -> c = c') /\
  NoDup (map fst (c_done s)).
Proof.
  intros Hwf. cbn zeta. pose proof (cinv_run evs c_init cinv_init Hwf) as HI.
  repeat split; [apply (ci_done_ok _ HI)|apply (ci_assigned_inj _ HI)|apply (ci_done_once _ HI)].
Qed.

(** a reply (late or not) never changes the outcome of a call that already finished, and
    completes at most the one call that owns its id *)
Theorem late_reply_harmless s id p c r :
  In (c, r) (c_done s) -> In (c, r) (c_done (cstep s (CReply id p))).
Proof.
  intros Hin. destruct id as [id|]; cbn [cstep]; [|exact Hin].
  destruct (take_id id (c_pending s)) as [[c0 rest]|]; [|exact Hin].
  cbn [c_done]. destruct (is_done c0 s); [exact Hin|now right].
Qed.

Lemma done_functional (l : list (N * cres)) c r1 r2 :
  NoDup (map fst l) -> In (c, r1) l -> In (c, r2) l -> r1 = r2.
Proof.
  induction l as [|[c0 r0] l IH]; intros Hnd H1 H2; [contradiction|].
  cbn [map fst] in Hnd. inversion Hnd as [|? ? Hn Hl]; subst.
  destruct H1 as [H1|H1], H2 as [H2|H2].
  - congruence.
  - injection H1 as Hc Hr. subst c0. exfalso. apply Hn. apply in_map_iff. now exists (c, r2).
  - injection H2 as Hc Hr. subst c0. exfalso. apply Hn. apply in_map_iff. now exists (c, r1).
  - auto.
Qed.

(** once a call timed out, no reply - however late - is ever handed to it *)
Theorem timeout_is_final s c id p :
  In (c, ResTimeout) (c_done s) -> NoDup (map fst (c_done s)) ->
  forall p' id', ~ In (c, ResOk p' id') (c_done (cstep s (CReply id p))).
Proof.
  intros Hin Hnd p' id' Hok.
  assert (Hold : ~ In (c, ResOk p' id') (c_done s)).
  { intros H. pose proof (done_functional _ _ _ _ Hnd Hin H). discriminate. }
  destruct id as [id|]; cbn [cstep] in Hok; [|contradiction].
  destruct (take_id id (c_pending s)) as [[c0 rest]|]; [|contradiction].
  cbn [c_done] in Hok. destruct (is_done c0 s) eqn:Ed; [contradiction|].
  destruct Hok as [Heq|Hok]; [|contradiction].
  injection Heq as Hc _ _. subst c0.
  assert (is_done c s = true); [|congruence].
  apply is_done_spec. apply in_map_iff. now exists (c, ResTimeout).
Qed.
