(** C02 / C08 / C09 / C10 / C11 / C16 — what the properties demand of a req/rep router, as
    executable predicates on model states (history component) and on raw traces. *)
Require Import Selium.Base Selium.PubSub Selium.ReqRep.
Open Scope N_scope.

Fixpoint is_subseq_msg (a b : list msg) : bool :=
  match a, b with
  | [], _ => true
  | _ :: _, [] => false
  | x :: a', y :: b' => if msg_eqb x y then is_subseq_msg a' b' else is_subseq_msg a b'
  end.

(** * On states *)

(** requests: what repliers were handed is a subsequence of what requestors sent, each tagged
    with the true key of its requestor (whatever tag it carried), otherwise unchanged; only
    bound repliers receive requests *)
Definition c02_requests_ok (s : rst) : bool :=
  let g := rgh s in
  is_subseq_msg (map snd (h_reqs_sent g)) (map (fun p => tag_req (fst p) (snd p)) (h_reqs_pulled g)) &&
  forallb (fun p => memb (fst p) (h_bound g) && negb (memb (fst p) (h_rejected g))) (h_reqs_sent g).

(** the verdict a reply deserves given all keys ever assigned *)
Definition deserved (g : rghost) (f : frame) : option (N * msg) :=
  match f with
  | FMsg m =>
    match m_cid m with
    | Some (CKey k) => match lookup_key k (h_keys g) with Some lab => Some (lab, strip m) | None => None end
    | _ => None
    end
  | _ => None
  end.

Fixpoint is_subseq_pair (a b : list (N * msg)) : bool :=
  match a, b with
  | [], _ => true
  | _ :: _, [] => false
  | (l, x) :: a', (l', y) :: b' => if (l =? l') && msg_eqb x y then is_subseq_pair a' b' else is_subseq_pair a b'
  end.

(** replies: what was forwarded is a subsequence of what the replies deserve (right requestor,
    tag stripped, rest intact); every pulled reply has been dealt with except at most the one
    buffered: none overwritten *)
Definition c02_replies_ok (s : rst) : bool :=
  let g := rgh s in
  let deserving := flat_map (fun f => match deserved g f with Some p => [p] | None => [] end) (h_reps_pulled g) in
  is_subseq_pair (h_reps_routed g) deserving &&
  (let dealt := List.length (h_reps_routed g) + List.length (h_reps_failed g) + List.length (h_reps_discarded g) in
   let pulled := List.length (h_reps_pulled g) in
   Nat.leb dealt pulled && Nat.leb pulled (S dealt))%nat &&
  (* a discarded reply never deserved delivery to a requestor that is still connected *)
  forallb (fun fn : frame * N =>
             match fst fn with
             | FMsg m =>
               match m_cid m with
               | Some (CKey k) =>
                 (* the key did not exist yet when the reply was pulled, or its requestor is gone *)
                 (snd fn <=? k) ||
                 match lookup_key k (h_keys g) with Some lab => negb (memb lab (labels (rsinks s))) | None => true end
               | _ => true
               end
             | _ => true
             end) (h_reps_discarded g).

Definition c02_state_ok (s : rst) : bool := c02_requests_ok s && c02_replies_ok s.

(** C10: a refused replier never receives a request; bound and refused are disjoint *)
Definition c10_state_ok (s : rst) : bool :=
  let g := rgh s in
  forallb (fun l => negb (memb l (h_bound g))) (h_rejected g) &&
  forallb (fun p => negb (memb (fst p) (h_rejected g))) (h_reqs_sent g) &&
  (match server s with Some l => memb l (h_bound g) | None => true end).

(** * On raw traces *)
Definition client_labels (tr : list rev) : list N :=
  flat_map (fun e => match e with VQueue (QClient l) _ => [l] | _ => [] end) tr.
Definition server_labels (tr : list rev) : list N :=
  flat_map (fun e => match e with VQueue (QServer l) _ => [l] | _ => [] end) tr.

Fixpoint key_of_label (l : N) (labs : list N) (k : N) : option N :=
  match labs with
  | [] => None
  | x :: r => if l =? x then Some k else key_of_label l r (k + 1)
  end.

(** requests handed to repliers (start_send Ok on a replier sink) *)
Definition obs_reqs_sent (tr : list rev) : list msg :=
  let srv := server_labels tr in
  flat_map (fun e => match e with VSink l (OSend (FMsg m)) ROk => if memb l srv then [m] else [] | _ => [] end) tr.

(** requests pulled from requestor streams, tagged with the requestor's true key *)
Definition obs_reqs_pulled (tr : list rev) : list msg :=
  let cl := client_labels tr in
  flat_map (fun e => match e with
                     | VStream l (FItem (FMsg m)) =>
                       match key_of_label l cl 0 with Some k => [tag_req k m] | None => [] end
                     | _ => [] end) tr.

Definition obs_c02_requests_ok (tr : list rev) : bool := is_subseq_msg (obs_reqs_sent tr) (obs_reqs_pulled tr).

(** forwards attempted on requestor [l]'s sink, and the replies that deserve to go there *)
Definition obs_forwards (l : N) (tr : list rev) : list msg :=
  flat_map (fun e => match e with VSink l' (OSend (FMsg m)) _ => if l =? l' then [m] else [] | _ => [] end) tr.

Fixpoint drop_until {A} (p : A -> bool) (l : list A) : list A :=
  match l with [] => [] | x :: r => if p x then r else drop_until p r end.

(** replies pulled from repliers after requestor [l] was queued that carry [l]'s key *)
Definition obs_deserved (l : N) (tr : list rev) : list msg :=
  let srv := server_labels tr in
  match key_of_label l (client_labels tr) 0 with
  | None => []
  | Some k =>
    flat_map (fun e => match e with
                       | VStream r (FItem (FMsg m)) =>
                         if memb r srv then
                           match m_cid m with Some (CKey k') => if k =? k' then [strip m] else [] | _ => [] end
                         else []
                       | _ => [] end)
             (drop_until (fun e => match e with VQueue (QClient l') _ => l =? l' | _ => false end) tr)
  end.

Definition sink_errored (l : N) (tr : list rev) : bool :=
  existsb (fun e => match e with VSink l' _ RErr => l =? l' | _ => false end) tr.

(** per requestor: forwards are a subsequence of the deserved replies (nothing misrouted,
    duplicated, reordered or altered); a healthy requestor misses at most the reply in flight *)
Definition obs_c02_replies_ok (tr : list rev) : bool :=
  forallb (fun l =>
    let fw := obs_forwards l tr in
    let ds := obs_deserved l tr in
    is_subseq_msg fw ds) (client_labels tr).

(** requestor sinks never receive anything but forwarded messages; replier sinks never receive
    a message that is not a tagged request *)
Definition obs_no_stray_frames (tr : list rev) : bool :=
  let cl := client_labels tr in
  forallb (fun e => match e with
                    | VSink l (OSend f) _ =>
                      if memb l cl then match f with FMsg m => match m_cid m with None => true | _ => false end | _ => false end
                      else match f with
                           | FMsg m => match m_cid m with Some (CKey _) => true | _ => false end
                           | FErr c => c =? REPLIER_ALREADY_BOUND_CODE
                           | _ => false end
                    | _ => true end) tr.

Definition obs_c02_ok (tr : list rev) : bool :=
  obs_c02_requests_ok tr && obs_c02_replies_ok tr && obs_no_stray_frames tr.

(** end of a drained history: every deserved reply reached its healthy requestor and was flushed *)
Definition obs_dirty_r (l : N) (tr : list rev) : bool :=
  fold_left (fun d e => match e with
                        | VSink l' (OSend _) ROk => if l =? l' then true else d
                        | VSink l' OFlush ROk => if l =? l' then false else d
                        | _ => d end) tr false.

Definition obs_replies_delivered (tr : list rev) : bool :=
  forallb (fun l =>
    if sink_errored l tr then true
    else Nat.eqb (List.length (obs_forwards l tr)) (List.length (obs_deserved l tr)) && negb (obs_dirty_r l tr))
    (client_labels tr).

(** C10 on traces *)
Definition msg_send_labels (tr : list rev) : list N :=
  let srv := server_labels tr in
  flat_map (fun e => match e with VSink l (OSend (FMsg _)) _ => if memb l srv then [l] else [] | _ => [] end) tr.

(** the replier receiving requests changes only forward: a replier that stopped receiving them
    never receives them again (at most one at any moment, and no flip-flop) *)
Fixpoint blocks_ok (seen : list N) (cur : option N) (l : list N) : bool :=
  match l with
  | [] => true
  | x :: r =>
    match cur with
    | Some c => if x =? c then blocks_ok seen cur r
                else if memb x seen then false else blocks_ok (c :: seen) (Some x) r
    | None => blocks_ok seen (Some x) r
    end
  end.

(** what a refused replier's sink sees: poll_ready (possibly several), the error frame, close
    (possibly several), and nothing else; never a request *)
Fixpoint rejected_sink_ok (phase : nat) (ops : list (sop * resp3)) : bool :=
  match ops with
  | [] => true
  | (OReady, r) :: rest =>
    if Nat.eqb phase 0 then (match r with RErr => match rest with [] => true | _ => false end | _ => rejected_sink_ok 0 rest end) else false
  | (OSend (FErr c), r) :: rest =>
    if Nat.eqb phase 0 && (c =? REPLIER_ALREADY_BOUND_CODE)
    then (match r with ROk => rejected_sink_ok 1 rest | _ => match rest with [] => true | _ => false end end) else false
  | (OClose, r) :: rest =>
    if Nat.eqb phase 1 then (match r with RPending => rejected_sink_ok 1 rest | _ => match rest with [] => true | _ => false end end) else false
  | _ => false
  end.

Definition sink_ops (l : N) (tr : list rev) : list (sop * resp3) :=
  flat_map (fun e => match e with VSink l' op r => if l =? l' then [(op, r)] else [] | _ => [] end) tr.

Definition got_error_frame (l : N) (tr : list rev) : bool :=
  existsb (fun e => match e with VSink l' (OSend (FErr _)) _ => l =? l' | _ => false end) tr.
Definition got_close (l : N) (tr : list rev) : bool :=
  existsb (fun e => match e with VSink l' OClose _ => l =? l' | _ => false end) tr.

Definition obs_c10_ok (tr : list rev) : bool :=
  blocks_ok [] None (msg_send_labels tr) &&
  forallb (fun l => if got_error_frame l tr || got_close l tr then rejected_sink_ok 0 (sink_ops l tr) else true) (server_labels tr).

(** the replier that receives the requests changes only after the previous one departed: its
    stream ended, or its sink failed when asked whether it is ready or to flush.  (A request its
    sink refuses in start_send -- too large once tagged -- is dropped; the replier stays bound.) *)
Fixpoint rebind_ok (srv dep : list N) (cur : option N) (tr : list rev) : bool :=
  match tr with
  | [] => true
  | e :: r =>
    match e with
    | VStream l FEnd => rebind_ok srv (l :: dep) cur r
    | VSink l OReady RErr | VSink l OFlush RErr => rebind_ok srv (l :: dep) cur r
    | VSink l (OSend (FMsg _)) _ =>
      if memb l srv then
        match cur with
        | Some c => if l =? c then rebind_ok srv dep cur r
                    else if memb c dep then rebind_ok srv dep (Some l) r else false
        | None => rebind_ok srv dep (Some l) r
        end
      else rebind_ok srv dep cur r
    | _ => rebind_ok srv dep cur r
    end
  end.
Definition obs_c10_rebind_justified (tr : list rev) : bool := rebind_ok (server_labels tr) [] None tr.

(** while a replier's sink has answered Pending to poll_ready (the buffered request, or the
    rejection, waits for it) the router is blocked on that sink: it does not pull the next request
    from a requestor stream -- doing so would overwrite the one that waits *)
Fixpoint no_pull_while_waiting (srv cli : list N) (waiting : option N) (tr : list rev) : bool :=
  match tr with
  | [] => true
  | e :: r =>
    match e with
    | VSink l OReady RPending => if memb l srv then no_pull_while_waiting srv cli (Some l) r else no_pull_while_waiting srv cli waiting r
    | VSink l OReady _ | VSink l (OSend _) _ | VSink l OFlush RErr | VStream l FEnd =>
      match waiting with
      | Some w => if l =? w then no_pull_while_waiting srv cli None r else no_pull_while_waiting srv cli waiting r
      | None => no_pull_while_waiting srv cli waiting r
      end
    | VStream c (FItem (FMsg _)) =>
      match waiting with
      | Some _ => if memb c cli then false else no_pull_while_waiting srv cli waiting r
      | None => no_pull_while_waiting srv cli waiting r
      end
    | _ => no_pull_while_waiting srv cli waiting r
    end
  end.
Definition obs_c02_no_pull_while_request_waits (tr : list rev) : bool :=
  no_pull_while_waiting (server_labels tr) (client_labels tr) None tr.

(** a stream that has ended is never asked again: the bound replier's (it is unbound), a requestor's
    (the StreamMap drops it); [labs] selects which streams are looked at *)
Fixpoint rno_poll_after_end (labs ended : list N) (tr : list rev) : bool :=
  match tr with
  | [] => true
  | VStream l r :: t =>
    if memb l labs then
      if memb l ended then false
      else rno_poll_after_end labs (match r with FEnd => l :: ended | _ => ended end) t
    else rno_poll_after_end labs ended t
  | _ :: t => rno_poll_after_end labs ended t
  end.
(** the bound replier: when its stream ends the router flushes the replier's sink, then the
    requestors' sinks, and unbinds it; a Pending answer to one of these flushes ends the poll with
    the replier still bound (its fused stream is asked again next time).  Once both flushes have
    gone through, the replier is gone and its stream is never asked again.
    [phase]: 0 = nothing under way; 1 = [who]'s stream just ended, its own flush is next;
    2 = own flush answered Ok / Err, the requestors' flush pass is under way *)
Fixpoint replier_gone_ok (srv gone : list N) (who : N) (phase : nat) (tr : list rev) : bool :=
  match tr with
  | [] => true
  | e :: t =>
    let settle_gone := match phase with 2%nat => who :: gone | _ => gone end in
    match e with
    | VStream l r =>
      if memb l settle_gone then false
      else match r with
           | FEnd => if memb l srv then replier_gone_ok srv settle_gone l 1 t else replier_gone_ok srv settle_gone who 0 t
           | _ => replier_gone_ok srv settle_gone who 0 t
           end
    | VSink l OFlush r =>
      match phase with
      | 1%nat => if l =? who then (match r with RPending => replier_gone_ok srv gone who 0 t | _ => replier_gone_ok srv gone who 2 t end)
                 else replier_gone_ok srv gone who 0 t
      | 2%nat => (match r with RPending => replier_gone_ok srv gone who 0 t | _ => replier_gone_ok srv gone who 2 t end)
      | _ => replier_gone_ok srv gone who 0 t
      end
    | _ => replier_gone_ok srv settle_gone who 0 t
    end
  end.
Definition obs_replier_not_polled_after_end (tr : list rev) : bool := replier_gone_ok (server_labels tr) [] 0 0 tr.
Definition obs_requestor_not_polled_after_end (tr : list rev) : bool := rno_poll_after_end (client_labels tr) [] tr.

(** once the registration channel is closed the router asks no stream any more *)
Fixpoint rno_pull_after_close (closed : bool) (tr : list rev) : bool :=
  match tr with
  | [] => true
  | VClose _ :: t => rno_pull_after_close true t
  | VStream _ _ :: t => if closed then false else rno_pull_after_close closed t
  | _ :: t => rno_pull_after_close closed t
  end.
Definition obs_rr_no_pull_after_close (tr : list rev) : bool := rno_pull_after_close false tr.

Definition rcompleted (tr : list rev) : bool := existsb (fun e => match e with VEnd true => true | _ => false end) tr.

(** C09 on traces: peer calls per poll bounded by the data consumed in it *)
Fixpoint rpoll_segments (tr : list rev) (cur : option (list rev)) (queued : nat) : list (list rev * nat) :=
  match tr with
  | [] => []
  | e :: r =>
    match e, cur with
    | VBegin, _ => rpoll_segments r (Some []) queued
    | VEnd _, Some seg => (List.rev seg, queued) :: rpoll_segments r None queued
    | VQueue _ _, None => rpoll_segments r None (S queued)
    | _, Some seg => rpoll_segments r (Some (e :: seg)) queued
    | _, None => rpoll_segments r None queued
    end
  end.

Definition rseg_bound_ok (sq : list rev * nat) : bool :=
  let (seg, queued) := sq in
  let data := List.length (filter (fun e => match e with VStream _ (FItem _) | VStream _ FErrR | VStream _ FEnd => true | _ => false end) seg) in
  Nat.leb (List.length seg) ((6 * queued + 8) * (data + queued + 3)).

Definition obs_rr_c09_bounded_ok (tr : list rev) : bool := forallb rseg_bound_ok (rpoll_segments tr None 0).

(** end of a drained history (every sink ready): every replier that was queued has either been
    bound (its stream was polled) or been told replier-already-bound and closed *)
Definition stream_polled (l : N) (tr : list rev) : bool :=
  existsb (fun e => match e with VStream l' _ => l =? l' | _ => false end) tr.
Definition closed_done (l : N) (tr : list rev) : bool :=
  existsb (fun e => match e with VSink l' OClose ROk | VSink l' OClose RErr => l =? l' | _ => false end) tr.
Definition told (l : N) (tr : list rev) : bool :=
  existsb (fun e => match e with VSink l' (OSend (FErr c)) ROk => (l =? l') && (c =? REPLIER_ALREADY_BOUND_CODE) | _ => false end) tr.

Definition obs_c10_final_ok (tr : list rev) : bool :=
  forallb (fun l =>
    stream_polled l tr || (told l tr && closed_done l tr) || sink_errored l tr) (server_labels tr).

(** C11 read for repliers at the router: a replier whose registration the router took is never
    silently abandoned -- by the end of a drained history it was served (its stream was polled), or
    it was told so with the error frame, or its sink failed.  (Whether it is also closed is C10's.) *)
Definition obs_c11_replier_answered (tr : list rev) : bool :=
  forallb (fun l => stream_polled l tr || told l tr || sink_errored l tr) (server_labels tr).

(** end of a drained history of a live router (every sink ready, wake-driven or not): a request
    handed to the replier's sink has also been flushed to it, unless that replier has gone
    (stream ended or failed, sink failed) -- "never sleeps on undone work" for the request leg *)
Definition obs_dirty_s (l : N) (tr : list rev) : bool :=
  fold_left (fun d e => match e with
                        | VSink l' (OSend _) ROk => if l =? l' then true else d
                        | VSink l' OFlush ROk | VSink l' OClose ROk => if l =? l' then false else d
                        | _ => d end) tr false.
Definition stream_gone (l : N) (tr : list rev) : bool :=
  existsb (fun e => match e with VStream l' FEnd | VStream l' FErrR => l =? l' | _ => false end) tr.
Definition obs_requests_flushed (tr : list rev) : bool :=
  forallb (fun l => sink_errored l tr || stream_gone l tr || negb (obs_dirty_s l tr)) (server_labels tr).

(** end of a drained history of a live router: while a replier is bound whose stream is alive and
    whose sink never failed in poll_ready / flush / close (a refused send is not a failure of the
    replier), every request pulled from a requestor has been offered to a replier's sink -- a
    replier is not dropped, and a request is not stranded, because of somebody else's frame *)
Definition sink_broken (l : N) (tr : list rev) : bool :=
  existsb (fun e => match e with
                    | VSink l' OReady RErr | VSink l' OFlush RErr | VSink l' OClose RErr => l =? l'
                    | _ => false end) tr.
Definition live_replier (tr : list rev) : bool :=
  existsb (fun l => stream_polled l tr && negb (stream_gone l tr) && negb (sink_broken l tr) && negb (told l tr))
          (server_labels tr).
(** the most recently pulled request has been offered to a replier's sink (requests pulled while
    no replier is bound may be superseded: the property promises delivery only under a bound replier) *)
Definition last_pull_offered (tr : list rev) : bool :=
  let srv := server_labels tr in
  let cl := client_labels tr in
  fold_left (fun ok e => match e with
                         | VStream l (FItem (FMsg _)) => if existsb (N.eqb l) cl then false else ok
                         | VSink l (OSend (FMsg _)) _ => if existsb (N.eqb l) srv then true else ok
                         | _ => ok end) tr true.
Definition obs_no_request_stranded (tr : list rev) : bool :=
  negb (live_replier tr) || last_pull_offered tr.

(** C16 read for request/reply: when the router's future completes, every reply it handed to a
    requestor's sink has been flushed to it (unless that sink failed) *)
Definition obs_rr_flushed_at_completion (tr : list rev) : bool :=
  negb (rcompleted tr) || forallb (fun l => sink_errored l tr || negb (obs_dirty_r l tr)) (client_labels tr).

(** end of a drained history of a live router with a live replier bound: the replier's stream and
    every requestor stream that was polled at all gave Pending (or ended / failed) as its LAST answer:
    the router does not park right after a stream handed it a frame (a request, a reply, or a frame it
    ignores) without asking that stream again *)
Definition last_rstream_answer (l : N) (tr : list rev) : option fresp :=
  fold_left (fun acc e => match e with VStream l' r => if l =? l' then Some r else acc | _ => acc end) tr None.
Definition polled_rstreams (tr : list rev) : list N :=
  nodup N.eq_dec (flat_map (fun e => match e with VStream l _ => [l] | _ => [] end) tr).
Definition obs_rstreams_polled_to_pending (tr : list rev) : bool :=
  negb (live_replier tr)
  || forallb (fun l => told l tr || sink_broken l tr ||
                       match last_rstream_answer l tr with
                       | Some (FItem _) => false
                       | _ => true
                       end) (polled_rstreams tr).

(** every poll that returns Pending for another reason than a sink having just answered Pending
    (that is, the router parks on its streams and the registration channel) has asked every stream
    it polled in that poll until the stream answered Pending (or ended): a stream that handed over a
    frame -- a request, a reply, or a frame the router ignores -- is asked again before parking,
    otherwise the router holds no waker of it (a replier whose sink failed in that poll is unbound and its
    stream dropped: exempt) *)
Fixpoint split_rpolls (tr : list rev) (cur : option (list rev)) : list (list rev) :=
  match tr with
  | [] => []
  | VBegin :: r => split_rpolls r (Some [])
  | VEnd false :: r => (match cur with Some c => [List.rev c] | None => [] end) ++ split_rpolls r None
  | VEnd true :: r => split_rpolls r None
  | e :: r => split_rpolls r (option_map (cons e) cur)
  end.
Definition rseg_repolled (seg : list rev) : bool :=
  match List.rev seg with
  | VSink _ _ RPending :: _ => true
  | _ => forallb (fun l => sink_broken l seg || sink_errored l seg ||
                          match last_rstream_answer l seg with Some (FItem _) => false | _ => true end)
                 (polled_rstreams seg)
  end.
Definition obs_rr_repoll_ok (tr : list rev) : bool := forallb rseg_repolled (split_rpolls tr None).
