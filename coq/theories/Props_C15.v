(** C15 — property theorems (statements and [exact]s only).
    PARTIAL by nature: the theorems are about the configuration-level decision -- which verifier
    the code installs, over which roots, for which purpose and server name (gen/TlsFacts.v,
    translated from server/src/quic.rs, client/src/connection.rs and the certificate generator on
    every run) -- in a symbolic PKI where signatures cannot be forged.  rustls / webpki / ring
    (parsing, signature checks, validity periods) are trusted; the real handshakes are exercised
    by the net engine `tls` for the whole identity matrix with fresh keys. *)
Require Import Selium.Base Selium.Tls SeliumGen.TlsFacts Selium.TlsRun Selium.P_Tls.
Open Scope N_scope.

(** the server admits a client only if it presents an end-entity certificate, usable for client
    authentication, with a chain certified by the CA the server was started with *)
Theorem c15_only_trusted_clients : forall ca presented,
  server_admits ca presented = true ->
  exists leaf inters, presented = Some (leaf :: inters) /\ is_ca leaf = false /\ eku_ok PClientAuth leaf = true
                      /\ certified [ca] inters leaf.
Proof. exact server_only_certified. Qed.
Print Assumptions c15_only_trusted_clients.

(** the client talks to a server only if its certificate is an end-entity certificate, usable for
    server authentication, certified by the CA the client was configured with, and names the host
    the client connects to *)
Theorem c15_only_trusted_servers : forall ca chain,
  client_admits ca chain = true ->
  exists leaf inters, chain = leaf :: inters /\ is_ca leaf = false /\ eku_ok PServerAuth leaf = true
                      /\ certified [ca] inters leaf /\ name_matches client_server_name leaf = true.
Proof. exact client_only_certified. Qed.
Print Assumptions c15_only_trusted_servers.

(** no certificate, a self-signed one, or one from another CA: refused (any keys) *)
Theorem c15_untrusted_identities_refused : forall kca kother ks kc,
  kother <> kca ->
  server_admits (gen_ca kca) None = false
  /\ server_admits (gen_ca kca) (Some [self_signed kother]) = false
  /\ server_admits (gen_ca kca) (Some [gen_client kother kc]) = false
  /\ client_admits (gen_ca kca) [gen_server kother ks] = false.
Proof.
  intros kca kother ks kc Hne. destruct (other_ca_refused kca kother ks kc Hne) as [H1 H2].
  split; [apply no_certificate_refused|]. split; [now apply self_signed_refused|]. split; assumption.
Qed.
Print Assumptions c15_untrusted_identities_refused.

(** the set produced by the bundled generator works in both directions for the host name the client uses *)
Theorem c15_generator_adequate : forall kca ks kc,
  client_admits (gen_ca kca) [gen_server kca ks] = true /\ server_admits (gen_ca kca) (Some [gen_client kca kc]) = true.
Proof. exact generator_adequate. Qed.
Print Assumptions c15_generator_adequate.

(** Non-vacuity / the identity matrix the net engine runs *)
Example c15_matrix :
  matrix SrvTrusted IdTrusted = true /\ matrix SrvTrusted IdOtherCa = false /\ matrix SrvTrusted IdSelfSigned = false
  /\ matrix SrvTrusted IdNone = false /\ matrix SrvTrusted IdServerCertAsClient = false
  /\ matrix SrvOtherCa IdTrusted = false /\ matrix SrvOtherCa IdOtherCa = false /\ matrix SrvOtherCa IdSelfSigned = false
  /\ matrix SrvOtherCa IdNone = false
  /\ matrix_trust SrvTrusted IdTrusted true = false /\ matrix_trust SrvOtherCa IdTrusted true = true
  /\ matrix_bundle IdOtherCa = false /\ matrix_bundle IdTrusted = true.
Proof. vm_compute. repeat split; reflexivity. Qed.
