(** Facts about the arithmetic primitives. *)
Require Import Selium.Base Selium.RustArith.
Require Import ZifyBool ZifyN ZifyNat.
Open Scope N_scope.

Lemma cpow_loop_spec fuel : forall a acc lim,
  0 < lim ->
  cpow_loop fuel a acc lim =
  if acc * a ^ N.of_nat fuel <? lim then Some (acc * a ^ N.of_nat fuel) else None.
Proof.
  induction fuel as [|k IH]; intros a acc lim Hlim.
  - cbn [cpow_loop]. change (N.of_nat 0) with 0. rewrite N.pow_0_r, N.mul_1_r. reflexivity.
  - cbn [cpow_loop].
    replace (N.of_nat (S k)) with (N.succ (N.of_nat k)) by lia.
    rewrite N.pow_succ_r'.
    rewrite N.mul_assoc.
    destruct (N.ltb_spec (acc * a) lim) as [Hlt|Hge].
    + apply IH; assumption.
    + destruct (N.ltb_spec (acc * a * a ^ N.of_nat k) lim) as [Hlt2|]; [|reflexivity].
      exfalso.
      assert (Ha : a <> 0) by (intros ->; rewrite N.mul_0_r in Hge; lia).
      assert (1 <= a ^ N.of_nat k).
      { assert (a ^ N.of_nat k <> 0) by (apply N.pow_nonzero; assumption). lia. }
      nia.
Qed.

Lemma cpow_spec a e lim :
  0 < lim -> cpow a e lim = if a ^ e <? lim then Some (a ^ e) else None.
Proof.
  intros H. unfold cpow. rewrite cpow_loop_spec by assumption.
  rewrite N2Nat.id, N.mul_1_l. reflexivity.
Qed.

Lemma u128_checked_pow_spec a e :
  u128_checked_pow a e = if a ^ e <? U128_MOD then Some (a ^ e) else None.
Proof. apply cpow_spec. reflexivity. Qed.

Lemma u64_checked_pow_spec a e :
  u64_checked_pow a e = if a ^ e <? U64_MOD then Some (a ^ e) else None.
Proof. apply cpow_spec. reflexivity. Qed.
