(** C03 — fidelity of publisher + subscriber for every configuration and every way of using the
    publisher (send / feed / flush in any order, any expiry of the batching interval). *)
Require Import Selium.Base Selium.Bytes Selium.Wire Selium.P_Wire Selium.ClientPubSub.
Require Import ZifyBool ZifyN ZifyNat.
Open Scope N_scope.

Section Proofs.
  Variable item : Type.
  Variable encode : item -> bytes.
  Variable decode : bytes -> option item.
  Variable compress : bytes -> bytes.
  Variable decompress : bytes -> option bytes.
  (** the contract of the payload codec and of the compression pair (C14) *)
  Hypothesis codec_roundtrip : forall x, decode (encode x) = Some x.
  Hypothesis comp_roundtrip : forall b, decompress (compress b) = Some b.
  Hypothesis encode_size : forall x, blen (encode x) < 2 ^ 64.

  Notation subscribe := (subscribe item decode decompress).
  Notation sub_frame := (sub_frame item decode decompress).
  Notation p_apply := (p_apply item encode compress).
  Notation p_finish := (p_finish compress).
  Notation publish := (publish item encode compress).

  Lemma last_snoc (l : list bytes) a : last (l ++ [a]) [] = a.
  Proof. induction l as [|x l IH]; [reflexivity|]. cbn [app]. destruct (l ++ [a]) eqn:E; [destruct l; discriminate|]. rewrite <- E. cbn [last]. rewrite E in *. exact IH. Qed.

  Lemma pop_all_rev xs : pop_all item decode (List.length xs) (rev (map encode xs)) = Some xs.
  Proof.
    induction xs as [|x xs IH]; [reflexivity|].
    cbn [List.length map rev pop_all].
    destruct (rev (map encode xs) ++ [encode x]) eqn:E; [destruct (rev (map encode xs)); discriminate|].
    rewrite <- E. rewrite last_snoc, codec_roundtrip, removelast_last, IH. reflexivity.
  Qed.

  Lemma sub_frame_msg x : sub_frame (WMsg (compress (encode x))) = SubItems item [x].
  Proof. cbn [ClientPubSub.sub_frame]. now rewrite comp_roundtrip, codec_roundtrip. Qed.

  Lemma sub_frame_batch xs :
    N.of_nat (List.length xs) < 2 ^ 64 ->
    sub_frame (WBatch (compress (encode_batch (map encode xs)))) = SubItems item xs.
  Proof.
    intros Hn. cbn [ClientPubSub.sub_frame]. rewrite comp_roundtrip.
    destruct (batch_roundtrip (map encode xs)) as [cap Hb].
    - now rewrite map_length.
    - apply Forall_forall. intros m Hm. apply in_map_iff in Hm as (x & <- & _). apply encode_size.
    - rewrite Hb. rewrite rev_length, map_length. now rewrite pop_all_rev.
  Qed.

  Lemma subscribe_app a : forall b l l',
    subscribe a = SubItems item l -> subscribe b = SubItems item l' -> subscribe (a ++ b) = SubItems item (l ++ l').
  Proof.
    induction a as [|f a IH]; intros b l l' Ha Hb.
    - cbn in Ha. injection Ha as <-. exact Hb.
    - cbn [app ClientPubSub.subscribe] in *. destruct (sub_frame f) as [lf| |]; try discriminate.
      destruct (subscribe a) as [la| |] eqn:Ea; try discriminate. injection Ha as <-.
      rewrite (IH b la l' eq_refl Hb). now rewrite app_assoc.
  Qed.

  Lemma subscribe_single f l : sub_frame f = SubItems item l -> subscribe [f] = SubItems item l.
  Proof. intros H. cbn [ClientPubSub.subscribe]. rewrite H. now rewrite app_nil_r. Qed.

  (** what holds after any prefix of operations *)
  Definition PInv (batching : option N) (done : list item) (s : pstate) : Prop :=
    p_batching s = batching /\
    exists xs ys, subscribe (p_wire s ++ p_buffered s) = SubItems item xs /\
                  p_batch s = map encode ys /\ done = xs ++ ys /\
                  (batching = None -> ys = []).

  Lemma pinv_flush b done s : PInv b done s -> PInv b done (p_flush s).
  Proof.
    intros (Hb & xs & ys & Hs & Hbat & Hd & Hn). split; [exact Hb|].
    exists xs, ys. cbn [p_flush p_wire p_buffered p_batch]. rewrite app_nil_r. auto.
  Qed.

  Lemma pinv_send_batch b done s :
    N.of_nat (List.length done) < 2 ^ 64 -> PInv b done s -> PInv b done (send_batch compress s).
  Proof.
    intros Hlen (Hb & xs & ys & Hs & Hbat & Hd & Hn). split; [exact Hb|].
    exists (xs ++ ys), []. cbn [send_batch p_wire p_buffered p_batch]. repeat split.
    - rewrite app_assoc. apply subscribe_app; [exact Hs|]. apply subscribe_single.
      rewrite Hbat. apply sub_frame_batch. subst done. rewrite app_length in Hlen. lia.
    - now rewrite app_nil_r.
  Qed.

  Lemma pinv_poll_ready b done s e :
    N.of_nat (List.length done) < 2 ^ 64 -> PInv b done s -> PInv b done (p_poll_ready compress e s).
  Proof.
    intros Hlen HI. unfold p_poll_ready. destruct (p_batching s); [|exact HI].
    destruct (e || (n <=? blen_list (p_batch s))); [now apply pinv_send_batch|exact HI].
  Qed.

  Lemma pinv_start_send b done s x : PInv b done s -> PInv b (done ++ [x]) (p_start_send item encode compress x s).
  Proof.
    intros (Hb & xs & ys & Hs & Hbat & Hd & Hn). unfold p_start_send. rewrite Hb.
    destruct b as [size|].
    - split; [reflexivity|]. exists xs, (ys ++ [x]). cbn [p_wire p_buffered p_batch]. repeat split.
      + exact Hs.
      + now rewrite Hbat, map_app.
      + subst done. now rewrite app_assoc.
      + discriminate.
    - split; [reflexivity|]. rewrite (Hn eq_refl) in *. rewrite app_nil_r in Hd. subst done.
      exists (xs ++ [x]), []. cbn [p_wire p_buffered p_batch]. repeat split.
      + rewrite app_assoc. apply subscribe_app; [exact Hs|]. apply subscribe_single. apply sub_frame_msg.
      + exact Hbat.
      + now rewrite app_nil_r.
  Qed.

  Lemma accepted_snoc ops o :
    accepted item (ops ++ [o]) = accepted item ops ++ match o with OpSend _ x _ | OpFeed _ x _ => [x] | OpFlush _ => [] end.
  Proof. unfold accepted. rewrite flat_map_app. cbn. now rewrite app_nil_r. Qed.

  Lemma accepted_length ops : (List.length (accepted item ops) <= List.length ops)%nat.
  Proof. induction ops as [|o ops IH]; [cbn; lia|]. cbn [accepted flat_map]. fold (accepted item ops). rewrite app_length. destruct o; cbn; lia. Qed.

  Lemma pinv_fold batching ops :
    N.of_nat (List.length ops) < 2 ^ 64 ->
    PInv batching (accepted item ops) (fold_left p_apply ops (p_init batching)).
  Proof.
    induction ops as [|o ops IH] using rev_ind; intros Hlen.
    - cbn. split; [reflexivity|]. exists [], []. cbn. auto.
    - rewrite fold_left_app. cbn [fold_left]. rewrite accepted_snoc.
      rewrite app_length in Hlen. cbn [List.length] in Hlen.
      assert (IH' := IH ltac:(lia)). clear IH.
      assert (Hacc : N.of_nat (List.length (accepted item ops)) < 2 ^ 64) by (pose proof (accepted_length ops); lia).
      destruct o as [x e|x e|]; cbn [ClientPubSub.p_apply].
      + apply pinv_flush. apply pinv_start_send. now apply pinv_poll_ready.
      + apply pinv_start_send. now apply pinv_poll_ready.
      + rewrite app_nil_r. now apply pinv_flush.
  Qed.

  (** * C03: the subscriber yields exactly the accepted items, in order, each once *)
  Theorem fidelity batching ops :
    N.of_nat (List.length ops) < 2 ^ 64 ->
    subscribe (publish batching ops) = SubItems item (accepted item ops).
  Proof.
    intros Hlen. unfold ClientPubSub.publish.
    pose proof (pinv_fold batching ops Hlen) as HI.
    set (s := fold_left p_apply ops (p_init batching)) in *.
    assert (Hacc : N.of_nat (List.length (accepted item ops)) < 2 ^ 64) by (pose proof (accepted_length ops); lia).
    assert (HF : PInv batching (accepted item ops) (p_finish s)).
    { unfold ClientPubSub.p_finish. apply pinv_flush.
      destruct (p_batching s); [|exact HI]. destruct (p_batch s); [exact HI|now apply pinv_send_batch]. }
    destruct HF as (Hb & xs & ys & Hs & Hbat & Hd & Hn).
    (* after finish nothing is left in the batch or in the writer's buffer *)
    assert (Hempty : p_batch (p_finish s) = [] /\ p_buffered (p_finish s) = []).
    { unfold ClientPubSub.p_finish. cbn [p_flush p_batch p_buffered].
      destruct (p_batching s) eqn:Eb; destruct (p_batch s) eqn:Ebt; cbn [send_batch p_batch]; auto.
      destruct HI as (Hb' & xs' & ys' & _ & Hbat' & _ & Hn'). rewrite Eb in Hb'.
      rewrite (Hn' (eq_sym Hb')) in Hbat'. rewrite Hbat' in Ebt. discriminate. }
    destruct Hempty as [He1 He2]. rewrite He2, app_nil_r in Hs. rewrite He1 in Hbat.
    destruct ys; [|discriminate]. rewrite app_nil_r in Hd. now subst xs.
  Qed.

  Theorem finish_leaves_nothing (s0 : pstate) :
    let s := p_finish s0 in
    p_buffered s = [] /\ (p_batching s0 <> None -> p_batch s = []).
  Proof.
    cbn zeta. unfold ClientPubSub.p_finish. cbn [p_flush p_batch p_buffered]. split; [reflexivity|].
    intros Hb. destruct (p_batching s0); [|contradiction]. destruct (p_batch s0) eqn:E; cbn [send_batch p_batch]; [exact E|reflexivity].
  Qed.
End Proofs.
