(** Semantics of the Rust integer / Duration primitives the translated code uses.
    Integers are [N]; the width lives in the operation name.  Overflow behaviour is
    explicit: the checked/saturating forms are total, the plain operators panic
    under [debug = true] (overflow-checks on) and wrap otherwise. *)
Require Import Selium.Base.
Open Scope N_scope.

Definition U32_MOD : N := 2 ^ 32.
Definition U64_MOD : N := 2 ^ 64.
Definition U128_MOD : N := 2 ^ 128.
Definition U32_MAX : N := U32_MOD - 1.
Definition U64_MAX : N := U64_MOD - 1.
Definition NANOS_PER_SEC_N : N := 1000000000.

(** [Duration] is modelled by its total number of nanoseconds; a Rust Duration is
    (secs : u64, nanos < 10^9), i.e. exactly the totals below [DUR_LIMIT]. *)
Definition dur := N.
Definition DUR_LIMIT : N := U64_MOD * NANOS_PER_SEC_N.
Definition DUR_MAX : dur := DUR_LIMIT - 1.
Definition dur_valid (d : dur) : Prop := d < DUR_LIMIT.

Section Arith.
  (** overflow-checks profile of the build under consideration *)
  Variable debug : bool.

  Definition wrap_or_panic (modulus : N) (site : string) (exact : N) : outcome N :=
    if exact <? modulus then Val exact
    else if debug then Panic site else Val (exact mod modulus).

  Definition u32_add (a b : N) : outcome N := wrap_or_panic U32_MOD "attempt to add with overflow" (a + b).
  Definition u32_sub (a b : N) : outcome N :=
    if b <=? a then Val (a - b)
    else if debug then Panic "attempt to subtract with overflow"
    else Val ((a + U32_MOD - b) mod U32_MOD).
  Definition u64_pow (a e : N) : outcome N := wrap_or_panic U64_MOD "attempt to multiply with overflow" (a ^ e).
End Arith.

Definition u32_gt (a b : N) : bool := b <? a.
Definition u32_ge (a b : N) : bool := b <=? a.
Definition u32_lt (a b : N) : bool := a <? b.
Definition u32_le (a b : N) : bool := a <=? b.

(** [a ^ e] if it is below [lim], computed by repeated multiplication with an early exit (so
    that evaluation never builds astronomically large numbers). [cpow_spec] in P_RustArith
    proves it equal to [if a ^ e <? lim then Some (a ^ e) else None]. *)
Fixpoint cpow_loop (fuel : nat) (a acc lim : N) : option N :=
  match fuel with
  | O => if acc <? lim then Some acc else None
  | S k => let acc' := acc * a in if acc' <? lim then cpow_loop k a acc' lim else None
  end.
Definition cpow (a e lim : N) : option N := cpow_loop (N.to_nat e) a 1 lim.

Definition u64_checked_pow (a e : N) : option N := cpow a e U64_MOD.
Definition u64_saturating_pow (a e : N) : N := N.min (a ^ e) U64_MAX.
Definition u128_checked_pow (a e : N) : option N := cpow a e U128_MOD.
Definition u128_checked_mul (a b : N) : option N :=
  let r := a * b in if r <? U128_MOD then Some r else None.
Definition u128_div (a b : N) : outcome N :=
  if b =? 0 then Panic "attempt to divide by zero" else Val (a / b).
Definition u128_rem (a b : N) : outcome N :=
  if b =? 0 then Panic "attempt to calculate the remainder with a divisor of zero" else Val (a mod b).
Definition u64_try_from_u128 (a : N) : option N := if a <? U64_MOD then Some a else None.
Definition u32_try_from_u64 (a : N) : option N := if a <? U32_MOD then Some a else None.
Definition cast_u32 (a : N) : N := a mod U32_MOD.
Definition cast_u64 (a : N) : N := a mod U64_MOD.
Definition cast_widen (a : N) : N := a.

(** Duration primitives (core::time) *)
Definition dur_as_nanos (d : dur) : N := d.
Definition dur_new (secs nanos : N) : outcome dur :=
  let t := secs * NANOS_PER_SEC_N + nanos in
  if t <? DUR_LIMIT then Val t else Panic "overflow in Duration::new".
Definition dur_mul_u32 (d : dur) (n : N) : outcome dur :=
  let t := d * n in
  if t <? DUR_LIMIT then Val t else Panic "overflow when multiplying duration by scalar".
Definition dur_checked_mul (d : dur) (n : N) : option dur :=
  let t := d * n in if t <? DUR_LIMIT then Some t else None.
Definition dur_saturating_mul (d : dur) (n : N) : dur := N.min (d * n) DUR_MAX.
Definition dur_is_zero (d : dur) : bool := d =? 0.
Definition dur_min (a b : dur) : dur := N.min a b.
Definition dur_max (a b : dur) : dur := N.max a b.

(** Option / Result combinators whose closures may themselves panic. *)
Definition opt_and_then {A B} (o : option A) (f : A -> outcome (option B)) : outcome (option B) :=
  match o with Some a => f a | None => Val None end.
Definition opt_map {A B} (o : option A) (f : A -> outcome B) : outcome (option B) :=
  match o with Some a => omap Some (f a) | None => Val None end.
Definition opt_unwrap_or {A} (o : option A) (d : A) : A :=
  match o with Some a => a | None => d end.
Definition opt_map_or {A B} (o : option A) (d : B) (f : A -> outcome B) : outcome B :=
  match o with Some a => f a | None => Val d end.
