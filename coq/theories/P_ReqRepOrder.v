(** C02 — order and at-most-once of requests and replies, by a step-effect argument: every model
    step changes the request (resp. reply) history in one of a few ways, and the one-slot buffers
    make "handed over" a subsequence of "pulled".  Separate from P_ReqRep.v so that the control
    invariant there stays small. *)
Require Import Selium.Base Selium.PubSub Selium.ReqRep Selium.ReqRepSpec Selium.P_PubSub Selium.P_ReqRep.
Require Import ZifyBool ZifyN ZifyNat.
Open Scope N_scope.

Ltac crush_matches H :=
  repeat match type of H with
         | context[match ?x with _ => _ end] => destruct x eqn:?; try discriminate
         | context[if ?x then _ else _] => destruct x eqn:?; try discriminate
         end.

Lemma rinternal_req s s' : rinternal s = Some s' ->
  h_reqs_pulled (rgh s') = h_reqs_pulled (rgh s) /\ h_reqs_sent (rgh s') = h_reqs_sent (rgh s) /\ b_req s' = b_req s.
Proof.
  intros H. unfold rinternal in H. crush_matches H; injection H as <-; rsimp; auto.
Qed.

Inductive req_effect (s s' : rst) : Prop :=
| RE_same : h_reqs_pulled (rgh s') = h_reqs_pulled (rgh s) -> h_reqs_sent (rgh s') = h_reqs_sent (rgh s) ->
            b_req s' = b_req s -> req_effect s s'
| RE_pull key m : h_reqs_pulled (rgh s') = h_reqs_pulled (rgh s) ++ [(key, m)] ->
                  h_reqs_sent (rgh s') = h_reqs_sent (rgh s) ->
                  b_req s' = Some (FMsg (tag_req key m)) -> req_effect s s'
| RE_sent l m : b_req s = Some (FMsg m) -> h_reqs_pulled (rgh s') = h_reqs_pulled (rgh s) ->
                h_reqs_sent (rgh s') = h_reqs_sent (rgh s) ++ [(l, m)] -> b_req s' = None -> req_effect s s'
| RE_refused : h_reqs_pulled (rgh s') = h_reqs_pulled (rgh s) -> h_reqs_sent (rgh s') = h_reqs_sent (rgh s) ->
               b_req s' = None -> req_effect s s'.

Lemma rstep_raw_req s e s' : rstep_raw s e = Some s' -> req_effect s s'.
Proof.
  intros H. unfold rstep_raw, router_pass in H.
  crush_matches H; injection H as <-;
    first [ solve [apply RE_same; rsimp; auto]
          | solve [eapply RE_pull; rsimp; eauto]
          | solve [eapply RE_sent; rsimp; eauto]
          | solve [apply RE_refused; rsimp; auto] ].
Qed.

(** * Lifting a step invariant to whole runs *)
Section Lift.
  Variable I : rst -> Prop.
  Hypothesis Hint : forall s s', I s -> rinternal s = Some s' -> I s'.
  Hypothesis Hraw : forall s e s', I s -> rstep_raw s e = Some s' -> I s'.

  Lemma lift_settle fuel : forall s s', I s -> rsettle fuel s = Some s' -> I s'.
  Proof.
    induction fuel as [|k IH]; intros s s' HI H; cbn [rsettle] in H; [discriminate|].
    destruct (rinternal s) as [s1|] eqn:E.
    - apply (IH s1); [now apply Hint with s|exact H].
    - now injection H as <-.
  Qed.

  Lemma lift_step s e s' : I s -> rstep s e = Some s' -> I s'.
  Proof.
    intros HI H. unfold rstep, obind in H.
    destruct (rsettled s) as [s0|] eqn:E0; [|discriminate].
    assert (H0 : I s0) by (unfold rsettled in E0; now apply lift_settle with (rsettle_fuel s) s).
    assert (Hone : forall a b, I a -> match rstep_raw a e with Some x => rsettled x | None => None end = Some b -> I b).
    { intros a b Ha Hb. destruct (rstep_raw a e) as [x|] eqn:Ex; [|discriminate].
      unfold rsettled in Hb. apply lift_settle with (rsettle_fuel x) x; [now apply Hraw with a e|exact Hb]. }
    destruct (rctl s0); try (now apply Hone with s0).
    destruct e; try (now apply Hone with s0).
    destruct (rstep_raw s0 (VStream l r)) as [s1|] eqn:E1; [|discriminate].
    apply Hone with s1; [now apply Hraw with s0 (VStream l r)|exact H].
  Qed.

  Lemma lift_run tr : forall s s', I s -> rrun s tr = Some s' -> I s'.
  Proof.
    induction tr as [|e tr IH]; intros s s' HI H; cbn [rrun] in H; [now injection H as <-|].
    destruct (rstep s e) as [s1|] eqn:E; [|discriminate].
    apply (IH s1); [now apply lift_step with s e|exact H].
  Qed.
End Lift.

(** * Requests reach repliers in pull order, each pulled occurrence at most once *)
Inductive Subseq {A} : list A -> list A -> Prop :=
| SS_nil l : Subseq [] l
| SS_skip a y l : Subseq a l -> Subseq a (y :: l)
| SS_take x a l : Subseq a l -> Subseq (x :: a) (x :: l).

Lemma subseq_refl {A} (l : list A) : Subseq l l.
Proof. induction l as [|x l IH]; [apply SS_nil|now apply SS_take]. Qed.
Lemma subseq_app_r {A} (a l r : list A) : Subseq a l -> Subseq a (l ++ r).
Proof. induction 1 as [l|a y l H IH|y a l H IH]; cbn [app]; [apply SS_nil|now apply SS_skip|now apply SS_take]. Qed.
Lemma subseq_snoc {A} (a l : list A) x : Subseq a l -> Subseq (a ++ [x]) (l ++ [x]).
Proof.
  induction 1 as [l|a y l H IH|y a l H IH]; cbn [app].
  - induction l as [|z l IHl]; cbn [app]; [apply SS_take, SS_nil|apply SS_skip, IHl].
  - now apply SS_skip.
  - now apply SS_take.
Qed.

Definition tagged_pulled (s : rst) : list msg := map (fun p => tag_req (fst p) (snd p)) (h_reqs_pulled (rgh s)).
Definition sent_msgs (s : rst) : list msg := map snd (h_reqs_sent (rgh s)).

(** what has been handed to repliers is a subsequence of what was pulled before the request that
    is still waiting in the one-request buffer *)
Definition OrdInv (s : rst) : Prop :=
  match b_req s with
  | Some (FMsg b) => exists P', tagged_pulled s = P' ++ [b] /\ Subseq (sent_msgs s) P'
  | Some _ => False
  | None => Subseq (sent_msgs s) (tagged_pulled s)
  end.

Lemma ordinv_weak s : OrdInv s -> Subseq (sent_msgs s) (tagged_pulled s).
Proof.
  unfold OrdInv. destruct (b_req s) as [[b|c|t]|]; try contradiction; [|auto].
  intros (P' & -> & H). now apply subseq_app_r.
Qed.

Lemma ordinv_effect s s' : OrdInv s -> req_effect s s' -> OrdInv s'.
Proof.
  intros HI [Hp Hs Hb|key m Hp Hs Hb|l m Hb0 Hp Hs Hb|Hp Hs Hb].
  - unfold OrdInv, tagged_pulled, sent_msgs in *. now rewrite Hp, Hs, Hb.
  - pose proof (ordinv_weak _ HI) as Hw.
    unfold OrdInv, tagged_pulled, sent_msgs in *. rewrite Hp, Hs, Hb, map_app. cbn [map fst snd].
    eexists. split; [reflexivity|exact Hw].
  - unfold OrdInv, tagged_pulled, sent_msgs in *. rewrite Hb0 in HI. destruct HI as (P' & HP & Hsub).
    rewrite Hp, Hs, Hb, map_app, HP. cbn [map snd]. now apply subseq_snoc.
  - pose proof (ordinv_weak _ HI) as Hw.
    unfold OrdInv, tagged_pulled, sent_msgs in *. now rewrite Hp, Hs, Hb.
Qed.

Lemma ordinv_init : OrdInv rinit.
Proof. cbn. constructor. Qed.

Theorem rr_requests_in_order tr s : rrun rinit tr = Some s -> Subseq (sent_msgs s) (tagged_pulled s).
Proof.
  intros H. apply ordinv_weak. revert H. apply lift_run; [| |exact ordinv_init].
  - intros a b Ha Hi. apply (ordinv_effect a b Ha). destruct (rinternal_req _ _ Hi) as (H1 & H2 & H3). now apply RE_same.
  - intros a e b Ha Hr. apply (ordinv_effect a b Ha). now apply rstep_raw_req with e.
Qed.

(** * Replies reach the right requestor, in emission order, each pulled occurrence at most once *)
Inductive rep_effect (s s' : rst) : Prop :=
| PE_same : h_reps_pulled (rgh s') = h_reps_pulled (rgh s) -> h_reps_routed (rgh s') = h_reps_routed (rgh s) ->
            b_rep s' = b_rep s -> rsinks s' = rsinks s -> h_keys (rgh s') = h_keys (rgh s) -> next_id s' = next_id s ->
            rep_effect s s'
| PE_evict lab : h_reps_pulled (rgh s') = h_reps_pulled (rgh s) -> h_reps_routed (rgh s') = h_reps_routed (rgh s) ->
                 (b_rep s' = b_rep s \/ b_rep s' = None) -> rsinks s' = remove_label lab (rsinks s) ->
                 h_keys (rgh s') = h_keys (rgh s) -> next_id s' = next_id s -> rep_effect s s'
| PE_adopt l : h_reps_pulled (rgh s') = h_reps_pulled (rgh s) -> h_reps_routed (rgh s') = h_reps_routed (rgh s) ->
               b_rep s' = b_rep s -> rsinks s' = rsinks s ++ [(next_id s, l)] ->
               h_keys (rgh s') = h_keys (rgh s) ++ [(next_id s, l)] -> next_id s' = next_id s + 1 -> rep_effect s s'
| PE_pull f : rctl s = RServerPoll -> h_reps_pulled (rgh s') = h_reps_pulled (rgh s) ++ [f] ->
              h_reps_routed (rgh s') = h_reps_routed (rgh s) -> b_rep s' = Some f -> rsinks s' = rsinks s ->
              h_keys (rgh s') = h_keys (rgh s) -> next_id s' = next_id s -> rep_effect s s'
| PE_routed f lab m' : b_rep s = Some f -> route s f = Some (lab, m') ->
              h_reps_pulled (rgh s') = h_reps_pulled (rgh s) ->
              h_reps_routed (rgh s') = h_reps_routed (rgh s) ++ [(lab, m')] -> b_rep s' = None -> rsinks s' = rsinks s ->
              h_keys (rgh s') = h_keys (rgh s) -> next_id s' = next_id s -> rep_effect s s'
| PE_consumed : h_reps_pulled (rgh s') = h_reps_pulled (rgh s) -> h_reps_routed (rgh s') = h_reps_routed (rgh s) ->
                b_rep s' = None -> rsinks s' = rsinks s -> h_keys (rgh s') = h_keys (rgh s) -> next_id s' = next_id s ->
                rep_effect s s'.

Lemma rinternal_rep s s' : rinternal s = Some s' -> rep_effect s s'.
Proof.
  intros H. unfold rinternal in H.
  crush_matches H; injection H as <-;
    first [ solve [apply PE_same; rsimp; auto]
          | solve [eapply PE_adopt; rsimp; eauto]
          | solve [apply PE_consumed; rsimp; auto] ].
Qed.

Lemma rstep_raw_rep s e s' : rstep_raw s e = Some s' -> rep_effect s s'.
Proof.
  intros H. unfold rstep_raw, router_pass in H.
  crush_matches H; injection H as <-;
    first [ solve [apply PE_same; rsimp; auto]
          | solve [eapply PE_evict; rsimp; eauto]
          | solve [eapply PE_pull; rsimp; eauto]
          | solve [eapply PE_routed; rsimp; eauto]
          | solve [apply PE_consumed; rsimp; auto] ].
Qed.

Lemma subseq_trans {A} (a b c : list A) : Subseq a b -> Subseq b c -> Subseq a c.
Proof.
  intros Hab Hbc. revert a Hab. induction Hbc as [l|b y l H IH|x b l H IH]; intros a Hab.
  - inversion Hab; subst. apply SS_nil.
  - apply SS_skip. now apply IH.
  - inversion Hab as [l0|a0 y0 l0 H0|x0 a0 l0 H0]; subst.
    + apply SS_nil.
    + apply SS_skip. now apply IH.
    + apply SS_take. now apply IH.
Qed.
Lemma subseq_app2 {A} (a b c d : list A) : Subseq a b -> Subseq c d -> Subseq (a ++ c) (b ++ d).
Proof.
  induction 1 as [l|a y l H IH|x a l H IH]; intros Hcd; cbn [app].
  - induction l as [|z l IHl]; cbn [app]; [exact Hcd|now apply SS_skip].
  - apply SS_skip. now apply IH.
  - apply SS_take. now apply IH.
Qed.

Definition deserving (g : rghost) (L : list frame) : list (N * msg) :=
  flat_map (fun f => match deserved g f with Some p => [p] | None => [] end) L.

Lemma deserving_app g a b : deserving g (a ++ b) = deserving g a ++ deserving g b.
Proof. unfold deserving. now rewrite flat_map_app. Qed.

Lemma lookup_key_app_some k l r lab : lookup_key k l = Some lab -> lookup_key k (l ++ r) = Some lab.
Proof.
  induction l as [|[k' lab'] l IH]; cbn [lookup_key app]; [discriminate|].
  destruct (k =? k'); [auto|exact IH].
Qed.
Lemma lookup_key_In k l lab : lookup_key k l = Some lab -> In (k, lab) l.
Proof.
  induction l as [|[k' lab'] l IH]; cbn [lookup_key]; [discriminate|].
  destruct (N.eqb_spec k k') as [->|Hne]; intros H.
  - injection H as <-. now left.
  - right. now apply IH.
Qed.
Lemma lookup_key_app_none k l r : lookup_key k l = None -> lookup_key k (l ++ r) = lookup_key k r.
Proof.
  induction l as [|[k' lab'] l IH]; cbn [lookup_key app]; [reflexivity|].
  destruct (k =? k'); [discriminate|exact IH].
Qed.
Lemma lookup_key_notin k l : (forall lab, ~ In (k, lab) l) -> lookup_key k l = None.
Proof.
  intros H. destruct (lookup_key k l) as [lab|] eqn:E; [|reflexivity].
  apply lookup_key_In in E. now apply H in E.
Qed.

(** lookups survive the removal of another label when keys are unique *)
Lemma lookup_key_filter k lab0 l lab :
  NoDup (map fst l) -> lookup_key k (remove_label lab0 l) = Some lab -> lookup_key k l = Some lab.
Proof.
  unfold remove_label. induction l as [|[k' lab'] l IH]; cbn [filter lookup_key map fst]; [discriminate|].
  intros Hnd H. inversion Hnd as [|? ? Hnot Hnd']; subst.
  destruct (negb (lab' =? lab0)) eqn:Ek; cbn [snd] in *.
  - rewrite Ek in H. cbn [lookup_key] in H. destruct (k =? k'); [exact H|now apply IH].
  - rewrite Ek in H. destruct (N.eqb_spec k k') as [->|Hne]; [|now apply IH].
    exfalso. apply Hnot. apply (IH Hnd') in H. apply lookup_key_In in H.
    change k' with (fst (k', lab)). now apply in_map.
Qed.

Lemma nodup_filter_keys lab0 l : NoDup (map fst l) -> NoDup (map fst (remove_label lab0 l)).
Proof.
  unfold remove_label. induction l as [|[k lab] l IH]; cbn [filter map fst]; [auto|].
  intros Hnd. inversion Hnd as [|? ? Hnot Hnd']; subst.
  cbn [snd]. destruct (negb (lab =? lab0)); cbn [map fst]; [|now apply IH].
  constructor; [|now apply IH]. intros Hin. apply Hnot.
  apply in_map_iff in Hin as ([k' lab'] & Hk & Hin). cbn in Hk. subst k'.
  apply filter_In in Hin as [Hin _]. change k with (fst (k, lab')). now apply in_map.
Qed.

Record RepInv (s : rst) : Prop := {
  rp_k1 : forall k lab, lookup_key k (rsinks s) = Some lab -> lookup_key k (h_keys (rgh s)) = Some lab;
  rp_k2 : forall k lab, In (k, lab) (h_keys (rgh s)) -> k < next_id s;
  rp_k3 : NoDup (map fst (rsinks s));
  rp_k4 : forall k lab, In (k, lab) (rsinks s) -> k < next_id s;
  rp_ord : match b_rep s with
           | Some f => exists P', h_reps_pulled (rgh s) = P' ++ [f] /\ Subseq (h_reps_routed (rgh s)) (deserving (rgh s) P')
           | None => Subseq (h_reps_routed (rgh s)) (deserving (rgh s) (h_reps_pulled (rgh s)))
           end }.

Lemma repinv_weak s : RepInv s -> Subseq (h_reps_routed (rgh s)) (deserving (rgh s) (h_reps_pulled (rgh s))).
Proof.
  intros [_ _ _ _ H]. destruct (b_rep s) as [f|]; [|exact H].
  destruct H as (P' & -> & H). rewrite deserving_app. now apply subseq_app_r.
Qed.

(** [deserving] only depends on the key table *)
Lemma deserving_keys g g' L : h_keys g' = h_keys g -> deserving g' L = deserving g L.
Proof.
  intros Hk. unfold deserving, deserved. induction L as [|f L IH]; cbn [flat_map]; [reflexivity|].
  rewrite IH, Hk. reflexivity.
Qed.

(** a new key only adds deserving replies *)
Lemma deserving_grows g g' k l L :
  h_keys g' = h_keys g ++ [(k, l)] -> Subseq (deserving g L) (deserving g' L).
Proof.
  intros Hk. induction L as [|f L IH]; cbn [deserving flat_map]; [apply SS_nil|].
  apply subseq_app2; [|exact IH].
  unfold deserved. rewrite Hk. destruct f as [m|c|t]; try apply SS_nil.
  destruct (m_cid m) as [[k0|j]|]; try apply SS_nil.
  destruct (lookup_key k0 (h_keys g)) as [lab|] eqn:E.
  - rewrite (lookup_key_app_some _ _ _ _ E). apply subseq_refl.
  - apply SS_nil.
Qed.

Lemma route_deserved s f lab m' : RepInv s -> route s f = Some (lab, m') -> deserved (rgh s) f = Some (lab, m').
Proof.
  intros HI H. unfold route in H. unfold deserved. destruct f as [m|c|t]; try discriminate.
  destruct (m_cid m) as [[k|j]|]; try discriminate.
  destruct (lookup_key k (rsinks s)) as [lab0|] eqn:E; [|discriminate].
  injection H as <- <-. now rewrite (rp_k1 _ HI _ _ E).
Qed.

Lemma repinv_init : RepInv rinit.
Proof.
  constructor; cbn; try (intros; discriminate); try (intros; contradiction); try constructor.
Qed.

Lemma repinv_effect s s' : RInv s -> RepInv s -> rep_effect s s' -> RepInv s'.
Proof.
  intros HR HI E. pose proof (repinv_weak _ HI) as Hw. destruct HI as [K1 K2 K3 K4 HO].
  destruct E as [Hp Hr Hb Hs Hk Hn|lab Hp Hr Hb Hs Hk Hn|l Hp Hr Hb Hs Hk Hn|f Hc Hp Hr Hb Hs Hk Hn
                |f lab m' Hb0 Hroute Hp Hr Hb Hs Hk Hn|Hp Hr Hb Hs Hk Hn].
  - (* same *)
    constructor; rewrite ?Hs, ?Hk, ?Hn; auto.
    rewrite Hb, Hp, Hr. destruct (b_rep s) as [f|].
    + destruct HO as (P' & HP & Hsub). exists P'. split; [exact HP|]. now rewrite (deserving_keys _ _ _ Hk).
    + now rewrite (deserving_keys _ _ _ Hk).
  - (* evict *)
    constructor; rewrite ?Hs, ?Hk, ?Hn; auto.
    + intros k lab0 Hl. apply K1. now apply lookup_key_filter with lab.
    + now apply nodup_filter_keys.
    + intros k lab0 Hin. unfold remove_label in Hin. apply filter_In in Hin as [Hin _]. now apply K4 with lab0.
    + rewrite Hp, Hr. destruct Hb as [Hb|Hb]; rewrite Hb.
      * destruct (b_rep s) as [f|].
        -- destruct HO as (P' & HP & Hsub). exists P'. split; [exact HP|]. now rewrite (deserving_keys _ _ _ Hk).
        -- now rewrite (deserving_keys _ _ _ Hk).
      * now rewrite (deserving_keys _ _ _ Hk).
  - (* adopt *)
    assert (Hfresh : forall lab0, ~ In (next_id s, lab0) (h_keys (rgh s))).
    { intros lab0 Hin. apply K2 in Hin. lia. }
    constructor; rewrite ?Hs, ?Hk, ?Hn.
    + intros k lab0 Hl. destruct (lookup_key k (rsinks s)) as [lab1|] eqn:E.
      * rewrite (lookup_key_app_some _ _ _ _ E) in Hl. injection Hl as <-. apply lookup_key_app_some. now apply K1.
      * rewrite (lookup_key_app_none _ _ _ E) in Hl. cbn [lookup_key] in Hl.
        destruct (N.eqb_spec k (next_id s)) as [->|Hne]; [|discriminate]. injection Hl as <-.
        rewrite lookup_key_app_none by (apply lookup_key_notin; exact Hfresh). cbn [lookup_key]. now rewrite N.eqb_refl.
    + intros k lab0 Hin. apply in_app_or in Hin as [Hin|[Hin|[]]]; [apply K2 in Hin; lia|]. injection Hin as <- <-. lia.
    + rewrite map_app. cbn [map fst]. apply NoDup_app_intro_snoc; [exact K3|].
      intros Hin. apply in_map_iff in Hin as ([k lab0] & Hk0 & Hin). cbn in Hk0. subst k. apply K4 in Hin. lia.
    + intros k lab0 Hin. apply in_app_or in Hin as [Hin|[Hin|[]]]; [apply K4 in Hin; lia|]. injection Hin as <- <-. lia.
    + rewrite Hb, Hp, Hr. destruct (b_rep s) as [f|].
      * destruct HO as (P' & HP & Hsub). exists P'. split; [exact HP|].
        eapply subseq_trans; [exact Hsub|]. now apply deserving_grows with (next_id s) l.
      * eapply subseq_trans; [exact HO|]. now apply deserving_grows with (next_id s) l.
  - (* a reply is pulled: the buffer was empty *)
    pose proof (ri_ctl _ HR) as Hctl. unfold rctl_ok in Hctl. rewrite Hc in Hctl.
    constructor; rewrite ?Hs, ?Hk, ?Hn; auto.
    rewrite Hb, Hp, Hr. exists (h_reps_pulled (rgh s)). split; [reflexivity|].
    rewrite (deserving_keys _ _ _ Hk). exact Hw.
  - (* routed *)
    rewrite Hb0 in HO. destruct HO as (P' & HP & Hsub).
    assert (Hd : deserved (rgh s) f = Some (lab, m')).
    { apply route_deserved; [constructor; auto|exact Hroute]. rewrite Hb0. exists P'. auto. }
    constructor; rewrite ?Hs, ?Hk, ?Hn; auto.
    rewrite Hb, Hp, Hr, (deserving_keys _ _ _ Hk), HP, deserving_app.
    cbn [deserving flat_map]. rewrite Hd. cbn [app]. now apply subseq_snoc.
  - (* consumed without delivery *)
    constructor; rewrite ?Hs, ?Hk, ?Hn; auto.
    rewrite Hb, Hp, Hr, (deserving_keys _ _ _ Hk). exact Hw.
Qed.

(** both invariants together (the reply invariant needs the control invariant of P_ReqRep) *)
Definition BothInv (s : rst) : Prop := RInv s /\ RepInv s.

Theorem rr_replies_in_order tr s : rrun rinit tr = Some s ->
  Subseq (h_reps_routed (rgh s)) (deserving (rgh s) (h_reps_pulled (rgh s))).
Proof.
  intros H. apply repinv_weak.
  assert (HB : BothInv s).
  { revert H. apply (lift_run BothInv).
    - intros a b [Ha1 Ha2] Hi. split; [now apply rinv_internal with a|].
      apply (repinv_effect a b Ha1 Ha2). now apply rinternal_rep.
    - intros a e b [Ha1 Ha2] Hr. split; [now apply rinv_step_raw with a e|].
      apply (repinv_effect a b Ha1 Ha2). now apply rstep_raw_rep with e.
    - split; [exact rinv_init|exact repinv_init]. }
  exact (proj2 HB).
Qed.

(** * A request is superseded in the buffer only while no replier is bound; accounting *)

(** control points between the top-of-loop hand-over of the buffered request and the polling of
    the requestor streams *)
Definition before_streams (c : rpc) : bool :=
  match c with
  | RErrSlot | RErrReady _ | RErrSend _ | RErrClose _ | RHandle
  | RServerCheck | RServerPoll | RSrvEndFlushSrv | RSrvEndFlushRouter _
  | RRepCheck | RRepReady _ | RRepSend | RStreamsStart | RStreams _ _ _ => true
  | _ => false
  end.

Definition SupInv (s : rst) : Prop :=
  (before_streams (rctl s) = true -> b_req s = None \/ server s = None)
  /\ forall srv m, In (srv, m) (h_reqs_dropped (rgh s)) -> srv = None.

Lemma supinv_init : SupInv rinit.
Proof. split; cbn; [discriminate|intros ? ? []]. Qed.

Lemma supinv_internal s s' : SupInv s -> rinternal s = Some s' -> SupInv s'.
Proof.
  intros [HJ HD] H. unfold rinternal in H.
  crush_matches H; injection H as <-;
    try match goal with Hc : rctl s = _ |- _ => rewrite Hc in HJ end; cbn [before_streams] in HJ;
    split; rsimp; try match goal with Hc : rctl s = _ |- _ => rewrite ?Hc end; cbn [before_streams] in *;
    try discriminate; try (intros _); try exact HD;
    try (specialize (HJ eq_refl)); try tauto; try (now left); try (now right);
    try (destruct HJ as [HJ|HJ]; first [congruence | left; congruence | right; congruence | discriminate]).
Qed.

Lemma supinv_step_raw s e s' : SupInv s -> rstep_raw s e = Some s' -> SupInv s'.
Proof.
  intros [HJ HD] H. unfold rstep_raw, router_pass in H.
  crush_matches H; injection H as <-;
    try match goal with Hc : rctl s = _ |- _ => rewrite Hc in HJ end; cbn [before_streams] in HJ;
    split; rsimp; try match goal with Hc : rctl s = _ |- _ => rewrite ?Hc end; cbn [before_streams] in *;
    try discriminate; try (intros _); try exact HD;
    try (specialize (HJ eq_refl)); try tauto; try (now left); try (now right);
    try (destruct HJ as [HJ|HJ]; first [congruence | left; congruence | right; congruence | discriminate]);
    try (intros srv0 mm Hin; apply in_app_or in Hin as [Hin|[Hin|[]]]; [now apply HD with mm|];
         injection Hin as <- _; destruct HJ as [HJ|HJ]; [discriminate|exact HJ]).
Qed.

Theorem rr_never_superseded_while_bound tr s : rrun rinit tr = Some s ->
  forall srv m, In (srv, m) (h_reqs_dropped (rgh s)) -> srv = None.
Proof.
  intros H. assert (HI : SupInv s).
  { revert H. apply (lift_run SupInv); [exact supinv_internal|exact supinv_step_raw|exact supinv_init]. }
  exact (proj2 HI).
Qed.

(** every pulled request is accounted for: handed to a replier, refused by the replier's own sink,
    superseded (which happens only while nobody is bound), or still in the one-request buffer *)
Definition req_count_ok (s : rst) : Prop :=
  List.length (h_reqs_pulled (rgh s)) =
  (List.length (h_reqs_sent (rgh s)) + List.length (h_reqs_refused (rgh s)) + List.length (h_reqs_dropped (rgh s))
   + match b_req s with Some _ => 1 | None => 0 end)%nat.
Definition ReqCount (s : rst) : Prop :=
  req_count_ok s /\ match b_req s with Some (FMsg _) | None => True | Some _ => False end.

Lemma reqcount_internal s s' : ReqCount s -> rinternal s = Some s' -> ReqCount s'.
Proof.
  intros [HC HB] H. unfold ReqCount, req_count_ok in *. unfold rinternal in H.
  crush_matches H; injection H as <-; rsimp;
    repeat match goal with Hb : b_req s = _ |- _ => rewrite Hb in * end; split; assumption.
Qed.

Lemma reqcount_step_raw s e s' : ReqCount s -> rstep_raw s e = Some s' -> ReqCount s'.
Proof.
  intros [HC HB] H. unfold ReqCount, req_count_ok in *. unfold rstep_raw, router_pass in H.
  crush_matches H; injection H as <-; rsimp; rewrite ?app_length; cbn [List.length];
    repeat match goal with Hb : b_req s = _ |- _ => rewrite Hb in * end;
    try contradiction; (split; [try exact HC; try lia; try (destruct (b_req s); lia)|try exact HB; try exact I]).
Qed.

Theorem rr_requests_accounted tr s : rrun rinit tr = Some s -> req_count_ok s.
Proof.
  intros H. assert (HI : ReqCount s).
  { revert H. apply (lift_run ReqCount); [exact reqcount_internal|exact reqcount_step_raw|split; [reflexivity|exact I]]. }
  exact (proj1 HI).
Qed.

(** * The router never parks without a registered waker (C09) *)

(** control points of one poll that lie after the registration channel answered Pending (the only
    way past RHandle when the channel is open) *)
Definition after_handle (c : rpc) : bool :=
  match c with
  | RServerCheck | RServerPoll | RSrvEndFlushSrv | RSrvEndFlushRouter _
  | RRepCheck | RRepReady _ | RRepSend | RStreamsStart | RStreams _ _ _
  | RDoneFlushRouter _ | RDoneFlushSrv | RBothCheck | RBothFlushRouter _ | RBothFlushSrv => true
  | _ => false
  end.

Definition some_sink_armed (s : rst) : Prop := exists l, is_armed (SSink l) (rarmed s) = true.

Definition ParkInv (s : rst) : Prop :=
  (after_handle (rctl s) = true -> rh_armed s = true)
  /\ (rctl s = RReturn false -> some_sink_armed s \/ rh_armed s = true).

Lemma is_armed_arm x a : is_armed x (arm x a) = true.
Proof.
  unfold is_armed, arm. cbn [existsb]. destruct x; cbn [src_eqb]; rewrite ?N.eqb_refl; reflexivity.
Qed.

Lemma parkinv_init : ParkInv rinit.
Proof. split; cbn; discriminate. Qed.

Ltac park_fin HA :=
  first [ discriminate
        | reflexivity
        | (intros _; reflexivity)
        | (intros _; apply HA; reflexivity)
        | (intros _; right; apply HA; reflexivity)
        | (intros _; right; reflexivity)
        | (intros _; left; eexists; apply is_armed_arm) ].

Lemma parkinv_internal s s' : ParkInv s -> rinternal s = Some s' -> ParkInv s'.
Proof.
  intros [HA HP] H. unfold rinternal in H.
  crush_matches H; injection H as <-;
    try match goal with Hc : rctl s = _ |- _ => rewrite Hc in HA, HP end; cbn [after_handle] in HA;
    split; rsimp; cbn [after_handle]; park_fin HA.
Qed.

Lemma parkinv_step_raw s e s' : ParkInv s -> rstep_raw s e = Some s' -> ParkInv s'.
Proof.
  intros [HA HP] H. unfold rstep_raw, router_pass in H.
  crush_matches H; injection H as <-;
    try match goal with Hc : rctl s = _ |- _ => rewrite Hc in HA, HP end; cbn [after_handle] in HA;
    split; rsimp; try match goal with Hc : rctl s = _ |- _ => rewrite ?Hc end; cbn [after_handle]; park_fin HA.
Qed.

Theorem rr_never_parks_unarmed tr s : rrun rinit tr = Some s -> rctl s = RReturn false ->
  (exists l, is_armed (SSink l) (rarmed s) = true) \/ rh_armed s = true.
Proof.
  intros H. assert (HI : ParkInv s).
  { revert H. apply (lift_run ParkInv); [exact parkinv_internal|exact parkinv_step_raw|exact parkinv_init]. }
  exact (proj2 HI).
Qed.



(** * Once the registration channel is closed, a poll returns Pending only because a sink said so *)

(** req/rep *)
Definition rr_pending_answer (e : rev) : bool :=
  match e with VSink _ _ RPending => true | _ => false end.

Definition ClosedInv (s : rst) : Prop := rclosed s = true -> after_handle (rctl s) = false.

Lemma closedinv_internal s s' : ClosedInv s -> rinternal s = Some s' -> ClosedInv s' /\ (rctl s' = RReturn false -> rclosed s' = false).
Proof.
  unfold ClosedInv. intros HC H. unfold rinternal in H.
  crush_matches H; injection H as <-;
    try match goal with Hc : rctl s = _ |- _ => rewrite Hc in HC end; cbn [after_handle] in HC;
    split; rsimp; cbn [after_handle];
    first [ discriminate | reflexivity | (intros _; reflexivity) | assumption
          | (intros Hcl; specialize (HC Hcl); discriminate) | (intros _; assumption)
          | (intros Hcl; congruence)
          | (intros _; destruct (rclosed s); [specialize (HC eq_refl); discriminate|reflexivity]) ].
Qed.

Lemma is_sink_ev_on_pending l op e : is_sink_ev_on l op e = Some RPending -> rr_pending_answer e = true.
Proof.
  unfold is_sink_ev_on. destruct e as [| | | | |l' op' r|]; try discriminate.
  destruct (l =? l'); [|discriminate].
  destruct op, op'; try discriminate; try (destruct (frame_eqb f f0); try discriminate);
    intros H; injection H as ->; reflexivity.
Qed.

Lemma closedinv_step_raw s e s' : ClosedInv s -> rstep_raw s e = Some s' ->
  ClosedInv s' /\ (rctl s' = RReturn false -> rclosed s' = true -> rr_pending_answer e = true).
Proof.
  unfold ClosedInv. intros HC H. unfold rstep_raw, router_pass in H.
  crush_matches H; injection H as <-;
    try match goal with Hc : rctl s = _ |- _ => rewrite Hc in HC end; cbn [after_handle] in HC;
    split; rsimp; try match goal with Hc : rctl s = _ |- _ => rewrite ?Hc end; cbn [after_handle rr_pending_answer];
    first [ discriminate | reflexivity | (intros _; reflexivity) | (intros _ _; reflexivity) | assumption
          | (intros Hcl; specialize (HC Hcl); discriminate) | (intros _; assumption)
          | (intros Hcl; congruence) | (intros _ Hcl; specialize (HC Hcl); discriminate)
          | (subst; cbn [rr_pending_answer]; intros; reflexivity)
          | (intros _ _; subst; eapply is_sink_ev_on_pending; eassumption) ].
Qed.

Lemma rinternal_closed s s' : rinternal s = Some s' -> rclosed s' = rclosed s.
Proof. intros H. unfold rinternal in H. crush_matches H; injection H as <-; rsimp; first [reflexivity|congruence]. Qed.

Lemma rstep_raw_closed s e s' : rstep_raw s e = Some s' -> rclosed s = true -> rclosed s' = true.
Proof.
  intros H Hc. unfold rstep_raw, router_pass in H. crush_matches H; injection H as <-; rsimp; first [exact Hc|reflexivity].
Qed.

Lemma closed_settle fuel : forall s s',
  ClosedInv s -> rclosed s = true -> rsettle fuel s = Some s' ->
  ClosedInv s' /\ rclosed s' = true /\ (rctl s' = RReturn false -> s' = s).
Proof.
  induction fuel as [|k IH]; intros s s' HC Hcl H; cbn [rsettle] in H; [discriminate|].
  destruct (rinternal s) as [s1|] eqn:E.
  - destruct (closedinv_internal _ _ HC E) as [HC1 Hret].
    assert (Hcl1 : rclosed s1 = true) by (rewrite (rinternal_closed _ _ E); exact Hcl).
    destruct (IH s1 s' HC1 Hcl1 H) as (HC' & Hcl' & Hsame).
    split; [exact HC'|]. split; [exact Hcl'|].
    intros Hr. specialize (Hsame Hr). subst s'. specialize (Hret Hr). congruence.
  - injection H as <-. auto.
Qed.

Theorem rr_closed_pending_only_from_sinks tr s e s' :
  rrun rinit tr = Some s -> rclosed s = true -> rstep s e = Some s' -> rctl s' = RReturn false ->
  rr_pending_answer e = true.
Proof.
  intros Hrun Hcl Hstep Hret.
  assert (HC : ClosedInv s).
  { revert Hrun. apply (lift_run ClosedInv).
    - intros a b Ha Hi. exact (proj1 (closedinv_internal a b Ha Hi)).
    - intros a ev b Ha Hr. exact (proj1 (closedinv_step_raw a ev b Ha Hr)).
    - unfold ClosedInv. cbn. discriminate. }
  unfold rstep, obind in Hstep.
  destruct (rsettled s) as [s0|] eqn:E0; [|discriminate].
  destruct (closed_settle _ _ _ HC Hcl E0) as (HC0 & Hcl0 & _).
  assert (Hone : forall a, ClosedInv a -> rclosed a = true ->
                 match rstep_raw a e with Some x => rsettled x | None => None end = Some s' ->
                 rr_pending_answer e = true).
  { intros a Ha Hca Hb. destruct (rstep_raw a e) as [x|] eqn:Ex; [|discriminate].
    destruct (closedinv_step_raw _ _ _ Ha Ex) as [HCx Hp].
    pose proof (rstep_raw_closed _ _ _ Ex Hca) as Hcx.
    destruct (closed_settle _ _ _ HCx Hcx Hb) as (_ & _ & Hsame).
    specialize (Hsame Hret). subst x. now apply Hp. }
  destruct (rctl s0) eqn:Ec0; try (now apply Hone with s0).
  destruct e; try (now apply Hone with s0).
  destruct (rstep_raw s0 (VStream l r)) as [s1|] eqn:E1; [|discriminate].
  destruct (closedinv_step_raw _ _ _ HC0 E1) as [HC1 _].
  pose proof (rstep_raw_closed _ _ _ E1 Hcl0) as Hcl1.
  now apply Hone with s1.
Qed.


(** * A discarded reply never deserved a requestor that is still connected *)

(** what a step does to the key table, the router's sinks, the queue and the discarded replies *)
Inductive disc_effect (s s' : rst) : Prop :=
| DE_same : rsinks s' = rsinks s -> h_keys (rgh s') = h_keys (rgh s) -> next_id s' = next_id s ->
            rqueue s' = rqueue s -> h_used (rgh s') = h_used (rgh s) ->
            h_reps_discarded (rgh s') = h_reps_discarded (rgh s) -> disc_effect s s'
| DE_evict lab : rsinks s' = remove_label lab (rsinks s) -> h_keys (rgh s') = h_keys (rgh s) -> next_id s' = next_id s ->
            rqueue s' = rqueue s -> h_used (rgh s') = h_used (rgh s) ->
            h_reps_discarded (rgh s') = h_reps_discarded (rgh s) -> disc_effect s s'
| DE_adopt l : rqueue s = QClient l :: rqueue s' -> rsinks s' = rsinks s ++ [(next_id s, l)] ->
            h_keys (rgh s') = h_keys (rgh s) ++ [(next_id s, l)] -> next_id s' = next_id s + 1 ->
            h_used (rgh s') = h_used (rgh s) -> h_reps_discarded (rgh s') = h_reps_discarded (rgh s) -> disc_effect s s'
| DE_pop q : rqueue s = q :: rqueue s' -> rsinks s' = rsinks s -> h_keys (rgh s') = h_keys (rgh s) -> next_id s' = next_id s ->
            h_used (rgh s') = h_used (rgh s) -> h_reps_discarded (rgh s') = h_reps_discarded (rgh s) -> disc_effect s s'
| DE_enqueue q : memb (rlabel_of q) (h_used (rgh s)) = false -> rqueue s' = rqueue s ++ [q] ->
            h_used (rgh s') = rlabel_of q :: h_used (rgh s) -> rsinks s' = rsinks s -> h_keys (rgh s') = h_keys (rgh s) ->
            next_id s' = next_id s -> h_reps_discarded (rgh s') = h_reps_discarded (rgh s) -> disc_effect s s'
| DE_discard f : route s f = None -> h_reps_discarded (rgh s') = h_reps_discarded (rgh s) ++ [(f, next_id s)] ->
            rsinks s' = rsinks s -> h_keys (rgh s') = h_keys (rgh s) -> next_id s' = next_id s ->
            rqueue s' = rqueue s -> h_used (rgh s') = h_used (rgh s) -> disc_effect s s'.

Lemma rinternal_disc s s' : rinternal s = Some s' -> disc_effect s s'.
Proof.
  intros H. unfold rinternal in H.
  crush_matches H; injection H as <-;
    first [ solve [apply DE_same; rsimp; auto]
          | solve [eapply DE_adopt; rsimp; eauto]
          | solve [eapply DE_pop; rsimp; eauto]
          | solve [eapply DE_discard; rsimp; eauto] ].
Qed.

Lemma rstep_raw_disc s e s' : rstep_raw s e = Some s' -> disc_effect s s'.
Proof.
  intros H. unfold rstep_raw, router_pass in H.
  crush_matches H; injection H as <-;
    first [ solve [apply DE_same; rsimp; auto]
          | solve [eapply DE_evict; rsimp; eauto]
          | solve [eapply DE_enqueue; rsimp; eauto; match goal with Hb : _ || _ = false |- _ => apply orb_false_iff in Hb; tauto end] ].
Qed.

Lemma lookup_key_in_nodup k lab l : NoDup (map fst l) -> In (k, lab) l -> lookup_key k l = Some lab.
Proof.
  induction l as [|[k' lab'] l IH]; cbn [map fst lookup_key]; intros Hnd Hin; [contradiction|].
  inversion Hnd as [|? ? Hnot Hnd']; subst. destruct Hin as [Hin|Hin].
  - injection Hin as -> ->. now rewrite N.eqb_refl.
  - destruct (N.eqb_spec k k') as [->|Hne]; [|now apply IH].
    exfalso. apply Hnot. change k' with (fst (k', lab)). now apply in_map.
Qed.

(** what the third clause of [c02_replies_ok] says about one discarded reply *)
Definition discard_justified (s : rst) (fn : frame * N) : Prop :=
  match fst fn with
  | FMsg m =>
    match m_cid m with
    | Some (CKey k) =>
      snd fn <= k \/
      match lookup_key k (h_keys (rgh s)) with Some lab => ~ In lab (labels (rsinks s)) | None => True end
    | _ => True
    end
  | _ => True
  end.

Record DInv (s : rst) : Prop := {
  d_sub : forall k lab, In (k, lab) (rsinks s) -> In (k, lab) (h_keys (rgh s));
  d_lt : forall k lab, In (k, lab) (h_keys (rgh s)) -> k < next_id s;
  d_keys : NoDup (map fst (h_keys (rgh s)));
  d_labs : NoDup (map snd (h_keys (rgh s)));
  d_used : forall k lab, In (k, lab) (h_keys (rgh s)) -> In lab (h_used (rgh s)) /\ ~ In lab (qlabels (rqueue s));
  d_qused : forall l, In l (qlabels (rqueue s)) -> In l (h_used (rgh s));
  d_qnodup : NoDup (qlabels (rqueue s));
  d_cnt : forall fn, In fn (h_reps_discarded (rgh s)) -> snd fn <= next_id s;
  d_disc : forall fn, In fn (h_reps_discarded (rgh s)) -> discard_justified s fn }.

Lemma dinv_init : DInv rinit.
Proof. constructor; cbn; intros; try contradiction; try constructor. Qed.

Lemma justified_same s s' fn :
  h_keys (rgh s') = h_keys (rgh s) -> (forall lab, In lab (labels (rsinks s')) -> In lab (labels (rsinks s))) ->
  discard_justified s fn -> discard_justified s' fn.
Proof.
  intros Hk Hl. unfold discard_justified. rewrite Hk.
  destruct (fst fn) as [m|c|t]; auto. destruct (m_cid m) as [[k|j]|]; auto.
  intros [H|H]; [now left|right]. destruct (lookup_key k (h_keys (rgh s))); auto.
Qed.

Lemma labels_remove lab0 l lab : In lab (labels (remove_label lab0 l)) -> In lab (labels l).
Proof.
  unfold labels, remove_label. intros H. apply in_map_iff in H as (p & Hp & Hin).
  apply filter_In in Hin as [Hin _]. apply in_map_iff. now exists p.
Qed.

Lemma dinv_effect s s' : DInv s -> disc_effect s s' -> DInv s'.
Proof.
  intros [Dsub Dlt Dk Dl Du Dq Dn Dc Dd] E.
  destruct E as [Hs Hk Hn Hq Hu Hd|lab0 Hs Hk Hn Hq Hu Hd|l Hq Hs Hk Hn Hu Hd|q Hq Hs Hk Hn Hu Hd
                |q Hfresh Hq Hu Hs Hk Hn Hd|f Hroute Hd Hs Hk Hn Hq Hu].
  - (* same *)
    constructor; rewrite ?Hs, ?Hk, ?Hn, ?Hq, ?Hu, ?Hd; auto.
    intros fn Hin. apply (justified_same s s'); auto. now rewrite Hs.
  - (* evict *)
    constructor; rewrite ?Hs, ?Hk, ?Hn, ?Hq, ?Hu, ?Hd; auto.
    + intros k lab Hin. apply Dsub. unfold remove_label in Hin. now apply filter_In in Hin as [Hin _].
    + intros fn Hin. apply (justified_same s s'); auto. rewrite Hs. intros lab. apply labels_remove.
  - (* adopt a requestor *)
    assert (Hlq : In l (qlabels (rqueue s))) by (rewrite Hq; now left).
    assert (Hlnew : ~ In l (map snd (h_keys (rgh s)))).
    { intros Hin. apply in_map_iff in Hin as ([k lab] & Hlab & Hin). cbn in Hlab. subst lab.
      now apply (proj2 (Du _ _ Hin)). }
    assert (Hknew : ~ In (next_id s) (map fst (h_keys (rgh s)))).
    { intros Hin. apply in_map_iff in Hin as ([k lab] & Hkk & Hin). cbn in Hkk. subst k. apply Dlt in Hin. lia. }
    assert (Hqn : NoDup (qlabels (rqueue s'))).
    { rewrite Hq in Dn. cbn [qlabels map rlabel_of] in Dn. now inversion Dn. }
    assert (Hlq' : ~ In l (qlabels (rqueue s'))).
    { rewrite Hq in Dn. cbn [qlabels map rlabel_of] in Dn. now inversion Dn. }
    constructor; rewrite ?Hs, ?Hk, ?Hn, ?Hu, ?Hd.
    + intros k lab Hin. apply in_app_or in Hin as [Hin|[Hin|[]]]; apply in_or_app; [left; now apply Dsub|right; now left].
    + intros k lab Hin. apply in_app_or in Hin as [Hin|[Hin|[]]]; [apply Dlt in Hin; lia|]. injection Hin as <- <-. lia.
    + rewrite map_app. cbn [map fst]. now apply NoDup_app_intro_snoc.
    + rewrite map_app. cbn [map snd]. now apply NoDup_app_intro_snoc.
    + intros k lab Hin. apply in_app_or in Hin as [Hin|[Hin|[]]].
      * destruct (Du _ _ Hin) as [H1 H2]. split; [exact H1|]. intros Hin'. apply H2. rewrite Hq. now right.
      * injection Hin as <- <-. split; [now apply Dq|exact Hlq'].
    + intros l0 Hin. apply Dq. rewrite Hq. now right.
    + exact Hqn.
    + intros fn Hin. specialize (Dc fn Hin). lia.
    + intros fn Hin. pose proof (Dc fn Hin) as Hcnt. specialize (Dd fn Hin). unfold discard_justified in *. rewrite Hs, Hk.
      destruct (fst fn) as [m|c|t]; auto. destruct (m_cid m) as [[k|j]|]; auto.
      destruct Dd as [Hle|Hj]; [now left|].
      destruct (N.le_gt_cases (snd fn) k) as [Hle|Hgt]; [now left|right].
      destruct (lookup_key k (h_keys (rgh s))) as [lab|] eqn:El.
      * rewrite (lookup_key_app_some _ _ _ _ El). unfold labels. rewrite map_app. cbn [map snd].
        intros Hin'. apply in_app_or in Hin' as [Hin'|[Hin'|[]]]; [now apply Hj|].
        subst lab. apply lookup_key_In in El. apply Hlnew. change l with (snd (k, l)). now apply in_map.
      * rewrite (lookup_key_app_none _ _ _ El). cbn [lookup_key].
        destruct (N.eqb_spec k (next_id s)) as [->|Hne]; [|exact I].
        (* the counter recorded with the discarded reply is at most the current one *)
        lia.
  - (* a replier leaves the queue *)
    assert (Hqn : NoDup (qlabels (rqueue s'))).
    { rewrite Hq in Dn. cbn [qlabels map] in Dn. now inversion Dn. }
    constructor; rewrite ?Hs, ?Hk, ?Hn, ?Hu, ?Hd; auto.
    + intros k lab Hin. destruct (Du _ _ Hin) as [H1 H2]. split; [exact H1|]. intros Hin'. apply H2. rewrite Hq. now right.
    + intros l0 Hin. apply Dq. rewrite Hq. now right.
    + intros fn Hin. apply (justified_same s s'); auto. now rewrite Hs.
  - (* a new registration is queued: its label is fresh *)
    assert (Hnew : ~ In (rlabel_of q) (h_used (rgh s))) by (intros Hin; apply memb_In in Hin; congruence).
    constructor; rewrite ?Hs, ?Hk, ?Hn, ?Hq, ?Hu, ?Hd; auto.
    + intros k lab Hin. destruct (Du _ _ Hin) as [H1 H2]. split; [now right|].
      unfold qlabels. rewrite map_app. cbn [map]. intros Hin'. apply in_app_or in Hin' as [Hin'|[Hin'|[]]]; [now apply H2|].
      apply Hnew. now rewrite Hin'.
    + intros l0 Hin. unfold qlabels in Hin. rewrite map_app in Hin. cbn [map] in Hin.
      apply in_app_or in Hin as [Hin|[Hin|[]]]; [right; now apply Dq|now left].
    + unfold qlabels. rewrite map_app. cbn [map]. apply NoDup_app_intro_snoc; [exact Dn|].
      intros Hin. apply Hnew. now apply Dq.
    + intros fn Hin. apply (justified_same s s'); auto. now rewrite Hs.
  - (* a reply is discarded: its tag names no registered requestor *)
    constructor; rewrite ?Hs, ?Hk, ?Hn, ?Hq, ?Hu; auto.
    { intros fn Hin. rewrite Hd in Hin. apply in_app_or in Hin as [Hin|[Hin|[]]]; [now apply Dc|]. subst fn. cbn [snd]. lia. }
    intros fn Hin. rewrite Hd in Hin. apply in_app_or in Hin as [Hin|[Hin|[]]].
    + apply (justified_same s s'); auto. now rewrite Hs.
    + subst fn. unfold discard_justified. cbn [fst snd]. rewrite Hs, Hk.
      unfold route in Hroute. destruct f as [m|c|t]; auto. destruct (m_cid m) as [[k|j]|]; auto.
      destruct (lookup_key k (rsinks s)) as [lab0|] eqn:El; [discriminate|].
      right. destruct (lookup_key k (h_keys (rgh s))) as [lab|] eqn:Ek; [|exact I].
      intros Hin. unfold labels in Hin. apply in_map_iff in Hin as ([k' lab'] & Hlab & Hin). cbn in Hlab. subst lab'.
      (* (k', lab) is a sink, hence a key entry; (k, lab) is a key entry; labels are unique *)
      pose proof (Dsub _ _ Hin) as Hin1. pose proof (lookup_key_In _ _ _ Ek) as Hin2.
      assert (k' = k).
      { clear - Dl Hin1 Hin2. induction (h_keys (rgh s)) as [|[a b] r IH]; [contradiction|].
        cbn [map snd] in Dl. inversion Dl as [|? ? Hnot Hnd]; subst.
        destruct Hin1 as [H1|H1], Hin2 as [H2|H2].
        - congruence.
        - injection H1 as -> ->. exfalso. apply Hnot. change lab with (snd (k, lab)). now apply in_map.
        - injection H2 as -> ->. exfalso. apply Hnot. change lab with (snd (k', lab)). now apply in_map.
        - now apply IH. }
      subst k'.
      (* lookup_key k (rsinks s) = None, yet (k, lab) is in rsinks *)
      clear - El Hin. induction (rsinks s) as [|[a b] r IH]; [contradiction|].
      cbn [lookup_key] in El. destruct (N.eqb_spec k a) as [->|Hne]; [discriminate|].
      destruct Hin as [Hin|Hin]; [congruence|now apply IH].
Qed.

Theorem rr_discards_justified tr s : rrun rinit tr = Some s ->
  forall fn, In fn (h_reps_discarded (rgh s)) -> discard_justified s fn.
Proof.
  intros H. assert (HI : DInv s).
  { revert H. apply (lift_run DInv); [| |exact dinv_init].
    - intros a b Ha Hi. apply (dinv_effect a b Ha). now apply rinternal_disc.
    - intros a e b Ha Hr. apply (dinv_effect a b Ha). now apply rstep_raw_disc with e. }
  exact (d_disc _ HI).
Qed.


(** * The router parks (without a sink having said Pending) only with empty buffers (C09) *)

(** control points of the loop body after the buffered reply has been dealt with *)
Definition past_reply (c : rpc) : bool :=
  match c with
  | RStreamsStart | RStreams _ _ _ | RDoneFlushRouter _ | RDoneFlushSrv
  | RBothCheck | RBothFlushRouter _ | RBothFlushSrv => true
  | _ => false
  end.
(** ... after the rejection slot has been drained *)
Definition past_err (c : rpc) : bool :=
  match c with
  | RHandle | RServerCheck | RServerPoll | RSrvEndFlushSrv | RSrvEndFlushRouter _
  | RRepCheck | RRepReady _ | RRepSend => true
  | c => past_reply c
  end.
(** ... where the loop decides to park *)
Definition parking (c : rpc) : bool :=
  match c with RBothCheck | RBothFlushRouter _ | RBothFlushSrv => true | _ => false end.
(** ... within one iteration before the requestor streams have all been polled *)
Definition stp_clear (c : rpc) : bool :=
  match c with
  | RReqReady | RReqSend | RErrSlot | RErrReady _ | RErrSend _ | RErrClose _ | RHandle
  | RServerCheck | RServerPoll | RSrvEndFlushSrv | RSrvEndFlushRouter _
  | RRepCheck | RRepReady _ | RRepSend | RStreamsStart | RStreams _ _ _ => true
  | _ => false
  end.

(** ... where a buffered request can only be waiting for a replier that is not there *)
Definition no_req (c : rpc) : bool :=
  match c with RDoneFlushRouter _ | RDoneFlushSrv => true | c => before_streams c end.

Definition DrainInv (s : rst) : Prop :=
  (past_reply (rctl s) = true -> b_rep s = None)
  /\ (past_err (rctl s) = true -> b_err s = None)
  /\ (stp_clear (rctl s) = true -> stp s = false)
  /\ (no_req (rctl s) = true -> b_req s = None \/ server s = None)
  /\ (parking (rctl s) = true -> stp s = true -> b_req s = None \/ server s = None)
  /\ (match rctl s with RBothFlushRouter _ | RBothFlushSrv => stp s = true | _ => True end).

Definition drained (s : rst) : Prop := b_rep s = None /\ b_err s = None /\ (b_req s = None \/ server s = None).

Ltac drain_solve :=
  match goal with
  | |- _ /\ _ => split; drain_solve
  | |- _ => try discriminate; intros;
            first [ reflexivity | discriminate | assumption | exact I | (left; reflexivity) | (right; reflexivity)
                  | (exfalso; match goal with Hp : is_sink_ev_on _ _ ?e = Some RPending, Hf : rr_pending_answer ?e = false |- _ =>
                       rewrite (is_sink_ev_on_pending _ _ _ Hp) in Hf; discriminate end)
                  | solve [subst; cbn [rr_pending_answer] in *; intuition (try congruence; try discriminate)] ]
  end.

Lemma draininv_internal s s' : DrainInv s -> rinternal s = Some s' ->
  DrainInv s' /\ (rctl s' = RReturn false -> drained s').
Proof.
  unfold DrainInv, drained. intros (H1 & H2 & H3 & H4 & H5 & H6) H. unfold rinternal in H.
  crush_matches H; injection H as <-;
    try match goal with Hc : rctl s = _ |- _ => rewrite Hc in H1, H2, H3, H4, H5, H6 end;
    cbn [past_reply past_err parking stp_clear no_req before_streams] in H1, H2, H3, H4, H5;
    rsimp; cbn [past_reply past_err parking stp_clear no_req before_streams];
    repeat match goal with Hb : _ && _ = true |- _ => apply andb_prop in Hb; destruct Hb end;
    repeat match goal with Hb : _ = _ |- _ => progress (rewrite Hb in * ) end;
    drain_solve.
Qed.

Lemma draininv_step_raw s e s' : DrainInv s -> rstep_raw s e = Some s' ->
  DrainInv s' /\ (rctl s' = RReturn false -> rr_pending_answer e = false -> drained s').
Proof.
  unfold DrainInv, drained. intros (H1 & H2 & H3 & H4 & H5 & H6) H. unfold rstep_raw, router_pass in H.
  crush_matches H; injection H as <-;
    try match goal with Hc : rctl s = _ |- _ => rewrite Hc in H1, H2, H3, H4, H5, H6 end;
    cbn [past_reply past_err parking stp_clear no_req before_streams] in H1, H2, H3, H4, H5;
    rsimp; try match goal with Hc : rctl s = _ |- _ => rewrite ?Hc end;
    cbn [past_reply past_err parking stp_clear no_req before_streams];
    repeat match goal with Hb : _ && _ = true |- _ => apply andb_prop in Hb; destruct Hb end;
    repeat match goal with Hb : _ = _ |- _ => progress (rewrite Hb in * ) end;
    drain_solve.
Qed.

Lemma drain_settle fuel : forall s s',
  DrainInv s -> rsettle fuel s = Some s' ->
  DrainInv s' /\ (rctl s' = RReturn false -> s' = s \/ drained s').
Proof.
  induction fuel as [|k IH]; intros s s' HD H; cbn [rsettle] in H; [discriminate|].
  destruct (rinternal s) as [s1|] eqn:E.
  - destruct (draininv_internal _ _ HD E) as [HD1 Hret].
    destruct (IH s1 s' HD1 H) as (HD' & Hsame).
    split; [exact HD'|]. intros Hr. right. destruct (Hsame Hr) as [->|Hd]; [now apply Hret|exact Hd].
  - injection H as <-. split; [exact HD|]. intros _. now left.
Qed.

Lemma draininv_init : DrainInv rinit.
Proof. unfold DrainInv. cbn. repeat split; try discriminate; intros; try discriminate; auto. Qed.

(** when a poll returns Pending in a step in which no sink answered Pending -- the router parks on
    its streams and on the registration channel -- nothing it could still act on is buffered:
    no reply, no rejection, and a request only if no replier is bound *)
Theorem rr_parks_only_when_drained tr s e s' :
  rrun rinit tr = Some s -> rstep s e = Some s' -> rctl s' = RReturn false -> rr_pending_answer e = false ->
  drained s'.
Proof.
  intros Hrun Hstep Hret Hnp.
  assert (HD : DrainInv s).
  { revert Hrun. apply (lift_run DrainInv).
    - intros a b Ha Hi. exact (proj1 (draininv_internal a b Ha Hi)).
    - intros a ev b Ha Hr. exact (proj1 (draininv_step_raw a ev b Ha Hr)).
    - exact draininv_init. }
  unfold rstep, obind in Hstep.
  destruct (rsettled s) as [s0|] eqn:E0; [|discriminate].
  destruct (drain_settle _ _ _ HD E0) as (HD0 & _).
  assert (Hone : forall a, DrainInv a ->
                 match rstep_raw a e with Some x => rsettled x | None => None end = Some s' -> drained s').
  { intros a Ha Hb. destruct (rstep_raw a e) as [x|] eqn:Ex; [|discriminate].
    destruct (draininv_step_raw _ _ _ Ha Ex) as [HDx Hp].
    destruct (drain_settle _ _ _ HDx Hb) as (_ & Hsame).
    destruct (Hsame Hret) as [->|Hd]; [now apply Hp|exact Hd]. }
  destruct (rctl s0) eqn:Ec0; try (now apply Hone with s0).
  destruct e; try (now apply Hone with s0).
  destruct (rstep_raw s0 (VStream l r)) as [s1|] eqn:E1; [|discriminate].
  destruct (draininv_step_raw _ _ _ HD0 E1) as [HD1 _].
  now apply Hone with s1.
Qed.


(** * A refused replier is told, then closed (C10) *)

(** the rejection of replier [l] is under way: it sits in the one-slot buffer, or the router is at
    one of the three calls on its sink *)
Definition rejecting (s : rst) (l : N) : Prop :=
  match b_err s with Some (_, l') => l' = l | None => False end
  \/ rctl s = RErrReady l \/ rctl s = RErrSend l \/ rctl s = RErrClose l.

Definition RejInv (s : rst) : Prop :=
  (forall l, In l (h_closed (rgh s)) -> In l (h_told (rgh s)))
  /\ (forall l, b_err s = Some (false, l) -> In l (h_told (rgh s)))
  /\ (match rctl s with RErrClose l => In l (h_told (rgh s)) | _ => True end)
  /\ (past_err (rctl s) = true -> b_err s = None)
  /\ (match rctl s with RErrReady _ | RErrSend _ | RErrClose _ => b_err s = None | _ => True end)
  /\ (forall l, In l (h_rejected (rgh s)) ->
        In l (h_closed (rgh s)) \/ In l (h_rej_failed (rgh s)) \/ rejecting s l).

Ltac rej_solve H1 H2 H3 H5 H6 :=
  unfold rejecting in *; rsimp; cbn [past_err past_reply In] in *;
  repeat match goal with |- _ /\ _ => split end;
  intros; cbn [In] in *; try discriminate;
  try match goal with x : N |- _ =>
        pose proof (H1 x); pose proof (H2 x); pose proof (H6 x);
        clear H1 H2 H6 end;
  repeat match goal with Hin : In _ (_ ++ _) |- _ => apply in_app_or in Hin; cbn [In] in Hin end;
  repeat match goal with Hh : ?a = ?a -> _ |- _ => specialize (Hh eq_refl) end;
  repeat match goal with Hc : rctl ?s = ?v |- _ => progress (rewrite Hc in * ) end;
  repeat match goal with Hb : b_err ?s = ?v |- _ => progress (rewrite Hb in * ) end;
  repeat match goal with Hd : (_ = _) \/ _ |- _ => destruct Hd as [Hd|Hd]; try discriminate end;
  repeat match goal with
         | Hi : RErrClose _ = RErrClose _ |- _ => injection Hi as ?; subst
         | Hi : RErrReady _ = RErrReady _ |- _ => injection Hi as ?; subst
         | Hi : RErrSend _ = RErrSend _ |- _ => injection Hi as ?; subst
         | Hi : Some (_, _) = Some (_, _) |- _ => injection Hi as ? ?; subst
         end;
  repeat match goal with
         | Hh : ?a = ?a -> _ |- _ => specialize (Hh eq_refl)
         | Hh : (?a = ?a \/ _) -> _ |- _ => specialize (Hh (or_introl eq_refl))
         | Hh : (_ \/ ?a = ?a \/ _) -> _ |- _ => specialize (Hh (or_intror (or_introl eq_refl)))
         | Hh : (_ \/ _ \/ ?a = ?a) -> _ |- _ => specialize (Hh (or_intror (or_intror eq_refl)))
         end;
  try solve [intuition (subst; try congruence; try discriminate; eauto)].

Lemma rejinv_internal s s' : RejInv s -> rinternal s = Some s' -> RejInv s'.
Proof.
  unfold RejInv. intros (H1 & H2 & H3 & H4 & H5 & H6) H. unfold rinternal in H.
  crush_matches H; injection H as <-;
    try match goal with Hc : rctl s = _ |- _ => rewrite Hc in H3, H4, H5 end;
    cbn [past_err past_reply] in H4;
    repeat match goal with Hb : b_err s = _ |- _ => rewrite Hb in * end;
    rej_solve H1 H2 H3 H5 H6.
Qed.

Lemma rejinv_step_raw s e s' : RejInv s -> rstep_raw s e = Some s' -> RejInv s'.
Proof.
  unfold RejInv. intros (H1 & H2 & H3 & H4 & H5 & H6) H. unfold rstep_raw, router_pass in H.
  crush_matches H; injection H as <-;
    try match goal with Hc : rctl s = _ |- _ => rewrite Hc in H3, H4, H5 end;
    cbn [past_err past_reply] in H4;
    repeat match goal with Hb : b_err s = _ |- _ => rewrite Hb in * end;
    rej_solve H1 H2 H3 H5 H6.
Qed.

Lemma rejinv_init : RejInv rinit.
Proof. unfold RejInv. cbn. repeat split; intros; try contradiction; try discriminate; auto. Qed.

(** every replier that was refused because another one was bound is, at any moment, either being
    dealt with (its rejection is in the one-slot buffer or the router is calling its sink), or done
    with: [poll_close] completed on its sink -- and then the replier-already-bound error frame had
    been accepted by that sink before -- or its sink failed before the frame could be written *)
Theorem rr_rejected_told_then_closed tr s : rrun rinit tr = Some s ->
  (forall l, In l (h_closed (rgh s)) -> In l (h_told (rgh s)))
  /\ (forall l, In l (h_rejected (rgh s)) ->
         In l (h_closed (rgh s)) \/ In l (h_rej_failed (rgh s)) \/ rejecting s l).
Proof.
  intros H. assert (HI : RejInv s).
  { revert H. apply (lift_run RejInv); [exact rejinv_internal|exact rejinv_step_raw|exact rejinv_init]. }
  destruct HI as (H1 & _ & _ & _ & _ & H6). split; assumption.
Qed.

