(** C14 — property theorems (statements and [exact]s only).
    PARTIAL by nature: the compression algorithms are third-party code; what is proved about
    them is that selium's wrappers pair the same format on both sides, finish the encoders
    (translator facts) and keep presets within range; [decompress (compress b) = b] itself is the
    contract checked by the run over every algorithm, mode and level. *)
Require Import Selium.Base Selium.Bytes Selium.Utf8 Selium.Bincode Selium.Wire Selium.Transforms
               Selium.ClientPubSub Selium.P_Transforms.
Require Import SeliumGen.CompFacts.
Open Scope N_scope.

Theorem c14_string_roundtrip : forall s, utf8_valid s = true -> string_decode (string_encode s) = Some s.
Proof. exact string_roundtrip. Qed.
Print Assumptions c14_string_roundtrip.

Theorem c14_string_never_wrong : forall b s, string_decode b = Some s -> s = b /\ utf8_valid b = true.
Proof. exact string_never_wrong. Qed.
Print Assumptions c14_string_never_wrong.

Theorem c14_bytes_roundtrip : forall v, bytes_decode (bytes_encode v) = Some v.
Proof. exact bytes_roundtrip. Qed.
Print Assumptions c14_bytes_roundtrip.

Theorem c14_bincode_roundtrip : forall (A : Type) (c : codec A) (a : A),
  codec_ok c -> wf c a -> bincode_decode c (bincode_encode c a) = Some a.
Proof. exact @bincode_roundtrip. Qed.
Print Assumptions c14_bincode_roundtrip.

Theorem c14_item_types_ok : codec_ok c_Dummy /\ codec_ok c_VecString /\ codec_ok c_OptT.
Proof. exact (conj c_Dummy_ok (conj c_VecString_ok c_OptT_ok)). Qed.
Print Assumptions c14_item_types_ok.

Theorem c14_wrappers_pair_formats :
  deflate_comp_gzip = deflate_decomp_gzip /\ deflate_comp_zlib = deflate_decomp_zlib /\
  deflate_comp_gzip <> deflate_comp_zlib /\
  deflate_comp_ctor_gzip = deflate_comp_gzip /\ deflate_decomp_ctor_gzip = deflate_decomp_gzip /\
  deflate_comp_ctor_zlib = deflate_comp_zlib /\ deflate_decomp_ctor_zlib = deflate_decomp_zlib /\
  zstd_comp = zstd_decomp /\ lz4_comp = lz4_decomp /\ brotli_comp = brotli_decomp.
Proof. exact wrappers_pair_formats. Qed.
Print Assumptions c14_wrappers_pair_formats.

Theorem c14_presets_in_range :
  deflate_fast <= 9 /\ deflate_default <= 9 /\ deflate_best <= 9 /\
  1 <= zstd_FASTEST_COMPRESSION /\ zstd_HIGHEST_COMPRESSION <= 22 /\
  zstd_FASTEST_COMPRESSION <= zstd_RECOMMENDED_COMPRESSION /\ zstd_RECOMMENDED_COMPRESSION <= zstd_HIGHEST_COMPRESSION /\
  brotli_FASTEST_COMPRESSION <= brotli_RECOMMENDED_COMPRESSION /\ brotli_RECOMMENDED_COMPRESSION <= brotli_HIGHEST_COMPRESSION /\
  brotli_HIGHEST_COMPRESSION <= 11.
Proof. exact presets_in_range. Qed.
Print Assumptions c14_presets_in_range.

Theorem c14_wire_composition :
  forall (item : Type) (encode : item -> bytes) (decode : bytes -> option item)
         (compress : bytes -> bytes) (decompress : bytes -> option bytes),
  (forall x, decode (encode x) = Some x) ->
  (forall b, decompress (compress b) = Some b) ->
  (forall x, blen (encode x) < 2 ^ 64) ->
  forall xs, N.of_nat (List.length xs) < 2 ^ 64 ->
  sub_frame item decode decompress (WBatch (compress (encode_batch (map encode xs)))) = SubItems item xs.
Proof. exact wire_composition. Qed.
Print Assumptions c14_wire_composition.
