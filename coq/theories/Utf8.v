(** UTF-8 well-formedness exactly as [core::str::from_utf8] decides it (Unicode Table 3-7). *)
Require Import Selium.Base Selium.Bytes.
Open Scope N_scope.

Definition between (lo hi x : N) : bool := (lo <=? x) && (x <=? hi).
Definition cont (x : N) : bool := between 128 191 x.

Fixpoint utf8_valid (b : bytes) : bool :=
  match b with
  | [] => true
  | b0 :: r =>
    if b0 <? 128 then utf8_valid r
    else if between 194 223 b0 then
      match r with b1 :: r1 => cont b1 && utf8_valid r1 | _ => false end
    else if between 224 239 b0 then
      match r with
      | b1 :: b2 :: r2 =>
        (if b0 =? 224 then between 160 191 b1
         else if b0 =? 237 then between 128 159 b1
         else cont b1) && cont b2 && utf8_valid r2
      | _ => false
      end
    else if between 240 244 b0 then
      match r with
      | b1 :: b2 :: b3 :: r3 =>
        (if b0 =? 240 then between 144 191 b1
         else if b0 =? 244 then between 128 143 b1
         else cont b1) && cont b2 && cont b3 && utf8_valid r3
      | _ => false
      end
    else false
  end.
