(** A matcher for the regex fragment the topic-name grammar uses: an anchored sequence of
    literal characters and (optionally capturing) bounded repetitions of a character class.
    Strings are lists of Unicode scalar values.  Greedy with backtracking, like the regex
    crate's leftmost-first semantics on this fragment. *)
Require Import Selium.Base.
Open Scope N_scope.

Definition class := list (N * N).   (* inclusive ranges *)

Fixpoint in_class (cls : class) (c : N) : bool :=
  match cls with
  | [] => false
  | (lo, hi) :: r => ((lo <=? c) && (c <=? hi)) || in_class r c
  end.

Inductive item :=
| Lit (c : N)
| Rep (cls : class) (lo hi : nat) (capture : bool).

(** number of leading characters of [s] that belong to [cls] (at most [limit]) *)
Fixpoint span (cls : class) (limit : nat) (s : list N) : nat :=
  match limit, s with
  | S l, c :: r => if in_class cls c then S (span cls l r) else O
  | _, _ => O
  end.

Section Matcher.
  Variable rest_match : list N -> option (list (list N)).
  (** try repetition counts k, k-1, ..., lo; the first [k] characters are known to be in the class *)
  Fixpoint try_counts (capture : bool) (lo : nat) (s : list N) (k : nat) : option (list (list N)) :=
    let here :=
      if Nat.leb lo k then
        match rest_match (skipn k s) with
        | Some caps => Some (if capture then firstn k s :: caps else caps)
        | None => None
        end
      else None in
    match here with
    | Some r => Some r
    | None => match k with O => None | S k' => try_counts capture lo s k' end
    end.
End Matcher.

(** anchored at both ends; returns the captured groups in order *)
Fixpoint match_items (its : list item) (s : list N) : option (list (list N)) :=
  match its with
  | [] => match s with [] => Some [] | _ => None end
  | Lit c :: r =>
    match s with
    | x :: s' => if x =? c then match_items r s' else None
    | [] => None
    end
  | Rep cls lo hi capture :: r =>
    try_counts (match_items r) capture lo s (span cls hi s)
  end.

Definition is_match (its : list item) (s : list N) : bool :=
  match match_items its s with Some _ => true | None => false end.

Fixpoint starts_with (pre s : list N) : bool :=
  match pre, s with
  | [], _ => true
  | p :: pr, c :: sr => (p =? c) && starts_with pr sr
  | _ :: _, [] => false
  end.
