(** C12 — property theorems (statements and [exact]s only).
    PARTIAL: wall-clock behaviour (sleeps, QUIC timeouts) and the actual re-registration are
    runtime; the theorems are about the retry-budget state machines and the translated error
    classification; the net scenarios cut real connections and observe all four stream kinds. *)
Require Import Selium.Base Selium.KeepAlive Selium.P_KeepAlive.
Require Import SeliumGen.KeepAliveFacts.
Open Scope N_scope.

Theorem c12_pubsub_fresh_budget_per_outage : forall budget hist,
  fold_left (ps_step budget) hist Connected = Connected ->
  ps_step budget (fold_left (ps_step budget) hist Connected) KLost = next_attempt budget.
Proof. exact ps_fresh_budget. Qed.
Print Assumptions c12_pubsub_fresh_budget_per_outage.

Theorem c12_pubsub_exhaustion_reported : forall budget e,
  is_recoverable_error e = true -> fold_left (ps_step budget) (KLost :: fails budget e) Connected = Exhausted.
Proof. exact ps_exhaustion. Qed.
Print Assumptions c12_pubsub_exhaustion_reported.

Theorem c12_pubsub_recovers_within_budget : forall budget e j,
  is_recoverable_error e = true -> (j < budget)%nat ->
  fold_left (ps_step budget) (KLost :: fails j e ++ [KAttemptOk]) Connected = Connected.
Proof. exact ps_fewer_failures_then_ok. Qed.
Print Assumptions c12_pubsub_recovers_within_budget.

Theorem c12_exhausted_is_final : forall budget hist, fold_left (ps_step budget) hist Exhausted = Exhausted.
Proof. exact ps_exhausted_absorbing. Qed.
Print Assumptions c12_exhausted_is_final.

Theorem c12_unrecoverable_immediate : forall budget k e,
  is_recoverable_error e = false -> ps_step budget (Disconnected k) (KAttemptErr e) = Failed e.
Proof. exact ps_unrecoverable_immediate. Qed.
Print Assumptions c12_unrecoverable_immediate.

Theorem c12_reqrep_fresh_budget_per_outage : forall budget s,
  r_status s = Connected -> rr_step budget s RLost = rr_try budget.
Proof. exact rr_fresh_budget. Qed.
Print Assumptions c12_reqrep_fresh_budget_per_outage.

Theorem c12_reqrep_exhaustion_reported : forall budget e,
  is_recoverable_error e = true ->
  r_status (fold_left (rr_step budget) (RLost :: rfails budget e) (r_init budget)) = Exhausted.
Proof. exact rr_exhaustion. Qed.
Print Assumptions c12_reqrep_exhaustion_reported.

Theorem c12_reqrep_squatted_topic_exhausts : forall budget,
  r_status (fold_left (rr_step budget) (RLost :: refusals budget) (r_init budget)) = Exhausted.
Proof. exact rr_squatted_topic_exhausts. Qed.
Print Assumptions c12_reqrep_squatted_topic_exhausts.

Theorem c12_error_classification :
  is_recoverable_error (EOpenStream REPLIER_ALREADY_BOUND) = true /\
  is_recoverable_error (EOpenStream INVALID_TOPIC_NAME) = false /\
  is_recoverable_error EQuicConnection = true /\
  is_recoverable_error (EIo IoNotConnected) = true /\ is_recoverable_error (EIo IoConnectionReset) = true /\
  is_recoverable_error (EIo IoOther) = false /\ is_recoverable_error EOther = false.
Proof. exact classification. Qed.
Print Assumptions c12_error_classification.
