(** Base definitions shared by every model: explicit outcomes (values, errors,
    panics), and small list helpers.  No proofs about the code live here. *)
From Coq Require Export String.
From Coq Require Export List Bool Arith NArith ZArith Lia.
Export ListNotations.
Open Scope N_scope.

(** A Rust computation either yields a value or panics at a named site.
    Panics are never hidden by totalisation: "never panics" is a statement. *)
Inductive outcome (A : Type) : Type :=
| Val (a : A)
| Panic (site : string).
Arguments Val {A} a.
Arguments Panic {A} site.

Definition bind {A B} (m : outcome A) (f : A -> outcome B) : outcome B :=
  match m with Val a => f a | Panic s => Panic s end.

Definition bind2 {A B C} (m1 : outcome A) (m2 : outcome B) (f : A -> B -> outcome C) : outcome C :=
  bind m1 (fun a => bind m2 (fun b => f a b)).

Definition omap {A B} (f : A -> B) (m : outcome A) : outcome B :=
  bind m (fun a => Val (f a)).

Definition no_panic {A} (m : outcome A) : Prop :=
  match m with Val _ => True | Panic _ => False end.

Definition is_val {A} (m : outcome A) : bool :=
  match m with Val _ => true | Panic _ => false end.

Notation "'do' x <- m ; k" := (bind m (fun x => k))
  (at level 200, x name, m at level 100, k at level 200, right associativity).

Lemma bind_val {A B} (a : A) (f : A -> outcome B) : bind (Val a) f = f a.
Proof. reflexivity. Qed.

Arguments N.add : simpl never.
Arguments N.sub : simpl never.
Arguments N.mul : simpl never.
Arguments N.div : simpl never.
Arguments N.modulo : simpl never.
Arguments N.pow : simpl never.
Arguments N.eqb : simpl never.
Arguments N.ltb : simpl never.
Arguments N.leb : simpl never.
Arguments N.min : simpl never.
Arguments N.max : simpl never.
