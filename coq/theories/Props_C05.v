(** C05 — property theorems (statements and [exact]s only).  [encode]/[decode]/[run_feed]/
    [encode_batch]/[decode_batch] are the model of protocol/src/{codec,utils}.rs (Wire.v) over
    the frame type, layouts, tags and limits regenerated from protocol/src/{frame,codec,...}.rs.
    [wire_ok f] = every string inside [f] is valid UTF-8 (as Rust's String guarantees), lengths
    fit u64, and the serialized payload is within the limit.  Header maps: the encoder's
    iteration order is whatever list order [f] carries, so the theorems hold for every order. *)
Require Import Selium.Base Selium.Bytes Selium.Bincode Selium.Wire Selium.P_Wire.
Require Import SeliumGen.Layouts.
Open Scope N_scope.

(** decoding the encoding yields the same frame and consumes exactly the bytes written *)
Theorem c05_roundtrip : forall f rest,
  wire_ok f -> encode f = EncOk (enc_bytes f) /\ decode (enc_bytes f ++ rest) = Val (Got f rest, []).
Proof. intros f rest H. split; [apply encode_ok; apply H|apply decode_encode; exact H]. Qed.
Print Assumptions c05_roundtrip.

(** the 8-byte big-endian prefix equals the payload length *)
Theorem c05_prefix_is_length : forall f b,
  encode f = EncOk b ->
  be_val (firstn 8 b) = frame_length f /\ blen b = 9 + frame_length f /\ frame_length f = blen (frame_payload f).
Proof. exact prefix_is_payload_length. Qed.
Print Assumptions c05_prefix_is_length.

(** however the concatenated encodings are cut into chunks, the streaming decoder yields the
    same frames in the same order and is left with an empty buffer *)
Theorem c05_chunking : forall fs chunks,
  Forall wire_ok fs -> concat chunks = stream fs ->
  run_feed chunks = Val (fs, {| r_buf := []; r_failed := false |}).
Proof. exact chunking. Qed.
Print Assumptions c05_chunking.

(** the encoder refuses exactly the payloads above the limit *)
Theorem c05_encoder_limit : forall f,
  (exists len, encode f = EncTooLarge len) <-> MAX_MESSAGE_SIZE < frame_length f.
Proof. exact encoder_limit. Qed.
Print Assumptions c05_encoder_limit.

Theorem c05_limit_is_one_mebibyte : MAX_MESSAGE_SIZE = 1048576.
Proof. exact MAX_val. Qed.
Print Assumptions c05_limit_is_one_mebibyte.

(** a length prefix above the limit is refused as soon as the 9 header bytes are present,
    whatever follows: nothing of the payload needs to be buffered *)
Theorem c05_decoder_limit_early : forall src,
  9 <= blen src -> MAX_MESSAGE_SIZE < be_val (firstn 8 src) -> decode src = Val (Fail, []).
Proof. exact decoder_limit_early. Qed.
Print Assumptions c05_decoder_limit_early.

(** unbatching the encoding of a list of messages returns the same messages in the same order *)
Theorem c05_batch_roundtrip : forall ms,
  N.of_nat (List.length ms) < 2 ^ 64 -> Forall (fun m => blen m < 2 ^ 64) ms ->
  exists cap, decode_batch (encode_batch ms) = Val (ms, cap).
Proof. exact batch_roundtrip. Qed.
Print Assumptions c05_batch_roundtrip.

(** Non-vacuity: a Message frame with two headers and a registration frame are [wire_ok]. *)
Example c05_wire_ok_example :
  wire_ok (F_Message {| mp_headers := Some [([99; 105; 100], [49]); ([195; 169], [])]; mp_message := [1; 2; 3] |})
  /\ wire_ok (F_RegisterPublisher {| pp_topic := {| tn_namespace := [110; 115; 112]; tn_topic := [116; 111; 112] |};
                                     pp_retention_policy := 5; pp_operations := [Operation_Map [97]; Operation_Filter []] |}).
Proof.
  split; (split; [|vm_compute; discriminate]); cbn -[N.lt N.pow]; repeat split;
    repeat constructor; try (vm_compute; reflexivity); try discriminate.
Qed.
