(** C09 — the pub/sub router never parks without a registered waker: a step-effect argument over
    the control points of one poll (the registration channel is polled to Pending before any
    path that returns Pending without an armed sink). *)
Require Import Selium.Base Selium.PubSub Selium.PubSubSpec Selium.P_Vec Selium.P_PubSub.
Open Scope N_scope.

Ltac crush_matches H :=
  repeat match type of H with
         | context[match ?x with _ => _ end] => destruct x eqn:?; try discriminate
         | context[if ?x then _ else _] => destruct x eqn:?; try discriminate
         end.

Section LiftPs.
  Variable I : st -> Prop.
  Hypothesis Hint : forall s s', I s -> internal s = Some s' -> I s'.
  Hypothesis Hraw : forall s e s', I s -> step_raw s e = Some s' -> I s'.

  Lemma ps_lift_settle fuel : forall s s', I s -> settle fuel s = Some s' -> I s'.
  Proof.
    induction fuel as [|k IH]; intros s s' HI H; cbn [settle] in H; [discriminate|].
    destruct (internal s) as [s1|] eqn:E.
    - apply (IH s1); [now apply Hint with s|exact H].
    - now injection H as <-.
  Qed.

  Lemma ps_lift_step s e s' : I s -> step s e = Some s' -> I s'.
  Proof.
    intros HI H. unfold step, obind in H.
    destruct (settled s) as [s0|] eqn:E0; [|discriminate].
    assert (H0 : I s0) by (unfold settled in E0; now apply ps_lift_settle with (settle_fuel s) s).
    assert (Hone : forall a b, I a -> match step_raw a e with Some x => settled x | None => None end = Some b -> I b).
    { intros a b Ha Hb. destruct (step_raw a e) as [x|] eqn:Ex; [|discriminate].
      unfold settled in Hb. apply ps_lift_settle with (settle_fuel x) x; [now apply Hraw with a e|exact Hb]. }
    destruct (ctl s0); try (now apply Hone with s0).
    destruct e; try (now apply Hone with s0).
    destruct (step_raw s0 (EStream j r)) as [s1|] eqn:E1; [|discriminate].
    apply Hone with s1; [now apply Hraw with s0 (EStream j r)|exact H].
  Qed.

  Lemma ps_lift_run tr : forall s s', I s -> run s tr = Some s' -> I s'.
  Proof.
    induction tr as [|e tr IH]; intros s s' HI H; cbn [run] in H; [now injection H as <-|].
    destruct (step s e) as [s1|] eqn:E; [|discriminate].
    apply (IH s1); [now apply ps_lift_step with s e|exact H].
  Qed.
End LiftPs.

Definition ps_after_handle (c : pc) : bool :=
  match c with
  | PStreamsStart | PStreams _ _ _ => true
  | PFlush _ FlHandleClosed => false
  | PFlush _ _ => true
  | _ => false
  end.

Definition ps_some_sink_armed (s : st) : Prop := exists k, is_armed (SSink k) (armed s) = true.

Definition PsParkInv (s : st) : Prop :=
  (ps_after_handle (ctl s) = true -> h_armed s = true)
  /\ (ctl s = PReturn false -> ps_some_sink_armed s \/ h_armed s = true).

Lemma ps_is_armed_arm x a : is_armed x (arm x a) = true.
Proof.
  unfold is_armed, arm. cbn [existsb]. destruct x; cbn [src_eqb]; rewrite ?N.eqb_refl; reflexivity.
Qed.

Ltac ps_fin HA :=
  first [ discriminate | exact HA
        | reflexivity
        | (intros _; reflexivity)
        | (intros _; apply HA; reflexivity)
        | (intros _; right; apply HA; reflexivity)
        | (intros _; right; reflexivity)
        | (intros _; left; eexists; apply ps_is_armed_arm) ].

Lemma psparkinv_internal s s' : PsParkInv s -> internal s = Some s' -> PsParkInv s'.
Proof.
  intros [HA HP] H. unfold internal in H.
  crush_matches H; injection H as <-;
    try match goal with Hc : ctl s = _ |- _ => rewrite Hc in HA, HP end; cbn [ps_after_handle] in HA;
    split; simp_st; unfold after_flush; cbn [ps_after_handle];
    first [ ps_fin HA | (match goal with w : fl_reason |- _ => destruct w end; cbn [ps_after_handle] in *; ps_fin HA) ].
Qed.

Lemma psparkinv_step_raw s e s' : PsParkInv s -> step_raw s e = Some s' -> PsParkInv s'.
Proof.
  intros [HA HP] H. unfold step_raw in H.
  crush_matches H; injection H as <-;
    try match goal with Hc : ctl s = _ |- _ => rewrite Hc in HA, HP end; cbn [ps_after_handle] in HA;
    split; simp_st; try match goal with Hc : ctl s = _ |- _ => rewrite ?Hc end; cbn [ps_after_handle]; ps_fin HA.
Qed.

Theorem ps_never_parks_unarmed tr s : run init tr = Some s -> ctl s = PReturn false ->
  (exists k, is_armed (SSink k) (armed s) = true) \/ h_armed s = true.
Proof.
  intros H. assert (HI : PsParkInv s).
  { revert H. apply (ps_lift_run PsParkInv); [exact psparkinv_internal|exact psparkinv_step_raw|].
    split; cbn; discriminate. }
  exact (proj2 HI).
Qed.

(** * Once the registration channel is closed, a poll returns Pending only because a sink said so (C16) *)

Definition PsClosedInv (s : st) : Prop := closed s = true -> ps_after_handle (ctl s) = false.

Lemma psclosed_internal s s' : PsClosedInv s -> internal s = Some s' ->
  PsClosedInv s' /\ (ctl s' = PReturn false -> closed s' = false).
Proof.
  unfold PsClosedInv. intros HC H. unfold internal in H.
  crush_matches H; injection H as <-;
    try match goal with Hc : ctl s = _ |- _ => rewrite Hc in HC end; cbn [ps_after_handle] in HC;
    split; simp_st; unfold after_flush; cbn [ps_after_handle];
    first [ discriminate | reflexivity | (intros _; reflexivity) | assumption
          | (intros Hcl; specialize (HC Hcl); discriminate) | (intros _; assumption) | (intros Hcl; congruence)
          | (intros _; destruct (closed s); [specialize (HC eq_refl); discriminate|reflexivity])
          | (match goal with w : fl_reason |- _ => destruct w end; cbn [ps_after_handle] in *;
             first [ discriminate | reflexivity | (intros _; reflexivity) | assumption
                   | (intros Hcl; specialize (HC Hcl); discriminate) | (intros Hcl; congruence)
                   | (intros _; destruct (closed s); [specialize (HC eq_refl); discriminate|reflexivity]) ]) ].
Qed.

Lemma psclosed_step_raw s e s' : PsClosedInv s -> step_raw s e = Some s' ->
  PsClosedInv s' /\ (ctl s' = PReturn false -> closed s' = true -> sink_pending e = true).
Proof.
  unfold PsClosedInv. intros HC H. unfold step_raw in H.
  crush_matches H; injection H as <-;
    try match goal with Hc : ctl s = _ |- _ => rewrite Hc in HC end; cbn [ps_after_handle] in HC;
    split; simp_st; try match goal with Hc : ctl s = _ |- _ => rewrite ?Hc end; cbn [ps_after_handle sink_pending];
    first [ discriminate | reflexivity | (intros _; reflexivity) | (intros _ _; reflexivity) | assumption
          | (intros Hcl; specialize (HC Hcl); discriminate) | (intros _; assumption) | (intros Hcl; congruence)
          | (intros _ Hcl; specialize (HC Hcl); discriminate)
          | (subst; cbn [sink_pending]; intros; reflexivity) ].
Qed.

Lemma internal_closed s s' : internal s = Some s' -> closed s' = closed s.
Proof. intros H. unfold internal in H. crush_matches H; injection H as <-; simp_st; first [reflexivity|congruence]. Qed.

Lemma step_raw_closed s e s' : step_raw s e = Some s' -> closed s = true -> closed s' = true.
Proof.
  intros H Hc. unfold step_raw in H. crush_matches H; injection H as <-; simp_st; first [exact Hc|reflexivity].
Qed.

Lemma ps_closed_settle fuel : forall s s',
  PsClosedInv s -> closed s = true -> settle fuel s = Some s' ->
  PsClosedInv s' /\ closed s' = true /\ (ctl s' = PReturn false -> s' = s).
Proof.
  induction fuel as [|k IH]; intros s s' HC Hcl H; cbn [settle] in H; [discriminate|].
  destruct (internal s) as [s1|] eqn:E.
  - destruct (psclosed_internal _ _ HC E) as [HC1 Hret].
    assert (Hcl1 : closed s1 = true) by (rewrite (internal_closed _ _ E); exact Hcl).
    destruct (IH s1 s' HC1 Hcl1 H) as (HC' & Hcl' & Hsame).
    split; [exact HC'|]. split; [exact Hcl'|].
    intros Hr. specialize (Hsame Hr). subst s'. specialize (Hret Hr). congruence.
  - injection H as <-. auto.
Qed.

Theorem ps_closed_pending_only_from_sinks tr s e s' :
  run init tr = Some s -> closed s = true -> step s e = Some s' -> ctl s' = PReturn false ->
  sink_pending e = true.
Proof.
  intros Hrun Hcl Hstep Hret.
  assert (HC : PsClosedInv s).
  { revert Hrun. apply (ps_lift_run PsClosedInv).
    - intros a b Ha Hi. exact (proj1 (psclosed_internal a b Ha Hi)).
    - intros a ev b Ha Hr. exact (proj1 (psclosed_step_raw a ev b Ha Hr)).
    - unfold PsClosedInv. cbn. discriminate. }
  unfold step, obind in Hstep.
  destruct (settled s) as [s0|] eqn:E0; [|discriminate].
  destruct (ps_closed_settle _ _ _ HC Hcl E0) as (HC0 & Hcl0 & _).
  assert (Hone : forall a, PsClosedInv a -> closed a = true ->
                 match step_raw a e with Some x => settled x | None => None end = Some s' ->
                 sink_pending e = true).
  { intros a Ha Hca Hb. destruct (step_raw a e) as [x|] eqn:Ex; [|discriminate].
    destruct (psclosed_step_raw _ _ _ Ha Ex) as [HCx Hp].
    pose proof (step_raw_closed _ _ _ Ex Hca) as Hcx.
    destruct (ps_closed_settle _ _ _ HCx Hcx Hb) as (_ & _ & Hsame).
    specialize (Hsame Hret). subst x. now apply Hp. }
  destruct (ctl s0) eqn:Ec0; try (now apply Hone with s0).
  destruct e; try (now apply Hone with s0).
  destruct (step_raw s0 (EStream j r)) as [s1|] eqn:E1; [|discriminate].
  destruct (psclosed_step_raw _ _ _ HC0 E1) as [HC1 _].
  pose proof (step_raw_closed _ _ _ E1 Hcl0) as Hcl1.
  now apply Hone with s1.
Qed.


(** * The router parks (without a sink having said Pending) only with an empty buffer (C09) *)

(** control points after the buffered message has been handed to the subscribers *)
Definition ps_past_item (c : pc) : bool :=
  match c with PSend _ _ | PHandle | PStreamsStart | PStreams _ _ _ | PFlush _ _ => true | _ => false end.

Definition PsDrainInv (s : st) : Prop := ps_past_item (ctl s) = true -> buffered s = None.

Ltac psd_solve :=
  match goal with
  | |- _ /\ _ => split; psd_solve
  | |- _ => try discriminate; intros;
            first [ reflexivity | discriminate | assumption | exact I
                  | solve [subst; cbn [sink_pending] in *; intuition (try congruence; try discriminate)] ]
  end.

Lemma psdrain_internal s s' : PsDrainInv s -> internal s = Some s' ->
  PsDrainInv s' /\ (ctl s' = PReturn false -> buffered s' = None).
Proof.
  unfold PsDrainInv. intros H1 H. unfold internal in H.
  crush_matches H; injection H as <-;
    try match goal with Hc : ctl s = _ |- _ => rewrite Hc in H1 end; cbn [ps_past_item] in H1;
    simp_st; unfold after_flush; cbn [ps_past_item];
    repeat match goal with Hb : _ = _ |- _ => progress (rewrite Hb in * ) end;
    first [ psd_solve | (match goal with w : fl_reason |- _ => destruct w end; cbn [ps_past_item] in *; psd_solve) ].
Qed.

Lemma psdrain_step_raw s e s' : PsDrainInv s -> step_raw s e = Some s' ->
  PsDrainInv s' /\ (ctl s' = PReturn false -> sink_pending e = false -> buffered s' = None).
Proof.
  unfold PsDrainInv. intros H1 H. unfold step_raw in H.
  crush_matches H; injection H as <-;
    try match goal with Hc : ctl s = _ |- _ => rewrite Hc in H1 end; cbn [ps_past_item] in H1;
    simp_st; try match goal with Hc : ctl s = _ |- _ => rewrite ?Hc end; cbn [ps_past_item];
    repeat match goal with Hb : _ = _ |- _ => progress (rewrite Hb in * ) end;
    psd_solve.
Qed.

Lemma psdrain_settle fuel : forall s s',
  PsDrainInv s -> settle fuel s = Some s' ->
  PsDrainInv s' /\ (ctl s' = PReturn false -> s' = s \/ buffered s' = None).
Proof.
  induction fuel as [|k IH]; intros s s' HD H; cbn [settle] in H; [discriminate|].
  destruct (internal s) as [s1|] eqn:E.
  - destruct (psdrain_internal _ _ HD E) as [HD1 Hret].
    destruct (IH s1 s' HD1 H) as (HD' & Hsame).
    split; [exact HD'|]. intros Hr. right. destruct (Hsame Hr) as [->|Hd]; [now apply Hret|exact Hd].
  - injection H as <-. split; [exact HD|]. intros _. now left.
Qed.

(** when the pub/sub router returns Pending in a step in which no subscriber answered Pending, the
    message it had pulled has been handed to the subscribers: nothing is waiting in its buffer *)
Theorem ps_parks_only_when_drained tr s e s' :
  run init tr = Some s -> step s e = Some s' -> ctl s' = PReturn false -> sink_pending e = false ->
  buffered s' = None.
Proof.
  intros Hrun Hstep Hret Hnp.
  assert (HD : PsDrainInv s).
  { revert Hrun. apply (ps_lift_run PsDrainInv).
    - intros a b Ha Hi. exact (proj1 (psdrain_internal a b Ha Hi)).
    - intros a ev b Ha Hr. exact (proj1 (psdrain_step_raw a ev b Ha Hr)).
    - unfold PsDrainInv. cbn. discriminate. }
  unfold step, obind in Hstep.
  destruct (settled s) as [s0|] eqn:E0; [|discriminate].
  destruct (psdrain_settle _ _ _ HD E0) as (HD0 & _).
  assert (Hone : forall a, PsDrainInv a ->
                 match step_raw a e with Some x => settled x | None => None end = Some s' -> buffered s' = None).
  { intros a Ha Hb. destruct (step_raw a e) as [x|] eqn:Ex; [|discriminate].
    destruct (psdrain_step_raw _ _ _ Ha Ex) as [HDx Hp].
    destruct (psdrain_settle _ _ _ HDx Hb) as (_ & Hsame).
    destruct (Hsame Hret) as [->|Hd]; [now apply Hp|exact Hd]. }
  destruct (ctl s0) eqn:Ec0; try (now apply Hone with s0).
  destruct e; try (now apply Hone with s0).
  destruct (step_raw s0 (EStream j r)) as [s1|] eqn:E1; [|discriminate].
  destruct (psdrain_step_raw _ _ _ HD0 E1) as [HD1 _].
  now apply Hone with s1.
Qed.

