(** C09 — the pub/sub router never parks without a registered waker: a step-effect argument over
    the control points of one poll (the registration channel is polled to Pending before any
    path that returns Pending without an armed sink). *)
Require Import Selium.Base Selium.PubSub Selium.PubSubSpec Selium.P_Vec Selium.P_PubSub.
Open Scope N_scope.

Ltac crush_matches H :=
  repeat match type of H with
         | context[match ?x with _ => _ end] => destruct x eqn:?; try discriminate
         | context[if ?x then _ else _] => destruct x eqn:?; try discriminate
         end.

Section LiftPs.
  Variable I : st -> Prop.
  Hypothesis Hint : forall s s', I s -> internal s = Some s' -> I s'.
  Hypothesis Hraw : forall s e s', I s -> step_raw s e = Some s' -> I s'.

  Lemma ps_lift_settle fuel : forall s s', I s -> settle fuel s = Some s' -> I s'.
  Proof.
    induction fuel as [|k IH]; intros s s' HI H; cbn [settle] in H; [discriminate|].
    destruct (internal s) as [s1|] eqn:E.
    - apply (IH s1); [now apply Hint with s|exact H].
    - now injection H as <-.
  Qed.

  Lemma ps_lift_step s e s' : I s -> step s e = Some s' -> I s'.
  Proof.
    intros HI H. unfold step, obind in H.
    destruct (settled s) as [s0|] eqn:E0; [|discriminate].
    assert (H0 : I s0) by (unfold settled in E0; now apply ps_lift_settle with (settle_fuel s) s).
    assert (Hone : forall a b, I a -> match step_raw a e with Some x => settled x | None => None end = Some b -> I b).
    { intros a b Ha Hb. destruct (step_raw a e) as [x|] eqn:Ex; [|discriminate].
      unfold settled in Hb. apply ps_lift_settle with (settle_fuel x) x; [now apply Hraw with a e|exact Hb]. }
    destruct (ctl s0); try (now apply Hone with s0).
    destruct e; try (now apply Hone with s0).
    destruct (step_raw s0 (EStream j r)) as [s1|] eqn:E1; [|discriminate].
    apply Hone with s1; [now apply Hraw with s0 (EStream j r)|exact H].
  Qed.

  Lemma ps_lift_run tr : forall s s', I s -> run s tr = Some s' -> I s'.
  Proof.
    induction tr as [|e tr IH]; intros s s' HI H; cbn [run] in H; [now injection H as <-|].
    destruct (step s e) as [s1|] eqn:E; [|discriminate].
    apply (IH s1); [now apply ps_lift_step with s e|exact H].
  Qed.
End LiftPs.

Definition ps_after_handle (c : pc) : bool :=
  match c with
  | PStreamsStart | PStreams _ _ _ => true
  | PFlush _ FlHandleClosed => false
  | PFlush _ _ => true
  | _ => false
  end.

Definition ps_some_sink_armed (s : st) : Prop := exists k, is_armed (SSink k) (armed s) = true.

Definition PsParkInv (s : st) : Prop :=
  (ps_after_handle (ctl s) = true -> h_armed s = true)
  /\ (ctl s = PReturn false -> ps_some_sink_armed s \/ h_armed s = true).

Lemma ps_is_armed_arm x a : is_armed x (arm x a) = true.
Proof.
  unfold is_armed, arm. cbn [existsb]. destruct x; cbn [src_eqb]; rewrite ?N.eqb_refl; reflexivity.
Qed.

Ltac ps_fin HA :=
  first [ discriminate | exact HA
        | reflexivity
        | (intros _; reflexivity)
        | (intros _; apply HA; reflexivity)
        | (intros _; right; apply HA; reflexivity)
        | (intros _; right; reflexivity)
        | (intros _; left; eexists; apply ps_is_armed_arm) ].

Lemma psparkinv_internal s s' : PsParkInv s -> internal s = Some s' -> PsParkInv s'.
Proof.
  intros [HA HP] H. unfold internal in H.
  crush_matches H; injection H as <-;
    try match goal with Hc : ctl s = _ |- _ => rewrite Hc in HA, HP end; cbn [ps_after_handle] in HA;
    split; simp_st; unfold after_flush; cbn [ps_after_handle];
    first [ ps_fin HA | (match goal with w : fl_reason |- _ => destruct w end; cbn [ps_after_handle] in *; ps_fin HA) ].
Qed.

Lemma psparkinv_step_raw s e s' : PsParkInv s -> step_raw s e = Some s' -> PsParkInv s'.
Proof.
  intros [HA HP] H. unfold step_raw in H.
  crush_matches H; injection H as <-;
    try match goal with Hc : ctl s = _ |- _ => rewrite Hc in HA, HP end; cbn [ps_after_handle] in HA;
    split; simp_st; try match goal with Hc : ctl s = _ |- _ => rewrite ?Hc end; cbn [ps_after_handle]; ps_fin HA.
Qed.

Theorem ps_never_parks_unarmed tr s : run init tr = Some s -> ctl s = PReturn false ->
  (exists k, is_armed (SSink k) (armed s) = true) \/ h_armed s = true.
Proof.
  intros H. assert (HI : PsParkInv s).
  { revert H. apply (ps_lift_run PsParkInv); [exact psparkinv_internal|exact psparkinv_step_raw|].
    split; cbn; discriminate. }
  exact (proj2 HI).
Qed.
