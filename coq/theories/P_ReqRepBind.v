(** C10 — the bound replier changes only after it departed: its stream ended, or its sink failed
    when asked whether it is ready or to flush.  (A request its sink refuses in start_send is
    dropped and the replier stays bound; another replier's registration never unbinds it.) *)
Require Import Selium.Base Selium.PubSub Selium.ReqRep Selium.ReqRepSpec Selium.P_ReqRep Selium.P_ReqRepOrder.
Open Scope N_scope.

Definition dep_event (l : N) (e : rev) : bool :=
  match e with
  | VStream l' FEnd => l' =? l
  | VSink l' OReady RErr | VSink l' OFlush RErr => l' =? l
  | _ => false
  end.
Definition departed (l : N) (tr : list rev) : bool := existsb (dep_event l) tr.

Definition in_srv_end (c : rpc) : bool :=
  match c with RSrvEndFlushSrv | RSrvEndFlushRouter _ => true | _ => false end.

Inductive bind_effect (s : rst) (e : option rev) (s' : rst) : Prop :=
| BE_same : server s' = server s -> h_bound (rgh s') = h_bound (rgh s) ->
            (in_srv_end (rctl s') = true -> in_srv_end (rctl s) = true) -> bind_effect s e s'
| BE_bind l : server s = None -> server s' = Some l -> h_bound (rgh s') = h_bound (rgh s) ++ [l] ->
              in_srv_end (rctl s') = false -> bind_effect s e s'
| BE_fail l ev : e = Some ev -> server s = Some l -> server s' = None -> h_bound (rgh s') = h_bound (rgh s) ->
              dep_event l ev = true -> in_srv_end (rctl s') = false -> bind_effect s e s'
| BE_end l ev : e = Some ev -> server s = Some l -> server s' = Some l -> h_bound (rgh s') = h_bound (rgh s) ->
              dep_event l ev = true -> bind_effect s e s'
| BE_finish : in_srv_end (rctl s) = true -> server s' = None -> h_bound (rgh s') = h_bound (rgh s) ->
              in_srv_end (rctl s') = false -> bind_effect s e s'.

Lemma sink_ev_ready_err l e : is_sink_ev_on l OReady e = Some RErr -> dep_event l e = true.
Proof.
  unfold is_sink_ev_on. destruct e; try discriminate.
  destruct (N.eqb_spec l l0); [|discriminate]. destruct op; try discriminate.
  intros H. injection H as ->. cbn. subst. apply N.eqb_refl.
Qed.

Lemma sink_ev_flush_err l e : is_sink_ev_on l OFlush e = Some RErr -> dep_event l e = true.
Proof.
  unfold is_sink_ev_on. destruct e; try discriminate.
  destruct (N.eqb_spec l l0); [|discriminate]. destruct op; try discriminate.
  intros H. injection H as ->. cbn. subst. apply N.eqb_refl.
Qed.

Lemma rinternal_bind s s' : rinternal s = Some s' -> bind_effect s None s'.
Proof.
  intros H. unfold rinternal in H.
  crush_matches H; injection H as <-;
    first [ solve [apply BE_same; rsimp; try match goal with Hc : rctl s = _ |- _ => rewrite Hc end; cbn [in_srv_end]; auto; discriminate]
          | solve [eapply BE_bind; rsimp; eauto]
          | solve [apply BE_finish; rsimp; try match goal with Hc : rctl s = _ |- _ => rewrite Hc end; cbn [in_srv_end]; auto] ].
Qed.

Lemma rstep_raw_bind s e s' : rstep_raw s e = Some s' -> bind_effect s (Some e) s'.
Proof.
  intros H. unfold rstep_raw, router_pass in H.
  crush_matches H; injection H as <-;
    first [ solve [apply BE_same; rsimp; try match goal with Hc : rctl s = _ |- _ => rewrite Hc end; cbn [in_srv_end]; auto; discriminate]
          | solve [eapply BE_fail; rsimp; eauto using sink_ev_ready_err, sink_ev_flush_err]
          | solve [eapply BE_end; rsimp; eauto; subst; cbn [dep_event]; match goal with H : (_ =? _) = true |- _ => apply N.eqb_eq in H; subst; apply N.eqb_refl end] ].
Qed.

Lemma departed_snoc l tr e : departed l tr = true -> departed l (tr ++ [e]) = true.
Proof. unfold departed. rewrite existsb_app. intros ->. reflexivity. Qed.

Lemma departed_last l tr e : dep_event l e = true -> departed l (tr ++ [e]) = true.
Proof. unfold departed. rewrite existsb_app. cbn. intros ->. apply orb_true_iff. right. reflexivity. Qed.

Definition BInv (tr : list rev) (s : rst) : Prop :=
  (forall l, In l (h_bound (rgh s)) -> server s = Some l \/ departed l tr = true)
  /\ (in_srv_end (rctl s) = true -> exists l, server s = Some l /\ departed l tr = true).

Lemma binv_effect tr s e s' : BInv tr s -> bind_effect s e s' ->
  BInv (match e with Some ev => tr ++ [ev] | None => tr end) s'.
Proof.
  intros [HB HE] Eff.
  assert (Hmono : forall l, departed l tr = true -> departed l (match e with Some ev => tr ++ [ev] | None => tr end) = true).
  { intros l Hd. destruct e; [now apply departed_snoc|exact Hd]. }
  destruct Eff as [Hs Hb Hc | l Hs Hs' Hb Hc | l ev -> Hs Hs' Hb Hd Hc | l ev -> Hs Hs' Hb Hd | Hin Hs' Hb Hc].
  - split.
    + intros l Hl. rewrite Hb in Hl. rewrite Hs. destruct (HB l Hl) as [H|H]; [now left|right; now apply Hmono].
    + intros Hin. destruct (HE (Hc Hin)) as (l & H1 & H2). exists l. rewrite Hs. split; [exact H1|now apply Hmono].
  - split.
    + intros l0 Hl. rewrite Hb in Hl. apply in_app_or in Hl as [Hl|[<-|[]]]; [|now left].
      destruct (HB l0 Hl) as [H|H]; [congruence|right; now apply Hmono].
    + rewrite Hc. discriminate.
  - split.
    + intros l0 Hl. rewrite Hb in Hl. destruct (HB l0 Hl) as [H|H].
      * right. assert (l0 = l) by congruence. subst. now apply departed_last.
      * right. now apply departed_snoc.
    + rewrite Hc. discriminate.
  - split.
    + intros l0 Hl. rewrite Hb in Hl. rewrite Hs'. destruct (HB l0 Hl) as [H|H]; [left; congruence|right; now apply departed_snoc].
    + intros _. exists l. split; [exact Hs'|now apply departed_last].
  - destruct (HE Hin) as (l & H1 & H2). split.
    + intros l0 Hl. rewrite Hb in Hl. destruct (HB l0 Hl) as [H|H]; right; [|now apply Hmono].
      assert (l0 = l) by congruence. subst. now apply Hmono.
    + rewrite Hc. discriminate.
Qed.

Lemma binv_settle fuel : forall tr s s', BInv tr s -> rsettle fuel s = Some s' -> BInv tr s'.
Proof.
  induction fuel as [|k IH]; intros tr s s' HI H; cbn [rsettle] in H; [discriminate|].
  destruct (rinternal s) as [s1|] eqn:E.
  - apply (IH tr s1); [|exact H]. exact (binv_effect tr s None s1 HI (rinternal_bind _ _ E)).
  - now injection H as <-.
Qed.

(** the StreamMap's first call only fixes the start index: the state does not change *)
Lemma start_step_same s e s1 : rctl s = RStreamsStart -> rstep_raw s e = Some s1 ->
  server s1 = server s /\ rgh s1 = rgh s /\ in_srv_end (rctl s1) = false.
Proof.
  intros Hc H. unfold rstep_raw in H. rewrite Hc in H.
  destruct e; try discriminate. destruct (index_of_label l (rstreams s)); [|discriminate].
  injection H as <-. rsimp. auto.
Qed.

Lemma binv_step tr s e s' : BInv tr s -> rstep s e = Some s' -> BInv (tr ++ [e]) s'.
Proof.
  intros HI H. unfold rstep, obind in H.
  destruct (rsettled s) as [s0|] eqn:E0; [|discriminate].
  assert (H0 : BInv tr s0) by (unfold rsettled in E0; now apply binv_settle with (rsettle_fuel s) s).
  assert (Hone : forall a, BInv tr a -> match rstep_raw a e with Some x => rsettled x | None => None end = Some s' -> BInv (tr ++ [e]) s').
  { intros a Ha Hb. destruct (rstep_raw a e) as [x|] eqn:Ex; [|discriminate].
    unfold rsettled in Hb. apply binv_settle with (rsettle_fuel x) x; [|exact Hb].
    exact (binv_effect tr a (Some e) x Ha (rstep_raw_bind _ _ _ Ex)). }
  destruct (rctl s0) eqn:Ec; try (now apply (Hone s0)).
  destruct e; try (now apply (Hone s0)).
  match type of H with match ?t with _ => _ end = _ => destruct t as [s1|] eqn:E1; [|discriminate] end.
  apply (Hone s1); [|exact H].
  destruct (start_step_same _ _ _ Ec E1) as (Hs & Hg & Hc). destruct H0 as [HB HE]. split.
  - intros l0 Hl. rewrite Hg in Hl. rewrite Hs. now apply HB.
  - rewrite Hc. discriminate.
Qed.

Lemma binv_run tr : forall tr0 s s', BInv tr0 s -> rrun s tr = Some s' -> BInv (tr0 ++ tr) s'.
Proof.
  induction tr as [|e tr IH]; intros tr0 s s' HI H; cbn [rrun] in H.
  - injection H as <-. now rewrite app_nil_r.
  - destruct (rstep s e) as [s1|] eqn:E; [|discriminate].
    replace (tr0 ++ e :: tr) with ((tr0 ++ [e]) ++ tr) by (rewrite <- app_assoc; reflexivity).
    apply (IH (tr0 ++ [e]) s1); [now apply binv_step with s|exact H].
Qed.

(** every replier that was ever bound is still the bound one, or has departed: its stream ended or
    its sink failed when asked whether it is ready or to flush -- nothing else unbinds a replier *)
Theorem rr_bound_replier_leaves_only_by_departure tr s :
  rrun rinit tr = Some s ->
  forall l, In l (h_bound (rgh s)) -> server s = Some l \/ departed l tr = true.
Proof.
  intros H. assert (HI : BInv ([] ++ tr) s).
  { apply (binv_run tr [] rinit s); [|exact H]. split; cbn; [intros l []|discriminate]. }
  exact (proj1 HI).
Qed.
