(** C02 — property theorems (statements and [exact]s only).  [rrun rinit tr = Some s]: [tr] is a
    behaviour of the req/rep router model (any numbers of requestors and repliers, any
    registration order, any Ready/Pending/Err answers, any frames incl. forged routing tags,
    any HashMap / StreamMap iteration order).
    Every clause of the property is a theorem below.  Liveness (a bound replier is eventually
    offered the buffered request; deserved replies are eventually delivered and flushed) is not:
    it is checked on drained implementation traces (obs_no_request_stranded,
    obs_replies_delivered, obs_requests_flushed). *)
Require Import Selium.Base Selium.PubSub Selium.ReqRep Selium.ReqRepSpec Selium.P_ReqRep Selium.P_ReqRepOrder.
Open Scope N_scope.

(** no reply is dropped or overwritten because a requestor is slow: every reply pulled from the
    replier is accounted for — forwarded, refused by its own requestor's sink, discarded for
    its tag — except the single one waiting in the buffer *)
Theorem c02_no_reply_lost : forall tr s, rrun rinit tr = Some s ->
  (List.length (h_reps_routed (rgh s)) + List.length (h_reps_failed (rgh s)) + List.length (h_reps_discarded (rgh s))
   + match b_rep s with Some _ => 1 | None => 0 end)%nat = List.length (h_reps_pulled (rgh s)).
Proof. exact rr_no_reply_lost. Qed.
Print Assumptions c02_no_reply_lost.

(** origin unforgeable, payload and other headers intact *)
Theorem c02_origin_unforgeable : forall tr s, rrun rinit tr = Some s ->
  forall l m, In (l, m) (h_reqs_sent (rgh s)) ->
  exists k m0, In (k, m0) (h_reqs_pulled (rgh s)) /\ m = tag_req k m0.
Proof. exact rr_requests_tagged. Qed.
Print Assumptions c02_origin_unforgeable.

(** requests: what repliers were handed (start_send Ok), in hand-over order, is a subsequence of
    what the requestors sent, in pull order, each tagged with its requestor's true key: at most
    once per request, in the sending order, nothing altered but the tag *)
Theorem c02_requests_in_order_at_most_once : forall tr s, rrun rinit tr = Some s ->
  Subseq (map snd (h_reqs_sent (rgh s))) (map (fun p => tag_req (fst p) (snd p)) (h_reqs_pulled (rgh s))).
Proof. exact rr_requests_in_order. Qed.
Print Assumptions c02_requests_in_order_at_most_once.

(** replies: what was delivered, as (requestor, frame) in delivery order, is a subsequence of what
    the replier's emissions deserve -- for each emitted reply, in emission order, the requestor
    that holds the key in its tag and the reply with the tag stripped and everything else intact
    ([deserved]); a reply with a missing, unknown or malformed tag deserves nothing.  So every
    reply is delivered at most once, to the requestor whose request it answers and to nobody
    else, in the order the replier emitted them *)
Theorem c02_replies_to_the_right_requestor_in_order : forall tr s, rrun rinit tr = Some s ->
  Subseq (h_reps_routed (rgh s)) (deserving (rgh s) (h_reps_pulled (rgh s))).
Proof. exact rr_replies_in_order. Qed.
Print Assumptions c02_replies_to_the_right_requestor_in_order.

(** "exactly once when a replier is bound and stays bound": every request pulled from a requestor
    is handed to a replier, refused by that replier's own sink, superseded in the one-request
    buffer, or still in the buffer -- and a request is superseded only while NO replier is bound *)
Theorem c02_requests_accounted : forall tr s, rrun rinit tr = Some s ->
  List.length (h_reqs_pulled (rgh s)) =
  (List.length (h_reqs_sent (rgh s)) + List.length (h_reqs_refused (rgh s)) + List.length (h_reqs_dropped (rgh s))
   + match b_req s with Some _ => 1 | None => 0 end)%nat.
Proof. exact rr_requests_accounted. Qed.
Print Assumptions c02_requests_accounted.

Theorem c02_never_superseded_while_bound : forall tr s, rrun rinit tr = Some s ->
  forall srv m, In (srv, m) (h_reqs_dropped (rgh s)) -> srv = None.
Proof. exact rr_never_superseded_while_bound. Qed.
Print Assumptions c02_never_superseded_while_bound.

(** a reply is discarded only when its routing tag is missing or malformed, names a key that had
    not been issued when the reply was emitted ([snd fn] is the next key at that moment), or names
    a requestor whose sink is no longer registered with the router: no reply emitted for a
    still-connected requestor is ever discarded *)
Theorem c02_discarded_replies_deserved_no_live_requestor : forall tr s, rrun rinit tr = Some s ->
  forall fn, In fn (h_reps_discarded (rgh s)) -> discard_justified s fn.
Proof. exact rr_discards_justified. Qed.
Print Assumptions c02_discarded_replies_deserved_no_live_requestor.

(** Non-vacuity: a slow requestor, two replies, a forged tag *)
Example c02_example :
  exists s, rrun rinit
    [VBegin;
     VEnd false;
     VQueue (QClient 0) true;
     VQueue (QServer 1) false;
     VBegin;
     VStream 1 FPending;
     VStream 0 (FItem (FMsg {| m_cid := Some (CJunk 1); m_others := [(2, 3)]; m_body := 4; m_hnone := false |}));
     VSink 1 OReady ROk;
     VSink 1 (OSend (FMsg {| m_cid := Some (CKey 0); m_others := [(2, 3)]; m_body := 4; m_hnone := false |})) ROk;
     VStream 1 (FItem (FMsg {| m_cid := Some (CKey 0); m_others := [(2, 3)]; m_body := 5; m_hnone := false |}));
     VSink 0 OReady RPending;
     VEnd false;
     VFire (SSink 0) true;
     VBegin;
     VSink 0 OReady ROk;
     VSink 0 (OSend (FMsg {| m_cid := None; m_others := [(2, 3)]; m_body := 5; m_hnone := false |})) ROk;
     VStream 0 FPending;
     VStream 1 FPending;
     VStream 0 FPending;
     VSink 0 OFlush ROk;
     VSink 1 OFlush ROk;
     VEnd false] = Some s
  /\ List.length (h_reps_routed (rgh s)) = 1%nat /\ List.length (h_reqs_sent (rgh s)) = 1%nat /\ c02_state_ok s = true.
Proof. eexists. vm_compute. repeat split; reflexivity. Qed.
