(** C02 — property theorems (statements and [exact]s only).  [rrun rinit tr = Some s]: [tr] is a
    behaviour of the req/rep router model (any numbers of requestors and repliers, any
    registration order, any Ready/Pending/Err answers, any frames incl. forged routing tags,
    any HashMap / StreamMap iteration order).
    PARTIAL: the order / at-most-once clauses for requests and the "to the right requestor,
    exactly once" clause for replies are stated as executable predicates (ReqRepSpec.c02_state_ok,
    obs_c02_ok) that the judge evaluates on every implementation trace and on the model state;
    they are not yet theorems. *)
Require Import Selium.Base Selium.PubSub Selium.ReqRep Selium.ReqRepSpec Selium.P_ReqRep.
Open Scope N_scope.

(** no reply is dropped or overwritten because a requestor is slow: every reply pulled from the
    replier is accounted for — forwarded, refused by its own requestor's sink, discarded for
    its tag — except the single one waiting in the buffer *)
Theorem c02_no_reply_lost : forall tr s, rrun rinit tr = Some s ->
  (List.length (h_reps_routed (rgh s)) + List.length (h_reps_failed (rgh s)) + List.length (h_reps_discarded (rgh s))
   + match b_rep s with Some _ => 1 | None => 0 end)%nat = List.length (h_reps_pulled (rgh s)).
Proof. exact rr_no_reply_lost. Qed.
Print Assumptions c02_no_reply_lost.

(** origin unforgeable, payload and other headers intact *)
Theorem c02_origin_unforgeable : forall tr s, rrun rinit tr = Some s ->
  forall l m, In (l, m) (h_reqs_sent (rgh s)) ->
  exists k m0, In (k, m0) (h_reqs_pulled (rgh s)) /\ m = tag_req k m0.
Proof. exact rr_requests_tagged. Qed.
Print Assumptions c02_origin_unforgeable.

(** Non-vacuity: a slow requestor, two replies, a forged tag *)
Example c02_example :
  exists s, rrun rinit
    [VBegin;
     VEnd false;
     VQueue (QClient 0) true;
     VQueue (QServer 1) false;
     VBegin;
     VStream 1 FPending;
     VStream 0 (FItem (FMsg {| m_cid := Some (CJunk 1); m_others := [(2, 3)]; m_body := 4; m_hnone := false |}));
     VSink 1 OReady ROk;
     VSink 1 (OSend (FMsg {| m_cid := Some (CKey 0); m_others := [(2, 3)]; m_body := 4; m_hnone := false |})) ROk;
     VStream 1 (FItem (FMsg {| m_cid := Some (CKey 0); m_others := [(2, 3)]; m_body := 5; m_hnone := false |}));
     VSink 0 OReady RPending;
     VEnd false;
     VFire (SSink 0) true;
     VBegin;
     VSink 0 OReady ROk;
     VSink 0 (OSend (FMsg {| m_cid := None; m_others := [(2, 3)]; m_body := 5; m_hnone := false |})) ROk;
     VStream 0 FPending;
     VStream 1 FPending;
     VStream 0 FPending;
     VSink 0 OFlush ROk;
     VSink 1 OFlush ROk;
     VEnd false] = Some s
  /\ List.length (h_reps_routed (rgh s)) = 1%nat /\ List.length (h_reqs_sent (rgh s)) = 1%nat /\ c02_state_ok s = true.
Proof. eexists. vm_compute. repeat split; reflexivity. Qed.
