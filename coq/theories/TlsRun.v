(** The TLS model instantiated with the configuration the translator read from the source, and the
    identity matrix of the net engine `tls`. *)
Require Import Selium.Base Selium.Tls SeliumGen.TlsFacts.
Open Scope N_scope.

(** the certificate set the bundled generator produces, for keys [kca] (CA), [ks], [kc] *)
Definition gen_ca (kca : N) : cert :=
  {| subject_key := kca; issuer_key := kca; is_ca := gen_ca_is_ca; key_cert_sign := gen_ca_key_cert_sign; ekus := []; dns_names := [] |}.
Definition gen_server (kca ks : N) : cert :=
  {| subject_key := ks; issuer_key := kca; is_ca := false; key_cert_sign := false; ekus := gen_server_ekus; dns_names := gen_entity_sans |}.
Definition gen_client (kca kc : N) : cert :=
  {| subject_key := kc; issuer_key := kca; is_ca := false; key_cert_sign := false; ekus := gen_client_ekus; dns_names := gen_entity_sans |}.

(** the server started with `--ca ca`, and the client configured with with_certificate_authority(ca) *)
Definition server_admits (ca : cert) (presented : option (list cert)) : bool :=
  server_accepts server_client_verifier [ca] presented.
Definition client_admits (ca : cert) (server_chain : list cert) : bool :=
  client_accepts client_server_verifier [ca] client_server_name server_chain.

(** both directions of the handshake *)
Definition handshake_ok (server_ca client_ca : cert) (server_chain : list cert) (client_chain : option (list cert)) : bool :=
  client_admits client_ca server_chain && server_admits server_ca client_chain.

(** identities of the net engine: keys 1 = trusted CA, 2 = its server, 3 = its client,
    11/12/13 = the other CA and its server and client, 21 = a self-signed client certificate *)
Inductive client_id := IdTrusted | IdOtherCa | IdSelfSigned | IdNone | IdServerCertAsClient.
Inductive server_id := SrvTrusted | SrvOtherCa.
Definition self_signed (k : N) : cert :=
  {| subject_key := k; issuer_key := k; is_ca := false; key_cert_sign := false; ekus := [PClientAuth]; dns_names := ["localhost"%string] |}.
Definition client_chain_of (c : client_id) : option (list cert) :=
  match c with
  | IdTrusted => Some [gen_client 1 3]
  | IdOtherCa => Some [gen_client 11 13]
  | IdSelfSigned => Some [self_signed 21]
  | IdNone => None
  | IdServerCertAsClient => Some [gen_server 1 2]
  end.
Definition server_chain_of (s : server_id) : list cert :=
  match s with SrvTrusted => [gen_server 1 2] | SrvOtherCa => [gen_server 11 12] end.
(** every server trusts CA 1 for clients; every client trusts CA 1 for servers *)
Definition matrix (s : server_id) (c : client_id) : bool :=
  handshake_ok (gen_ca 1) (gen_ca 1) (server_chain_of s) (client_chain_of c).

(** the same, for a client configured with the other CA (every server still trusts CA 1 for clients) *)
Definition matrix_trust (s : server_id) (c : client_id) (client_trusts_other : bool) : bool :=
  handshake_ok (gen_ca 1) (if client_trusts_other then gen_ca 11 else gen_ca 1) (server_chain_of s) (client_chain_of c).

(** a server whose --cert file is a bundle (its leaf followed by the CA that issued it) of the other
    set, started with the trusted CA for clients; the client trusts the other CA *)
Definition matrix_bundle (c : client_id) : bool :=
  handshake_ok (gen_ca 1) (gen_ca 11) [gen_server 11 12; gen_ca 11] (client_chain_of c).
