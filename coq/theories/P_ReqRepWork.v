(** C09, first half, for the request/reply router: peer calls inside one poll are bounded by the
    data handed over in it (a potential argument, as in P_PubSubWork), and the loop never spins
    between two peer calls (the internal moves terminate within the fuel [rsettled] grants). *)
Require Import Selium.Base Selium.PubSub Selium.ReqRep Selium.ReqRepSpec Selium.P_ReqRep Selium.P_ReqRepOrder.
Open Scope nat_scope.

Definition rS (s : rst) : nat := List.length (rsinks s).
Definition rT (s : rst) : nat := List.length (rstreams s).
Definition rQ (s : rst) : nat := List.length (rqueue s).

(** Router entries a pass has not visited yet *)
Definition unvl (vis : list N) (ss : list (N * N)) : nat :=
  List.length (filter (fun lab => negb (memb lab vis)) (labels ss)).

Lemma unvl_nil ss : unvl [] ss = List.length ss.
Proof.
  unfold unvl, labels. induction ss as [|a ss IH]; [reflexivity|].
  cbn [map filter]. change (memb (snd a) []) with false. cbn [negb List.length]. now rewrite IH.
Qed.

Lemma unvl_le vis ss : unvl vis ss <= List.length ss.
Proof.
  unfold unvl, labels. induction ss as [|a ss IH]; [cbn; lia|].
  cbn [map filter List.length]. destruct (negb (memb (snd a) vis)); cbn [List.length]; lia.
Qed.

Lemma memb_cons x l vis : memb x (l :: vis) = (N.eqb x l || memb x vis)%bool.
Proof. reflexivity. Qed.

Lemma unvl_mono l vis ss : unvl (l :: vis) ss <= unvl vis ss.
Proof.
  unfold unvl, labels. induction ss as [|a ss IH]; [cbn; lia|].
  cbn [map filter]. rewrite memb_cons.
  destruct (N.eqb (snd a) l); destruct (memb (snd a) vis); cbn [orb negb List.length]; lia.
Qed.

Lemma unvl_visit l vis ss : memb l (labels ss) = true -> memb l vis = false ->
  unvl (l :: vis) ss + 1 <= unvl vis ss.
Proof.
  intros Hin Hv. unfold labels in *. induction ss as [|a ss IH]; [discriminate|].
  cbn [map] in Hin. unfold memb in Hin. cbn [existsb] in Hin. fold (memb l (map snd ss)) in Hin.
  unfold unvl, labels. cbn [map filter]. rewrite memb_cons.
  destruct (N.eqb_spec l (snd a)) as [->|Hne].
  - rewrite N.eqb_refl, Hv. cbn [orb negb List.length].
    pose proof (unvl_mono (snd a) vis ss) as Hm. unfold unvl, labels in Hm. lia.
  - cbn [orb] in Hin. specialize (IH Hin). unfold unvl, labels in IH.
    destruct (N.eqb (snd a) l); destruct (memb (snd a) vis); cbn [orb negb List.length]; lia.
Qed.

Lemma remove_label_le l ss : List.length (remove_label l ss) <= List.length ss.
Proof.
  unfold remove_label. induction ss as [|a ss IH]; [cbn; lia|].
  cbn [filter]. destruct (negb (N.eqb (snd a) l)); cbn [List.length]; lia.
Qed.

Lemma unvl_remove_le l vis ss : unvl vis (remove_label l ss) <= unvl vis ss.
Proof.
  unfold unvl, labels, remove_label. induction ss as [|a ss IH]; [cbn; lia|].
  cbn [filter map]. destruct (negb (N.eqb (snd a) l)); cbn [map filter];
    destruct (negb (memb (snd a) vis)); cbn [List.length]; lia.
Qed.

Lemma unvl_remove l vis ss : memb l (labels ss) = true -> memb l vis = false ->
  unvl vis (remove_label l ss) + 1 <= unvl vis ss /\ List.length (remove_label l ss) + 1 <= List.length ss.
Proof.
  intros Hin Hv. unfold labels in *. induction ss as [|a ss IH]; [discriminate|].
  cbn [map] in Hin. unfold memb in Hin. cbn [existsb] in Hin. fold (memb l (map snd ss)) in Hin.
  pose proof (unvl_remove_le l vis ss) as H1. pose proof (remove_label_le l ss) as H2.
  unfold unvl, labels, remove_label in *. cbn [filter map].
  destruct (N.eqb_spec l (snd a)) as [->|Hne].
  - rewrite N.eqb_refl. cbn [negb]. rewrite Hv. cbn [negb List.length]. lia.
  - cbn [orb] in Hin. specialize (IH Hin).
    assert (Hne' : N.eqb (snd a) l = false) by (apply N.eqb_neq; congruence).
    rewrite Hne'. cbn [negb filter map]. destruct (negb (memb (snd a) vis)); cbn [List.length]; lia.
Qed.

Lemma pass_cond (b : bool) l vis ss : (b && memb l (labels ss) && negb (memb l vis))%bool = true ->
  unvl (l :: vis) ss + 1 <= unvl vis ss /\ unvl vis (remove_label l ss) + 1 <= unvl vis ss
  /\ List.length (remove_label l ss) + 1 <= List.length ss.
Proof.
  intros H. apply andb_prop in H as [H Hv]. apply andb_prop in H as [_ Hin].
  apply negb_true_iff in Hv. split; [now apply unvl_visit|now apply unvl_remove].
Qed.

Lemma swap_remove2_length idx l k : nth_error l idx = Some k -> S (List.length (swap_remove2 idx l)) = List.length l.
Proof.
  intros H. pose proof H as Hlt. apply nth_error_split in H as (pre & post & -> & <-).
  unfold swap_remove2. rewrite Hlt. rewrite app_length. cbn [List.length].
  assert (Hrl : forall m : list (N * N), m <> [] -> S (List.length (removelast2 m)) = List.length m).
  { induction m as [|x m IH]; [congruence|]. intros _. destruct m as [|y m]; [reflexivity|].
    cbn [removelast2 List.length] in *. rewrite IH by discriminate. reflexivity. }
  destruct (Nat.eqb_spec (S (List.length pre)) (List.length pre + S (List.length post))) as [He|Hne].
  - assert (post = []) by (destruct post; [reflexivity|cbn in He; lia]). subst post.
    pose proof (Hrl (pre ++ [k])) as Hx. rewrite app_length in Hx. cbn [List.length] in Hx.
    assert (pre ++ [k] <> []) by (destruct pre; discriminate). specialize (Hx H). lia.
  - assert (Hs : skipn (S (List.length pre)) (pre ++ k :: post) = post).
    { replace (S (List.length pre)) with (List.length (pre ++ [k])) by (rewrite app_length; cbn; lia).
      replace (pre ++ k :: post) with ((pre ++ [k]) ++ post) by (rewrite <- app_assoc; reflexivity).
      apply skipn_app_exact || (rewrite skipn_app, skipn_all, Nat.sub_diag; reflexivity). }
    rewrite Hs. rewrite firstn_app, firstn_all, Nat.sub_diag. cbn [firstn]. rewrite app_nil_r.
    rewrite app_length. cbn [List.length].
    assert (post <> []) by (destruct post; [cbn in Hne; lia|discriminate]).
    specialize (Hrl post H). lia.
Qed.

(** * The potential *)
Definition rJ (s : rst) : nat := 3 * rS s + rT s + 9.
Definition rcap (s : rst) : nat := 6 * rS s + 2 * rT s + 8 * rQ s + 19.
Definition again (s : rst) : nat := match server s, b_rep s with Some _, Some _ => rJ s | _, _ => 0 end.
Definition errc (s : rst) : nat := match b_err s with Some (true, _) => 3 | Some (false, _) => 1 | None => 0 end.
Definition rk_handle (s : rst) : nat := 3 * rS s + rT s + 4 + again s.
Definition rk_top (s : rst) : nat := 2 + errc s + rk_handle s.
(** what is left after the requestor streams, with / without a reply still buffered *)
Definition tail_bc (s : rst) : nat := if sp s then rS s + 1 else rJ s + again s.
Definition tail_bcn (s : rst) : nat := if sp s then rS s + 1 else rJ s.
Definition rk_repcheck (s : rst) : nat := 2 * rS s + rT s + 2 + tail_bcn s.

Definition rrank (s : rst) : nat :=
  match rctl s with
  | RTop => rk_top s
  | RReqReady => 2 + errc s + rk_handle s
  | RReqSend => 1 + errc s + rk_handle s
  | RErrSlot => errc s + rk_handle s
  | RErrReady _ => 3 + errc s + rk_handle s
  | RErrSend _ => 2 + errc s + rk_handle s
  | RErrClose _ => 1 + errc s + rk_handle s
  | RHandle => rk_handle s
  | RShutFlush vis => unvl vis (rsinks s)
  | RServerCheck => rk_handle s
  | RServerPoll => 3 * rS s + rT s + 4
  | RSrvEndFlushSrv => 1 + rS s + rk_repcheck s
  | RSrvEndFlushRouter vis => unvl vis (rsinks s) + rk_repcheck s
  | RRepCheck => rk_repcheck s
  | RRepReady vis => unvl vis (rsinks s) + 1 + rT s + rS s + 1 + tail_bcn s
  | RRepSend => 1 + rT s + rS s + 1 + tail_bcn s
  | RStreamsStart => rT s + rS s + 1 + tail_bc s
  | RStreams _ _ rem => rem + rS s + 1 + tail_bc s
  | RDoneFlushRouter vis => unvl vis (rsinks s) + 1 + tail_bc s
  | RDoneFlushSrv => 1 + tail_bc s
  | RBothCheck => if sp s && stp s then rS s + 1 else rk_top s
  | RBothFlushRouter vis => unvl vis (rsinks s) + 1
  | RBothFlushSrv => 1
  | _ => 0
  end.

Definition rpotential (s : rst) : nat := rrank s + rQ s * rcap s.

Definition rpeer_call (e : rev) : bool :=
  match e with VSink _ _ _ | VStream _ _ => true | _ => false end.
Definition rhands_data (e : rev) : bool :=
  match e with VStream _ (FItem _) | VStream _ FErrR | VStream _ FEnd => true | _ => false end.

Lemma nth_error_lt2 {A} (l : list A) i x : nth_error l i = Some x -> i < List.length l.
Proof. intros H. apply nth_error_Some. congruence. Qed.

Ltac rwork_prep :=
  unfold rpotential, rrank, rcap, rk_top, rk_handle, rk_repcheck, tail_bc, tail_bcn, again, errc, rJ, rS, rT, rQ in *; rsimp;
  repeat match goal with
         | H : rctl _ = _ |- _ => rewrite H in *; clear H
         | H : rqueue _ = _ |- _ => rewrite H in *; clear H
         | H : b_rep _ = _ |- _ => rewrite H in *; clear H
         | H : b_req _ = _ |- _ => rewrite H in *; clear H
         | H : b_err _ = _ |- _ => rewrite H in *; clear H
         | H : server _ = _ |- _ => rewrite H in *; clear H
         | H : rstreams _ = _ |- _ => rewrite H in *; clear H
         | H : sp _ = _ |- _ => rewrite H in *; clear H
         | H : stp _ = _ |- _ => rewrite H in *; clear H
         | H : (_ && memb _ (labels _) && negb (memb _ _))%bool = true |- _ => apply pass_cond in H; destruct H as (? & ? & ?)
         | H : nth_error _ _ = Some _ |- _ =>
           let HL := fresh "HL" in let HS := fresh "HS" in
           pose proof (nth_error_lt2 _ _ _ H) as HL; pose proof (swap_remove2_length _ _ _ H) as HS; clear H
         end;
  rewrite ?app_length, ?unvl_nil in *; cbn [List.length andb] in *.

Ltac rwork_fin :=
  repeat (match goal with
          | |- context[match b_rep ?s with _ => _ end] => destruct (b_rep s)
          | |- context[match b_err ?s with _ => _ end] => destruct (b_err s) as [[[] ?]|]
          | |- context[match server ?s with _ => _ end] => destruct (server s)
          | |- context[if sp ?s then _ else _] => destruct (sp s)
          | |- context[if stp ?s then _ else _] => destruct (stp s)
          | |- context[(sp ?s && _)%bool] => destruct (sp s)
          | |- context[(_ && stp ?s)%bool] => destruct (stp s)
          end; cbv iota beta; cbn [andb] in *);
  repeat match goal with
         | |- context[unvl ?v (remove_label ?l ?ss)] =>
           lazymatch goal with
           | _ : unvl v (remove_label l ss) <= List.length (remove_label l ss) |- _ => fail
           | _ => pose proof (unvl_le v (remove_label l ss)); pose proof (unvl_remove_le l v ss)
           end
         | |- context[List.length (remove_label ?l ?ss)] =>
           lazymatch goal with
           | _ : List.length (remove_label l ss) <= List.length ss |- _ => fail
           | _ => pose proof (remove_label_le l ss)
           end
         | |- context[unvl ?v ?ss] =>
           lazymatch goal with
           | _ : unvl v ss <= List.length ss |- _ => fail
           | _ => pose proof (unvl_le v ss)
           end
         end; cbn [app List.length andb] in *.

Ltac rwork_close := split; [lia|]; first [left; split; [reflexivity|lia] | right; split; [reflexivity|lia]].

Lemma rwork_internal s s' : rinternal s = Some s' ->
  rcap s' <= rcap s /\ ((rQ s' = rQ s /\ rrank s' <= rrank s) \/ (S (rQ s') = rQ s /\ rrank s' <= rcap s)).
Proof.
  intros H. unfold rinternal in H.
  crush_matches H; injection H as <-; rwork_prep.
  all: try (timeout 5 rwork_close).
  all: rwork_fin.
  all: try (timeout 10 rwork_close).
Qed.

Definition r_at_start (s : rst) : bool := match rctl s with RStreamsStart => true | _ => false end.

Ltac rraw_close :=
  split; [lia|]; split; [reflexivity|]; first [split; [lia|reflexivity] | lia].

Lemma rwork_raw s e s' : rstep_raw s e = Some s' -> rpeer_call e = true ->
  rcap s' <= rcap s /\ rQ s' = rQ s /\
  (if r_at_start s then rrank s' <= rrank s /\ r_at_start s' = false
   else rrank s' + 1 <= rrank s + (if rhands_data e then rcap s else 0)).
Proof.
  intros H Hp. unfold rstep_raw, router_pass, is_sink_ev_on in H.
  crush_matches H; injection H as <-; cbn [rpeer_call] in Hp; try discriminate; unfold r_at_start; rwork_prep; cbn [rhands_data].
  all: try (timeout 5 rraw_close).
  all: rwork_fin.
  all: try (timeout 10 rraw_close).
Qed.

Lemma pot_same q b r r' b' c d : b' <= b -> r' + c <= r + d -> r' + q * b' + c <= r + q * b + d.
Proof. intros Hb Hr. assert (q * b' <= q * b) by (apply Nat.mul_le_mono_l; exact Hb). lia. Qed.

Lemma pot_consume q b r r' b' : b' <= b -> r' <= b -> r' + q * b' <= r + S q * b.
Proof. intros Hb Hr. assert (q * b' <= q * b) by (apply Nat.mul_le_mono_l; exact Hb). lia. Qed.

Lemma rwork_internal_pot s s' : rinternal s = Some s' -> rpotential s' <= rpotential s /\ rcap s' <= rcap s.
Proof.
  intros H. destruct (rwork_internal _ _ H) as [Hc [[Hq Hr]|[Hq Hr]]]; split; try exact Hc; unfold rpotential.
  - rewrite Hq. pose proof (pot_same (rQ s) (rcap s) (rrank s) (rrank s') (rcap s') 0 0 Hc). lia.
  - rewrite <- Hq. apply pot_consume; [exact Hc|lia].
Qed.

Lemma rwork_settle fuel : forall s s', rsettle fuel s = Some s' -> rpotential s' <= rpotential s /\ rcap s' <= rcap s.
Proof.
  induction fuel as [|k IH]; intros s s' H; cbn [rsettle] in H; [discriminate|].
  destruct (rinternal s) as [s1|] eqn:E.
  - destruct (rwork_internal_pot _ _ E) as [H1 H2]. destruct (IH _ _ H) as [H3 H4]. lia.
  - injection H as <-. lia.
Qed.

Lemma rwork_raw_pot s e s' : rstep_raw s e = Some s' -> rpeer_call e = true ->
  rcap s' <= rcap s /\
  (if r_at_start s then rpotential s' <= rpotential s /\ r_at_start s' = false
   else rpotential s' + 1 <= rpotential s + (if rhands_data e then rcap s else 0)).
Proof.
  intros H Hp. destruct (rwork_raw _ _ _ H Hp) as (Hc & Hq & Hr). split; [exact Hc|].
  unfold rpotential. rewrite Hq.
  assert (Hm : rQ s * rcap s' <= rQ s * rcap s) by (apply Nat.mul_le_mono_l; exact Hc).
  destruct (r_at_start s); [destruct Hr as [Hr Hs]; split; [lia|exact Hs]|]. lia.
Qed.

Definition rdata_calls (seg : list rev) : nat := List.length (filter rhands_data seg).

Lemma rwork_step s e s' : rstep s e = Some s' -> rpeer_call e = true ->
  rcap s' <= rcap s /\ rpotential s' + 1 <= rpotential s + (if rhands_data e then rcap s else 0).
Proof.
  intros H Hp. unfold rstep, obind in H.
  destruct (rsettled s) as [s0|] eqn:E0; [|discriminate].
  destruct (rwork_settle _ _ _ E0) as [P0 C0].
  assert (Hone : forall a b, r_at_start a = false ->
            match rstep_raw a e with Some x => rsettled x | None => None end = Some b ->
            rcap b <= rcap a /\ rpotential b + 1 <= rpotential a + (if rhands_data e then rcap a else 0)).
  { intros a b Ha Hb. destruct (rstep_raw a e) as [x|] eqn:Ex; [|discriminate].
    destruct (rwork_raw_pot _ _ _ Ex Hp) as [C1 P1]. rewrite Ha in P1.
    destruct (rwork_settle _ _ _ Hb) as [P2 C2]. split; [lia|]. destruct (rhands_data e); lia. }
  destruct (rctl s0) eqn:Ec;
    try (destruct (Hone s0 s' ltac:(unfold r_at_start; rewrite Ec; reflexivity) H) as [C1 P1];
         split; [lia|]; destruct (rhands_data e); lia).
  destruct e; cbn [rpeer_call] in Hp; try discriminate;
    try (unfold rstep_raw in H; rewrite Ec in H; discriminate).
  destruct (rstep_raw s0 (VStream l r)) as [s1|] eqn:E1; [|discriminate].
  destruct (rwork_raw_pot _ _ _ E1 eq_refl) as [C1 P1].
  unfold r_at_start in P1 at 1. rewrite Ec in P1. destruct P1 as [P1 S1].
  destruct (Hone s1 s' S1 H) as [C2 P2].
  split; [lia|]. destruct (rhands_data (VStream l r)); lia.
Qed.

Lemma rwork_run seg : forall s s', forallb rpeer_call seg = true -> rrun s seg = Some s' ->
  rcap s' <= rcap s /\ List.length seg + rpotential s' <= rpotential s + rdata_calls seg * rcap s.
Proof.
  induction seg as [|e seg IH]; intros s s' Hp H; cbn [rrun] in H.
  - injection H as <-. unfold rdata_calls. cbn. lia.
  - cbn [forallb] in Hp. apply andb_prop in Hp as [Hp1 Hp2].
    destruct (rstep s e) as [s1|] eqn:E; [|discriminate].
    destruct (rwork_step _ _ _ E Hp1) as [C1 P1].
    destruct (IH _ _ Hp2 H) as [C2 P2].
    split; [lia|]. unfold rdata_calls in *. cbn [filter List.length].
    assert (Hm : List.length (filter rhands_data seg) * rcap s1 <= List.length (filter rhands_data seg) * rcap s)
      by (apply Nat.mul_le_mono_l; exact C1).
    destruct (rhands_data e); cbn [List.length]; lia.
Qed.

(** The statement: inside one poll the request/reply router makes at most
    [(data + queued + 1) * cap] calls on its peers, [data] = calls that handed it a frame, an
    invalid frame or the end of a stream, [queued] = registrations waiting in the channel,
    [cap = 6 * requestor sinks + 2 * requestor streams + 8 * queued + 19] at the start of the poll:
    whatever mix of requestors and repliers is connected, including none or only one side. *)
Theorem rr_poll_work_bounded s0 seg s1 :
  rctl s0 = RIdle -> forallb rpeer_call seg = true -> rrun s0 (VBegin :: seg) = Some s1 ->
  List.length seg <= (rdata_calls seg + rQ s0 + 1) * rcap s0.
Proof.
  intros Hc Hp H. cbn [rrun] in H. destruct (rstep s0 VBegin) as [sb|] eqn:Eb; [|discriminate].
  destruct (rwork_run _ _ _ Hp H) as [_ P].
  assert (Hb : rpotential sb <= (rQ s0 + 1) * rcap s0 /\ rcap sb <= rcap s0).
  { unfold rstep, obind in Eb. destruct (rsettled s0) as [sa|] eqn:Ea; [|discriminate].
    assert (sa = s0).
    { unfold rsettled in Ea. destruct (rsettle_fuel s0); cbn [rsettle] in Ea; [discriminate|].
      unfold rinternal in Ea. rewrite Hc in Ea. now injection Ea as <-. }
    subst sa. rewrite Hc in Eb. unfold rstep_raw in Eb. rewrite Hc in Eb.
    destruct (rwork_settle _ _ _ Eb) as [P1 C1].
    assert (Ht : rpotential (u_ctl s0 RTop) <= (rQ s0 + 1) * rcap s0).
    { unfold rpotential. change (rQ (u_ctl s0 RTop)) with (rQ s0). change (rcap (u_ctl s0 RTop)) with (rcap s0).
      assert (rrank (u_ctl s0 RTop) <= rcap s0).
      { unfold rrank, rk_top, rk_handle, again, errc, rJ, rcap, rS, rT, rQ; rsimp.
        destruct (b_err s0) as [[[] ?]|]; destruct (server s0); destruct (b_rep s0); lia. }
      lia. }
    assert (rcap (u_ctl s0 RTop) = rcap s0) by reflexivity. split; lia. }
  destruct Hb as [Hb1 Hb2].
  assert (rdata_calls seg * rcap sb <= rdata_calls seg * rcap s0) by (apply Nat.mul_le_mono_l; exact Hb2).
  lia.
Qed.

(** * No spinning between two peer calls *)
Definition rbump (s : rst) : nat := if sp s then 0 else match server s with None => 60 | Some _ => 0 end.
Definition rbump_any (s : rst) : nat := if sp s then 0 else 60.
Definition ripos (s : rst) : nat :=
  match rctl s with
  | RTop => 42
  | RErrSlot => 41
  | RHandle => 40
  | RServerCheck => 39
  | RSrvEndFlushRouter _ => 16 + rbump_any s
  | RRepCheck => 15 + rbump s
  | RRepReady _ => 14 + rbump s
  | RRepSend => 13 + rbump s
  | RStreamsStart => 12 + rbump s
  | RStreams _ _ _ => 12 + rbump_any s
  | RDoneFlushRouter _ => 11 + rbump s
  | RBothCheck => if sp s && stp s then 10 else 50
  | RBothFlushRouter _ => 9
  | RShutFlush _ => 1
  | _ => 0
  end.
Definition rimeasure (s : rst) : nat := ripos s + 40 * rQ s.

Lemma rinternal_decreases s s' : rinternal s = Some s' -> rimeasure s' < rimeasure s.
Proof.
  intros H. unfold rinternal in H.
  crush_matches H; injection H as <-; unfold rimeasure, ripos, rbump, rbump_any, rQ in *; rsimp;
    repeat match goal with
           | H : rctl _ = _ |- _ => rewrite H in *; clear H
           | H : rqueue _ = _ |- _ => rewrite H in *; clear H
           | H : b_rep _ = _ |- _ => rewrite H in *; clear H
           | H : server _ = _ |- _ => rewrite H in *; clear H
           | H : sp _ = _ |- _ => rewrite H in *; clear H
           | H : stp _ = _ |- _ => rewrite H in *; clear H
           | H : (sp _ && stp _)%bool = _ |- _ => rewrite H in *
           end; cbn [List.length andb] in *; try lia.
  all: repeat (match goal with
               | |- context[match server ?s with _ => _ end] => destruct (server s)
               | |- context[if sp ?s then _ else _] => destruct (sp s)
               | |- context[if stp ?s then _ else _] => destruct (stp s)
               | |- context[(sp ?s && _)%bool] => destruct (sp s)
               | |- context[(_ && stp ?s)%bool] => destruct (stp s)
               end; cbv iota beta; cbn [andb] in *); try lia; try discriminate.
Qed.

Lemma rsettle_enough n : forall s, rimeasure s < n -> exists s', rsettle n s = Some s'.
Proof.
  induction n as [|n IH]; intros s Hm; [lia|]. cbn [rsettle].
  destruct (rinternal s) as [s1|] eqn:E; [|now exists s].
  apply IH. pose proof (rinternal_decreases _ _ E). lia.
Qed.

Theorem rr_settled_total s : exists s', rsettled s = Some s'.
Proof.
  unfold rsettled. apply rsettle_enough. unfold rimeasure, rsettle_fuel, rQ.
  assert (ripos s <= 76).
  { unfold ripos, rbump, rbump_any. destruct (rctl s); try lia;
      destruct (sp s); destruct (stp s); destruct (server s); cbn [andb]; lia. }
  lia.
Qed.

(** * After close: a poll in which no sink answers Pending completes the future (C16) *)
Lemma rrun_app l1 : forall s l2, rrun s (l1 ++ l2) = obind (rrun s l1) (fun s' => rrun s' l2).
Proof.
  induction l1 as [|e l1 IH]; intros s l2; [reflexivity|].
  cbn [app rrun]. destruct (rstep s e) as [s1|]; [apply IH|reflexivity].
Qed.

Lemma rsettle_halts fuel : forall s s', rsettle fuel s = Some s' -> rinternal s' = None.
Proof.
  induction fuel as [|k IH]; intros s s' H; cbn [rsettle] in H; [discriminate|].
  destruct (rinternal s) as [s1|] eqn:E; [now apply (IH s1)|]. now injection H as <-.
Qed.

Lemma rstep_halts s e s' : rstep s e = Some s' -> rsettled s' = Some s'.
Proof.
  intros H. assert (Hi : rinternal s' = None).
  { unfold rstep, obind in H. destruct (rsettled s) as [s0|]; [|discriminate].
    assert (Hone : forall a, match rstep_raw a e with Some x => rsettled x | None => None end = Some s' -> rinternal s' = None).
    { intros a Ha. destruct (rstep_raw a e) as [x|]; [|discriminate]. unfold rsettled in Ha. now apply rsettle_halts in Ha. }
    destruct (rctl s0); try (now apply (Hone s0)).
    destruct e; try (now apply (Hone s0)).
    match type of H with match ?t with _ => _ end = _ => destruct t as [x|]; [|discriminate] end.
    now apply (Hone x). }
  unfold rsettled. destruct (rsettle_fuel s') as [|k] eqn:Ef; [unfold rsettle_fuel in Ef; lia|].
  cbn [rsettle]. now rewrite Hi.
Qed.

Lemma rclosed_run tr s s' : rclosed s = true -> rrun s tr = Some s' -> rclosed s' = true.
Proof.
  intros Hc H. revert H. apply (lift_run (fun x => rclosed x = true)).
  - intros a b Ha Hi. now rewrite (rinternal_closed _ _ Hi).
  - intros a e b Ha Hr. now apply (rstep_raw_closed _ _ _ Hr).
  - exact Hc.
Qed.

Theorem rr_poll_after_close_completes tr0 s0 seg r s1 :
  rrun rinit tr0 = Some s0 -> rclosed s0 = true -> rctl s0 = RIdle ->
  rrun s0 (VBegin :: seg ++ [VEnd r]) = Some s1 ->
  forallb rpeer_call seg = true -> forallb (fun e => negb (rr_pending_answer e)) seg = true ->
  r = true /\ List.length seg <= (rdata_calls seg + rQ s0 + 1) * rcap s0.
Proof.
  intros H0 Hcl Hc H Hp Hnp.
  change (VBegin :: seg ++ [VEnd r]) with ((VBegin :: seg) ++ [VEnd r]) in H.
  rewrite rrun_app in H. destruct (rrun s0 (VBegin :: seg)) as [sm|] eqn:Em; [|discriminate].
  cbn [obind rrun] in H. destruct (rstep sm (VEnd r)) as [se|] eqn:Ee; [|discriminate].
  split; [|now apply (rr_poll_work_bounded s0 seg sm)].
  destruct (exists_last (l := VBegin :: seg)) as (pre & elast & Hl); [discriminate|].
  rewrite Hl in Em. rewrite rrun_app in Em. destruct (rrun s0 pre) as [sp0|] eqn:Epre; [|discriminate].
  cbn [obind rrun] in Em. destruct (rstep sp0 elast) as [sm'|] eqn:El; [|discriminate]. injection Em as ->.
  pose proof (rstep_halts _ _ _ El) as Hs.
  unfold rstep, obind in Ee. rewrite Hs in Ee.
  assert (Hret : rctl sm = RReturn r).
  { destruct (rctl sm) eqn:E; cbv iota beta in Ee;
      (destruct (rstep_raw sm (VEnd r)) as [x|] eqn:Er; [|discriminate]);
      unfold rstep_raw, router_pass, is_sink_ev_on in Er; rewrite E in Er; try discriminate;
      try (crush_matches Er; fail).
    match type of Er with context[if Bool.eqb ?b r then _ else _] => destruct (Bool.eqb b r) eqn:Eb; [|discriminate];
      apply Bool.eqb_prop in Eb; now subst end. }
  destruct r; [reflexivity|exfalso].
  assert (Hsp : rrun rinit (tr0 ++ pre) = Some sp0) by (rewrite rrun_app, H0; exact Epre).
  pose proof (rclosed_run _ _ _ Hcl Epre) as Hclp.
  pose proof (rr_closed_pending_only_from_sinks _ _ _ _ Hsp Hclp El Hret) as Hpend.
  assert (Hin : In elast (VBegin :: seg)) by (rewrite Hl; apply in_or_app; right; left; reflexivity).
  destruct Hin as [<-|Hin]; [discriminate|].
  rewrite forallb_forall in Hnp. specialize (Hnp _ Hin). rewrite Hpend in Hnp. discriminate.
Qed.
