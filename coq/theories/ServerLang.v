(** The instruction language in which translator/serverfacts.py writes down the registration path
    of server/src/server.rs `handle_stream`, and the vocabulary of first frames and replies.
    Types only: the semantics is in Server.v. *)
Require Import Selium.Base.
Open Scope N_scope.

(** the eight frame kinds of protocol/src/frame.rs *)
Inductive fkind := KRegPub | KRegSub | KRegRep | KRegReq | KMsg | KBatch | KError | KOk.

(** the messaging pattern a topic is created for (server/src/topic/mod.rs Sender::{Pubsub,ReqRep}) *)
Inductive tkind := TPubSub | TReqRep.

(** conditions tested on the registration path *)
Inductive cond :=
| CInvalidName      (* !topic.is_valid() *)
| CKindMismatch     (* the table binds the name to a topic of the other messaging pattern *)
| CTopicAbsent.     (* !ts.contains_key(topic) *)

(** straight-line instructions *)
Inductive sinstr :=
| ILock                 (* let mut ts = topics.lock().await *)
| IUnlock               (* drop(ts) *)
| IReplyOk              (* stream.send(Frame::Ok).await? *)
| IReplyErr (code : N)  (* stream.send(Frame::Error{code,..}).await? *)
| IReturn               (* return Ok(()) -- every guard still held is dropped *)
| IAwaitHandles         (* topic_handles.lock().await.push(handle) *)
| ICreateTopic          (* Topic::pair(), tokio::spawn, ts.insert(topic, Sender::<kind of the first frame>) *)
| ITakeSender           (* ts.get(topic).unwrap() [.clone()] *)
| IHandoff (own : bool) (* tx.send(Socket::<role>).await?  own = the sender is this task's own clone *)
| IFlush (own : bool).  (* second half of SinkExt::send: wait until the sender's slot is free again; never emitted by the translator *)

Inductive instr :=
| S (i : sinstr)
| IIf (c : cond) (body : list sinstr).

(** what a peer can read first on the stream it opened, as client/src/streams/mod.rs handle_reply sees it *)
Inductive reply_pat := PFrameOk | PFrameError | PFrameOther | PDecodeError | PEnd.
Inductive client_res := COk | CErrPayloadCode | CErrCode (code : N) | CErrDecode.
