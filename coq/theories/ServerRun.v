(** The registration model instantiated with what the translator read from the source:
    the program of handle_stream, the frames that carry a topic, the queue sizes. *)
Require Import Selium.Base Selium.ServerLang Selium.Server SeliumGen.ServerFacts SeliumGen.KeepAliveFacts.
Open Scope N_scope.

Definition bufof (k : tkind) : N := match k with TPubSub => REG_BUFFER_PUBSUB | TReqRep => REG_BUFFER_REQREP end.
Definition ho := handle_open bufof handle_stream_prog.
Definition ff := first_frame bufof handle_stream_prog header_kinds.
Definition client_first_reply := client_reads handle_reply_arms.
Definition prog_keeps_discipline : bool := lock_safe false handle_stream_prog.

(** the stall scenario of the net engine `stall`: [before] registrations on topic 1 that its
    router adopts, then the router stops, [after] more registrations on topic 1, each run as far
    as it gets; does a registration on topic 2 then complete on its own steps? *)
Definition stall_env (name : N) (k : tkind) : env := {| e_name := name; e_valid := true; e_wants := k; e_reads := true |}.
Definition stall_fuel : nat := open_fuel handle_stream_prog.
Definition stall_spawns (from n : nat) : list label :=
  flat_map (fun i => LSpawn (stall_env 1 TPubSub) :: repeat (LProc (N.of_nat i)) stall_fuel) (seq from n).
Definition stall_predict (before after : N) : bool :=
  let b := N.to_nat before in
  let a := N.to_nat after in
  let pid := before + after in
  let ls := stall_spawns 0 b ++ repeat (LRouter 1) b ++ stall_spawns b a
            ++ LSpawn (stall_env 2 TPubSub) :: repeat (LProc pid) stall_fuel in
  let y := sys_run bufof handle_stream_prog ls in
  match p_get (y_procs y) pid with
  | Some p => match p_pc p, p_handed p with [], Some _ => true | _, _ => false end
  | None => false
  end.
