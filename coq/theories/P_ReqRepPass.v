(** C09 — when the request/reply router is about to return Pending, either it is blocked on a
    sink that holds the task's waker, or every requestor stream holds it (each was asked in this
    poll and answered Pending last) and so does the bound replier's stream, if a replier is bound.
    Same StreamMap pass as in P_PubSubPass (whose arithmetic lemmas are reused), plus what the
    [server_pending] / [stream_pending] flags mean at each control point. *)
Require Import Selium.Base Selium.PubSub Selium.P_Vec Selium.P_PubSub Selium.P_PubSubPass.
Require Import Selium.ReqRep Selium.ReqRepSpec Selium.P_ReqRep Selium.P_ReqRepOrder.
Open Scope N_scope.

(** * swap_remove2 through [labels] *)
Lemma labels_removelast2 l : labels (removelast2 l) = removelast' (labels l).
Proof.
  unfold labels. induction l as [|x l IH]; [reflexivity|]. destruct l as [|y l]; [reflexivity|].
  cbn [removelast2 map removelast'] in *. now rewrite IH.
Qed.

Lemma labels_last l : snd (last l (0, 0)) = last (labels l) 0.
Proof.
  unfold labels. induction l as [|x l IH]; [reflexivity|]. destruct l as [|y l]; [reflexivity|].
  cbn [last map] in *. exact IH.
Qed.

Lemma labels_swap_remove2 idx l : labels (swap_remove2 idx l) = swap_remove idx (labels l).
Proof.
  unfold swap_remove2, swap_remove, labels. rewrite nth_error_map, map_length.
  destruct (nth_error l idx); cbn [option_map]; [|reflexivity].
  destruct (Nat.eqb (S idx) (List.length l)).
  - apply labels_removelast2.
  - rewrite map_app. cbn [map]. rewrite firstn_map, skipn_map.
    fold (labels (removelast2 (skipn (S idx) l))). rewrite labels_removelast2.
    fold (labels l). rewrite labels_last. reflexivity.
Qed.

Lemma nth_labels l p key lab : nth_error l p = Some (key, lab) -> nth_error (labels l) p = Some lab.
Proof. intros H. unfold labels. rewrite nth_error_map, H. reflexivity. Qed.

(** * Labels are unique among requestor streams, the bound replier and the queue *)
Definition qlabels (q : list rsock) : list N := map rlabel_of q.

Record RND (s : rst) : Prop := {
  nd_streams : NoDup (labels (rstreams s));
  nd_srv : forall l, server s = Some l -> ~ In l (labels (rstreams s));
  nd_queue : NoDup (qlabels (rqueue s));
  nd_qfresh : forall l, In l (qlabels (rqueue s)) -> ~ In l (labels (rstreams s)) /\ server s <> Some l;
  nd_used_streams : forall l, In l (labels (rstreams s)) -> In l (h_used (rgh s));
  nd_used_srv : forall l, server s = Some l -> In l (h_used (rgh s));
  nd_used_queue : forall l, In l (qlabels (rqueue s)) -> In l (h_used (rgh s));
}.

Lemma labels_app a b : labels (a ++ b) = labels a ++ labels b.
Proof. unfold labels. apply map_app. Qed.

Ltac rnd_same HS := destruct HS as [A B C D E F G]; constructor; rsimp; assumption.

Lemma rnd_internal s s' : RND s -> rinternal s = Some s' -> RND s'.
Proof.
  intros HS H. unfold rinternal in H.
  crush_matches H; injection H as <-; try (rnd_same HS).
  - (* a requestor is adopted *)
    destruct HS as [A B C D E F G].
    match goal with Hq : rqueue s = _ |- _ => rewrite Hq in C, D, G end. cbn [qlabels map rlabel_of] in C, D, G.
    inversion C as [|? ? Hnl Hnd]; subst.
    constructor; rsimp; rewrite ?labels_app; cbn [labels map snd].
    + apply NoDup_app_intro_snoc; [exact A|]. exact (proj1 (D l0 (or_introl eq_refl))).
    + intros l1 Hs Hi. apply in_app_or in Hi as [Hi|[Heq|[]]]; [now apply (B l1)|]. subst l1.
      exact (proj2 (D l0 (or_introl eq_refl)) Hs).
    + exact Hnd.
    + intros l1 Hi. split.
      * intros Hj. apply in_app_or in Hj as [Hj|[Heq|[]]]; [exact (proj1 (D l1 (or_intror Hi)) Hj)|]. subst l1. contradiction.
      * exact (proj2 (D l1 (or_intror Hi))).
    + intros l1 Hi. apply in_app_or in Hi as [Hi|[Heq|[]]]; [now apply E|]. subst l1. apply G. now left.
    + exact F.
    + intros l1 Hi. apply G. now right.
  - (* a second replier is refused *)
    destruct HS as [A B C D E F G].
    match goal with Hq : rqueue s = _ |- _ => rewrite Hq in C, D, G end. cbn [qlabels map rlabel_of] in C, D, G.
    inversion C as [|? ? Hnl Hnd]; subst.
    constructor; rsimp; try assumption.
    + intros l1 Hi. apply D. now right.
    + intros l1 Hi. apply G. now right.
  - (* a replier is bound *)
    destruct HS as [A B C D E F G].
    match goal with Hq : rqueue s = _ |- _ => rewrite Hq in C, D, G end. cbn [qlabels map rlabel_of] in C, D, G.
    inversion C as [|? ? Hnl Hnd]; subst.
    constructor; rsimp; try assumption.
    + intros l1 Hs. injection Hs as <-. exact (proj1 (D l0 (or_introl eq_refl))).
    + intros l1 Hi. split; [exact (proj1 (D l1 (or_intror Hi)))|]. intros Hs. injection Hs as <-. contradiction.
    + intros l1 Hs. injection Hs as <-. apply G. now left.
    + intros l1 Hi. apply G. now right.
  - (* the replier whose stream ended is unbound *)
    destruct HS as [A B C D E F G]. constructor; rsimp; try assumption; try discriminate.
    intros l1 Hi. split; [exact (proj1 (D l1 Hi))|discriminate].
Qed.

Lemma rnd_step_raw s e s' : RND s -> rstep_raw s e = Some s' -> RND s'.
Proof.
  intros HS H. unfold rstep_raw, router_pass in H.
  crush_matches H; injection H as <-; try (rnd_same HS).
  all: destruct HS as [A B C D E F G].
  - (* a socket is queued *)
    match goal with Hb : (_ || _)%bool = false |- _ => apply orb_false_iff in Hb as [_ Hb] end.
    assert (Hfresh : ~ In (rlabel_of q) (h_used (rgh s))) by (intros Hi; apply memb_In in Hi; congruence).
    constructor; rsimp; unfold qlabels in *; rewrite ?map_app; cbn [map]; try assumption.
    + apply NoDup_app_intro_snoc; [exact C|]. intros Hi. apply Hfresh. now apply G.
    + intros l Hi. apply in_app_or in Hi as [Hi|[Heq|[]]]; [now apply D|]. subst l. split.
      * intros Hj. apply Hfresh. now apply E.
      * intros Hs. apply Hfresh. now apply F.
    + intros l Hi. right. now apply E.
    + intros l Hs. right. now apply F.
    + intros l Hi. apply in_app_or in Hi as [Hi|[Heq|[]]]; [right; now apply G|now left].
  - (* RReqReady: the replier's sink failed *)
    constructor; rsimp; try assumption; try discriminate. intros l1 Hi. split; [exact (proj1 (D l1 Hi))|discriminate].
  - (* a requestor stream ended *)
    constructor; rsimp; rewrite ?labels_swap_remove2; try assumption.
    + now apply swap_remove_NoDup.
    + intros l1 Hs Hi. apply (B l1 Hs). now apply swap_remove_In with idx.
    + intros l1 Hi. split; [|exact (proj2 (D l1 Hi))]. intros Hj. apply (proj1 (D l1 Hi)). now apply swap_remove_In with idx.
    + intros l1 Hi. apply E. now apply swap_remove_In with idx.
  - (* RDoneFlushSrv: the replier's sink failed *)
    constructor; rsimp; try assumption; try discriminate. intros l1 Hi. split; [exact (proj1 (D l1 Hi))|discriminate].
  - (* RBothFlushSrv: the replier's sink failed *)
    constructor; rsimp; try assumption; try discriminate. intros l1 Hi. split; [exact (proj1 (D l1 Hi))|discriminate].
Qed.

Lemma rnd_run tr s : rrun rinit tr = Some s -> RND s.
Proof.
  apply (lift_run RND); [exact rnd_internal|exact rnd_step_raw|].
  constructor; cbn.
  - constructor.
  - intros l Hs. discriminate.
  - constructor.
  - intros l [].
  - intros l [].
  - intros l Hs. discriminate.
  - intros l [].
Qed.

(** * What the flags mean, control point by control point *)
Definition rstream_armed (s : rst) (l : N) : Prop := is_armed (SStream l) (rarmed s) = true.
Definition AllArmedR (s : rst) : Prop := forall l, In l (labels (rstreams s)) -> rstream_armed s l.
Definition SrvArmed (s : rst) : Prop := match server s with None => True | Some l => rstream_armed s l end.
Definition some_sink_armed (s : rst) : Prop := exists l, is_armed (SSink l) (rarmed s) = true.

Definition RPassInv (s : rst) : Prop :=
  match rctl s with
  | RReqReady | RReqSend | RErrSlot | RErrReady _ | RErrSend _ | RErrClose _ | RHandle | RShutFlush _
  | RServerCheck | RServerPoll => sp s = false /\ stp s = false
  | RSrvEndFlushSrv | RSrvEndFlushRouter _ | RRepCheck | RRepReady _ | RRepSend | RStreamsStart =>
    stp s = false /\ (sp s = true -> SrvArmed s)
  | RStreams start idx rem =>
    stp s = false /\ (sp s = true -> SrvArmed s)
    /\ pass_side start idx rem (List.length (labels (rstreams s)))
    /\ forall p l, nth_error (labels (rstreams s)) p = Some l -> polled_pos start idx rem p -> rstream_armed s l
  | RDoneFlushRouter _ | RDoneFlushSrv => stp s = false /\ rstreams s = [] /\ (sp s = true -> SrvArmed s)
  | RBothCheck => (stp s = true -> AllArmedR s) /\ (sp s = true -> SrvArmed s)
  | RBothFlushRouter _ | RBothFlushSrv => AllArmedR s /\ SrvArmed s
  | RReturn false => some_sink_armed s \/ (AllArmedR s /\ SrvArmed s)
  | _ => True
  end.

Lemma index_of_label_lt l ss i : index_of_label l ss = Some i -> (i < List.length ss)%nat.
Proof.
  revert i. induction ss as [|[k lab] ss IH]; intros i H; [discriminate|]. cbn [index_of_label] in H.
  destruct (l =? lab); [injection H as <-; cbn; lia|].
  destruct (index_of_label l ss) as [k0|]; [|discriminate]. injection H as <-. specialize (IH k0 eq_refl). cbn. lia.
Qed.

Lemma labels_length ss : List.length (labels ss) = List.length ss.
Proof. apply map_length. Qed.

Ltac rpass_unfold := unfold RPassInv, AllArmedR, SrvArmed, rstream_armed, some_sink_armed in *; rsimp.

Lemma rpassinv_internal s s' : RPassInv s -> rinternal s = Some s' -> RPassInv s'.
Proof.
  intros HP H. unfold rinternal in H.
  crush_matches H; injection H as <-; rpass_unfold;
    repeat match goal with
           | Hc : rctl s = _ |- _ => rewrite Hc in HP
           | Hs : server s = _ |- _ => rewrite Hs in *
           end;
    try exact I; try tauto.
  all: try (destruct HP as (? & ? & ? & ?); repeat split; auto; try tauto; try discriminate; fail).
  - (* nothing at all is connected: early return *)
    right. split; [|exact I]. intros l0 Hl.
    match goal with Hs : rstreams s = [] |- _ => rewrite Hs in Hl end. destruct Hl.
  - (* RServerCheck with a reply still buffered: the replier is not polled, sp stays false *)
    destruct HP as [H1 H2]. split; [exact H2|]. intros; congruence.
  - (* the pass is over and requestor streams remain: every one of them was asked *)
    destruct HP as (H1 & H2 & H3 & H4). split; [|exact H2].
    intros _ l0 Hl. apply In_nth_error in Hl as [q Hq]. apply (H4 q l0 Hq). left. reflexivity.
  - (* every requestor stream has finished *)
    destruct HP as (H1 & H2 & H3). split; [|tauto]. intros _ l0 Hl. rewrite H2 in Hl. destruct Hl.
  - (* both flags set *)
    match goal with Hb : (sp s && stp s)%bool = true |- _ => apply andb_prop in Hb as [Hb1 Hb2] end.
    destruct HP as [H1 H2]. split; [now apply H1|now apply H2].
Qed.

Ltac sink_arms :=
  repeat first [ rewrite (is_armed_disarm_other (SStream _) (SSink _)) by discriminate
               | rewrite (is_armed_arm_other (SStream _) (SSink _)) by discriminate ].

Ltac rp_fin :=
  repeat match goal with H : _ /\ _ |- _ => destruct H end;
  repeat match goal with
         | H : context[match server ?s with _ => _ end] |- _ => destruct (server s) eqn:?
         | |- context[match server ?s with _ => _ end] => destruct (server s) eqn:?
         end;
  try (right; repeat split; intros; sink_arms; try exact I; try congruence; eauto; fail);
  repeat split; intros; sink_arms; try exact I; try congruence; eauto.

Lemma srv_not_stream s idx key l' l0 : RND s -> nth_error (rstreams s) idx = Some (key, l') -> server s = Some l0 ->
  SStream l0 <> SStream l'.
Proof.
  intros HN Hn Hs Heq. injection Heq as ->. apply (nd_srv _ HN _ Hs).
  apply nth_error_In with idx. now apply nth_labels with key.
Qed.

Lemma rpassinv_step_raw s e s' : RND s -> RPassInv s -> rstep_raw s e = Some s' -> RPassInv s'.
Proof.
  intros HN HP H. unfold rstep_raw, router_pass in H. destruct (rctl s) eqn:Ec.
  all: try discriminate.
  all: unfold RPassInv in HP; rewrite Ec in HP.
  all: try (crush_matches H; injection H as <-; rpass_unfold; rewrite ?Ec; try exact I;
            repeat match goal with Hs : server _ = _ |- _ => rewrite Hs in * end;
            sink_arms; try tauto;
            try (left; eexists; apply is_armed_arm_same);
            try (rp_fin; fail)).
  (* a requestor stream handed over a frame: back to the top of the loop, stream_pending unset *)
  all: try (match goal with
            | Hn : nth_error (rstreams _) _ = Some (_, ?l'), Hb : (?l =? ?l') = true |- (stp _ = true -> _) /\ _ =>
              apply N.eqb_eq in Hb; subst l';
              destruct HP as (Hst & Hsp & Hside & Hpol); split; [intros; congruence|];
              intros Hs; specialize (Hsp Hs); destruct (server s) as [l0|] eqn:Es; [|exact I];
              rewrite is_armed_disarm_other; [exact Hsp|]; eapply srv_not_stream; eauto
            end).
  - (* the bound replier's stream answered Pending: it holds the waker, server_pending is set *)
    destruct HP as [_ Hst]. split; [exact Hst|]. intros _. apply is_armed_arm_same.
  - (* RStreamsStart: the start index is read off the first stream asked *)
    destruct HP as [Hst Hsp].
    match goal with Hi : index_of_label _ _ = Some _ |- _ => pose proof (index_of_label_lt _ _ _ Hi) as Hlt end.
    rewrite labels_length. repeat split; [exact Hst|exact Hsp|right; left; lia|].
    intros p l0 _ [Hq|[Hq|Hq]]; lia.
  - (* a requestor stream ended: swap_remove under the cursor *)
    destruct HP as (Hst & Hsp & Hside & Hpol).
    match goal with Hn : nth_error (rstreams _) _ = Some (_, ?l'), Hb : (?l =? ?l') = true |- _ =>
      apply N.eqb_eq in Hb; subst l'; pose proof (nth_labels _ _ _ _ Hn) as Hnl; pose proof Hn as Hnp end.
    assert (Hidx : (idx < List.length (labels (rstreams s)))%nat) by (apply nth_error_Some; congruence).
    rewrite labels_swap_remove2. rewrite <- (labels_length (swap_remove2 idx (rstreams s))), labels_swap_remove2.
    pose proof (swap_remove_length idx (labels (rstreams s)) l Hnl) as Hlen.
    destruct (pass_end start idx n (List.length (labels (rstreams s))) Hidx Hside) as [Hs' Hp'].
    assert (Hl : (List.length (labels (rstreams s)) - 1)%nat = List.length (swap_remove idx (labels (rstreams s)))) by lia.
    rewrite Hl in Hs', Hp'. unfold rstreams_after_end. repeat split; [exact Hst| |exact Hs'|].
    + intros Hs. specialize (Hsp Hs). destruct (server s) as [l0|] eqn:Es; [|exact I].
      rewrite is_armed_disarm_other; [exact Hsp|]. eapply srv_not_stream; eauto.
    + intros p0 l0 Hp0 Hq.
      assert (Hpl : (p0 < List.length (swap_remove idx (labels (rstreams s))))%nat) by (apply nth_error_Some; congruence).
      pose proof (nd_streams _ HN) as Hnd.
      destruct (nth_error_swap_remove idx (labels (rstreams s)) p0 l0 Hidx Hp0) as [(Hne & Hlt & Hold)|(-> & Hlt & Hold)].
      * destruct (Hp' p0 Hpl Hq) as [(_ & Hq')|(Heq & _)]; [|contradiction].
        rewrite is_armed_disarm_other; [exact (Hpol p0 l0 Hold Hq')|].
        intros Heq. injection Heq as Heq. revert Heq. apply (nodup_nth_ne (labels (rstreams s)) p0 idx); assumption.
      * destruct (Hp' idx Hpl Hq) as [(Hne & _)|(_ & _ & Hq')]; [contradiction|].
        rewrite Hl in Hold.
        rewrite is_armed_disarm_other; [exact (Hpol _ l0 Hold Hq')|].
        intros Heq. injection Heq as Heq. revert Heq.
        apply (nodup_nth_ne (labels (rstreams s)) (List.length (swap_remove idx (labels (rstreams s)))) idx); try assumption. lia.
  - (* a requestor stream answered Pending: it keeps the waker, the cursor moves on *)
    destruct HP as (Hst & Hsp & Hside & Hpol).
    match goal with Hn : nth_error (rstreams _) _ = Some (_, ?l'), Hb : (?l =? ?l') = true |- _ =>
      apply N.eqb_eq in Hb; subst l'; pose proof (nth_labels _ _ _ _ Hn) as Hnl end.
    assert (Hidx : (idx < List.length (labels (rstreams s)))%nat) by (apply nth_error_Some; congruence).
    rewrite <- (labels_length (rstreams s)).
    destruct (pass_pending start idx n (List.length (labels (rstreams s))) Hidx Hside) as [Hs' Hp'].
    repeat split; [exact Hst| |exact Hs'|].
    + intros Hs. specialize (Hsp Hs). destruct (server s) as [l0|]; [|exact I]. now apply armed_after_arm.
    + intros p0 l0 Hp0 Hq.
      assert (Hpl : (p0 < List.length (labels (rstreams s)))%nat) by (apply nth_error_Some; congruence).
      destruct (Hp' p0 Hpl Hq) as [Hq'| ->].
      * apply armed_after_arm. exact (Hpol p0 l0 Hp0 Hq').
      * assert (l0 = l) by congruence. subst. apply is_armed_arm_same.
  - (* every requestor stream finished, replier's sink flushed *)
    destruct HP as (Hst & He & Hsp). split; [intros _ l0 Hl; rewrite He in Hl; destruct Hl|exact Hsp].
  - destruct HP as (Hst & He & Hsp). split; [intros _ l0 Hl; rewrite He in Hl; destruct Hl|intros; exact I].
Qed.

Definition RPassJ (s : rst) : Prop := RND s /\ RPassInv s.

Lemma rpassj_run tr s : rrun rinit tr = Some s -> RPassJ s.
Proof.
  apply (lift_run RPassJ).
  - intros a b [H1 H2] Hi. split; [now apply rnd_internal with a|now apply rpassinv_internal with a].
  - intros a e b [H1 H2] Hr. split; [now apply rnd_step_raw with a e|now apply rpassinv_step_raw with a e].
  - split; [exact (rnd_run [] rinit eq_refl)|exact I].
Qed.

(** Whenever a poll of the request/reply router is about to return Pending: either it is blocked
    on a sink that holds the task's waker, or EVERY requestor stream holds it (each was asked in
    this poll and answered Pending last) and so does the bound replier's stream, if a replier is
    bound.  This is what [server_pending] and [stream_pending] have to mean when the loop leaves. *)
Theorem rr_parks_armed_everywhere tr s :
  rrun rinit tr = Some s -> rctl s = RReturn false ->
  (exists l, is_armed (SSink l) (rarmed s) = true)
  \/ ((forall l, In l (labels (rstreams s)) -> is_armed (SStream l) (rarmed s) = true)
      /\ match server s with Some l => is_armed (SStream l) (rarmed s) = true | None => True end).
Proof.
  intros H Hc. destruct (rpassj_run _ _ H) as [_ HP]. unfold RPassInv in HP. rewrite Hc in HP. exact HP.
Qed.
