(** Symbolic model of the certificate checks behind the mutual-TLS handshake, at the level at
    which the repository configures them (rustls 0.21 / webpki): which verifier is installed,
    over which roots, for which purpose and name.

    A certificate is a record; "issuer_key c = k" stands for "c carries a valid signature made
    with key k".  Signatures are unforgeable by construction: peers present certificate records,
    and the question the model answers is which records a configuration accepts.  rustls, webpki
    and ring themselves (parsing, signature verification, validity periods) are trusted. *)
Require Import Selium.Base.
Open Scope N_scope.

Inductive purpose := PServerAuth | PClientAuth.
Definition purpose_eqb (a b : purpose) : bool :=
  match a, b with PServerAuth, PServerAuth | PClientAuth, PClientAuth => true | _, _ => false end.

Record cert := { subject_key : N;            (* the key the certificate certifies *)
                 issuer_key : N;             (* the key that signed it *)
                 is_ca : bool;               (* basicConstraints CA *)
                 key_cert_sign : bool;       (* keyUsage keyCertSign *)
                 ekus : list purpose;        (* extendedKeyUsage; [] = extension absent *)
                 dns_names : list string }.  (* subjectAltName dNSName *)

(** [c] was issued by [parent], and [parent] may issue certificates *)
Definition issued_by (c parent : cert) : bool :=
  (issuer_key c =? subject_key parent) && is_ca parent && key_cert_sign parent.

(** webpki path building: the issuer is a trust anchor, or a presented intermediate that itself
    has a path (at most as many intermediates as were presented) *)
Fixpoint path_ok (fuel : nat) (roots inters : list cert) (c : cert) : bool :=
  existsb (issued_by c) roots
  || match fuel with
     | O => false
     | Datatypes.S f => existsb (fun i => issued_by c i && path_ok f roots inters i) inters
     end.

(** an absent extendedKeyUsage extension allows every purpose *)
Definition eku_ok (p : purpose) (c : cert) : bool :=
  match ekus c with [] => true | l => existsb (purpose_eqb p) l end.

(** end-entity verification: not a CA certificate, right purpose, path to a configured root *)
Definition verify (roots : list cert) (p : purpose) (chain : list cert) : bool :=
  match chain with
  | [] => false
  | leaf :: inters => negb (is_ca leaf) && eku_ok p leaf && path_ok (List.length inters) roots inters leaf
  end.

(** rustls::server client-certificate verifiers *)
Inductive client_verifier := AllowAnyAuthenticatedClient | AllowAnyAnonymousOrAuthenticatedClient | NoClientAuth.

Definition server_accepts (v : client_verifier) (roots : list cert) (presented : option (list cert)) : bool :=
  match v with
  | NoClientAuth => true
  | AllowAnyAnonymousOrAuthenticatedClient =>
      match presented with None => true | Some ch => verify roots PClientAuth ch end
  | AllowAnyAuthenticatedClient =>
      match presented with None => false | Some ch => verify roots PClientAuth ch end
  end.

(** how the client verifies the server *)
Inductive server_verifier := WebPkiRoots | AcceptAnything.

Definition name_matches (name : string) (c : cert) : bool := existsb (String.eqb name) (dns_names c).

Definition client_accepts (v : server_verifier) (roots : list cert) (name : string) (chain : list cert) : bool :=
  match v with
  | AcceptAnything => true
  | WebPkiRoots => verify roots PServerAuth chain
                   && match chain with leaf :: _ => name_matches name leaf | [] => false end
  end.

(** what "chains to the configured CA" means, independently of the boolean search above *)
Inductive certified (roots inters : list cert) : cert -> Prop :=
| Cert_root c r : In r roots -> issued_by c r = true -> certified roots inters c
| Cert_inter c i : In i inters -> issued_by c i = true -> certified roots inters i -> certified roots inters c.
