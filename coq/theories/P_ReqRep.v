(** C02 / C10 / C11 — invariants of the req/rep router model, for every accepted trace. *)
Require Import Selium.Base Selium.PubSub Selium.ReqRep Selium.ReqRepSpec Selium.P_PubSub.
Require Import ZifyBool ZifyN ZifyNat.
Open Scope N_scope.

Ltac rsimp :=
  cbn [server rstreams rsinks next_id b_req b_rep b_err rqueue rclosed rctl sp stp rh_armed rarmed rgh
       u_ctl u_server u_streams u_sinks u_next u_req u_rep u_err u_queue u_closed u_flags u_harmed u_armed u_gh
       h_reqs_pulled h_reqs_sent h_reqs_refused h_reqs_dropped h_reps_pulled h_reps_routed h_reps_failed
       h_reps_discarded h_bound h_rejected h_keys h_used h_told h_closed h_rej_failed
       gh_req_pulled gh_req_sent gh_req_refused gh_req_dropped gh_rep_pulled gh_rep_routed gh_rep_failed
       gh_rep_discarded gh_bound gh_rejected gh_key gh_use gh_told gh_closed gh_rej_failed] in *.

Definition dealt (s : rst) : nat :=
  (List.length (h_reps_routed (rgh s)) + List.length (h_reps_failed (rgh s)) + List.length (h_reps_discarded (rgh s))
   + match b_rep s with Some _ => 1 | None => 0 end)%nat.

Definition rctl_ok (s : rst) : Prop :=
  match rctl s with
  | RServerPoll | RSrvEndFlushSrv | RSrvEndFlushRouter _ => b_rep s = None
  | RRepReady _ | RRepSend => b_rep s <> None
  | RPanic _ => False
  | _ => True
  end.

Definition qlabels (q : list rsock) : list N := map rlabel_of q.

Record RInv (s : rst) : Prop := {
  ri_count : dealt s = List.length (h_reps_pulled (rgh s));
  ri_ctl : rctl_ok s;
  ri_bound : forall l, server s = Some l -> In l (h_bound (rgh s));
  ri_disj : forall l, In l (h_rejected (rgh s)) -> ~ In l (h_bound (rgh s));
  ri_sent : forall l m, In (l, m) (h_reqs_sent (rgh s)) -> In l (h_bound (rgh s));
  ri_breq : forall m, b_req s = Some (FMsg m) ->
            exists k m0, In (k, m0) (h_reqs_pulled (rgh s)) /\ m = tag_req k m0;
  ri_sent_tag : forall l m, In (l, m) (h_reqs_sent (rgh s)) ->
                exists k m0, In (k, m0) (h_reqs_pulled (rgh s)) /\ m = tag_req k m0;
  ri_used : forall l, In l (h_bound (rgh s)) \/ In l (h_rejected (rgh s)) -> In l (h_used (rgh s));
  ri_qnodup : NoDup (qlabels (rqueue s));
  ri_qfresh : forall l, In l (qlabels (rqueue s)) ->
              In l (h_used (rgh s)) /\ ~ In l (h_bound (rgh s)) /\ ~ In l (h_rejected (rgh s));
}.

Lemma rinv_init : RInv rinit.
Proof.
  constructor; cbn; try reflexivity; try exact I; try constructor; intros; try tauto; try discriminate.
Qed.

Lemma memb_In x l : memb x l = true <-> In x l.
Proof.
  unfold memb. rewrite existsb_exists. split.
  - intros (y & Hin & Heq). apply N.eqb_eq in Heq. now subst.
  - intros H. exists x. split; [exact H|apply N.eqb_refl].
Qed.

(** transitions that leave the queue and the history alone *)
Lemma rinv_same s s' :
  RInv s -> rgh s' = rgh s -> rqueue s' = rqueue s -> b_rep s' = b_rep s -> b_req s' = b_req s ->
  (forall l, server s' = Some l -> server s = Some l) -> rctl_ok s' -> RInv s'.
Proof.
  intros [] Hg Hq Hb Hr Hs Hc. constructor; unfold dealt in *; rewrite ?Hg, ?Hq, ?Hb, ?Hr; auto.
Qed.

Ltac same_tac HI :=
  apply (rinv_same _ _ HI); rsimp;
  [reflexivity|reflexivity|reflexivity|reflexivity|try (intros ? ?; assumption || discriminate)|unfold rctl_ok; rsimp].

Lemma rinv_internal s s' : RInv s -> rinternal s = Some s' -> RInv s'.
Proof.
  intros HI H. pose proof (ri_ctl _ HI) as Hc. unfold rctl_ok in Hc.
  unfold rinternal in H.
  destruct (rctl s) eqn:Ec; try discriminate.
  - (* RTop *)
    rsimp. destruct (b_req s); [destruct (server s)|]; injection H as <-; same_tac HI; exact I.
  - (* RErrSlot *)
    destruct (b_err s) as [[[|] l]|]; injection H as <-; same_tac HI; exact I.
  - (* RHandle *)
    destruct (rqueue s) as [|[l|l] q] eqn:Eq.
    + destruct (rclosed s); [injection H as <-; same_tac HI; exact I|].
      rsimp. destruct (rstreams s), (server s), (b_req s), (b_rep s); injection H as <-; same_tac HI; exact I.
    + (* adopt a requestor *)
      injection H as <-. destruct HI. constructor; unfold dealt, qlabels in *; rsimp; auto.
      * rewrite Eq in ri_qnodup0. cbn in ri_qnodup0. now inversion ri_qnodup0.
      * intros l0 Hl0. apply ri_qfresh0. rewrite Eq. now right.
    + (* a replier arrives *)
      assert (Hf : In l (h_used (rgh s)) /\ ~ In l (h_bound (rgh s)) /\ ~ In l (h_rejected (rgh s))).
      { apply (ri_qfresh _ HI). unfold qlabels. rewrite Eq. now left. }
      destruct Hf as (Hu & Hnb & Hnr).
      pose proof (ri_qnodup _ HI) as Hnd. unfold qlabels in Hnd. rewrite Eq in Hnd. cbn in Hnd. inversion Hnd as [|? ? Hnq Hq']; subst.
      destruct (server s) as [cur|] eqn:Es; injection H as <-; destruct HI; constructor; unfold dealt, qlabels in *; rsimp; auto.
      * (* refused *)
        intros l0 Hl0. apply in_app_or in Hl0 as [Hl0|[<-|[]]]; auto.
      * intros l0 [Hl0|Hl0]; [auto|]. apply in_app_or in Hl0 as [Hl0|[<-|[]]]; auto.
      * intros l0 Hl0. destruct (ri_qfresh0 l0) as (H1 & H2 & H3); [rewrite Eq; now right|].
        repeat split; auto. intros Hin. apply in_app_or in Hin as [Hin|[<-|[]]]; auto.
      * (* bound *)
        intros l0 Hl0. injection Hl0 as <-. apply in_or_app. right. now left.
      * intros l0 Hl0 Hin. apply in_app_or in Hin as [Hin|[<-|[]]]; [now apply (ri_disj0 l0)|contradiction].
      * intros l0 m Hin. apply in_or_app. left. eauto.
      * intros l0 [Hl0|Hl0]; [|auto]. apply in_app_or in Hl0 as [Hl0|[<-|[]]]; auto.
      * intros l0 Hl0. destruct (ri_qfresh0 l0) as (H1 & H2 & H3); [rewrite Eq; now right|].
        repeat split; auto. intros Hin. apply in_app_or in Hin as [Hin|[<-|[]]]; auto.
  - (* RShutFlush *)
    destruct (all_visited visited s); [|discriminate]. injection H as <-. same_tac HI. exact I.
  - (* RServerCheck *)
    destruct (server s) eqn:Es; destruct (b_rep s) eqn:Eb; injection H as <-; same_tac HI; auto.
  - (* RSrvEndFlushRouter *)
    destruct (all_visited visited s); [|discriminate]. injection H as <-. same_tac HI. exact I.
  - (* RRepCheck *)
    destruct (b_rep s) eqn:Eb; injection H as <-; same_tac HI; [congruence|exact I].
  - (* RRepReady *)
    destruct (all_visited visited s); [|discriminate]. injection H as <-. same_tac HI. exact Hc.
  - (* RRepSend *)
    destruct (b_rep s) as [f|] eqn:Eb; [|contradiction].
    destruct (route s f); [discriminate|]. injection H as <-.
    destruct HI. constructor; unfold dealt in *; rsimp; auto.
    + rewrite Eb in ri_count0. rewrite app_length. cbn [List.length]. lia.
    + exact I.
  - (* RStreamsStart *)
    destruct (rstreams s); [|discriminate]. injection H as <-. same_tac HI. exact I.
  - (* RStreams *)
    destruct rem; [|discriminate]. destruct (rstreams s); injection H as <-; same_tac HI; exact I.
  - (* RDoneFlushRouter *)
    destruct (all_visited visited s); [|discriminate].
    destruct (server s); injection H as <-; same_tac HI; exact I.
  - (* RBothCheck *)
    destruct (sp s && stp s); injection H as <-; same_tac HI; exact I.
  - (* RBothFlushRouter *)
    destruct (all_visited visited s); [|discriminate].
    destruct (server s); injection H as <-; same_tac HI; exact I.
Qed.

Lemma rinv_fields s s' :
  RInv s ->
  h_reps_pulled (rgh s') = h_reps_pulled (rgh s) -> h_reps_routed (rgh s') = h_reps_routed (rgh s) ->
  h_reps_failed (rgh s') = h_reps_failed (rgh s) -> h_reps_discarded (rgh s') = h_reps_discarded (rgh s) ->
  h_bound (rgh s') = h_bound (rgh s) -> h_rejected (rgh s') = h_rejected (rgh s) ->
  h_used (rgh s') = h_used (rgh s) ->
  (forall x, In x (h_reqs_pulled (rgh s)) -> In x (h_reqs_pulled (rgh s'))) ->
  (forall l m, In (l, m) (h_reqs_sent (rgh s')) ->
     In (l, m) (h_reqs_sent (rgh s)) \/ (server s = Some l /\ b_req s = Some (FMsg m))) ->
  (forall m, b_req s' = Some (FMsg m) ->
     b_req s = Some (FMsg m) \/ exists k m0, In (k, m0) (h_reqs_pulled (rgh s')) /\ m = tag_req k m0) ->
  rqueue s' = rqueue s -> b_rep s' = b_rep s ->
  (forall l, server s' = Some l -> server s = Some l) -> rctl_ok s' -> RInv s'.
Proof.
  intros [] H1 H2 H3 H4 H5 H6 H7 Hpull Hsent Hreq Hq Hb Hs Hc.
  constructor; unfold dealt in *; rewrite ?H1, ?H2, ?H3, ?H4, ?H5, ?H6, ?H7, ?Hq, ?Hb; auto.
  - intros l m Hin. destruct (Hsent l m Hin) as [H|[H _]]; eauto.
  - intros m Hm. destruct (Hreq m Hm) as [H|H]; [|exact H].
    destruct (ri_breq0 m H) as (k & m0 & Hin & ->). exists k, m0. auto.
  - intros l m Hin. destruct (Hsent l m Hin) as [H|[_ H]].
    + destruct (ri_sent_tag0 l m H) as (k & m0 & Hin' & ->). exists k, m0. auto.
    + destruct (ri_breq0 m H) as (k & m0 & Hin' & ->). exists k, m0. auto.
Qed.

Ltac fields_tac HI :=
  apply (rinv_fields _ _ HI); rsimp;
  [reflexivity|reflexivity|reflexivity|reflexivity|reflexivity|reflexivity|reflexivity
  |try (intros ? ?; assumption)
  |try (intros ? ? ?; left; assumption)
  |try (intros ? ?; (left; assumption) || discriminate)
  |reflexivity|reflexivity|try (intros ? ?; assumption || discriminate)|unfold rctl_ok; rsimp].

Lemma router_pass_inv s visited op e cont s' :
  RInv s -> b_rep s = b_rep s ->
  (forall v, match cont v with RPanic _ => False | RServerPoll | RSrvEndFlushSrv | RSrvEndFlushRouter _ => b_rep s = None
                               | RRepReady _ | RRepSend => b_rep s <> None | _ => True end) ->
  router_pass s visited op e cont = Some s' -> RInv s'.
Proof.
  intros HI _ Hcont H. unfold router_pass in H.
  destruct e as [| | | | |l op' r|]; try discriminate.
  destruct ((match op with OReady => match op' with OReady => true | _ => false end
                         | OFlush => match op' with OFlush => true | _ => false end | _ => false end)
            && memb l (labels (rsinks s)) && negb (memb l visited)); [|discriminate].
  destruct r; injection H as <-; fields_tac HI; try exact I;
    match goal with |- context [cont ?v] => specialize (Hcont v); destruct (cont v); auto end.
Qed.

Lemma rinv_step_raw s e s' : RInv s -> rstep_raw s e = Some s' -> RInv s'.
Proof.
  intros HI H. pose proof (ri_ctl _ HI) as Hc. unfold rctl_ok in Hc.
  unfold rstep_raw in H.
  destruct (rctl s) eqn:Ec; try discriminate.
  - (* RIdle *)
    destruct e as [|r|q woke|woke|x woke|l op r|l r]; try discriminate.
    + injection H as <-. fields_tac HI. exact I.
    + destruct (rclosed s || memb (rlabel_of q) (h_used (rgh s))) eqn:Eu; [discriminate|].
      destruct (Bool.eqb woke (rh_armed s)); [|discriminate]. injection H as <-.
      apply orb_false_iff in Eu as [_ Eu].
      assert (Hnew : ~ In (rlabel_of q) (h_used (rgh s))) by (intros Hin; apply memb_In in Hin; congruence).
      destruct HI. constructor; unfold dealt, qlabels in *; rsimp; auto.
      * intros l Hl. right. auto.
      * rewrite map_app. cbn [map].
        apply NoDup_app_intro_snoc; [exact ri_qnodup0|].
        intros Hin. apply Hnew. now apply ri_qfresh0.
      * intros l Hl. rewrite map_app in Hl. apply in_app_or in Hl as [Hl|[<-|[]]].
        -- destruct (ri_qfresh0 l Hl) as (H1 & H2 & H3). repeat split; auto. now right.
        -- repeat split; [now left| |]; intros Hin; apply Hnew; apply ri_used0; auto.
    + destruct (Bool.eqb woke (rh_armed s)); [|discriminate]. injection H as <-. fields_tac HI. now rewrite Ec.
    + destruct (woke && is_armed x (rarmed s)); [|discriminate]. injection H as <-. fields_tac HI. now rewrite Ec.
  - (* RReqReady *)
    destruct (server s) as [l|] eqn:Es; [|discriminate].
    destruct (is_sink_ev_on l OReady e) as [[| |]|]; try discriminate; injection H as <-; fields_tac HI; exact I.
  - (* RReqSend *)
    destruct (server s) as [l|] eqn:Es; [|discriminate].
    destruct (b_req s) as [[m| |]|] eqn:Eq; try discriminate.
    destruct (is_sink_ev_on l (OSend (FMsg m)) e) as [[| |]|]; try discriminate; injection H as <-; fields_tac HI; try exact I.
    intros l0 m0 Hin. apply in_app_or in Hin as [Hin|[Hin|[]]]; [now left|]. injection Hin as <- <-. right. split; assumption.
  - (* RErrReady *)
    destruct (is_sink_ev_on l OReady e) as [[| |]|]; try discriminate; injection H as <-; fields_tac HI; exact I.
  - (* RErrSend *)
    destruct (is_sink_ev_on l (OSend (FErr REPLIER_ALREADY_BOUND_CODE)) e) as [[| |]|]; try discriminate; injection H as <-; fields_tac HI; exact I.
  - (* RErrClose *)
    destruct (is_sink_ev_on l OClose e) as [[| |]|]; try discriminate; injection H as <-; fields_tac HI; exact I.
  - (* RShutFlush *)
    eapply router_pass_inv; [exact HI|reflexivity| |exact H]. intros v. exact I.
  - (* RServerPoll *)
    destruct (server s) as [l|] eqn:Es; [|discriminate].
    destruct e as [| | | | | |l' r]; try discriminate.
    destruct (l =? l'); [|discriminate].
    destruct r; injection H as <-.
    + (* a reply is pulled *)
      destruct HI. constructor; unfold dealt in *; rsimp; auto.
      * rewrite Hc in ri_count0. rewrite app_length. cbn [List.length]. lia.
      * unfold rctl_ok; rsimp. exact I.
    + fields_tac HI. exact I.
    + fields_tac HI. exact Hc.
    + fields_tac HI. exact I.
  - (* RSrvEndFlushSrv *)
    destruct (server s) as [l|] eqn:Es; [|discriminate].
    destruct (is_sink_ev_on l OFlush e) as [[| |]|]; try discriminate; injection H as <-; fields_tac HI; try exact I; exact Hc.
  - (* RSrvEndFlushRouter *)
    eapply router_pass_inv; [exact HI|reflexivity| |exact H]. intros v. exact Hc.
  - (* RRepReady *)
    eapply router_pass_inv; [exact HI|reflexivity| |exact H]. intros v. exact Hc.
  - (* RRepSend *)
    destruct (b_rep s) as [f|] eqn:Eb; [|discriminate].
    destruct (route s f) as [[lab m']|]; [|discriminate].
    destruct (is_sink_ev_on lab (OSend (FMsg m')) e) as [[| |]|]; try discriminate; injection H as <-;
      destruct HI; constructor; unfold dealt in *; rsimp; auto;
      try (rewrite Eb in ri_count0; rewrite app_length; cbn [List.length]; lia);
      try (unfold rctl_ok; rsimp; exact I).
  - (* RStreamsStart *)
    destruct e as [| | | | | |l r]; try discriminate.
    destruct (index_of_label l (rstreams s)); [|discriminate]. injection H as <-. fields_tac HI. exact I.
  - (* RStreams *)
    destruct rem as [|rem]; [discriminate|].
    destruct e as [| | | | | |l r]; try discriminate.
    destruct (nth_error (rstreams s) idx) as [[key l']|]; [|discriminate].
    destruct (l =? l'); [|discriminate].
    destruct r as [[m|c|t]| | |]; injection H as <-;
      try (destruct (b_req s) as [[old|c0|t0]|]); fields_tac HI; try exact I;
      try (intros x Hx; apply in_or_app; now left);
      try (intros m0 Hm0; injection Hm0 as <-; right; exists key, m; split; [apply in_or_app; right; now left|reflexivity]).
  - (* RDoneFlushRouter *)
    eapply router_pass_inv; [exact HI|reflexivity| |exact H]. intros v. exact I.
  - (* RDoneFlushSrv *)
    destruct (server s) as [l|] eqn:Es; [|discriminate].
    destruct (is_sink_ev_on l OFlush e) as [[| |]|]; try discriminate; injection H as <-; fields_tac HI; exact I.
  - (* RBothFlushRouter *)
    eapply router_pass_inv; [exact HI|reflexivity| |exact H]. intros v. exact I.
  - (* RBothFlushSrv *)
    destruct (server s) as [l|] eqn:Es; [|discriminate].
    destruct (is_sink_ev_on l OFlush e) as [[| |]|]; try discriminate; injection H as <-; fields_tac HI; exact I.
  - (* RReturn *)
    destruct e as [|r| | | | |]; try discriminate.
    destruct (Bool.eqb ready r); [|discriminate]. injection H as <-. fields_tac HI. destruct ready; exact I.
Qed.

Lemma rinv_settle fuel : forall s s', RInv s -> rsettle fuel s = Some s' -> RInv s'.
Proof.
  induction fuel as [|k IH]; intros s s' HI H; [discriminate|]. cbn [rsettle] in H.
  destruct (rinternal s) as [s1|] eqn:E.
  - apply (IH s1); [eapply rinv_internal; eassumption|exact H].
  - injection H as <-. exact HI.
Qed.

Lemma rinv_step s e s' : RInv s -> rstep s e = Some s' -> RInv s'.
Proof.
  intros HI H. unfold rstep, obind, rsettled in H.
  destruct (rsettle (rsettle_fuel s) s) as [s0|] eqn:E0; [|discriminate].
  pose proof (rinv_settle _ _ _ HI E0) as H0.
  assert (Hfin : forall s1 s2, RInv s1 -> match rstep_raw s1 e with Some s1' => rsettle (rsettle_fuel s1') s1' | None => None end = Some s2 -> RInv s2).
  { intros s1 s2 H1 Hs. destruct (rstep_raw s1 e) as [s1'|] eqn:E1; [|discriminate].
    eapply rinv_settle; [eapply rinv_step_raw; eassumption|exact Hs]. }
  destruct (rctl s0); destruct e as [|r|q woke|woke|x woke|lab op r|lab r]; try (eapply Hfin; eassumption).
  destruct (rstep_raw s0 (VStream lab r)) as [s1|] eqn:E1; [|discriminate].
  eapply Hfin; [eapply rinv_step_raw; eassumption|exact H].
Qed.

Lemma rinv_run tr : forall s s', RInv s -> rrun s tr = Some s' -> RInv s'.
Proof.
  induction tr as [|e tr IH]; intros s s' HI H; cbn [rrun] in H.
  - injection H as <-. exact HI.
  - destruct (rstep s e) as [s1|] eqn:E; [|discriminate].
    eapply IH; [eapply rinv_step; eassumption|exact H].
Qed.

(** * Theorems *)

(** C11 / C08: no frame sequence, no peer failure, no schedule makes the router panic *)
Theorem rr_never_panics tr s : rrun rinit tr = Some s -> rpanicked s = false.
Proof.
  intros H. pose proof (ri_ctl _ (rinv_run tr _ _ rinv_init H)) as Hc.
  unfold rctl_ok in Hc. unfold rpanicked. destruct (rctl s); try reflexivity. contradiction.
Qed.

(** C02 (third sentence): every reply pulled from the replier is forwarded, found undeliverable
    by its own sink, or discarded for its tag - except the single one waiting in the buffer -
    so none is ever overwritten or silently lost, however slow the requestors are *)
Theorem rr_no_reply_lost tr s : rrun rinit tr = Some s ->
  (List.length (h_reps_routed (rgh s)) + List.length (h_reps_failed (rgh s)) + List.length (h_reps_discarded (rgh s))
   + match b_rep s with Some _ => 1 | None => 0 end)%nat = List.length (h_reps_pulled (rgh s)).
Proof. intros H. exact (ri_count _ (rinv_run tr _ _ rinv_init H)). Qed.

(** C10: requests are only ever handed to a replier that was bound; a refused replier is never
    bound (neither before nor after), hence never receives a request; the current replier is
    a bound one *)
Theorem rr_single_bound tr s : rrun rinit tr = Some s -> c10_state_ok s = true.
Proof.
  intros H. pose proof (rinv_run tr _ _ rinv_init H) as HI. unfold c10_state_ok.
  apply andb_true_iff. split; [apply andb_true_iff; split|].
  - apply forallb_forall. intros l Hl. apply negb_true_iff.
    destruct (memb l (h_bound (rgh s))) eqn:E; [|reflexivity]. apply memb_In in E. exfalso. eapply ri_disj; eassumption.
  - apply forallb_forall. intros [l m] Hin. cbn [fst]. apply negb_true_iff.
    destruct (memb l (h_rejected (rgh s))) eqn:E; [|reflexivity]. apply memb_In in E. exfalso.
    eapply ri_disj; [exact HI|exact E|]. eapply ri_sent; eassumption.
  - destruct (server s) as [l|] eqn:Es; [|reflexivity]. apply memb_In. now apply (ri_bound _ HI).
Qed.

(** C02 (origin unforgeable): every request handed to a replier is a request some requestor
    sent, carrying the key the router itself assigned to that requestor whatever routing tag
    the requestor supplied; its other headers and its payload are untouched *)
Theorem rr_requests_tagged tr s : rrun rinit tr = Some s ->
  forall l m, In (l, m) (h_reqs_sent (rgh s)) ->
  exists k m0, In (k, m0) (h_reqs_pulled (rgh s)) /\ m = tag_req k m0.
Proof. intros H. exact (ri_sent_tag _ (rinv_run tr _ _ rinv_init H)). Qed.
