(** C17 — property theorems (statements and [exact]s only).
    System: any number of registration tasks running the translated program
    (gen/ServerFacts.v [handle_stream_prog]) over the shared table, the global lock and one bounded
    registration queue per topic; routers appear as "adopt one registration" steps that may or
    may not be taken, so a stalled topic is simply one whose router step never occurs.
    [sys_run ls] is the state after any schedule [ls] of spawns, task steps and router steps.
    PARTIAL: that a subscriber which stops reading stalls its router (QUIC flow control) and the
    fairness of tokio's mutex are runtime facts, exercised on the real server by the net engine
    `srv` (stall scenario); the model carries the lock/queue logic. *)
Require Import Selium.Base Selium.ServerLang Selium.Server SeliumGen.ServerFacts SeliumGen.KeepAliveFacts Selium.ServerRun Selium.P_Server.
Open Scope N_scope.

(** the discipline: nothing that can wait for a peer or a router runs under the table lock, the
    lock is never taken twice, the table is touched only under it *)
Theorem c17_program_keeps_the_discipline : lock_safe false handle_stream_prog = true.
Proof. vm_compute. reflexivity. Qed.
Print Assumptions c17_program_keeps_the_discipline.

(** in every reachable state, whoever holds the table lock can take its next step *)
Theorem c17_lock_holder_never_waits : forall ls h,
  sh_lock (y_sh (sys_run bufof handle_stream_prog ls)) = Some h ->
  exists y', sys_step bufof handle_stream_prog (sys_run bufof handle_stream_prog ls) (LProc h) = Some y'.
Proof.
  intros ls h. apply holder_moves. apply sinv_run. exact c17_program_keeps_the_discipline.
Qed.
Print Assumptions c17_lock_holder_never_waits.

(** in every reachable state -- however many registrations are queued or parked on whatever
    topics -- a registration whose own peer reads runs to completion helped only by the router
    of its own topic and by whoever holds the table lock at that moment (relation [helped]) *)
Theorem c17_other_topics_progress : forall ls pid p,
  p_get (y_procs (sys_run bufof handle_stream_prog ls)) pid = Some p ->
  e_reads (p_env p) = true ->
  exists y' p',
    helped handle_stream_prog pid (e_name (p_env p)) (sys_run bufof handle_stream_prog ls) y'
    /\ p_get (y_procs y') pid = Some p' /\ p_pc p' = [] /\ p_env p' = p_env p.
Proof.
  intros ls pid p Hp Hr.
  destruct (completes handle_stream_prog c17_program_keeps_the_discipline pid _ _ p
              (sinv_run _ c17_program_keeps_the_discipline ls) Hp Hr (le_n _))
    as (y' & p' & Hh & _ & Hp' & Hpc & He).
  exists y', p'. auto.
Qed.
Print Assumptions c17_other_topics_progress.

(** the table changes only by a step of the lock holder (so the locked section is atomic) *)
Theorem c17_table_section_atomic : forall ls l y',
  sys_step bufof handle_stream_prog (sys_run bufof handle_stream_prog ls) l = Some y' ->
  sh_table (y_sh y') = sh_table (y_sh (sys_run bufof handle_stream_prog ls))
  \/ (exists pid, l = LProc pid /\ sh_lock (y_sh (sys_run bufof handle_stream_prog ls)) = Some pid).
Proof.
  intros ls l y'. apply table_changes_only_under_lock. apply sinv_run. exact c17_program_keeps_the_discipline.
Qed.
Print Assumptions c17_table_section_atomic.

(** Non-vacuity 1: 150 registrations on topic 1 whose router never adopts anything (50 of them
    parked beyond the queue bound); a registration on topic 2 then completes on its own steps *)
Definition c17_eA := {| e_name := 1; e_valid := true; e_wants := TPubSub; e_reads := true |}.
Definition c17_eB := {| e_name := 2; e_valid := true; e_wants := TReqRep; e_reads := true |}.
Definition c17_sched (n : nat) : list label :=
  flat_map (fun i => LSpawn c17_eA :: repeat (LProc (N.of_nat i)) 12) (seq 0 n).
Example c17_example :
  let yA := sys_run bufof handle_stream_prog (c17_sched 150) in
  let yB := fold_left (sys_step' bufof handle_stream_prog) (LSpawn c17_eB :: repeat (LProc 150) 12) yA in
  q_len (q_get (sh_queues (y_sh yA)) 1) = 150
  /\ List.length (q_parked (q_get (sh_queues (y_sh yA)) 1)) = 50%nat
  /\ option_map (fun p => (p_pc p, p_replies p, p_handed p)) (p_get (y_procs yB) 150) = Some ([], [ROk], Some TReqRep).
Proof. vm_compute. repeat split; reflexivity. Qed.

(** Non-vacuity 2 (the model can exhibit the defect): with the hand-off made under the lock through
    the shared sender, as the code read before the repair (D19), the discipline fails and the
    101st registration on a stalled topic blocks while holding the lock *)
Definition c17_prog_before_repair : list instr :=
  [IIf CInvalidName [IReplyErr INVALID_TOPIC_NAME; IReturn]; S IReplyOk; S ILock;
   IIf CTopicAbsent [IAwaitHandles; ICreateTopic]; S ITakeSender; S (IHandoff false)].
Example c17_refuted_when_handoff_under_lock :
  lock_safe false c17_prog_before_repair = false
  /\ let y := sys_run bufof c17_prog_before_repair (c17_sched 101) in
     sh_lock (y_sh y) = Some 100 /\ sys_step bufof c17_prog_before_repair y (LProc 100) = None.
Proof. vm_compute. repeat split; reflexivity. Qed.
