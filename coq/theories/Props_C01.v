(** C01 — property theorems (statements and [exact]s only).  [run init tr = Some s] says that
    [tr] is a behaviour of the pub/sub router model: any number of publishers and subscribers,
    any registration order, any Ready/Pending/Err/item/end answer of every peer, any StreamMap
    start index, any interleaving of environment actions between polls.  [PubSubSpec] states
    what the property demands.  Payloads are abstract identifiers: the router only clones and
    forwards them, so "byte-for-byte unchanged" is equality of identifiers. *)
Require Import Selium.Base Selium.PubSub Selium.PubSubSpec Selium.P_PubSub.
Open Scope N_scope.

(** every subscriber ever adopted has received a prefix of exactly the items pulled since its
    registration was processed (in order, contiguous, none duplicated or skipped), and a live
    subscriber is missing at most the single item in flight; live subscribers never failed *)
Theorem c01_exactly_once_in_order : forall tr s,
  run init tr = Some s -> c01_state_ok s = true /\ live_ok s = true /\ panicked s = false.
Proof. exact run_c01. Qed.
Print Assumptions c01_exactly_once_in_order.

(** the history component of the state is the history of the trace: "pulled" are the items the
    publisher streams yielded, "sent to k" the items for which start_send on k returned Ok *)
Theorem c01_history_is_trace : forall tr s,
  run init tr = Some s -> g_pulled (gh s) = pulled tr /\ forall k, sent_of k (gh s) = sent_to k tr.
Proof. exact run_history. Qed.
Print Assumptions c01_history_is_trace.

(** once every subscriber is able to accept data (no sink answers Pending during a poll), that
    poll returns only after everything pulled so far has been delivered to every live subscriber
    and flushed; holds from every reachable parked state *)
Theorem c01_quiescent_flushed : forall tr0 s0 seg s1 r,
  run init tr0 = Some s0 -> ctl s0 = PIdle ->
  forallb (fun e => negb (sink_pending e)) seg = true ->
  run s0 (EBegin :: seg) = Some s1 -> ctl s1 = PReturn r ->
  delivered_all s1 = true.
Proof.
  intros tr0 s0 seg s1 r H0. apply quiescent_poll. exact (inv_run tr0 _ _ inv_init H0).
Qed.
Print Assumptions c01_quiescent_flushed.

(** Non-vacuity: a history with two subscribers, one failing in start_send at index 0 (the
    pinned tree panicked here), a pending flush and a late subscriber is a behaviour of the model *)
Example c01_example :
  exists s, run init
    [EBegin; EEnd false; EQueue (QSink 0) true; EQueue (QSink 1) false; EQueue (QStream 0) false;
     EBegin; EStream 0 (SItem 7); ESinkReady 0 ROk; ESinkReady 1 ROk; ESinkSend 0 7 false; ESinkSend 1 7 true;
     EStream 0 (SItem 8); ESinkReady 1 RPending; EEnd false;
     EQueue (QSink 2) true; EFire (SSink 1) true;
     EBegin; ESinkReady 1 ROk; ESinkSend 1 8 true; EStream 0 SPending; ESinkFlush 1 ROk; ESinkFlush 2 RPending; EEnd false] = Some s
  /\ sent_of 1 (gh s) = [7; 8] /\ sent_of 2 (gh s) = [] /\ sinks s = [1; 2].
Proof. eexists. vm_compute. repeat split; reflexivity. Qed.
