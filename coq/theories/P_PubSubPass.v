(** C09 — when the pub/sub router parks because its publishers have nothing more to give
    (FlStreamsPending), every publisher stream it holds was asked in that poll and answered
    Pending last: each of them holds the task's waker.  The proof follows tokio's
    StreamMap::poll_next_entry: a cyclic pass from a start index over a vector that shrinks by
    swap_remove while the pass is under way. *)
Require Import Selium.Base Selium.PubSub Selium.PubSubSpec Selium.P_Vec Selium.P_PubSub Selium.P_PubSubPark.
Open Scope N_scope.

(** * arm / disarm *)
Lemma src_eqb_refl x : src_eqb x x = true.
Proof. destruct x; cbn; auto using N.eqb_refl. Qed.

Lemma src_eqb_eq x y : src_eqb x y = true -> x = y.
Proof. destruct x, y; cbn; try discriminate; auto; intros H; apply N.eqb_eq in H; now subst. Qed.

Lemma is_armed_disarm_other x y a : x <> y -> is_armed x (disarm y a) = is_armed x a.
Proof.
  intros Hne. unfold is_armed, disarm. induction a as [|z a IH]; [reflexivity|].
  cbn [filter]. destruct (src_eqb y z) eqn:E; cbn [negb existsb].
  - apply src_eqb_eq in E. subst z. rewrite IH.
    destruct (src_eqb x y) eqn:E2; [apply src_eqb_eq in E2; contradiction|reflexivity].
  - now rewrite IH.
Qed.

Lemma is_armed_arm_other x y a : x <> y -> is_armed x (arm y a) = is_armed x a.
Proof.
  intros Hne. unfold arm. unfold is_armed at 1. cbn [existsb].
  destruct (src_eqb x y) eqn:E; [apply src_eqb_eq in E; contradiction|].
  cbn [orb]. fold (is_armed x (disarm y a)). now apply is_armed_disarm_other.
Qed.

Lemma is_armed_arm_same x a : is_armed x (arm x a) = true.
Proof. unfold is_armed, arm. cbn [existsb]. now rewrite src_eqb_refl. Qed.

(** * swap_remove, by position *)
Lemma nth_error_removelast' (l : list N) p : (S p < List.length l)%nat -> nth_error (removelast' l) p = nth_error l p.
Proof.
  revert p. induction l as [|x l IH]; intros p Hp; [cbn in Hp; lia|].
  destruct l as [|y l]; [cbn in Hp; lia|].
  cbn [removelast']. destruct p as [|p]; [reflexivity|].
  cbn [nth_error]. apply IH. cbn [List.length] in *. lia.
Qed.

Lemma length_removelast' (l : list N) : List.length (removelast' l) = (List.length l - 1)%nat.
Proof.
  induction l as [|x l IH]; [reflexivity|]. destruct l as [|y l]; [reflexivity|].
  cbn [removelast' List.length] in *. rewrite IH. lia.
Qed.

Lemma nth_error_last (l : list N) d : l <> [] -> nth_error l (List.length l - 1) = Some (last l d).
Proof.
  induction l as [|x l IH]; [congruence|]. intros _. destruct l as [|y l]; [reflexivity|].
  cbn [List.length]. replace (S (S (List.length l)) - 1)%nat with (S (List.length l)) by lia.
  cbn [nth_error]. change (last (x :: y :: l) d) with (last (y :: l) d).
  rewrite <- IH by discriminate. cbn [List.length]. f_equal. lia.
Qed.

Lemma nth_error_firstn_lt {A} (l : list A) : forall n p, (p < n)%nat -> nth_error (firstn n l) p = nth_error l p.
Proof.
  induction l as [|x l IH]; intros n p Hp; [now rewrite firstn_nil|].
  destruct n as [|n]; [lia|]. destruct p as [|p]; [reflexivity|]. cbn. apply IH. lia.
Qed.

Lemma nth_error_skipn_add {A} (l : list A) : forall n p, nth_error (skipn n l) p = nth_error l (n + p).
Proof.
  induction l as [|x l IH]; intros n p; [rewrite skipn_nil; now destruct p, n|].
  destruct n as [|n]; [reflexivity|]. cbn. apply IH.
Qed.

(** what sits at position [p] after [swap_remove idx]: the old entry, or (at [idx]) the old last one *)
Lemma nth_error_swap_remove idx (l : list N) p j :
  (idx < List.length l)%nat -> nth_error (swap_remove idx l) p = Some j ->
  (p <> idx /\ (p < List.length l - 1)%nat /\ nth_error l p = Some j)
  \/ (p = idx /\ (idx < List.length l - 1)%nat /\ nth_error l (List.length l - 1) = Some j).
Proof.
  intros Hidx H. unfold swap_remove in H.
  destruct (nth_error l idx) eqn:En; [|apply nth_error_None in En; lia].
  destruct (Nat.eqb_spec (S idx) (List.length l)) as [He|Hne].
  - assert (Hp : (p < List.length (removelast' l))%nat) by (apply nth_error_Some; congruence).
    rewrite length_removelast' in Hp. rewrite nth_error_removelast' in H by lia.
    left. repeat split; [lia|lia|exact H].
  - assert (Hp : (p < List.length (firstn idx l ++ last l 0%N :: removelast' (skipn (S idx) l)))%nat) by (apply nth_error_Some; congruence).
    rewrite app_length, firstn_length_le in Hp by lia. cbn [List.length] in Hp.
    rewrite length_removelast', skipn_length in Hp.
    destruct (Nat.lt_ge_cases p idx) as [Hlt|Hge].
    + rewrite nth_error_app1 in H by (rewrite firstn_length_le; lia).
      rewrite nth_error_firstn_lt in H by lia.
      left. repeat split; [lia|lia|exact H].
    + rewrite nth_error_app2 in H by (rewrite firstn_length_le; lia). rewrite firstn_length_le in H by lia.
      destruct (Nat.eq_dec p idx) as [->|Hne2].
      * rewrite Nat.sub_diag in H. cbn [nth_error] in H. injection H as <-.
        right. repeat split; [lia|]. apply nth_error_last. destruct l; [cbn in Hidx; lia|discriminate].
      * replace (p - idx)%nat with (S (p - idx - 1)) in H by lia. cbn [nth_error] in H.
        rewrite nth_error_removelast' in H by (rewrite skipn_length; lia).
        rewrite nth_error_skipn_add in H. replace (S idx + (p - idx - 1))%nat with p in H by lia.
        left. repeat split; [lia|lia|exact H].
Qed.

(** * Publisher labels are unique: in the map and in the queue *)
Definition qstreams (q : list sock) : list N :=
  flat_map (fun s => match s with QStream j => [j] | QSink _ => [] end) q.

Definition SND (s : st) : Prop :=
  NoDup (streams s ++ qstreams (queue s))
  /\ forall j, In j (streams s ++ qstreams (queue s)) -> In (QStream j) (g_used (gh s)).

Lemma NoDup_app_iff (l m : list N) : NoDup (l ++ m) <-> NoDup l /\ NoDup m /\ (forall x, In x l -> ~ In x m).
Proof.
  induction l as [|a l IH]; cbn [app].
  - split; [intros H; repeat split; [constructor|exact H|intros x []]|intros (_ & H & _); exact H].
  - split.
    + intros H. inversion H as [|? ? Hn Hd]; subst. apply IH in Hd as (H1 & H2 & H3).
      repeat split; [constructor; [intros Hi; apply Hn; apply in_or_app; now left|exact H1]|exact H2|].
      intros x [<-|Hx]; [intros Hm; apply Hn; apply in_or_app; now right|now apply H3].
    + intros (H1 & H2 & H3). inversion H1 as [|? ? Hn Hd]; subst. constructor.
      * intros Hi. apply in_app_or in Hi as [Hi|Hi]; [contradiction|]. apply (H3 a); [now left|exact Hi].
      * apply IH. repeat split; [exact Hd|exact H2|]. intros x Hx. apply H3. now right.
Qed.

Lemma qstreams_app a b : qstreams (a ++ b) = qstreams a ++ qstreams b.
Proof. unfold qstreams. apply flat_map_app. Qed.

Lemma sock_eqb_used q l : existsb (sock_eqb q) l = false -> ~ In q l.
Proof.
  intros H Hin. assert (existsb (sock_eqb q) l = true); [|congruence].
  apply existsb_exists. exists q. split; [exact Hin|]. destruct q; cbn; apply N.eqb_refl.
Qed.

Ltac snd_queue :=
  repeat match goal with
         | Hq : queue ?s = _, H : context[queue ?s] |- _ => rewrite Hq in H
         end; cbn [qstreams flat_map app] in *.

Lemma snd_internal s s' : SND s -> internal s = Some s' -> SND s'.
Proof.
  intros HS H. unfold internal in H.
  crush_matches H; injection H as <-; destruct HS as [Hn Hu]; unfold SND; simp_st;
    try (split; [exact Hn|exact Hu]); snd_queue;
    match goal with l : list sock |- _ => fold (qstreams l) in * end.
  - rewrite <- app_assoc. cbn [app]. split; [exact Hn|exact Hu].
  - split; [exact Hn|exact Hu].
Qed.

Lemma snd_swap_remove idx (l m : list N) : NoDup (l ++ m) -> NoDup (swap_remove idx l ++ m).
Proof.
  intros H. apply NoDup_app_iff in H as (H1 & H2 & H3). apply NoDup_app_iff.
  repeat split; [now apply swap_remove_NoDup|exact H2|].
  intros x Hx. apply H3. now apply swap_remove_In with idx.
Qed.

Lemma snd_step_raw s e s' : SND s -> step_raw s e = Some s' -> SND s'.
Proof.
  intros HS H. unfold step_raw in H.
  crush_matches H; injection H as <-; destruct HS as [Hn Hu]; unfold SND; simp_st;
    try (split; [exact Hn|exact Hu]).
  - (* a socket is queued *)
    rewrite qstreams_app, app_assoc.
    match goal with Hb : (_ || _)%bool = false |- _ => apply orb_false_iff in Hb as [_ Hb]; apply sock_eqb_used in Hb; rename Hb into Hfresh end.
    match goal with |- context[qstreams [?q]] => destruct q as [j|k] end; cbn [qstreams flat_map app]; rewrite ?app_nil_r.
    + split.
      * apply NoDup_app_intro_snoc; [exact Hn|]. intros Hi. apply Hfresh. now apply Hu.
      * intros j0 Hi. apply in_app_or in Hi as [Hi|[<-|[]]]; [right; now apply Hu|now left].
    + split; [exact Hn|]. intros j0 Hi. right. now apply Hu.
  - (* a publisher stream ended *)
    split; [now apply snd_swap_remove|].
    intros j0 Hi. apply Hu. apply in_app_or in Hi as [Hi|Hi]; apply in_or_app; [left; now apply swap_remove_In with idx|now right].
Qed.

Lemma snd_run tr s : run init tr = Some s -> SND s.
Proof.
  apply (ps_lift_run SND); [exact snd_internal|exact snd_step_raw|].
  split; cbn; [constructor|intros j []].
Qed.

(** * The pass *)
Definition polled_pos (start idx rem p : nat) : Prop :=
  rem = O \/ (start <= idx /\ start <= p < idx)%nat \/ (idx < start /\ (start <= p \/ p < idx))%nat.

Definition pass_side (start idx rem n : nat) : Prop :=
  rem = O \/ (start <= idx /\ idx < n /\ rem = n - idx + start)%nat
  \/ (idx < start /\ idx < n /\ rem = Nat.min start n - idx)%nat.

Definition stream_armed (s : st) (j : N) : Prop := is_armed (SStream j) (armed s) = true.

Definition PassInv (s : st) : Prop :=
  match ctl s with
  | PStreams start idx rem =>
    pass_side start idx rem (List.length (streams s))
    /\ forall p j, nth_error (streams s) p = Some j -> polled_pos start idx rem p -> stream_armed s j
  | PFlush _ FlStreamsPending => forall j, In j (streams s) -> stream_armed s j
  | PFlush _ FlEarlyPark => streams s = []
  | PReturn false => (forall j, In j (streams s) -> stream_armed s j) \/ ps_some_sink_armed s
  | _ => True
  end.

Lemma index_of_lt j l i : index_of j l = Some i -> (i < List.length l)%nat.
Proof.
  revert i. induction l as [|y l IH]; intros i H; [discriminate|]. cbn [index_of] in H.
  destruct (j =? y); [injection H as <-; cbn; lia|].
  destruct (index_of j l) as [k|]; [|discriminate]. injection H as <-. specialize (IH k eq_refl). cbn. lia.
Qed.

Lemma passinv_internal s s' : PassInv s -> internal s = Some s' -> PassInv s'.
Proof.
  intros HP H. unfold internal in H.
  crush_matches H; injection H as <-; unfold PassInv in *; simp_st; unfold after_flush;
    try match goal with Hc : ctl s = _ |- _ => rewrite Hc in HP end; try exact I;
    try (match goal with w : fl_reason |- _ => destruct w end; try exact I);
    try assumption.
  all: try (left; intros j Hj; match goal with Hs : streams _ = [] |- _ => rewrite Hs in Hj; destruct Hj end).
  all: try (left; assumption).
  - (* the pass is over and publishers remain: every one of them was asked *)
    destruct HP as [_ HA]. intros j Hj. apply In_nth_error in Hj as [p Hp].
    apply (HA p j Hp). left. reflexivity.
Qed.

Lemma sink_stream_ne k j : SStream j <> SSink k.
Proof. discriminate. Qed.

Lemma armed_after_arm j j' a : is_armed (SStream j') a = true -> is_armed (SStream j') (arm (SStream j) a) = true.
Proof.
  intros H. destruct (N.eq_dec j' j) as [->|Hne]; [apply is_armed_arm_same|].
  rewrite is_armed_arm_other; [exact H|congruence].
Qed.

Lemma nodup_nth_ne (l : list N) p q x y : NoDup l -> nth_error l p = Some x -> nth_error l q = Some y -> p <> q -> x <> y.
Proof.
  intros Hn Hp Hq Hne ->. apply Hne. rewrite NoDup_nth_error in Hn. apply Hn; [|congruence].
  apply nth_error_Some. congruence.
Qed.

Lemma pass_pending start idx rem n :
  (idx < n)%nat -> pass_side start idx (S rem) n ->
  pass_side start (Nat.modulo (S idx) n) rem n
  /\ forall p, (p < n)%nat -> polled_pos start (Nat.modulo (S idx) n) rem p -> polled_pos start idx (S rem) p \/ p = idx.
Proof.
  intros Hidx [H0|[(Ha & Hb & Hr)|(Ha & Hb & Hr)]]; [discriminate| |].
  - destruct (Nat.eq_dec (S idx) n) as [He|Hne].
    + rewrite He, Nat.mod_same by lia. destruct (Nat.eq_dec start 0) as [->|Hs].
      * split; [left; lia|]. intros p Hp _. destruct (Nat.eq_dec p idx); [now right|left]. right. left. lia.
      * split; [right; right; rewrite Nat.min_l by lia; lia|].
        intros p Hp [H|[H|H]]; [lia|lia|]. destruct (Nat.eq_dec p idx); [now right|left]. right. left. lia.
    + rewrite Nat.mod_small by lia. split; [right; left; lia|].
      intros p Hp [H|[H|H]]; [lia| |lia]. destruct (Nat.eq_dec p idx); [now right|left]. right. left. lia.
  - destruct (Nat.eq_dec (S idx) n) as [He|Hne].
    + rewrite He, Nat.mod_same by lia. rewrite Nat.min_r in Hr by lia.
      split; [left; lia|]. intros p Hp _. destruct (Nat.eq_dec p idx); [now right|left]. right. right. lia.
    + rewrite Nat.mod_small by lia. destruct (Nat.eq_dec (S idx) start) as [Hs|Hs].
      * split; [left; rewrite Nat.min_l in Hr by lia; lia|].
        intros p Hp _. destruct (Nat.eq_dec p idx); [now right|left]. right. right. lia.
      * split; [right; right; lia|].
        intros p Hp [H|[H|H]]; [lia|lia|]. destruct (Nat.eq_dec p idx); [now right|left]. right. right. lia.
Qed.

Lemma pass_end start idx rem n :
  (idx < n)%nat -> pass_side start idx (S rem) n ->
  pass_side start (streams_after_end start idx (n - 1)) rem (n - 1)
  /\ forall p, (p < n - 1)%nat -> polled_pos start (streams_after_end start idx (n - 1)) rem p ->
       (p <> idx /\ polled_pos start idx (S rem) p) \/ (p = idx /\ (idx < n - 1)%nat /\ polled_pos start idx (S rem) (n - 1)).
Proof.
  intros Hidx Hs. unfold streams_after_end.
  destruct (Nat.eqb_spec idx (n - 1)) as [He|Hne].
  - (* the last entry ended *)
    destruct Hs as [H0|[(Ha & Hb & Hr)|(Ha & Hb & Hr)]]; [discriminate| |].
    + destruct (Nat.eq_dec start 0) as [->|Hs0].
      * split; [left; lia|]. intros p Hp _. left. split; [lia|]. right. left. lia.
      * split; [right; right; rewrite Nat.min_l by lia; lia|].
        intros p Hp [H|[H|H]]; [lia|lia|]. left. split; [lia|]. right. left. lia.
    + rewrite Nat.min_r in Hr by lia. split; [left; lia|].
      intros p Hp _. left. split; [lia|]. right. right. lia.
  - destruct (Nat.ltb_spec idx start) as [Hlt|Hge]; destruct (Nat.leb_spec start (n - 1)) as [Hle|Hgt]; cbn [andb].
    + (* the entry swapped in was asked already: skip it *)
      destruct Hs as [H0|[(Ha & Hb & Hr)|(Ha & Hb & Hr)]]; [discriminate|lia|].
      rewrite Nat.min_l in Hr by lia.
      destruct (Nat.eq_dec (S idx) (n - 1)) as [He2|Hne2].
      * rewrite He2, Nat.mod_same by lia. split; [left; lia|].
        intros p Hp _. destruct (Nat.eq_dec p idx) as [->|Hpi].
        -- right. repeat split; [lia|]. right. right. lia.
        -- left. split; [exact Hpi|]. right. right. lia.
      * rewrite Nat.mod_small by lia. destruct (Nat.eq_dec (S idx) start) as [Hs1|Hs1].
        -- split; [left; lia|]. intros p Hp _. destruct (Nat.eq_dec p idx) as [->|Hpi].
           ++ right. repeat split; [lia|]. right. right. lia.
           ++ left. split; [exact Hpi|]. right. right. lia.
        -- split; [right; right; rewrite Nat.min_l by lia; lia|].
           intros p Hp [H|[H|H]]; [lia|lia|]. destruct (Nat.eq_dec p idx) as [->|Hpi].
           ++ right. repeat split; [lia|]. right. right. lia.
           ++ left. split; [exact Hpi|]. right. right. lia.
    + (* wrapped, and the vector is already shorter than the start index *)
      destruct Hs as [H0|[(Ha & Hb & Hr)|(Ha & Hb & Hr)]]; [discriminate|lia|].
      rewrite Nat.min_r in Hr by lia.
      split; [right; right; rewrite Nat.min_r by lia; lia|].
      intros p Hp [H|[H|H]]; [lia|lia|]. left. split; [lia|]. right. right. lia.
    + (* not wrapped: the entry swapped in has not been asked *)
      destruct Hs as [H0|[(Ha & Hb & Hr)|(Ha & Hb & Hr)]]; [discriminate| |lia].
      split; [right; left; lia|].
      intros p Hp [H|[H|H]]; [lia| |lia]. left. split; [lia|]. right. left. lia.
    + destruct Hs as [H0|[(Ha & Hb & Hr)|(Ha & Hb & Hr)]]; [discriminate|lia|lia].
Qed.

Lemma passinv_step_raw s e s' : SND s -> PassInv s -> step_raw s e = Some s' -> PassInv s'.
Proof.
  intros [Hnd _] HP H. apply NoDup_app_iff in Hnd as (Hnd & _ & _).
  unfold step_raw in H. destruct (ctl s) eqn:Ec.
  all: try discriminate.
  all: try (crush_matches H; injection H as <-; unfold PassInv; simp_st; rewrite ?Ec;
            first [exact I | (right; eexists; simp_st; apply ps_is_armed_arm)]).
  - (* PStreamsStart: the start index is read off the first stream asked *)
    destruct e; try discriminate. destruct (index_of j (streams s)) as [start|] eqn:Ei; [|discriminate].
    injection H as <-. unfold PassInv. simp_st. pose proof (index_of_lt _ _ _ Ei) as Hlt. split.
    + right. left. lia.
    + intros p j0 _ [H|[H|H]]; lia.
  - (* PStreams *)
    unfold PassInv in HP. rewrite Ec in HP. destruct HP as [Hside HA].
    destruct rem as [|rem]; [discriminate|]. destruct e; try discriminate.
    destruct (nth_error (streams s) idx) as [j'|] eqn:En; [|discriminate].
    destruct (N.eqb_spec j j') as [<-|]; [|discriminate].
    assert (Hidx : (idx < List.length (streams s))%nat) by (apply nth_error_Some; congruence).
    destruct r; injection H as <-; unfold PassInv; simp_st; try exact I.
    + (* the stream ended: swap_remove under the cursor *)
      pose proof (swap_remove_length idx (streams s) j En) as Hlen.
      destruct (pass_end start idx rem (List.length (streams s)) Hidx Hside) as [Hs' Hp'].
      assert (Hl : (List.length (streams s) - 1)%nat = List.length (swap_remove idx (streams s))) by lia.
      rewrite Hl in Hs', Hp'. split; [exact Hs'|].
      intros p j0 Hp Hpol. unfold stream_armed. simp_st.
      assert (Hpl : (p < List.length (swap_remove idx (streams s)))%nat) by (apply nth_error_Some; congruence).
      destruct (nth_error_swap_remove idx (streams s) p j0 Hidx Hp) as [(Hne & Hlt & Hold)|(-> & Hlt & Hold)].
      * destruct (Hp' p Hpl Hpol) as [(_ & Hq)|(Heq & _)]; [|contradiction].
        rewrite is_armed_disarm_other; [exact (HA p j0 Hold Hq)|].
        intros Heq. injection Heq as Heq. revert Heq. apply (nodup_nth_ne (streams s) p idx); assumption.
      * destruct (Hp' idx Hpl Hpol) as [(Hne & _)|(_ & _ & Hq)]; [contradiction|].
        rewrite Hl in Hold.
        rewrite is_armed_disarm_other; [exact (HA _ j0 Hold Hq)|].
        intros Heq. injection Heq as Heq. revert Heq.
        apply (nodup_nth_ne (streams s) (List.length (swap_remove idx (streams s))) idx); try assumption. lia.
    + (* Pending: the stream keeps the waker, the cursor moves on *)
      destruct (pass_pending start idx rem (List.length (streams s)) Hidx Hside) as [Hs' Hp'].
      split; [exact Hs'|].
      intros p j0 Hp Hpol. unfold stream_armed. simp_st.
      assert (Hpl : (p < List.length (streams s))%nat) by (apply nth_error_Some; congruence).
      destruct (Hp' p Hpl Hpol) as [Hq| ->].
      * apply armed_after_arm. exact (HA p j0 Hp Hq).
      * assert (j0 = j) by congruence. subst. apply is_armed_arm_same.
  - (* PFlush *)
    unfold PassInv in HP. rewrite Ec in HP.
    destruct why; crush_matches H; injection H as <-; unfold PassInv; simp_st; rewrite ?Ec; try exact I;
      try (right; eexists; simp_st; apply ps_is_armed_arm); try exact HP;
      intros j Hj; unfold stream_armed; simp_st;
      first [ rewrite is_armed_disarm_other by discriminate; now apply HP
            | rewrite is_armed_arm_other by discriminate; now apply HP ].
Qed.

Definition PassJ (s : st) : Prop := SND s /\ PassInv s.

Lemma passj_run tr s : run init tr = Some s -> PassJ s.
Proof.
  apply (ps_lift_run PassJ).
  - intros a b [H1 H2] Hi. split; [now apply snd_internal with a|now apply passinv_internal with a].
  - intros a e b [H1 H2] Hr. split; [now apply snd_step_raw with a e|now apply passinv_step_raw with a e].
  - split; [split; cbn; [constructor|intros j []]|exact I].
Qed.

(** When the router is about to park because its publishers have nothing more to give (it is
    flushing with reason FlStreamsPending, the only way to [Pending] that is not a sink's
    answer, the early park of an empty topic, or shutdown), every publisher stream still in the
    map holds the task's waker: each was asked in this poll and answered Pending last. *)
Theorem ps_parks_with_every_stream_armed tr s idx :
  run init tr = Some s -> ctl s = PFlush idx FlStreamsPending ->
  forall j, In j (streams s) -> is_armed (SStream j) (armed s) = true.
Proof.
  intros H Hc. destruct (passj_run _ _ H) as [_ HP]. unfold PassInv in HP. rewrite Hc in HP. exact HP.
Qed.

(** Whenever a poll is about to return Pending: either it is blocked on a subscriber sink that
    holds the task's waker, or every publisher stream in the map holds it (each was asked in this
    poll and answered Pending last; an empty map satisfies this trivially -- then the
    registration channel holds the waker, [ps_never_parks_unarmed]). *)
Theorem ps_parks_armed_everywhere tr s :
  run init tr = Some s -> ctl s = PReturn false ->
  (forall j, In j (streams s) -> is_armed (SStream j) (armed s) = true)
  \/ (exists k, is_armed (SSink k) (armed s) = true).
Proof.
  intros H Hc. destruct (passj_run _ _ H) as [_ HP]. unfold PassInv in HP. rewrite Hc in HP. exact HP.
Qed.
