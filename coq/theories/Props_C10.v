(** C10 — property theorems (statements and [exact]s only).
    Proved: at most one replier is bound and only a bound one receives requests; a refused replier
    is told and then closed (or its sink failed); the bound replier is unbound only by its own
    departure (stream end, or sink failure on ready / flush).
    Also proved: no registration is lost or given two roles inside the router (the sockets taken
    from the channel are, as a multiset, those waiting in the queue plus the bound, the refused and
    the keyed ones), and the decision rule at the point where a replier's registration is taken:
    bound exactly when nobody is bound, refused (rejection put in the slot, bound replier kept)
    otherwise.
    PARTIAL: that the rejection completes (nothing stays "being dealt with" once the rejected
    sink accepts data) and that the next replier to register after a departure is bound are
    executable predicates (ReqRepSpec.obs_c10_ok / obs_c10_final_ok / obs_c10_rebind_justified)
    evaluated on every implementation trace; the client-side classification of the error code is
    read from the source by the translator (see the check's evidence). *)
Require Import Selium.Base Selium.PubSub Selium.ReqRep Selium.ReqRepSpec Selium.P_ReqRep Selium.P_ReqRepOrder.
Require Import Selium.P_ReqRepBind Selium.P_ReqRepReg.
Require Import Coq.Sorting.Permutation.
Open Scope N_scope.

(** requests are only ever handed to a replier that was bound; a refused replier is never bound
    and never receives a request; the current replier, if any, is a bound one *)
Theorem c10_single_bound : forall tr s, rrun rinit tr = Some s -> c10_state_ok s = true.
Proof. exact rr_single_bound. Qed.
Print Assumptions c10_single_bound.

Theorem c10_error_code_is_replier_already_bound : REPLIER_ALREADY_BOUND_CODE = 5.
Proof. reflexivity. Qed.
Print Assumptions c10_error_code_is_replier_already_bound.

(** "told so with the replier-already-bound error and then closed": in every reachable state, every
    replier that was refused because another one was bound is either still being dealt with (its
    rejection sits in the one-slot buffer, or the router is at one of the three calls on its sink),
    or [poll_close] has completed on its sink, or its sink failed before the error frame could be
    written; and [poll_close] is only ever completed on a sink that had accepted the error frame *)
Theorem c10_refused_replier_told_then_closed : forall tr s, rrun rinit tr = Some s ->
  (forall l, In l (h_closed (rgh s)) -> In l (h_told (rgh s)))
  /\ (forall l, In l (h_rejected (rgh s)) ->
         In l (h_closed (rgh s)) \/ In l (h_rej_failed (rgh s)) \/ rejecting s l).
Proof. exact rr_rejected_told_then_closed. Qed.
Print Assumptions c10_refused_replier_told_then_closed.

(** "the bound replier's traffic is unaffected" / "after the bound replier's stream ends, the next
    replier becomes the bound one": on every accepted trace, every replier that was ever bound is
    still the bound one, or it departed in that trace -- its stream ended, or its sink failed when
    asked whether it is ready or to flush.  Nothing else unbinds a replier: not another replier's
    registration, not a rejected replier's failing sink, not a request its own sink refuses. *)
Theorem c10_bound_replier_leaves_only_by_departure : forall tr s,
  rrun rinit tr = Some s ->
  forall l, In l (h_bound (rgh s)) -> server s = Some l \/ departed l tr = true.
Proof. exact rr_bound_replier_leaves_only_by_departure. Qed.
Print Assumptions c10_bound_replier_leaves_only_by_departure.

(** the rejection is not left waiting: when a poll returns Pending in a step in which no sink
    answered Pending (the router is not blocked on anybody), no rejection sits in the one-slot
    buffer -- the error frame and the close have been dealt with, or the router is at one of the
    calls on the rejected sink and was told Pending by it *)
Theorem c10_rejection_never_left_waiting : forall tr s e s',
  rrun rinit tr = Some s -> rstep s e = Some s' -> rctl s' = RReturn false -> rr_pending_answer e = false ->
  b_err s' = None.
Proof. intros tr s e s' H1 H2 H3 H4. exact (proj1 (proj2 (rr_parks_only_when_drained tr s e s' H1 H2 H3 H4))). Qed.
Print Assumptions c10_rejection_never_left_waiting.

(** no registration is lost, none is given two roles: the sockets the router took from its
    registration channel are, as a multiset, the ones still waiting in its queue, the repliers
    that were bound, the repliers that were refused (for which
    [c10_refused_replier_told_then_closed] continues) and the requestors that were given a key *)
Theorem c10_registrations_placed_exactly_once : forall tr s, rrun rinit tr = Some s ->
  Permutation (h_used (rgh s))
    (map rlabel_of (rqueue s) ++ h_bound (rgh s) ++ h_rejected (rgh s) ++ map snd (h_keys (rgh s))).
Proof. exact rr_registrations_placed_exactly_once. Qed.
Print Assumptions c10_registrations_placed_exactly_once.

(** nobody is given two roles, or one role twice: the peers waiting in the queue, the repliers
    that were bound, the repliers that were refused and the keyed requestors are pairwise distinct
    -- in particular no replier is both bound and refused, and none is bound again after it left *)
Theorem c10_roles_pairwise_distinct : forall tr s, rrun rinit tr = Some s ->
  NoDup (map rlabel_of (rqueue s) ++ h_bound (rgh s) ++ h_rejected (rgh s) ++ map snd (h_keys (rgh s))).
Proof. exact rr_roles_nodup. Qed.
Print Assumptions c10_roles_pairwise_distinct.

(** "the next replier to register becomes the bound one": at the control point where a replier's
    registration is taken from the queue (any state, reachable or not), it is bound exactly when
    nobody is bound -- in particular after the previous one departed -- and otherwise it is
    refused: its rejection goes into the slot and the bound replier stays bound *)
Theorem c10_replier_decision : forall s l q s',
  rctl s = RHandle -> rqueue s = QServer l :: q -> rinternal s = Some s' ->
  rqueue s' = q /\
  (server s = None -> server s' = Some l /\ h_bound (rgh s') = h_bound (rgh s) ++ [l] /\ b_err s' = b_err s) /\
  (forall l', server s = Some l' ->
     server s' = Some l' /\ h_rejected (rgh s') = h_rejected (rgh s) ++ [l] /\ b_err s' = Some (true, l)).
Proof. exact rr_replier_decision. Qed.
Print Assumptions c10_replier_decision.

(** Non-vacuity: a second replier arrives while the first is bound and its sink is slow *)
Example c10_example :
  exists s, rrun rinit
    [VBegin;
     VEnd false;
     VQueue (QServer 0) true;
     VQueue (QServer 1) false;
     VBegin;
     VSink 1 OReady RPending;
     VEnd false;
     VFire (SSink 1) true;
     VBegin;
     VSink 1 OReady ROk;
     VSink 1 (OSend (FErr 5)) ROk;
     VSink 1 OClose ROk;
     VStream 0 FPending;
     VSink 0 OFlush ROk;
     VSink 0 OFlush ROk;
     VEnd false;
     VBegin;
     VStream 0 FPending;
     VSink 0 OFlush ROk;
     VSink 0 OFlush ROk;
     VEnd false] = Some s
  /\ server s = Some 0 /\ h_rejected (rgh s) = [1] /\ h_bound (rgh s) = [0] /\ h_used (rgh s) = [1; 0].
Proof. eexists. vm_compute. repeat split; reflexivity. Qed.
