(** C07 — model of protocol/src/topic_name.rs.  The two regexes and the reserved word come from
    the translator (SeliumGen.TopicRegex); the function bodies are transcribed by hand and tied
    to the code by the differential run. *)
Require Import Selium.Base Selium.Regex.
Require Import SeliumGen.TopicRegex.
Open Scope N_scope.

Inductive tn_error := ParseTopicNameError | ReservedNamespaceError.

Inductive tn_result (A : Type) :=
| TnOk (a : A)
| TnErr (e : tn_error)
| TnPanic (site : string).
Arguments TnOk {A} a.
Arguments TnErr {A} e.
Arguments TnPanic {A} site.

Definition utf8_len (c : N) : N :=
  if c <? 128 then 1 else if c <? 2048 then 2 else if c <? 65536 then 3 else 4.

(** [value.get(1..)]: the tail after the first *byte*; [None] when byte 1 is not a character
    boundary (the string is non-empty here). *)
Definition str_get_from_1 (s : list N) : option (list N) :=
  match s with
  | [] => None
  | c :: r => if utf8_len c =? 1 then Some r else None
  end.

Definition topic := (list N * list N)%type.   (* namespace, topic *)

(** TryFrom<&str> *)
Definition try_from (value : list N) : tn_result topic :=
  match value with
  | [] => TnErr ParseTopicNameError
  | _ =>
    if (match str_get_from_1 value with Some rest => starts_with RESERVED_NAMESPACE rest | None => false end)
    then TnErr ReservedNamespaceError
    else
      match match_items TOPIC_REGEX value with
      | None => TnErr ParseTopicNameError
      | Some [ns; tp] => TnOk (ns, tp)
      | Some _ => TnPanic "matches.get(n).unwrap()"
      end
  end.

Definition is_valid (t : topic) : bool :=
  negb (starts_with RESERVED_NAMESPACE (fst t)
        || negb (is_match COMPONENT_REGEX (fst t))
        || negb (is_match COMPONENT_REGEX (snd t))).

Definition create (ns tp : list N) : tn_result topic :=
  if is_valid (ns, tp) then TnOk (ns, tp) else TnErr ParseTopicNameError.

(** Display *)
Definition slash : N := 47.
Definition print (t : topic) : list N := slash :: fst t ++ slash :: snd t.
