(** C13 — property theorems.  This file contains statements, [exact]s and assumption
    printouts only; the proofs are in P_Backoff.v and are about the iterator body that the
    translator regenerates from client/src/keep_alive/backoff_strategy.rs on every run. *)
Require Import Selium.Base Selium.RustArith Selium.BackoffSpec Selium.BackoffRun Selium.P_Backoff.
Require Import SeliumGen.Backoff.
Open Scope N_scope.

(** Whatever the overflow-check profile, any number of calls to [next()] on the iterator of a
    configuration observes exactly the first [calls] entries of the law's schedule (numbered from
    1, saturated, clamped), reports exhaustion exactly when more calls than [max_attempts] were
    made, and never panics. *)
Theorem c13_schedule_meets_law : forall debug c calls,
  cfg_wf c -> run debug calls (into_iter c) = spec_obs c calls.
Proof. exact run_meets_spec. Qed.
Print Assumptions c13_schedule_meets_law.

Theorem c13_never_panics : forall debug c calls,
  cfg_wf c -> match run debug calls (into_iter c) with ObsPanic _ _ => False | Obs _ _ => True end.
Proof. exact run_never_panics. Qed.
Print Assumptions c13_never_panics.

Theorem c13_count : forall c, List.length (spec_schedule c) = N.to_nat (c_max_attempts c).
Proof. exact spec_schedule_length. Qed.
Print Assumptions c13_count.

Theorem c13_numbering_and_delay : forall c i,
  (i < N.to_nat (c_max_attempts c))%nat ->
  nth_error (spec_schedule c) i = Some (N.of_nat i + 1, spec_delay c (N.of_nat i + 1)).
Proof. exact spec_schedule_nth_error. Qed.
Print Assumptions c13_numbering_and_delay.

Theorem c13_prefix_is_schedule_prefix : forall c k, c_step c < DUR_LIMIT -> spec_prefix c k = firstn k (spec_schedule c).
Proof. exact spec_prefix_firstn. Qed.
Print Assumptions c13_prefix_is_schedule_prefix.

Theorem c13_clamped : forall c n m, c_max c = Some m -> spec_delay c n <= m.
Proof. exact spec_delay_clamped. Qed.
Print Assumptions c13_clamped.

Theorem c13_law_exact : forall c n,
  law c n <= DUR_MAX -> (match c_max c with Some m => law c n <= m | None => True end) ->
  spec_delay c n = law c n.
Proof. exact spec_delay_exact. Qed.
Print Assumptions c13_law_exact.

Theorem c13_saturates : forall c n,
  DUR_MAX <= law c n ->
  spec_delay c n = match c_max c with Some m => N.min DUR_MAX m | None => DUR_MAX end.
Proof. exact spec_delay_saturates. Qed.
Print Assumptions c13_saturates.

(** Non-vacuity: well-formed configurations exist, including ones that saturate. *)
Example c13_wf_example :
  cfg_wf {| c_kind := KExponential 10; c_step := 1000000000; c_max_attempts := 25; c_max := Some 5000000000 |}
  /\ DUR_MAX <= law {| c_kind := KExponential 10; c_step := 1000000000; c_max_attempts := 25; c_max := None |} 25.
Proof. vm_compute. repeat split; discriminate. Qed.

Example c13_run_example :
  run true 4 (into_iter {| c_kind := KExponential 2; c_step := 500; c_max_attempts := 3; c_max := Some 1500 |})
  = Obs [(1, 500, 3); (2, 1000, 3); (3, 1500, 3)] true.
Proof. vm_compute. reflexivity. Qed.
