(** C08 — property theorems (statements and [exact]s only).
    PARTIAL for req/rep: "a failed replier is unbound so that another can bind and serve" and
    "other requestors still get their replies" are carried by the model (ReqRep.v: an Err from
    the replier's sink unbinds it; an Err from a requestor's sink removes that entry only), by the
    acceptor on every implementation trace and by the predicates of ReqRepSpec; as theorems only
    totality (no panic) and the accounting of replies are proved for the req/rep router. *)
Require Import Selium.Base Selium.PubSub Selium.PubSubSpec Selium.P_PubSub Selium.ReqRep Selium.ReqRepSpec Selium.P_ReqRep.
Open Scope N_scope.

(** whatever fails, whenever, in whatever operation: every subscriber - in particular every one
    that never failed - still holds a gap-free, duplicate-free, in-order prefix of what was
    pulled since its registration, live ones miss at most the item in flight, live subscribers
    are exactly never-failed ones, and the router does not panic *)
Theorem c08_pubsub_others_unaffected : forall tr s,
  run init tr = Some s -> c01_state_ok s = true /\ live_ok s = true /\ panicked s = false.
Proof. exact run_c01. Qed.
Print Assumptions c08_pubsub_others_unaffected.

(** an Err answer (poll_ready, start_send or poll_flush) evicts the answering subscriber and
    nobody else *)
Theorem c08_fanout_evicts_exactly_one : forall s e s' k,
  Inv s -> step_raw s e = Some s' -> sink_err_of e = Some k ->
  ~ In k (sinks s') /\ forall y, In y (sinks s) -> y <> k -> In y (sinks s').
Proof. exact evict_only_that_one. Qed.
Print Assumptions c08_fanout_evicts_exactly_one.

(** the invariant used above holds in every reachable state *)
Theorem c08_invariant_reachable : forall tr s, run init tr = Some s -> Inv s.
Proof. intros tr s H. exact (inv_run tr _ _ inv_init H). Qed.
Print Assumptions c08_invariant_reachable.

(** no failure of any peer, at any operation, panics the req/rep router; no reply is lost *)
Theorem c08_reqrep_survives_failures : forall tr s, rrun rinit tr = Some s ->
  rpanicked s = false /\
  (List.length (h_reps_routed (rgh s)) + List.length (h_reps_failed (rgh s)) + List.length (h_reps_discarded (rgh s))
   + match b_rep s with Some _ => 1 | None => 0 end)%nat = List.length (h_reps_pulled (rgh s)).
Proof. intros tr s H. split; [exact (rr_never_panics tr s H)|exact (rr_no_reply_lost tr s H)]. Qed.
Print Assumptions c08_reqrep_survives_failures.
