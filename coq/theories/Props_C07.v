(** C07 — property theorems (statements and [exact]s only).  [try_from], [is_valid], [create]
    and [print] are the model of protocol/src/topic_name.rs (TopicName.v) instantiated with the
    regexes and reserved word regenerated from the source; [name_ok]/[component_ok] is the
    grammar as the property states it (TopicSpec.v). Strings are lists of Unicode scalar values. *)
Require Import Selium.Base Selium.Regex Selium.TopicName Selium.TopicSpec Selium.P_TopicName.
Open Scope N_scope.

(** accepted exactly when of the form /namespace/topic with both parts legal *)
Theorem c07_accept_iff_grammar : forall s ns tp,
  try_from s = TnOk (ns, tp) <-> (s = print (ns, tp) /\ name_ok ns tp = true).
Proof. exact try_from_iff. Qed.
Print Assumptions c07_accept_iff_grammar.

(** every other string is rejected with an error ... *)
Theorem c07_rejects_everything_else : forall s,
  (forall ns tp, ~ (s = print (ns, tp) /\ name_ok ns tp = true)) -> exists e, try_from s = TnErr e.
Proof. exact try_from_rejects. Qed.
Print Assumptions c07_rejects_everything_else.

(** ... never a panic, for any string whatsoever *)
Theorem c07_never_panics : forall s, match try_from s with TnPanic _ => False | _ => True end.
Proof. exact try_from_never_panics. Qed.
Print Assumptions c07_never_panics.

(** an accepted name prints back to the same string, and printing then parsing is the identity *)
Theorem c07_print_parse : forall s t, try_from s = TnOk t -> print t = s.
Proof. exact print_parse. Qed.
Print Assumptions c07_print_parse.

Theorem c07_parse_print : forall ns tp, name_ok ns tp = true -> try_from (print (ns, tp)) = TnOk (ns, tp).
Proof. exact parse_print. Qed.
Print Assumptions c07_parse_print.

(** the server-side rule ([is_valid], applied to deserialised names) is the same rule *)
Theorem c07_server_rule_same : forall ns tp,
  is_valid (ns, tp) = true <-> try_from (print (ns, tp)) = TnOk (ns, tp).
Proof. exact server_rule_same. Qed.
Print Assumptions c07_server_rule_same.

Theorem c07_is_valid_is_grammar : forall ns tp, is_valid (ns, tp) = name_ok ns tp.
Proof. exact is_valid_spec. Qed.
Print Assumptions c07_is_valid_is_grammar.

Theorem c07_create_spec : forall ns tp,
  create ns tp = if name_ok ns tp then TnOk (ns, tp) else TnErr ParseTopicNameError.
Proof. exact create_spec. Qed.
Print Assumptions c07_create_spec.

(** two different legal names have different wire/printed forms (no aliasing of table keys) *)
Theorem c07_print_injective : forall ns tp ns' tp',
  name_ok ns tp = true -> name_ok ns' tp' = true ->
  print (ns, tp) = print (ns', tp') -> ns = ns' /\ tp = tp'.
Proof. exact print_injective. Qed.
Print Assumptions c07_print_injective.

(** Non-vacuity *)
Example c07_accepts_example :
  try_from [47; 110; 115; 112; 47; 116; 111; 112] = TnOk ([110; 115; 112], [116; 111; 112])
  /\ name_ok [110; 115; 112] [116; 111; 112] = true.
Proof. vm_compute. split; reflexivity. Qed.
Example c07_rejects_examples :
  try_from [233] = TnErr ParseTopicNameError                                   (* "é" *)
  /\ try_from [47; 97; 98; 8255; 99; 47; 116; 111; 112] = TnErr ParseTopicNameError    (* U+203F *)
  /\ try_from [47; 115; 101; 108; 105; 117; 109; 47; 116; 111; 112] = TnErr ReservedNamespaceError.
Proof. vm_compute. repeat split; reflexivity. Qed.
