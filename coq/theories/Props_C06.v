(** C06 — property theorems for selium's own decoding steps (statements and [exact]s only).
    Every primitive that can panic in the Rust code (slice indexing, Buf::get_u64/get_u8,
    split_to, the fuel of the loops) is an explicit [Panic] outcome in the model, so these are
    real statements.  Library internals (bincode, the decompressors) are outside the model; see
    the check's evidence for how they are exercised. *)
Require Import Selium.Base Selium.Bytes Selium.Wire Selium.P_Wire.
Require Import SeliumGen.Layouts.
Open Scope N_scope.

(** for all byte strings the frame decoder answers Need / Fail / Got: it never panics, and what
    it asks its buffer to reserve never exceeds what the buffer already holds *)
Theorem c06_frame_decode_total : forall src,
  exists r allocs, decode src = Val (r, allocs) /\ Forall (fun a => a <= blen src) allocs.
Proof. exact decode_total. Qed.
Print Assumptions c06_frame_decode_total.

(** feeding any chunk in any state terminates without panic (the decode loop's fuel suffices) *)
Theorem c06_stream_decode_total : forall st chunk, exists r, feed st chunk = Val r.
Proof. exact feed_total. Qed.
Print Assumptions c06_stream_decode_total.

(** each decoded frame consumes at least its 9 header bytes: the loop is bounded by the input *)
Theorem c06_decode_consumes : forall src f rest allocs,
  decode src = Val (Got f rest, allocs) -> (List.length rest + 9 <= List.length src)%nat.
Proof. exact decode_got_shrinks. Qed.
Print Assumptions c06_decode_consumes.

(** unbatching arbitrary bytes never panics and reserves at most one slot per 8 input bytes *)
Theorem c06_batch_decode_total : forall b,
  exists ms cap, decode_batch b = Val (ms, cap) /\ cap * 8 <= blen b.
Proof. exact decode_batch_total. Qed.
Print Assumptions c06_batch_decode_total.

(** Non-vacuity / regression witnesses (the three inputs that crashed the pinned tree) *)
Example c06_batch_witnesses :
  decode_batch [0; 0; 0] = Val ([], 0)
  /\ decode_batch [255; 255; 255; 255; 255; 255; 255; 255] = Val ([], 0)
  /\ decode_batch [0; 0; 0; 0; 0; 0; 0; 1; 0; 0; 0; 0; 0; 0; 0; 9; 7] = Val ([], 1).
Proof. vm_compute. repeat split; reflexivity. Qed.
