(** C01 / C08 / C16 — invariants of the pub/sub router model and the property theorems'
    proofs.  Everything is proved for every accepted trace: any number of publishers and
    subscribers, any registration order, any Ready/Pending/Err/item/end answers, any StreamMap
    start index. *)
Require Import Selium.Base Selium.PubSub Selium.PubSubSpec Selium.P_Vec.
Require Import ZifyBool ZifyN ZifyNat.
Open Scope N_scope.

Ltac simp_st :=
  cbn [streams sinks buffered queue closed ctl h_armed armed gh set_ctl with_streams with_sinks
       with_buffered with_queue with_closed with_h_armed with_armed with_gh
       g_pulled g_adopt g_sent g_failed g_dirty g_used
       g_pull g_adopt_sink g_send_ok g_fail g_flushed g_use] in *.

(** * Small facts *)
Lemma mem_n_In k l : mem_n k l = true <-> In k l.
Proof.
  unfold mem_n. rewrite existsb_exists. split.
  - intros (x & Hin & Heq). apply N.eqb_eq in Heq. now subst.
  - intros H. exists k. split; [exact H|apply N.eqb_refl].
Qed.

Lemma mem_n_false k l : mem_n k l = false <-> ~ In k l.
Proof. rewrite <- mem_n_In. destruct (mem_n k l); split; congruence. Qed.

Lemma is_prefix_app a rest : is_prefix a (a ++ rest) = true.
Proof. induction a as [|x a IH]; [reflexivity|]. cbn [app is_prefix]. now rewrite N.eqb_refl, IH. Qed.

Definition sent_of_l (k : N) (l : list (N * N)) : list N := map snd (filter (fun p => fst p =? k) l).

Lemma sent_of_app k l1 l2 : sent_of_l k (l1 ++ l2) = sent_of_l k l1 ++ sent_of_l k l2.
Proof. unfold sent_of_l. now rewrite filter_app, map_app. Qed.

Lemma sent_of_none k l : (forall x, ~ In (k, x) l) -> sent_of_l k l = [].
Proof.
  induction l as [|[k' x] l IH]; intros H; [reflexivity|].
  unfold sent_of_l. cbn [filter fst]. destruct (N.eqb_spec k' k) as [->|Hne].
  - exfalso. apply (H x). now left.
  - apply IH. intros y Hy. apply (H y). now right.
Qed.

Lemma skipn_snoc {A} (a : nat) (l : list A) x : (a <= List.length l)%nat -> skipn a (l ++ [x]) = skipn a l ++ [x].
Proof. intros H. rewrite skipn_app. replace (a - List.length l)%nat with 0%nat by lia. reflexivity. Qed.

Lemma in_firstn_S (l : list N) idx k y :
  nth_error l idx = Some k -> (In y (firstn (S idx) l) <-> In y (firstn idx l) \/ y = k).
Proof.
  revert l. induction idx as [|idx IH]; intros l E.
  - destruct l as [|x l]; [discriminate|]. cbn in E. injection E as ->.
    cbn [firstn In]. split; [intros [H|[]]; auto|intros [[]|H]; auto].
  - destruct l as [|x l]; [discriminate|]. cbn [nth_error] in E.
    change (firstn (S (S idx)) (x :: l)) with (x :: firstn (S idx) l).
    change (firstn (S idx) (x :: l)) with (x :: firstn idx l).
    cbn [In]. rewrite (IH l E). tauto.
Qed.

Lemma nth_not_in_firstn (l : list N) idx k :
  NoDup l -> nth_error l idx = Some k -> ~ In k (firstn idx l).
Proof.
  intros Hnd E. apply nth_error_split in E as (pre & post & -> & <-).
  rewrite firstn_app, Nat.sub_diag, firstn_all. cbn [firstn]. rewrite app_nil_r.
  apply NoDup_remove_2 in Hnd. intros H. apply Hnd. apply in_or_app. now left.
Qed.

Lemma NoDup_app_intro_snoc (l : list N) k : NoDup l -> ~ In k l -> NoDup (l ++ [k]).
Proof.
  intros Hnd Hk. induction l as [|x l IH]; cbn [app]; [constructor; [intros []|constructor]|].
  inversion Hnd; subst. constructor.
  - intros Hin. apply in_app_or in Hin as [H|[<-|[]]]; [contradiction|]. apply Hk. now left.
  - apply IH; [assumption|]. intros Hin. apply Hk. now right.
Qed.

(** * The invariant *)
Definition qsinks (q : list sock) : list N :=
  flat_map (fun s => match s with QSink k => [k] | QStream _ => [] end) q.

Definition adopted (s : st) : list N := map fst (g_adopt (gh s)).

(** the item a live subscriber has not received yet although it was pulled *)
Definition inflight (s : st) (k : N) : list N :=
  match ctl s with
  | PSend idx x => if mem_n k (firstn idx (sinks s)) then [] else [x]
  | _ => match buffered s with Some x => [x] | None => [] end
  end.

Definition ctl_ok (s : st) : Prop :=
  match ctl s with
  | PReady _ => buffered s <> None
  | PSend _ _ | PHandle | PStreamsStart | PStreams _ _ _ | PFlush _ _ => buffered s = None
  | PPanic _ => False
  | _ => True
  end.

Record Inv (s : st) : Prop := {
  inv_nodup : NoDup (sinks s);
  inv_adopt_nodup : NoDup (adopted s);
  inv_live : forall k, In k (sinks s) -> In k (adopted s) /\ ~ In k (g_failed (gh s));
  inv_failed : forall k, In k (g_failed (gh s)) -> In k (adopted s);
  inv_bound : forall k a, In (k, a) (g_adopt (gh s)) -> (a <= List.length (g_pulled (gh s)))%nat;
  inv_exact : forall k a, In (k, a) (g_adopt (gh s)) -> In k (sinks s) ->
              due a (gh s) = sent_of k (gh s) ++ inflight s k;
  inv_prefix : forall k a, In (k, a) (g_adopt (gh s)) -> exists rest, due a (gh s) = sent_of k (gh s) ++ rest;
  inv_sent : forall k x, In (k, x) (g_sent (gh s)) -> In k (adopted s);
  inv_queue_nodup : NoDup (qsinks (queue s));
  inv_queue_fresh : forall k, In k (qsinks (queue s)) -> ~ In k (adopted s) /\ In (QSink k) (g_used (gh s));
  inv_used : forall k, In k (adopted s) -> In (QSink k) (g_used (gh s));
  inv_ctl : ctl_ok s;
}.

Lemma inv_init : Inv init.
Proof.
  constructor; cbn; try (intros; contradiction); try constructor; auto.
Qed.

(** transitions that change neither the vectors, the buffer, the queue nor the history, and keep
    every live subscriber's in-flight item *)
Lemma inv_same s s' :
  Inv s -> sinks s' = sinks s -> queue s' = queue s -> gh s' = gh s ->
  (forall k, In k (sinks s) -> inflight s' k = inflight s k) -> ctl_ok s' -> Inv s'.
Proof.
  intros [] Hs Hq Hg Hin Hc.
  constructor; unfold adopted in *; rewrite ?Hs, ?Hq, ?Hg; auto.
  intros k a Ha Hk. rewrite Hin by exact Hk. auto.
Qed.

Lemma qsinks_cons_stream j q : qsinks (QStream j :: q) = qsinks q.
Proof. reflexivity. Qed.
Lemma qsinks_cons_sink k q : qsinks (QSink k :: q) = k :: qsinks q.
Proof. reflexivity. Qed.
Lemma qsinks_app a b : qsinks (a ++ b) = qsinks a ++ qsinks b.
Proof. unfold qsinks. apply flat_map_app. Qed.

Lemma inflight_buffer_based s k :
  (match ctl s with PSend _ _ => False | _ => True end) ->
  inflight s k = match buffered s with Some x => [x] | None => [] end.
Proof. unfold inflight. destruct (ctl s); intros H; try reflexivity. contradiction. Qed.

(** ** internal moves preserve the invariant *)
Lemma inv_internal s s' : Inv s -> internal s = Some s' -> Inv s'.
Proof.
  intros HI H. pose proof (inv_ctl _ HI) as Hc. unfold ctl_ok in Hc.
  unfold internal in H. destruct (ctl s) eqn:Ec; try discriminate.
  - (* PTop *)
    destruct (buffered s) eqn:Eb; injection H as <-.
    + apply (inv_same s); [exact HI|reflexivity|reflexivity|reflexivity| |]; simp_st.
      * intros k _. unfold inflight; simp_st. now rewrite Ec.
      * unfold ctl_ok; simp_st. congruence.
    + apply (inv_same s); [exact HI|reflexivity|reflexivity|reflexivity| |]; simp_st.
      * intros k _. unfold inflight; simp_st. now rewrite Ec.
      * unfold ctl_ok; simp_st. exact Eb.
  - (* PReady *)
    destruct (Nat.ltb_spec idx (List.length (sinks s))); [discriminate|].
    destruct (buffered s) eqn:Eb; [|contradiction].
    injection H as <-.
    apply (inv_same s); [exact HI|reflexivity|reflexivity|reflexivity| |]; simp_st.
    + intros k _. unfold inflight; simp_st. rewrite Ec, Eb. reflexivity.
    + unfold ctl_ok; simp_st. reflexivity.
  - (* PSend *)
    destruct (Nat.ltb_spec idx (List.length (sinks s))); [discriminate|].
    injection H as <-.
    apply (inv_same s); [exact HI|reflexivity|reflexivity|reflexivity| |]; simp_st.
    + intros k Hk. unfold inflight; simp_st. rewrite Ec, Hc.
      rewrite firstn_all2 by lia. apply mem_n_In in Hk. now rewrite Hk.
    + unfold ctl_ok; simp_st. exact Hc.
  - (* PHandle *)
    destruct (queue s) as [|[j|k] q] eqn:Eq.
    + destruct (closed s).
      * injection H as <-. apply (inv_same s); [exact HI|reflexivity|reflexivity|reflexivity| |]; simp_st.
        -- intros k _. unfold inflight; simp_st. now rewrite Ec.
        -- unfold ctl_ok; simp_st. exact Hc.
      * assert (Hs' : Inv (with_h_armed s true)).
        { apply (inv_same s); [exact HI|reflexivity|reflexivity|reflexivity|reflexivity|]. unfold ctl_ok; simp_st. rewrite Ec. exact Hc. }
        destruct (streams s) eqn:Es; simp_st; rewrite ?Es, ?Hc in H; injection H as <-;
          (apply (inv_same s); [exact HI|reflexivity|reflexivity|reflexivity| |]; simp_st;
           [intros k _; unfold inflight; simp_st; now rewrite Ec|unfold ctl_ok; simp_st; exact Hc]).
    + (* adopt a publisher stream *)
      injection H as <-. destruct HI.
      constructor; unfold adopted in *; simp_st; auto.
      * intros k a Ha Hk. rewrite (inv_exact0 k a Ha Hk). f_equal.
        unfold inflight; simp_st. now rewrite Ec.
      * rewrite Eq in inv_queue_nodup0. exact inv_queue_nodup0.
      * intros k Hk. apply inv_queue_fresh0. rewrite Eq. exact Hk.
      * unfold ctl_ok; simp_st. exact I.
    + (* adopt a subscriber sink *)
      injection H as <-. destruct HI.
      rewrite Eq in *. rewrite qsinks_cons_sink in *.
      inversion inv_queue_nodup0 as [|? ? Hknq Hq']; subst.
      assert (Hfresh : ~ In k (map fst (g_adopt (gh s)))) by (apply inv_queue_fresh0; now left).
      assert (Hused : In (QSink k) (g_used (gh s))) by (apply inv_queue_fresh0; now left).
      assert (Hnk : ~ In k (sinks s)) by (intros Hin; apply Hfresh; now apply inv_live0).
      constructor; unfold adopted in *; simp_st.
      * apply NoDup_app_intro_snoc; assumption.
      * rewrite map_app. cbn [map fst]. apply NoDup_app_intro_snoc; assumption.
      * intros k' Hk'. rewrite map_app, in_app_iff. cbn [map fst In].
        apply in_app_or in Hk' as [Hk'|[<-|[]]].
        -- destruct (inv_live0 k' Hk'). auto.
        -- split; [auto|]. intros Hf. apply Hfresh. now apply inv_failed0.
      * intros k' Hk'. rewrite map_app, in_app_iff. left. now apply inv_failed0.
      * intros k' a Ha. apply in_app_or in Ha as [Ha|[Ha|[]]]; [eauto|]. injection Ha as <- <-. lia.
      * intros k' a Ha Hk'.
        assert (Hinf : inflight (set_ctl (with_gh (with_queue (with_sinks s (sinks s ++ [k])) q) (g_adopt_sink k (gh s))) PTop) k' = []).
        { unfold inflight; simp_st. now rewrite Hc. }
        rewrite Hinf, app_nil_r.
        apply in_app_or in Ha as [Ha|[Ha|[]]].
        -- assert (Hk'' : In k' (sinks s)).
           { apply in_app_or in Hk' as [H1|[<-|[]]]; [exact H1|].
             exfalso. apply Hfresh. apply in_map_iff. now exists (k, a). }
           pose proof (inv_exact0 k' a Ha Hk'') as He. unfold inflight in He. rewrite Ec, Hc, app_nil_r in He.
           exact He.
        -- injection Ha as <- <-. unfold due, sent_of; simp_st. rewrite skipn_all.
           symmetry. apply sent_of_none. intros x Hx. apply Hfresh. now apply (inv_sent0 k x).
      * intros k' a Ha. apply in_app_or in Ha as [Ha|[Ha|[]]]; [eauto|].
        injection Ha as <- <-. exists []. unfold due, sent_of; simp_st. rewrite skipn_all, app_nil_r.
        symmetry. apply sent_of_none. intros x Hx. apply Hfresh. now apply (inv_sent0 k x).
      * intros k' x Hx. rewrite map_app, in_app_iff. left. eauto.
      * exact Hq'.
      * intros k' Hk'. split.
        -- rewrite map_app, in_app_iff. cbn [map fst In]. intros [H1|[<-|[]]].
           ++ apply (proj1 (inv_queue_fresh0 k' (or_intror Hk'))). exact H1.
           ++ contradiction.
        -- apply inv_queue_fresh0. now right.
      * intros k' Hk'. rewrite map_app, in_app_iff in Hk'. cbn [map fst In] in Hk'.
        destruct Hk' as [H1|[<-|[]]]; auto.
      * unfold ctl_ok; simp_st. exact I.
  - (* PStreamsStart *)
    destruct (streams s); [|discriminate]. injection H as <-.
    apply (inv_same s); [exact HI|reflexivity|reflexivity|reflexivity| |]; simp_st.
    + intros k _. unfold inflight; simp_st. now rewrite Ec.
    + unfold ctl_ok; simp_st. exact Hc.
  - (* PStreams *)
    destruct rem; [|discriminate].
    destruct (streams s); injection H as <-;
      (apply (inv_same s); [exact HI|reflexivity|reflexivity|reflexivity| |]; simp_st;
       [intros k _; unfold inflight; simp_st; now rewrite Ec|unfold ctl_ok; simp_st; exact Hc]).
  - (* PFlush *)
    destruct (Nat.ltb_spec idx (List.length (sinks s))); [discriminate|].
    injection H as <-.
    apply (inv_same s); [exact HI|reflexivity|reflexivity|reflexivity| |]; simp_st.
    + intros k _. unfold inflight; simp_st. rewrite Ec. destruct why; reflexivity.
    + unfold ctl_ok; simp_st. destruct why; exact I.
Qed.

Lemma inv_settle fuel : forall s s', Inv s -> settle fuel s = Some s' -> Inv s'.
Proof.
  induction fuel as [|k IH]; intros s s' HI H; [discriminate|].
  cbn [settle] in H. destruct (internal s) as [s1|] eqn:E.
  - apply (IH s1); [eapply inv_internal; eassumption|exact H].
  - injection H as <-. exact HI.
Qed.

Lemma sent_of_send_same k x g : sent_of k (g_send_ok k x g) = sent_of k g ++ [x].
Proof.
  unfold sent_of; cbn [g_sent g_send_ok]. rewrite filter_app, map_app. cbn [filter fst].
  now rewrite N.eqb_refl.
Qed.

Lemma sent_of_send_other k k' x g : k' <> k -> sent_of k' (g_send_ok k x g) = sent_of k' g.
Proof.
  intros Hne. unfold sent_of; cbn [g_sent g_send_ok]. rewrite filter_app, map_app. cbn [filter fst].
  destruct (N.eqb_spec k k'); [congruence|]. cbn [map]. now rewrite app_nil_r.
Qed.

(** eviction of the subscriber at [idx] (poll_ready / start_send / poll_flush answered Err) *)
Lemma inv_evict s idx k c :
  Inv s -> nth_error (sinks s) idx = Some k ->
  (match c with PSend i _ => i = idx | PReady _ | PFlush _ _ => True | _ => False end) ->
  (match c with PSend i x => ctl s = PSend i x | PReady _ => exists i, ctl s = PReady i | PFlush _ _ => exists i w, ctl s = PFlush i w | _ => False end) ->
  Inv (set_ctl (with_gh (with_armed (with_sinks s (swap_remove idx (sinks s))) (disarm (SSink k) (armed s))) (g_fail k (gh s))) c).
Proof.
  intros HI E Hc1 Hc2. pose proof (inv_ctl _ HI) as Hc. unfold ctl_ok in Hc. destruct HI.
  assert (Hk : In k (sinks s)) by (eapply nth_error_In; eassumption).
  constructor; unfold adopted in *; simp_st; try assumption.
  - now apply swap_remove_NoDup.
  - intros k' Hk'. pose proof (swap_remove_In _ _ _ Hk') as Hold.
    destruct (inv_live0 k' Hold) as [Ha Hf]. split; [exact Ha|].
    intros [Heq|Hin]; [|contradiction]. subst k'. exact (swap_remove_removed _ _ _ inv_nodup0 E Hk').
  - intros k' [<-|Hin]; [now apply inv_live0|auto].
  - intros k' a Ha Hk'. pose proof (swap_remove_In _ _ _ Hk') as Hold.
    pose proof (inv_exact0 k' a Ha Hold) as He. unfold due, sent_of in *; simp_st. rewrite He. f_equal.
    unfold inflight; simp_st.
    destruct c; try contradiction.
    + destruct Hc2 as [i ->]. reflexivity.
    + subst idx0. rewrite Hc2. now rewrite swap_remove_firstn.
    + destruct Hc2 as (i & w & ->). reflexivity.
  - unfold ctl_ok; simp_st. destruct c; try contradiction.
    + destruct Hc2 as [i Hi]. now rewrite Hi in Hc.
    + now rewrite Hc2 in Hc.
    + destruct Hc2 as (i & w & Hi). now rewrite Hi in Hc.
Qed.

(** ** observable steps preserve the invariant *)
Lemma inv_step_raw s e s' : Inv s -> step_raw s e = Some s' -> Inv s'.
Proof.
  intros HI H. pose proof (inv_ctl _ HI) as Hc. unfold ctl_ok in Hc.
  unfold step_raw in H.
  destruct (ctl s) as [| |idx|idx x| | |start idx rem|idx why|ready| |site] eqn:Ec;
    destruct e as [|ready'|q woke|woke|fsrc woke|k r|k y ok|k r|j r]; try discriminate;
    try (destruct rem; discriminate).
  - (* PIdle, EBegin *)
    injection H as <-. apply (inv_same s); [exact HI|reflexivity|reflexivity|reflexivity| |]; simp_st.
    + intros k _. unfold inflight; simp_st. now rewrite Ec.
    + exact I.
  - (* PIdle, EQueue *)
    destruct (closed s || existsb (sock_eqb q) (g_used (gh s))) eqn:Eu; [discriminate|].
    destruct (Bool.eqb woke (h_armed s)); [|discriminate]. injection H as <-.
    apply orb_false_iff in Eu as [_ Eu].
    assert (Hnew : ~ In q (g_used (gh s))).
    { intros Hin. assert (existsb (sock_eqb q) (g_used (gh s)) = true); [|congruence].
      apply existsb_exists. exists q. split; [exact Hin|]. destruct q; cbn; apply N.eqb_refl. }
    destruct HI. constructor; unfold adopted in *; simp_st; try assumption.
    + rewrite qsinks_app. destruct q as [j|k]; cbn [qsinks flat_map app]; [now rewrite app_nil_r|].
      apply NoDup_app_intro_snoc; [exact inv_queue_nodup0|].
      intros Hin. apply Hnew. now apply inv_queue_fresh0.
    + intros k Hk. rewrite qsinks_app in Hk. apply in_app_or in Hk as [Hk|Hk].
      * destruct (inv_queue_fresh0 k Hk). split; [assumption|now right].
      * destruct q as [j|k0]; cbn in Hk; [contradiction|]. destruct Hk as [<-|[]].
        split; [|now left]. intros Hin. apply Hnew. now apply inv_used0.
    + intros k Hk. right. now apply inv_used0.
  - (* PIdle, EClose *)
    destruct (Bool.eqb woke (h_armed s)); [|discriminate]. injection H as <-.
    apply (inv_same s); [exact HI|reflexivity|reflexivity|reflexivity| |]; simp_st.
    + intros k _. unfold inflight; simp_st. reflexivity.
    + unfold ctl_ok; simp_st. now rewrite Ec.
  - (* PIdle, EFire *)
    destruct (woke && is_armed fsrc (armed s)); [|discriminate]. injection H as <-.
    apply (inv_same s); [exact HI|reflexivity|reflexivity|reflexivity| |]; simp_st.
    + intros k _. unfold inflight; simp_st. reflexivity.
    + unfold ctl_ok; simp_st. now rewrite Ec.
  - (* PReady, ESinkReady *)
    destruct (nth_error (sinks s) idx) as [k'|] eqn:En; [|discriminate].
    destruct (N.eqb_spec k k'); [subst k'|discriminate].
    destruct r; injection H as <-.
    + apply (inv_same s); [exact HI|reflexivity|reflexivity|reflexivity| |]; simp_st.
      * intros k0 _. unfold inflight; simp_st. now rewrite Ec.
      * unfold ctl_ok; simp_st. exact Hc.
    + apply inv_evict; auto. eauto.
    + apply (inv_same s); [exact HI|reflexivity|reflexivity|reflexivity| |]; simp_st.
      * intros k0 _. unfold inflight; simp_st. now rewrite Ec.
      * exact I.
  - (* PSend, ESinkSend *)
    destruct (nth_error (sinks s) idx) as [k'|] eqn:En; [|discriminate].
    destruct ((k =? k') && (x =? y)) eqn:Ek; [|discriminate].
    apply andb_true_iff in Ek as [Ek Ex]. apply N.eqb_eq in Ek, Ex. subst k' y.
    destruct ok; injection H as <-.
    + (* delivered *)
      pose proof (nth_error_In _ _ En) as Hk.
      destruct HI. constructor; unfold adopted in *; simp_st; try assumption.
      * intros k' a Ha Hk'.
        destruct (N.eq_dec k' k) as [->|Hne].
        -- rewrite sent_of_send_same.
           pose proof (inv_exact0 k a Ha Hk) as He. unfold inflight in He. rewrite Ec in He.
           assert (Hnot : mem_n k (firstn idx (sinks s)) = false).
           { apply mem_n_false. eapply nth_not_in_firstn; eassumption. }
           rewrite Hnot in He.
           unfold inflight; simp_st.
           assert (Hin : mem_n k (firstn (S idx) (sinks s)) = true).
           { apply mem_n_In. apply (in_firstn_S _ _ _ _ En). now right. }
           rewrite Hin, app_nil_r. unfold due in *; simp_st. exact He.
        -- rewrite sent_of_send_other by exact Hne.
           pose proof (inv_exact0 k' a Ha Hk') as He. unfold inflight in He. rewrite Ec in He.
           unfold inflight; simp_st. unfold due in *; simp_st. rewrite He. f_equal.
           assert (Heq : mem_n k' (firstn (S idx) (sinks s)) = mem_n k' (firstn idx (sinks s))).
           { apply eq_true_iff_eq. rewrite !mem_n_In, (in_firstn_S _ _ _ _ En). intuition. }
           now rewrite Heq.
      * intros k' a Ha. destruct (N.eq_dec k' k) as [->|Hne].
        -- rewrite sent_of_send_same.
           pose proof (inv_exact0 k a Ha Hk) as He. unfold inflight in He. rewrite Ec in He.
           assert (Hnot : mem_n k (firstn idx (sinks s)) = false).
           { apply mem_n_false. eapply nth_not_in_firstn; eassumption. }
           rewrite Hnot in He. exists []. rewrite app_nil_r. unfold due in *; simp_st. exact He.
        -- rewrite sent_of_send_other by exact Hne. unfold due; simp_st. now apply inv_prefix0.
      * intros k' x' Hin. apply in_app_or in Hin as [Hin|[Hin|[]]]; [eauto|].
        injection Hin as <- <-. now apply inv_live0.
    + (* evicted *)
      apply inv_evict; auto.
  - (* PStreamsStart, EStream *)
    destruct (index_of j (streams s)); [|discriminate]. injection H as <-.
    apply (inv_same s); [exact HI|reflexivity|reflexivity|reflexivity| |]; simp_st.
    + intros k _. unfold inflight; simp_st. now rewrite Ec.
    + unfold ctl_ok; simp_st. exact Hc.
  - (* PStreams, EStream *)
    destruct rem as [|rem]; [discriminate|].
    destruct (nth_error (streams s) idx) as [j'|] eqn:En; [|discriminate].
    destruct (N.eqb_spec j j'); [subst j'|discriminate].
    destruct r; injection H as <-.
    + (* an item is pulled *)
      destruct HI. constructor; unfold adopted in *; simp_st; try assumption.
      * intros k a Ha. rewrite app_length. cbn. specialize (inv_bound0 k a Ha). lia.
      * intros k a Ha Hk. unfold due; simp_st. rewrite skipn_snoc by eauto.
        pose proof (inv_exact0 k a Ha Hk) as He. unfold inflight in He. rewrite Ec, Hc, app_nil_r in He.
        unfold due in He. rewrite He. unfold inflight; simp_st. reflexivity.
      * intros k a Ha. unfold due; simp_st. rewrite skipn_snoc by eauto.
        destruct (inv_prefix0 k a Ha) as [rest Hr]. unfold due in Hr. rewrite Hr.
        exists (rest ++ [x]). now rewrite app_assoc.
      * exact I.
    + apply (inv_same s); [exact HI|reflexivity|reflexivity|reflexivity| |]; simp_st.
      * intros k _. unfold inflight; simp_st. now rewrite Ec.
      * exact I.
    + apply (inv_same s); [exact HI|reflexivity|reflexivity|reflexivity| |]; simp_st.
      * intros k _. unfold inflight; simp_st. now rewrite Ec.
      * unfold ctl_ok; simp_st. exact Hc.
    + apply (inv_same s); [exact HI|reflexivity|reflexivity|reflexivity| |]; simp_st.
      * intros k _. unfold inflight; simp_st. now rewrite Ec.
      * unfold ctl_ok; simp_st. exact Hc.
  - (* PFlush, ESinkFlush *)
    destruct (nth_error (sinks s) idx) as [k'|] eqn:En; [|discriminate].
    destruct (N.eqb_spec k k'); [subst k'|discriminate].
    destruct r; injection H as <-.
    + destruct HI. constructor; unfold adopted in *; simp_st; try assumption.
      * intros k0 a Ha Hk0. pose proof (inv_exact0 k0 a Ha Hk0) as He.
        unfold due, sent_of, inflight in *; simp_st. rewrite Ec in He. exact He.
    + apply inv_evict; auto. eauto.
    + apply (inv_same s); [exact HI|reflexivity|reflexivity|reflexivity| |]; simp_st.
      * intros k0 _. unfold inflight; simp_st. rewrite Ec, Hc. reflexivity.
      * exact I.
  - (* PReturn, EEnd *)
    destruct (Bool.eqb ready ready'); [|discriminate]. injection H as <-.
    apply (inv_same s); [exact HI|reflexivity|reflexivity|reflexivity| |]; simp_st.
    + intros k _. unfold inflight; simp_st. rewrite Ec. destruct ready; reflexivity.
    + unfold ctl_ok; simp_st. destruct ready; exact I.
Qed.

Lemma inv_step s e s' : Inv s -> step s e = Some s' -> Inv s'.
Proof.
  intros HI H. unfold step, obind, settled in H.
  destruct (settle (settle_fuel s) s) as [s0|] eqn:E0; [|discriminate].
  pose proof (inv_settle _ _ _ HI E0) as H0.
  assert (Hfin : forall s1 s2, Inv s1 -> match step_raw s1 e with Some s1' => settle (settle_fuel s1') s1' | None => None end = Some s2 -> Inv s2).
  { intros s1 s2 H1 Hs. destruct (step_raw s1 e) as [s1'|] eqn:E1; [|discriminate].
    eapply inv_settle; [eapply inv_step_raw; eassumption|exact Hs]. }
  destruct (ctl s0); destruct e as [|ready'|q woke|woke|fsrc woke|k r|k y ok|k r|j r]; try (eapply Hfin; eassumption).
  destruct (step_raw s0 (EStream j r)) as [s1|] eqn:E1; [|discriminate].
  eapply Hfin; [eapply inv_step_raw; eassumption|exact H].
Qed.

Lemma inv_run tr : forall s s', Inv s -> run s tr = Some s' -> Inv s'.
Proof.
  induction tr as [|e tr IH]; intros s s' HI H; cbn [run] in H.
  - injection H as <-. exact HI.
  - destruct (step s e) as [s1|] eqn:E; [|discriminate].
    eapply IH; [eapply inv_step; eassumption|exact H].
Qed.

(** * C01 / C08: exactly once, in order, contiguous from registration, for every accepted trace *)
Lemma c01_of_inv s : Inv s -> c01_state_ok s = true.
Proof.
  intros HI. unfold c01_state_ok. apply forallb_forall. intros [k a] Hka.
  unfold c01_sink_ok.
  destruct (inv_prefix _ HI k a Hka) as [rest Hr]. rewrite Hr, is_prefix_app. cbn [andb].
  destruct (mem_n k (sinks s)) eqn:Em; [|reflexivity].
  apply mem_n_In in Em. pose proof (inv_exact _ HI k a Hka Em) as He.
  rewrite <- Hr, He, app_length. apply Nat.leb_le.
  unfold inflight. destruct (ctl s); try (destruct (buffered s); cbn; lia).
  destruct (mem_n k (firstn idx (sinks s))); cbn; lia.
Qed.

Lemma live_of_inv s : Inv s -> live_ok s = true.
Proof.
  intros HI. unfold live_ok. apply forallb_forall. intros k Hk.
  destruct (inv_live _ HI k Hk) as [Ha Hf].
  apply andb_true_iff. split.
  - apply existsb_exists. unfold adopted in Ha. apply in_map_iff in Ha as ([k' a] & Heq & Hin).
    exists (k', a). split; [exact Hin|]. cbn in *. subst. apply N.eqb_refl.
  - apply negb_true_iff. now apply mem_n_false.
Qed.

Theorem run_c01 tr s : run init tr = Some s -> c01_state_ok s = true /\ live_ok s = true /\ panicked s = false.
Proof.
  intros H. pose proof (inv_run tr _ _ inv_init H) as HI.
  repeat split; [now apply c01_of_inv|now apply live_of_inv|].
  pose proof (inv_ctl _ HI) as Hc. unfold ctl_ok in Hc. unfold panicked. destruct (ctl s); try reflexivity. contradiction.
Qed.

(** * Linking the history component to the raw trace *)
Definition sent_pairs (tr : list ev) : list (N * N) :=
  flat_map (fun e => match e with ESinkSend k x true => [(k, x)] | _ => [] end) tr.

Lemma internal_ghost s s' : internal s = Some s' ->
  g_pulled (gh s') = g_pulled (gh s) /\ g_sent (gh s') = g_sent (gh s).
Proof.
  unfold internal. intros H.
  destruct (ctl s); try discriminate;
    repeat match type of H with
           | context [match ?x with _ => _ end] => destruct x
           end; try discriminate; injection H as <-; simp_st; auto.
Qed.

Lemma settle_ghost fuel : forall s s', settle fuel s = Some s' ->
  g_pulled (gh s') = g_pulled (gh s) /\ g_sent (gh s') = g_sent (gh s).
Proof.
  induction fuel as [|k IH]; intros s s' H; [discriminate|]. cbn [settle] in H.
  destruct (internal s) as [s1|] eqn:E.
  - destruct (internal_ghost _ _ E) as [Hp Hs]. destruct (IH _ _ H) as [Hp' Hs']. split; congruence.
  - injection H as <-. auto.
Qed.

Lemma step_raw_ghost s e s' : step_raw s e = Some s' ->
  (ctl s = PStreamsStart /\ gh s' = gh s /\ ctl s' <> PStreamsStart) \/
  (ctl s <> PStreamsStart /\
   g_pulled (gh s') = g_pulled (gh s) ++ pulled [e] /\ g_sent (gh s') = g_sent (gh s) ++ sent_pairs [e]).
Proof.
  unfold step_raw. intros H.
  destruct (ctl s) as [| |idx|idx x| | |start idx rem|idx why|ready| |site] eqn:Ec;
    destruct e as [|ready'|q woke|woke|fsrc woke|k r|k y ok|k r|j r]; try discriminate;
    try (destruct rem; discriminate).
  all: try (right; split; [discriminate|]).
  all: repeat match type of H with
              | context [match ?x with _ => _ end] => destruct x eqn:?
              end; try discriminate; try (injection H as <-); simp_st; cbn [pulled sent_pairs flat_map app];
    rewrite ?app_nil_r; auto.
  - apply andb_true_iff in Heqb as [Hk Hx]. apply N.eqb_eq in Hk, Hx. subst. auto.
  - left. repeat split; auto. discriminate.
Qed.

Lemma step_ghost s e s' : step s e = Some s' ->
  g_pulled (gh s') = g_pulled (gh s) ++ pulled [e] /\ g_sent (gh s') = g_sent (gh s) ++ sent_pairs [e].
Proof.
  unfold step, obind, settled. intros H.
  destruct (settle (settle_fuel s) s) as [s0|] eqn:E0; [|discriminate].
  destruct (settle_ghost _ _ _ E0) as [Hp0 Hs0]. rewrite <- Hp0, <- Hs0.
  assert (Hfin : forall s1, ctl s1 <> PStreamsStart ->
            match step_raw s1 e with Some s1' => settle (settle_fuel s1') s1' | None => None end = Some s' ->
            g_pulled (gh s') = g_pulled (gh s1) ++ pulled [e] /\ g_sent (gh s') = g_sent (gh s1) ++ sent_pairs [e]).
  { intros s1 Hne Hs. destruct (step_raw s1 e) as [s1'|] eqn:E1; [|discriminate].
    destruct (settle_ghost _ _ _ Hs) as [Hp1 Hs1].
    destruct (step_raw_ghost _ _ _ E1) as [[Hc _]|(_ & Hp & Hsn)]; [contradiction|]. split; congruence. }
  destruct (ctl s0) eqn:Ec; destruct e as [|ready'|q woke|woke|fsrc woke|k r|k y ok|k r|j r];
    try (apply Hfin; [congruence|exact H]);
    try (unfold step_raw in H; rewrite Ec in H; discriminate).
  destruct (step_raw s0 (EStream j r)) as [s1|] eqn:E1; [|discriminate].
  destruct (step_raw_ghost _ _ _ E1) as [(_ & Hg & Hne)|(Hne & _)]; [|congruence].
  rewrite <- Hg. apply Hfin; assumption.
Qed.

Lemma run_ghost tr : forall s s', run s tr = Some s' ->
  g_pulled (gh s') = g_pulled (gh s) ++ pulled tr /\ g_sent (gh s') = g_sent (gh s) ++ sent_pairs tr.
Proof.
  induction tr as [|e tr IH]; intros s s' H; cbn [run] in H.
  - injection H as <-. cbn. now rewrite !app_nil_r.
  - destruct (step s e) as [s1|] eqn:E; [|discriminate].
    destruct (step_ghost _ _ _ E) as [Hp Hs]. destruct (IH _ _ H) as [Hp' Hs'].
    rewrite Hp', Hs', Hp, Hs, <- !app_assoc.
    change (e :: tr) with ([e] ++ tr). unfold pulled, sent_pairs. now rewrite !flat_map_app.
Qed.

Lemma sent_of_l_pairs k tr : sent_of_l k (sent_pairs tr) = sent_to k tr.
Proof.
  induction tr as [|e tr IH]; [reflexivity|].
  change (e :: tr) with ([e] ++ tr). unfold sent_pairs, sent_to in *. rewrite !flat_map_app, sent_of_app, IH. f_equal.
  destruct e; try reflexivity. destruct ok; [|reflexivity].
  cbn [flat_map app]. unfold sent_of_l. cbn [filter fst].
  rewrite (N.eqb_sym k0 k). destruct (k =? k0); reflexivity.
Qed.

Theorem run_history tr s : run init tr = Some s ->
  g_pulled (gh s) = pulled tr /\ forall k, sent_of k (gh s) = sent_to k tr.
Proof.
  intros H. destruct (run_ghost _ _ _ H) as [Hp Hs]. cbn in Hp, Hs. split; [exact Hp|].
  intros k. unfold sent_of. rewrite Hs. apply sent_of_l_pairs.
Qed.

(** * Flushing: C16 and the quiescence clause of C01 / C09 *)
Definition clean (g : ghost) (k : N) : Prop := ~ In k (g_dirty g).

Definition sink_pending (e : ev) : bool :=
  match e with ESinkReady _ RPending | ESinkFlush _ RPending => true | _ => false end.

(** [b = false]: what holds unconditionally; [b = true]: what holds as long as no subscriber
    sink answers Pending *)
Definition GI (b : bool) (s : st) : Prop :=
  match ctl s with
  | PFlush idx _ => forall k, In k (firstn idx (sinks s)) -> clean (gh s) k
  | PReturn r => (r = true \/ b = true) -> buffered s = None /\ forall k, In k (sinks s) -> clean (gh s) k
  | PDone => buffered s = None /\ forall k, In k (sinks s) -> clean (gh s) k
  | _ => True
  end.

Lemma in_remove_n y k l : In y (remove_n k l) <-> In y l /\ y <> k.
Proof.
  unfold remove_n. rewrite filter_In. split; intros [H1 H2]; split; auto.
  - apply negb_true_iff in H2. apply N.eqb_neq in H2. exact H2.
  - apply negb_true_iff. now apply N.eqb_neq.
Qed.

Lemma gi_internal b s s' : Inv s -> GI b s -> internal s = Some s' -> GI b s'.
Proof.
  intros HI HG H. pose proof (inv_ctl _ HI) as Hc. unfold ctl_ok in Hc. unfold GI in *.
  unfold internal in H.
  destruct (ctl s) as [| |idx|idx x| | |start idx rem|idx why|ready| |site] eqn:Ec; try discriminate.
  - destruct (buffered s); injection H as <-; simp_st; exact I.
  - destruct (Nat.ltb idx (List.length (sinks s))); [discriminate|].
    destruct (buffered s); injection H as <-; simp_st; exact I.
  - destruct (Nat.ltb idx (List.length (sinks s))); [discriminate|]. injection H as <-; simp_st; exact I.
  - destruct (queue s) as [|[j|k] q].
    + destruct (closed s); [injection H as <-; simp_st; intros k []|].
      destruct (streams s); simp_st; [destruct (buffered s)|]; injection H as <-; simp_st; try exact I; intros k [].
    + injection H as <-; simp_st; exact I.
    + injection H as <-; simp_st; exact I.
  - destruct (streams s); [|discriminate]. injection H as <-; simp_st. intros k [].
  - destruct rem; [|discriminate]. destruct (streams s); injection H as <-; simp_st; intros k [].
  - destruct (Nat.ltb_spec idx (List.length (sinks s))); [discriminate|]. injection H as <-.
    rewrite firstn_all2 in HG by lia.
    destruct why; simp_st; try exact I; intros _; split; auto.
Qed.

Lemma gi_settle b fuel : forall s s', Inv s -> GI b s -> settle fuel s = Some s' -> GI b s'.
Proof.
  induction fuel as [|k IH]; intros s s' HI HG H; [discriminate|]. cbn [settle] in H.
  destruct (internal s) as [s1|] eqn:E.
  - apply (IH s1); [eapply inv_internal; eassumption|eapply gi_internal; eassumption|exact H].
  - injection H as <-. exact HG.
Qed.

Lemma gi_step_raw b s e s' :
  Inv s -> GI b s -> (b = true -> sink_pending e = false) -> step_raw s e = Some s' -> GI b s'.
Proof.
  intros HI HG Hb H. pose proof (inv_ctl _ HI) as Hc. unfold ctl_ok in Hc. unfold GI in *.
  unfold step_raw in H.
  destruct (ctl s) as [| |idx|idx x| | |start idx rem|idx why|ready| |site] eqn:Ec;
    destruct e as [|ready'|q woke|woke|fsrc woke|k r|k y ok|k r|j r]; try discriminate;
    try (destruct rem; discriminate).
  - injection H as <-; simp_st; exact I.
  - destruct (closed s || existsb (sock_eqb q) (g_used (gh s))); [discriminate|].
    destruct (Bool.eqb woke (h_armed s)); [|discriminate]. injection H as <-; simp_st. now rewrite Ec.
  - destruct (Bool.eqb woke (h_armed s)); [|discriminate]. injection H as <-; simp_st. now rewrite Ec.
  - destruct (woke && is_armed fsrc (armed s)); [|discriminate]. injection H as <-; simp_st. now rewrite Ec.
  - destruct (nth_error (sinks s) idx) as [k'|]; [|discriminate].
    destruct (k =? k'); [|discriminate].
    destruct r; injection H as <-; simp_st; try exact I.
    intros [Hf|Ht]; [discriminate|]. specialize (Hb Ht). discriminate.
  - destruct (nth_error (sinks s) idx) as [k'|]; [|discriminate].
    destruct ((k =? k') && (x =? y)); [|discriminate].
    destruct ok; injection H as <-; simp_st; exact I.
  - destruct (index_of j (streams s)); [|discriminate]. injection H as <-; simp_st; exact I.
  - destruct rem as [|rem]; [discriminate|].
    destruct (nth_error (streams s) idx) as [j'|]; [|discriminate].
    destruct (j =? j'); [|discriminate].
    destruct r; injection H as <-; simp_st; exact I.
  - destruct (nth_error (sinks s) idx) as [k'|] eqn:En; [|discriminate].
    destruct (N.eqb_spec k k'); [subst k'|discriminate].
    destruct r; injection H as <-; simp_st.
    + intros k0 Hk0. apply (in_firstn_S _ _ _ _ En) in Hk0. unfold clean; simp_st.
      rewrite in_remove_n. intros [Hin Hne]. destruct Hk0 as [Hk0|Hk0]; [|contradiction].
      now apply (HG k0).
    + intros k0 Hk0. rewrite swap_remove_firstn in Hk0. unfold clean; simp_st.
      rewrite in_remove_n. intros [Hin Hne]. now apply (HG k0).
    + intros [Hf|Ht]; [discriminate|]. specialize (Hb Ht). discriminate.
  - destruct (Bool.eqb_spec ready ready'); [subst ready'|discriminate].
    injection H as <-. destruct ready; simp_st; [|exact I]. apply HG. now left.
Qed.

Lemma gi_step b s e s' :
  Inv s -> GI b s -> (b = true -> sink_pending e = false) -> step s e = Some s' -> GI b s'.
Proof.
  intros HI HG Hb H. unfold step, obind, settled in H.
  destruct (settle (settle_fuel s) s) as [s0|] eqn:E0; [|discriminate].
  pose proof (inv_settle _ _ _ HI E0) as HI0. pose proof (gi_settle _ _ _ _ HI HG E0) as HG0.
  assert (Hfin : forall s1 s2, Inv s1 -> GI b s1 ->
            match step_raw s1 e with Some s1' => settle (settle_fuel s1') s1' | None => None end = Some s2 -> GI b s2).
  { intros s1 s2 H1 G1 Hs. destruct (step_raw s1 e) as [s1'|] eqn:E1; [|discriminate].
    eapply gi_settle; [eapply inv_step_raw; eassumption|eapply gi_step_raw; eassumption|exact Hs]. }
  destruct (ctl s0); destruct e as [|ready'|q woke|woke|fsrc woke|k r|k y ok|k r|j r]; try (eapply Hfin; eassumption).
  destruct (step_raw s0 (EStream j r)) as [s1|] eqn:E1; [|discriminate].
  eapply Hfin; [eapply inv_step_raw; eassumption|eapply gi_step_raw; eassumption|exact H].
Qed.

Lemma gi_init b : GI b init.
Proof. exact I. Qed.

Lemma gi_run b tr : forall s s', Inv s -> GI b s -> (b = true -> forallb (fun e => negb (sink_pending e)) tr = true) ->
  run s tr = Some s' -> GI b s'.
Proof.
  induction tr as [|e tr IH]; intros s s' HI HG Hb H; cbn [run] in H.
  - injection H as <-. exact HG.
  - destruct (step s e) as [s1|] eqn:E; [|discriminate].
    apply (IH s1); [eapply inv_step; eassumption| |intros Ht; specialize (Hb Ht); cbn in Hb; now apply andb_true_iff in Hb|exact H].
    eapply gi_step; try eassumption. intros Ht. specialize (Hb Ht). cbn in Hb. apply andb_true_iff in Hb as [Hb _].
    now apply negb_true_iff in Hb.
Qed.

Lemma delivered_of s : Inv s -> (match ctl s with PSend _ _ => False | _ => True end) ->
  buffered s = None -> (forall k, In k (sinks s) -> clean (gh s) k) -> delivered_all s = true.
Proof.
  intros HI Hctl Hb Hclean. unfold delivered_all. rewrite Hb. cbn [andb].
  apply forallb_forall. intros [k a] Hka.
  destruct (mem_n k (sinks s)) eqn:Em; [|reflexivity]. apply mem_n_In in Em.
  pose proof (inv_exact _ HI k a Hka Em) as He. rewrite inflight_buffer_based in He by exact Hctl.
  rewrite Hb, app_nil_r in He. rewrite He, Nat.eqb_refl. cbn [andb].
  apply negb_true_iff. apply mem_n_false. now apply Hclean.
Qed.

(** * C16: when the router's future completes, everything it pulled has been handed to every
    live subscriber and flushed *)
Theorem run_c16 tr s : run init tr = Some s -> c16_state_ok s = true.
Proof.
  intros H. pose proof (inv_run tr _ _ inv_init H) as HI.
  pose proof (gi_run false tr _ _ inv_init (gi_init false) ltac:(discriminate) H) as HG.
  unfold c16_state_ok, GI in *. destruct (ctl s) eqn:Ec; try reflexivity.
  - destruct ready; [|reflexivity]. destruct HG as [Hb Hc]; [now left|].
    apply delivered_of; auto. now rewrite Ec.
  - destruct HG as [Hb Hc]. apply delivered_of; auto. now rewrite Ec.
Qed.

(** * C01 (third sentence) / C09: a poll during which no subscriber answers Pending returns only
    after everything pulled so far, in this poll or earlier, was delivered to every live
    subscriber and flushed — whatever state the router was in when the poll began *)
Theorem quiescent_poll s0 seg s1 r :
  Inv s0 -> ctl s0 = PIdle ->
  forallb (fun e => negb (sink_pending e)) seg = true ->
  run s0 (EBegin :: seg) = Some s1 -> ctl s1 = PReturn r ->
  delivered_all s1 = true.
Proof.
  intros HI Hidle Hnp H Hr.
  assert (HG0 : GI true s0) by (unfold GI; now rewrite Hidle).
  pose proof (gi_run true (EBegin :: seg) _ _ HI HG0 ltac:(intros _; exact Hnp) H) as HG.
  pose proof (inv_run _ _ _ HI H) as HI1.
  unfold GI in HG. rewrite Hr in HG. destruct HG as [Hb Hc]; [now right|].
  apply delivered_of; auto. now rewrite Hr.
Qed.

(** * C08: an Err answer evicts exactly the answering subscriber *)
Definition sink_err_of (e : ev) : option N :=
  match e with
  | ESinkReady k RErr | ESinkFlush k RErr | ESinkSend k _ false => Some k
  | _ => None
  end.

Lemma evict_only_that_one s e s' k :
  Inv s -> step_raw s e = Some s' -> sink_err_of e = Some k ->
  ~ In k (sinks s') /\ forall y, In y (sinks s) -> y <> k -> In y (sinks s').
Proof.
  intros HI H He. pose proof (inv_nodup _ HI) as Hnd.
  unfold step_raw in H.
  destruct (ctl s) as [| |idx|idx x| | |start idx rem|idx why|ready| |site] eqn:Ec;
    destruct e as [|ready'|q woke|woke|fsrc woke|k0 r|k0 y0 ok|k0 r|j r]; try discriminate;
    try (destruct rem; discriminate); cbn in He; try discriminate.
  - destruct r; try discriminate. injection He as ->.
    destruct (nth_error (sinks s) idx) as [k'|] eqn:En; [|discriminate].
    destruct (N.eqb_spec k k'); [subst k'|discriminate]. injection H as <-. simp_st.
    split; [eapply swap_remove_removed; eassumption|intros y Hy Hne; eapply swap_remove_keeps; eassumption].
  - destruct ok; try discriminate. injection He as ->.
    destruct (nth_error (sinks s) idx) as [k'|] eqn:En; [|discriminate].
    destruct ((k =? k') && (x =? y0)) eqn:Ek; [|discriminate].
    apply andb_true_iff in Ek as [Ek _]. apply N.eqb_eq in Ek. subst k'. injection H as <-. simp_st.
    split; [eapply swap_remove_removed; eassumption|intros y Hy Hne; eapply swap_remove_keeps; eassumption].
  - destruct r; try discriminate. injection He as ->.
    destruct (nth_error (sinks s) idx) as [k'|] eqn:En; [|discriminate].
    destruct (N.eqb_spec k k'); [subst k'|discriminate]. injection H as <-. simp_st.
    split; [eapply swap_remove_removed; eassumption|intros y Hy Hne; eapply swap_remove_keeps; eassumption].
Qed.
