(** C03 — model of the client's publisher (client/src/streams/pubsub/publisher.rs with
    client/src/batching/message_batch.rs) and subscriber (subscriber.rs).  The payload codec and
    the compression pair are Section variables with the round-trip contract that C14 is about;
    the batch codec is the one of Wire.v (with its explicit panics). *)
Require Import Selium.Base Selium.Bytes Selium.Wire.
Open Scope N_scope.

Definition blen_list (l : list bytes) : N := N.of_nat (List.length l).

Section Client.
  Variable item : Type.
  Variable encode : item -> bytes.
  Variable decode : bytes -> option item.
  (** identity functions when no compression is configured *)
  Variable compress : bytes -> bytes.
  Variable decompress : bytes -> option bytes.

  Inductive wframe := WMsg (payload : bytes) | WBatch (payload : bytes) | WOther.

  (** * Publisher *)
  Record pstate := {
    p_batching : option N;        (* Some batch_size when batching is configured *)
    p_batch : list bytes;         (* MessageBatch.batch *)
    p_buffered : list wframe;     (* frames inside the FramedWrite buffer *)
    p_wire : list wframe;         (* frames handed to the transport *)
  }.

  Definition p_init (batching : option N) : pstate :=
    {| p_batching := batching; p_batch := []; p_buffered := []; p_wire := [] |}.

  Definition send_batch (s : pstate) : pstate :=
    {| p_batching := p_batching s; p_batch := [];
       p_buffered := p_buffered s ++ [WBatch (compress (encode_batch (p_batch s)))];
       p_wire := p_wire s |}.

  (** Sink::poll_ready; [expired] = the batching interval has elapsed (wall clock: adversarial) *)
  Definition p_poll_ready (expired : bool) (s : pstate) : pstate :=
    match p_batching s with
    | Some size => if expired || (size <=? blen_list (p_batch s)) then send_batch s else s
    | None => s
    end.

  Definition p_start_send (x : item) (s : pstate) : pstate :=
    match p_batching s with
    | Some _ => {| p_batching := p_batching s; p_batch := p_batch s ++ [encode x];
                   p_buffered := p_buffered s; p_wire := p_wire s |}
    | None => {| p_batching := p_batching s; p_batch := p_batch s;
                 p_buffered := p_buffered s ++ [WMsg (compress (encode x))]; p_wire := p_wire s |}
    end.

  Definition p_flush (s : pstate) : pstate :=
    {| p_batching := p_batching s; p_batch := p_batch s; p_buffered := []; p_wire := p_wire s ++ p_buffered s |}.

  (** Publisher::finish: flush_batch, flush the framed writer, finish the stream *)
  Definition p_finish (s : pstate) : pstate :=
    let s := match p_batching s, p_batch s with
             | Some _, _ :: _ => send_batch s
             | _, _ => s
             end in
    p_flush s.

  Inductive pop :=
  | OpSend (x : item) (expired : bool)     (* SinkExt::send = poll_ready, start_send, poll_flush *)
  | OpFeed (x : item) (expired : bool)     (* SinkExt::feed = poll_ready, start_send *)
  | OpFlush.

  Definition p_apply (s : pstate) (o : pop) : pstate :=
    match o with
    | OpSend x e => p_flush (p_start_send x (p_poll_ready e s))
    | OpFeed x e => p_start_send x (p_poll_ready e s)
    | OpFlush => p_flush s
    end.

  Definition accepted (ops : list pop) : list item :=
    flat_map (fun o => match o with OpSend x _ | OpFeed x _ => [x] | OpFlush => [] end) ops.

  Definition publish (batching : option N) (ops : list pop) : list wframe :=
    p_wire (p_finish (fold_left p_apply ops (p_init batching))).

  (** * Subscriber: Stream::poll_next over the frames the server forwards *)
  (** messages of a decoded batch are kept reversed and handed out with Vec::pop *)
  Fixpoint pop_all (fuel : nat) (pending : list bytes) : option (list item) :=
    match fuel with
    | O => match pending with [] => Some [] | _ => None end
    | S k =>
      match pending with
      | [] => Some []
      | _ =>
        match decode (last pending []) with
        | Some x => match pop_all k (removelast pending) with Some r => Some (x :: r) | None => None end
        | None => None
        end
      end
    end.

  Inductive sub_result := SubItems (l : list item) | SubErr | SubPanic.

  Definition sub_frame (f : wframe) : sub_result :=
    match f with
    | WMsg p =>
      match decompress p with
      | Some b => match decode b with Some x => SubItems [x] | None => SubErr end
      | None => SubErr
      end
    | WBatch p =>
      match decompress p with
      | Some b =>
        match decode_batch b with
        | Val (ms, _) =>
          let pending := rev ms in
          match pop_all (List.length pending) pending with Some l => SubItems l | None => SubErr end
        | Panic _ => SubPanic
        end
      | None => SubErr
      end
    | WOther => SubItems []         (* the stream ends *)
    end.

  Fixpoint subscribe (fs : list wframe) : sub_result :=
    match fs with
    | [] => SubItems []
    | f :: r =>
      match sub_frame f with
      | SubItems l => match subscribe r with SubItems l' => SubItems (l ++ l') | e => e end
      | e => e
      end
    end.
End Client.
