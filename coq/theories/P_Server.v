(** Proofs about the registration path (Server.v) for the translated program
    gen/ServerFacts.v [handle_stream_prog].  Part 1: what one registration answers, as a function
    of the table it finds (C11, server part of C07).  Part 2: the lock discipline and progress of
    registrations on other topics (C17). *)
Require Import Selium.Base Selium.ServerLang Selium.Server SeliumGen.ServerFacts SeliumGen.KeepAliveFacts Selium.ServerRun.
Open Scope N_scope.

(** * Part 1: symbolic execution of one registration *)
Lemma lookup_same tb n k : lookup ((n, k) :: tb) n = Some k.
Proof. cbn [lookup]. now rewrite N.eqb_refl. Qed.
Lemma lookup_other tb n m k : m <> n -> lookup ((m, k) :: tb) n = lookup tb n.
Proof. intros H. cbn [lookup]. destruct (N.eqb_spec m n); [contradiction|reflexivity]. Qed.
Lemma buf_not_over k : (bufof k <? 0 + 1) = false.
Proof. destruct k; reflexivity. Qed.
Lemma tkind_eqb_refl k : tkind_eqb k k = true.
Proof. now destruct k. Qed.
Lemma tkind_eqb_eq a b : tkind_eqb a b = true <-> a = b.
Proof. destruct a, b; cbn; split; congruence. Qed.
Lemma run_step b f pid sh p sh' p' :
  pstep b pid sh p = Some (sh', p') -> run_alone b (Datatypes.S f) pid sh p = run_alone b f pid sh' p'.
Proof. intros H. cbn [run_alone]. now rewrite H. Qed.
Lemma run_stop b f pid sh p : pstep b pid sh p = None -> run_alone b f pid sh p = (sh, p).
Proof. intros H. destruct f; cbn [run_alone]; [reflexivity|now rewrite H]. Qed.

Ltac norm E :=
  repeat (progress (unfold release, holds, enqueue, set_lock, set_table, set_queues; cbn;
                    rewrite ?E, ?lookup_same, ?N.eqb_refl, ?buf_not_over, ?tkind_eqb_refl; cbn)).
Ltac stepper E := erewrite run_step; [| unfold pstep, pstep_raw; norm E; reflexivity].
Ltac stopper E := rewrite run_stop; [| unfold pstep, pstep_raw; norm E; reflexivity].
Ltac exec E :=
  unfold ho, handle_open, open_fuel, handle_stream_prog; cbn [List.length Nat.mul Nat.add];
  repeat stepper E; try stopper E; cbn.

(** the four ways a registration can go *)
Lemma open_invalid tb n w :
  ho tb {| e_name := n; e_valid := false; e_wants := w; e_reads := true |} =
  ({| sh_table := tb; sh_lock := None; sh_queues := [] |},
   {| p_env := {| e_name := n; e_valid := false; e_wants := w; e_reads := true |}; p_pc := [];
      p_replies := [RErr INVALID_TOPIC_NAME]; p_sender := None; p_handed := None; p_panic := false |}).
Proof. assert (E : True) by exact I. exec E. reflexivity. Qed.

Lemma open_mismatch tb n w k :
  lookup tb n = Some k -> k <> w ->
  ho tb {| e_name := n; e_valid := true; e_wants := w; e_reads := true |} =
  ({| sh_table := tb; sh_lock := None; sh_queues := [] |},
   {| p_env := {| e_name := n; e_valid := true; e_wants := w; e_reads := true |}; p_pc := [];
      p_replies := [RErr TOPIC_KIND_MISMATCH]; p_sender := None; p_handed := None; p_panic := false |}).
Proof.
  intros E Hne.
  assert (Hk : tkind_eqb k w = false) by (destruct k, w; try reflexivity; congruence).
  unfold ho, handle_open, open_fuel, handle_stream_prog; cbn [List.length Nat.mul Nat.add].
  repeat (erewrite run_step; [| unfold pstep, pstep_raw; norm E; rewrite ?Hk; norm E; reflexivity]).
  try (rewrite run_stop; [| unfold pstep, pstep_raw; norm E; reflexivity]).
  reflexivity.
Qed.

Lemma open_existing tb n w :
  lookup tb n = Some w ->
  ho tb {| e_name := n; e_valid := true; e_wants := w; e_reads := true |} =
  ({| sh_table := tb; sh_lock := None;
      sh_queues := [(n, {| q_len := 0 + 1; q_parked := []; q_shared_parked := false |})] |},
   {| p_env := {| e_name := n; e_valid := true; e_wants := w; e_reads := true |}; p_pc := [];
      p_replies := [ROk]; p_sender := Some w; p_handed := Some w; p_panic := false |}).
Proof. intros E. exec E. reflexivity. Qed.

Lemma open_fresh tb n w :
  lookup tb n = None ->
  ho tb {| e_name := n; e_valid := true; e_wants := w; e_reads := true |} =
  ({| sh_table := (n, w) :: tb; sh_lock := None;
      sh_queues := [(n, {| q_len := 0 + 1; q_parked := []; q_shared_parked := false |})] |},
   {| p_env := {| e_name := n; e_valid := true; e_wants := w; e_reads := true |}; p_pc := [];
      p_replies := [ROk]; p_sender := Some w; p_handed := Some w; p_panic := false |}).
Proof. intros E. exec E. reflexivity. Qed.

(** every registration is in exactly one of the four cases *)
Inductive open_case (tb : table) (e : env) : open_outcome -> table -> Prop :=
| OC_invalid : e_valid e = false -> open_case tb e (Refused INVALID_TOPIC_NAME) tb
| OC_mismatch k : e_valid e = true -> lookup tb (e_name e) = Some k -> k <> e_wants e ->
                  open_case tb e (Refused TOPIC_KIND_MISMATCH) tb
| OC_existing : e_valid e = true -> lookup tb (e_name e) = Some (e_wants e) -> open_case tb e (Served (e_wants e)) tb
| OC_fresh : e_valid e = true -> lookup tb (e_name e) = None ->
             open_case tb e (Served (e_wants e)) ((e_name e, e_wants e) :: tb).

Lemma open_spec tb e :
  e_reads e = true ->
  open_case tb e (outcome_of (ho tb e)) (sh_table (fst (ho tb e)))
  /\ sh_lock (fst (ho tb e)) = None /\ p_panic (snd (ho tb e)) = false.
Proof.
  destruct e as [n v w rd]. cbn [e_reads]. intros ->.
  destruct v.
  - destruct (lookup tb n) as [k|] eqn:E.
    + destruct (tkind_eqb k w) eqn:Hk.
      * apply tkind_eqb_eq in Hk. subst k. rewrite (open_existing _ _ _ E).
        split; [|split; reflexivity]. cbn. now apply OC_existing.
      * assert (Hne : k <> w) by (intros ->; now rewrite tkind_eqb_refl in Hk).
        rewrite (open_mismatch _ _ _ _ E Hne). split; [|split; reflexivity]. cbn. now apply (OC_mismatch _ _ k).
    + rewrite (open_fresh _ _ _ E). split; [|split; reflexivity]. cbn. now apply OC_fresh.
  - rewrite open_invalid. split; [|split; reflexivity]. cbn. now apply OC_invalid.
Qed.

(** ** Sequences of registrations: kinds never change, names never interfere, a topic stays usable *)
Definition opens (tb : table) (es : list env) : table :=
  fold_left (fun tb e => sh_table (fst (ho tb e))) es tb.

Lemma open_table_lookup tb e n :
  e_reads e = true ->
  lookup (sh_table (fst (ho tb e))) n = lookup tb n
  \/ (n = e_name e /\ e_valid e = true /\ lookup tb n = None /\ lookup (sh_table (fst (ho tb e))) n = Some (e_wants e)).
Proof.
  intros Hr. destruct (open_spec tb e Hr) as [Hc _].
  remember (outcome_of (ho tb e)) as o eqn:Eo. remember (sh_table (fst (ho tb e))) as t' eqn:Et. clear Eo Et.
  destruct Hc as [Hv|k Hv Hl Hne|Hv Hl|Hv Hl]; try (left; reflexivity).
  destruct (N.eq_dec (e_name e) n) as [<-|Hn].
  - right. rewrite lookup_same. auto.
  - left. now rewrite lookup_other.
Qed.

Lemma kind_stable_step tb e n k :
  e_reads e = true -> lookup tb n = Some k -> lookup (sh_table (fst (ho tb e))) n = Some k.
Proof.
  intros Hr Hl. destruct (open_table_lookup tb e n Hr) as [->|(_ & _ & Hn & _)]; [exact Hl|congruence].
Qed.

Lemma kind_stable tb es n k :
  Forall (fun e => e_reads e = true) es -> lookup tb n = Some k -> lookup (opens tb es) n = Some k.
Proof.
  revert tb. induction es as [|e es IH]; intros tb Hall Hl; [exact Hl|].
  inversion Hall as [|? ? He Hes]; subst. cbn [opens fold_left]. apply IH; [exact Hes|].
  now apply kind_stable_step.
Qed.

Lemma other_names_untouched tb e n :
  e_reads e = true -> n <> e_name e -> lookup (sh_table (fst (ho tb e))) n = lookup tb n.
Proof.
  intros Hr Hn. destruct (open_table_lookup tb e n Hr) as [H|(H & _)]; [exact H|contradiction].
Qed.

Lemma served_when_bound tb n k :
  lookup tb n = Some k ->
  outcome_of (ho tb {| e_name := n; e_valid := true; e_wants := k; e_reads := true |}) = Served k.
Proof. intros E. now rewrite (open_existing _ _ _ E). Qed.

Lemma answered tb e :
  e_reads e = true ->
  outcome_of (ho tb e) = Served (e_wants e)
  \/ outcome_of (ho tb e) = Refused INVALID_TOPIC_NAME
  \/ outcome_of (ho tb e) = Refused TOPIC_KIND_MISMATCH.
Proof.
  intros Hr. destruct (open_spec tb e Hr) as [Hc _].
  inversion Hc; auto.
Qed.

Lemma first_frame_cases tb k n v :
  (is_header header_kinds k = false /\ ff tb k n v = (ClosedNoReply, tb))
  \/ (is_header header_kinds k = true /\
      (fst (ff tb k n v) = Served (wants_of k) \/ fst (ff tb k n v) = Refused INVALID_TOPIC_NAME
       \/ fst (ff tb k n v) = Refused TOPIC_KIND_MISMATCH)).
Proof.
  unfold ff, first_frame. destruct (is_header header_kinds k) eqn:Hh; [right|left; auto].
  split; [reflexivity|]. cbn [fst].
  apply (answered tb {| e_name := n; e_valid := v; e_wants := wants_of k; e_reads := true |}). reflexivity.
Qed.

Lemma header_kinds_are_registers k :
  is_header header_kinds k = true <-> (k = KRegPub \/ k = KRegSub \/ k = KRegRep \/ k = KRegReq).
Proof.
  destruct k; vm_compute; split; intros H; try discriminate; auto;
    repeat (destruct H as [H|H]; try discriminate).
Qed.

(** ** The client library's reading of the first reply *)
Lemma client_reads_total x : exists r, client_reads handle_reply_arms x = Some r.
Proof. destruct x; vm_compute; eauto. Qed.
Lemma client_ok_only_on_ok x : client_reads handle_reply_arms x = Some COk <-> x = PFrameOk.
Proof. destruct x; vm_compute; split; congruence. Qed.
Lemma client_reports_code : client_reads handle_reply_arms PFrameError = Some CErrPayloadCode.
Proof. reflexivity. Qed.
Lemma client_reports_eof : client_reads handle_reply_arms PEnd = Some (CErrCode STREAM_CLOSED_PREMATURELY).
Proof. reflexivity. Qed.

(** * Part 2: many registrations at once -- the lock discipline (C17) *)
Lemma p_get_set_same ps pid p p0 : p_get ps pid = Some p0 -> p_get (p_set ps pid p) pid = Some p.
Proof.
  induction ps as [|[m q] r IH]; cbn [p_get p_set]; [discriminate|].
  destruct (N.eqb_spec m pid) as [->|Hne]; cbn [p_get].
  - now rewrite N.eqb_refl.
  - destruct (N.eqb_spec m pid); [contradiction|]. exact IH.
Qed.
Lemma p_get_set_other ps pid p q : q <> pid -> p_get (p_set ps pid p) q = p_get ps q.
Proof.
  intros Hq. induction ps as [|[m p0] r IH]; cbn [p_get p_set]; [reflexivity|].
  destruct (N.eqb_spec m pid) as [->|Hne]; cbn [p_get].
  - destruct (N.eqb_spec pid q); [congruence|reflexivity].
  - now rewrite IH.
Qed.
Lemma q_get_set_same qs n q : q_get (q_set qs n q) n = q.
Proof.
  induction qs as [|[m q0] r IH]; cbn [q_get q_set].
  - now rewrite N.eqb_refl.
  - destruct (N.eqb_spec m n) as [->|Hne]; cbn [q_get].
    + now rewrite N.eqb_refl.
    + destruct (N.eqb_spec m n); [contradiction|]. exact IH.
Qed.
Lemma q_get_set_other qs n m q : m <> n -> q_get (q_set qs n q) m = q_get qs m.
Proof.
  intros Hm. induction qs as [|[k q0] r IH]; cbn [q_get q_set].
  - destruct (N.eqb_spec n m); [congruence|reflexivity].
  - destruct (N.eqb_spec k n) as [->|Hne]; cbn [q_get].
    + destruct (N.eqb_spec n m); [congruence|reflexivity].
    + now rewrite IH.
Qed.

Definition cost_s (i : sinstr) : nat := match i with IHandoff _ => 2%nat | _ => 1%nat end.
Definition cost_i (i : instr) : nat :=
  match i with S i => cost_s i | IIf _ body => Datatypes.S (list_sum (map cost_s body)) end.
Definition cost (pc : list instr) : nat := list_sum (map cost_i pc).

Lemma cost_app a b : cost (a ++ b) = (cost a + cost b)%nat.
Proof. unfold cost. now rewrite map_app, list_sum_app. Qed.
Lemma cost_cons i r : cost (i :: r) = (cost_i i + cost r)%nat.
Proof. reflexivity. Qed.
Lemma cost_nil : cost [] = 0%nat.
Proof. reflexivity. Qed.
Lemma cost_mapS body : cost (map S body) = list_sum (map cost_s body).
Proof. unfold cost. rewrite map_map. reflexivity. Qed.

Definition parked_count (q : topicq) : N :=
  N.of_nat (List.length (q_parked q)) + (if q_shared_parked q then 1 else 0).

Definition queues_ok (sh : shared) : Prop :=
  forall name, parked_count (q_get (sh_queues sh) name) <= q_len (q_get (sh_queues sh) name).

(** syntactic lemmas about [lock_safe] *)
Lemma lock_safe_body held body rest :
  match safe_simple held body with
  | None => False
  | Some None => True
  | Some (Some h) => lock_safe h rest = true
  end -> lock_safe held (map S body ++ rest) = true.
Proof.
  revert held. induction body as [|i body IH]; intros held H; cbn [safe_simple map app] in *.
  - exact H.
  - cbn [lock_safe]. destruct i; try (destruct held; cbn [andb blocking] in *; try contradiction; apply IH; exact H).
    reflexivity.
Qed.

Lemma holds_set_lock_self sh pid : holds (set_lock sh (Some pid)) pid = true.
Proof. unfold holds, set_lock. cbn. apply N.eqb_refl. Qed.
Lemma holds_release_self sh pid : holds (release sh pid) pid = false.
Proof. unfold release. destruct (holds sh pid) eqn:E; [reflexivity|exact E]. Qed.
Lemma holds_release_other sh pid q : q <> pid -> holds (release sh pid) q = holds sh q.
Proof.
  intros Hq. unfold release. destruct (holds sh pid) eqn:E; [|reflexivity].
  unfold holds in *. cbn. destruct (sh_lock sh) as [h|]; [|reflexivity].
  apply N.eqb_eq in E. subst h. symmetry. apply N.eqb_neq. congruence.
Qed.
Lemma lock_release_cases sh pid h :
  sh_lock (release sh pid) = Some h -> sh_lock sh = Some h /\ h <> pid.
Proof.
  unfold release. destruct (holds sh pid) eqn:E; cbn; [discriminate|].
  intros H. split; [exact H|]. unfold holds in E. rewrite H in E. now apply N.eqb_neq in E.
Qed.
Lemma release_queues sh pid : sh_queues (release sh pid) = sh_queues sh.
Proof. unfold release. now destruct (holds sh pid). Qed.
Lemma release_table sh pid : sh_table (release sh pid) = sh_table sh.
Proof. unfold release. now destruct (holds sh pid). Qed.

Lemma enqueue_ok sh k name pid own : queues_ok sh -> queues_ok (enqueue bufof sh k name pid own).
Proof.
  intros H m. unfold enqueue. cbn [sh_queues set_queues].
  destruct (N.eq_dec m name) as [->|Hm].
  - rewrite q_get_set_same. specialize (H name). unfold parked_count in *. cbn [q_len q_parked q_shared_parked].
    destruct (bufof k <? q_len (q_get (sh_queues sh) name) + 1), own; cbn [andb negb];
      try rewrite app_length; cbn [List.length]; destruct (q_shared_parked (q_get (sh_queues sh) name)); lia.
  - rewrite q_get_set_other by exact Hm. apply H.
Qed.

Lemma dequeue_ok sh name sh' : queues_ok sh -> router_dequeue sh name = Some sh' -> queues_ok sh'.
Proof.
  intros H Hd m. unfold router_dequeue in Hd.
  destruct (N.eqb_spec (q_len (q_get (sh_queues sh) name)) 0) as [|Hlen]; [discriminate|].
  inversion Hd; subst sh'; clear Hd. cbn [sh_queues set_queues].
  destruct (N.eq_dec m name) as [->|Hm].
  - rewrite q_get_set_same. specialize (H name). unfold parked_count in *.
    destruct (q_parked (q_get (sh_queues sh) name)) as [|x r]; cbn [q_len q_parked q_shared_parked List.length] in *.
    + lia.
    + destruct (q_shared_parked (q_get (sh_queues sh) name)); lia.
  - rewrite q_get_set_other by exact Hm. apply H.
Qed.

Lemma holds_other_of_lock sh pid q : sh_lock sh = None -> holds (set_lock sh (Some pid)) q = holds sh q \/ q = pid.
Proof.
  intros Hl. destruct (N.eq_dec q pid) as [->|Hq]; [now right|left].
  unfold holds, set_lock. cbn. rewrite Hl. apply N.eqb_neq. congruence.
Qed.


(** what one instruction of task [pid] does to everything the discipline talks about *)
Lemma pstep_raw_effect pid sh p sh1 p1 :
  lock_safe (holds sh pid) (p_pc p) = true ->
  queues_ok sh ->
  pstep_raw bufof pid sh p = Some (sh1, p1) ->
  lock_safe (holds sh1 pid) (p_pc p1) = true
  /\ (forall q, q <> pid -> holds sh1 q = holds sh q)
  /\ (forall h, sh_lock sh1 = Some h -> h = pid \/ (h <> pid /\ sh_lock sh = Some h))
  /\ queues_ok sh1
  /\ (cost (p_pc p1) < cost (p_pc p))%nat
  /\ p_env p1 = p_env p
  /\ (sh_table sh1 = sh_table sh \/ holds sh pid = true).
Proof.
  intros Hsafe Hq H. unfold pstep_raw in H.
  destruct (p_pc p) as [|[i|c body] rest] eqn:Epc; [discriminate|destruct i|];
    destruct (holds sh pid) eqn:Hh;
    cbn [lock_safe andb orb negb blocking touches_table reads_table] in Hsafe; try discriminate.
  Local Ltac lockfin pid := intros h Hh'; cbn in Hh'; destruct (N.eq_dec h pid); [now left|right; auto].
  Local Ltac costfin := rewrite ?cost_cons, ?cost_nil; cbn [cost_i cost_s]; lia.
  Local Ltac samesh Hh := repeat split; auto; try costfin; try (rewrite Hh; assumption).
  - (* ILock, not held *)
    destruct (sh_lock sh) as [h0|] eqn:Hl; [discriminate|]. inversion H; subst; clear H.
    rewrite holds_set_lock_self. cbn [p_pc set_pc].
    repeat split; auto; try costfin.
    + intros q Hne. destruct (holds_other_of_lock sh pid q Hl); [assumption|contradiction].
    + intros h Hh'. cbn in Hh'. left. congruence.
  - (* IUnlock, held *)
    inversion H; subst; clear H. rewrite holds_release_self. cbn [p_pc set_pc].
    repeat split; auto; try costfin.
    + intros q Hne. now apply holds_release_other.
    + intros h Hh'. apply lock_release_cases in Hh'. right. tauto.
    + intros m. rewrite release_queues. apply Hq.
  - (* IUnlock, not held *)
    inversion H; subst; clear H. rewrite holds_release_self. cbn [p_pc set_pc].
    repeat split; auto; try costfin.
    + intros q Hne. now apply holds_release_other.
    + intros h Hh'. apply lock_release_cases in Hh'. right. tauto.
    + intros m. rewrite release_queues. apply Hq.
    + left. apply release_table.
  - (* IReplyOk *)
    destruct (e_reads (p_env p)); [|discriminate]. inversion H; subst; clear H.
    cbn [p_pc set_pc add_reply]. samesh Hh. lockfin pid.
  - (* IReplyErr *)
    destruct (e_reads (p_env p)); [|discriminate]. inversion H; subst; clear H.
    cbn [p_pc set_pc add_reply]. samesh Hh. lockfin pid.
  - (* IReturn held *)
    inversion H; subst; clear H. cbn [p_pc set_pc]. samesh Hh. lockfin pid.
  - (* IReturn *)
    inversion H; subst; clear H. cbn [p_pc set_pc]. samesh Hh. lockfin pid.
  - (* IAwaitHandles held *)
    inversion H; subst; clear H. cbn [p_pc set_pc]. samesh Hh. lockfin pid.
  - (* IAwaitHandles *)
    inversion H; subst; clear H. cbn [p_pc set_pc]. samesh Hh. lockfin pid.
  - (* ICreateTopic, held *)
    inversion H; subst; clear H. cbn [p_pc set_pc].
    assert (Hh1 : holds (set_table sh ((e_name (p_env p), e_wants (p_env p)) :: sh_table sh)) pid = true) by exact Hh.
    rewrite Hh1. repeat split; auto; try costfin. lockfin pid.
  - (* ITakeSender, held *)
    destruct (lookup (sh_table sh) (e_name (p_env p))); inversion H; subst; clear H; cbn [p_pc set_pc set_sender panic];
      (samesh Hh; lockfin pid).
  - (* IHandoff, not held *)
    destruct (p_sender p) as [k|].
    + destruct (tkind_eqb k (e_wants (p_env p))).
      * destruct (negb own && q_shared_parked (q_get (sh_queues sh) (e_name (p_env p)))); [discriminate|].
        inversion H; subst; clear H. cbn [p_pc set_pc set_handed].
        assert (Hh1 : forall q, holds (enqueue bufof sh k (e_name (p_env p)) pid own) q = holds sh q) by reflexivity.
        rewrite Hh1, Hh. cbn [lock_safe andb orb negb blocking touches_table]. repeat split; auto; try costfin.
        -- lockfin pid.
        -- now apply enqueue_ok.
      * inversion H; subst; clear H. cbn [p_pc panic]. samesh Hh. lockfin pid.
    + inversion H; subst; clear H. cbn [p_pc panic]. samesh Hh. lockfin pid.
  - (* IFlush, not held *)
    destruct (if own then mem pid (q_parked (q_get (sh_queues sh) (e_name (p_env p)))) else q_shared_parked (q_get (sh_queues sh) (e_name (p_env p)))); [discriminate|].
    inversion H; subst; clear H. cbn [p_pc set_pc]. samesh Hh. lockfin pid.
  - (* IIf, held *)
    inversion H; subst; clear H. cbn [p_pc set_pc]. rewrite Hh.
    repeat split; auto.
    + destruct (eval_cond c sh1 (p_env p)).
      * apply lock_safe_body. destruct (safe_simple true body) as [[h|]|]; [|exact I|discriminate].
        apply andb_prop in Hsafe as [He Hr]. apply eqb_prop in He. subst h. exact Hr.
      * destruct (safe_simple true body) as [[h|]|]; [|exact Hsafe|discriminate].
        now apply andb_prop in Hsafe as [_ Hr].
    + lockfin pid.
    + destruct (eval_cond c sh1 (p_env p)).
      * rewrite cost_app, cost_mapS, cost_cons. cbn [cost_i]. lia.
      * rewrite cost_cons. cbn [cost_i]. lia.
  - (* IIf, not held *)
    inversion H; subst; clear H. cbn [p_pc set_pc]. rewrite Hh.
    destruct (reads_table c); [discriminate|].
    repeat split; auto.
    + destruct (eval_cond c sh1 (p_env p)).
      * apply lock_safe_body. destruct (safe_simple false body) as [[h|]|]; [|exact I|discriminate].
        apply andb_prop in Hsafe as [He Hr]. apply eqb_prop in He. subst h. exact Hr.
      * destruct (safe_simple false body) as [[h|]|]; [|exact Hsafe|discriminate].
        now apply andb_prop in Hsafe as [_ Hr].
    + lockfin pid.
    + destruct (eval_cond c sh1 (p_env p)).
      * rewrite cost_app, cost_mapS, cost_cons. cbn [cost_i]. lia.
      * rewrite cost_cons. cbn [cost_i]. lia.
Qed.

Lemma pstep_effect pid sh p sh' p' :
  lock_safe (holds sh pid) (p_pc p) = true ->
  queues_ok sh ->
  pstep bufof pid sh p = Some (sh', p') ->
  lock_safe (holds sh' pid) (p_pc p') = true
  /\ (forall q, q <> pid -> holds sh' q = holds sh q)
  /\ (forall h, sh_lock sh' = Some h -> (h = pid /\ p_pc p' <> []) \/ (h <> pid /\ sh_lock sh = Some h))
  /\ queues_ok sh'
  /\ (cost (p_pc p') < cost (p_pc p))%nat
  /\ p_env p' = p_env p
  /\ (sh_table sh' = sh_table sh \/ holds sh pid = true).
Proof.
  intros Hsafe Hq H. unfold pstep in H.
  destruct (pstep_raw bufof pid sh p) as [[sh1 p1]|] eqn:Hraw; [|discriminate].
  destruct (pstep_raw_effect _ _ _ _ _ Hsafe Hq Hraw) as (E1 & E2 & E3 & E4 & E5 & E6 & E7).
  assert (Hp' : p' = p1) by congruence. subst p'.
  assert (Hsh' : sh' = match p_pc p1 with [] => release sh1 pid | _ :: _ => sh1 end) by congruence.
  clear H. destruct (p_pc p1) as [|i1 r1] eqn:Epc1; subst sh'.
  - split; [reflexivity|]. split; [|split; [|split; [|split; [exact E5|split; [exact E6|]]]]].
    + intros q Hne. rewrite holds_release_other by exact Hne. now apply E2.
    + intros h Hh. apply lock_release_cases in Hh as [Hh Hne]. right. split; [exact Hne|].
      destruct (E3 h Hh) as [->|[_ Hs]]; [contradiction|exact Hs].
    + intros m. rewrite release_queues. apply E4.
    + rewrite release_table. exact E7.
  - split; [exact E1|]. split; [exact E2|]. split; [|split; [exact E4|split; [exact E5|split; [exact E6|exact E7]]]].
    intros h Hh. destruct (E3 h Hh) as [->|Hs]; [left; split; [reflexivity|discriminate]|right; exact Hs].
Qed.

Lemma parked_zero q : parked_count q = 0 -> q_parked q = [] /\ q_shared_parked q = false.
Proof.
  unfold parked_count. destruct (q_parked q), (q_shared_parked q); cbn [List.length]; intros H; try lia; auto.
Qed.

(** a task whose peer reads, that does not wait for a lock held by somebody else, and whose own
    topic has no parked sender, can take its next step *)
Lemma can_step pid sh p :
  p_pc p <> [] -> e_reads (p_env p) = true ->
  lock_safe (holds sh pid) (p_pc p) = true ->
  (sh_lock sh = None \/ sh_lock sh = Some pid) ->
  parked_count (q_get (sh_queues sh) (e_name (p_env p))) = 0 ->
  exists r, pstep bufof pid sh p = Some r.
Proof.
  intros Hpc Hr Hsafe Hl Hz. apply parked_zero in Hz as [Hp Hs].
  assert (Hraw : exists r, pstep_raw bufof pid sh p = Some r).
  { unfold pstep_raw. destruct (p_pc p) as [|[i|c body] rest] eqn:Epc; [contradiction|destruct i|]; rewrite ?Hr; eauto.
    - (* ILock *) destruct Hl as [->|Hl]; [eauto|].
      cbn [lock_safe] in Hsafe. unfold holds in Hsafe. rewrite Hl, N.eqb_refl in Hsafe. discriminate.
    - destruct (lookup (sh_table sh) (e_name (p_env p))); eauto.
    - destruct (p_sender p) as [k|]; [|eauto]. destruct (tkind_eqb k (e_wants (p_env p))); [|eauto].
      rewrite Hs, andb_false_r. eauto.
    - rewrite Hp, Hs. cbn [mem existsb]. destruct own; eauto. }
  destruct Hraw as [[sh1 p1] Hraw]. unfold pstep. rewrite Hraw. eauto.
Qed.

(** the holder of the lock is never waiting for anything *)
Lemma holder_can_step pid sh p :
  p_pc p <> [] -> lock_safe true (p_pc p) = true -> exists r, pstep bufof pid sh p = Some r.
Proof.
  intros Hpc Hsafe.
  assert (Hraw : exists r, pstep_raw bufof pid sh p = Some r).
  { unfold pstep_raw. destruct (p_pc p) as [|[i|c body] rest] eqn:Epc; [contradiction|destruct i|];
      cbn [lock_safe andb blocking] in Hsafe; try discriminate; eauto.
    destruct (lookup (sh_table sh) (e_name (p_env p))); eauto. }
  destruct Hraw as [[sh1 p1] Hraw]. unfold pstep. rewrite Hraw. eauto.
Qed.

Section Conc.
  Variable prog : list instr.
  Hypothesis prog_safe : lock_safe false prog = true.

  Notation step := (sys_step bufof prog).

  Record SInv (y : sys) : Prop := {
    si_safe : forall pid p, p_get (y_procs y) pid = Some p -> lock_safe (holds (y_sh y) pid) (p_pc p) = true;
    si_holder : forall h, sh_lock (y_sh y) = Some h -> exists p, p_get (y_procs y) h = Some p /\ p_pc p <> [];
    si_fresh : forall pid p, p_get (y_procs y) pid = Some p -> pid < y_next y;
    si_queues : queues_ok (y_sh y) }.

  Lemma sinv_init : SInv sys_init.
  Proof.
    split; cbn [sys_init y_sh y_procs y_next p_get sh_lock]; try discriminate.
    all: intros m; cbn; unfold parked_count; cbn; lia.
  Qed.

  Lemma holds_false_of_not_holder sh pid : (forall h, sh_lock sh = Some h -> h <> pid) -> holds sh pid = false.
  Proof.
    intros H. unfold holds. destruct (sh_lock sh) as [h|] eqn:E; [|reflexivity].
    apply N.eqb_neq. now apply H.
  Qed.

  Lemma sinv_step y l y' : SInv y -> step y l = Some y' -> SInv y'.
  Proof.
    intros [Hsafe Hhold Hfresh Hq] Hs. destruct l as [e|pid|name]; cbn [sys_step] in Hs.
    - (* spawn *)
      inversion Hs; subst y'; clear Hs. split; cbn [y_sh y_procs y_next].
      + intros pid p. cbn [p_get]. destruct (N.eqb_spec (y_next y) pid) as [<-|Hne].
        * intros Hp. inversion Hp; subst p. cbn [mkproc p_pc].
          rewrite holds_false_of_not_holder; [exact prog_safe|].
          intros h Hh. destruct (Hhold h Hh) as (p & Hp' & _). apply Hfresh in Hp'. lia.
        * apply Hsafe.
      + intros h Hh. destruct (Hhold h Hh) as (p & Hp & Hpc). exists p. split; [|exact Hpc].
        cbn [p_get]. destruct (N.eqb_spec (y_next y) h) as [<-|]; [|exact Hp].
        apply Hfresh in Hp. lia.
      + intros pid p. cbn [p_get]. destruct (N.eqb_spec (y_next y) pid) as [<-|Hne]; [lia|].
        intros Hp. apply Hfresh in Hp. lia.
      + exact Hq.
    - (* a task moves *)
      destruct (p_get (y_procs y) pid) as [p|] eqn:Hp; [|discriminate].
      destruct (pstep bufof pid (y_sh y) p) as [[sh' p']|] eqn:Hps; [|discriminate].
      inversion Hs; subst y'; clear Hs.
      destruct (pstep_effect _ _ _ _ _ (Hsafe _ _ Hp) Hq Hps) as (H1 & H2 & H3 & H4 & _ & _).
      split; cbn [y_sh y_procs y_next].
      + intros q pq Hpq. destruct (N.eq_dec q pid) as [->|Hne].
        * rewrite (p_get_set_same _ _ _ _ Hp) in Hpq. inversion Hpq; subst pq. exact H1.
        * rewrite p_get_set_other in Hpq by exact Hne. rewrite H2 by exact Hne. now apply Hsafe.
      + intros h Hh. destruct (H3 h Hh) as [[-> Hpc]|[Hne Hl]].
        * exists p'. split; [now apply p_get_set_same with p|exact Hpc].
        * destruct (Hhold h Hl) as (ph & Hph & Hpc). exists ph. split; [|exact Hpc].
          now rewrite p_get_set_other.
      + intros q pq Hpq. destruct (N.eq_dec q pid) as [->|Hne].
        * now apply Hfresh with p.
        * rewrite p_get_set_other in Hpq by exact Hne. now apply Hfresh with pq.
      + exact H4.
    - (* a router adopts a registration *)
      destruct (router_dequeue (y_sh y) name) as [sh'|] eqn:Hd; [|discriminate].
      inversion Hs; subst y'; clear Hs.
      assert (Hl : sh_lock sh' = sh_lock (y_sh y)).
      { unfold router_dequeue in Hd. destruct (q_len (q_get (sh_queues (y_sh y)) name) =? 0); [discriminate|].
        inversion Hd. reflexivity. }
      split; cbn [y_sh y_procs y_next].
      + intros pid p Hp. unfold holds. rewrite Hl. now apply Hsafe.
      + intros h Hh. rewrite Hl in Hh. now apply Hhold.
      + exact Hfresh.
      + now apply dequeue_ok with (y_sh y) name.
  Qed.

  Lemma sinv_run ls : SInv (sys_run bufof prog ls).
  Proof.
    unfold sys_run. generalize sinv_init. generalize (sys_init).
    induction ls as [|l ls IH]; intros y Hy; cbn [fold_left]; [exact Hy|].
    apply IH. unfold sys_step'. destruct (step y l) as [y'|] eqn:Hs; [now apply sinv_step with y l|exact Hy].
  Qed.

  (** ** T1: whoever holds the table lock can always take its next step *)
  Theorem holder_moves y h :
    SInv y -> sh_lock (y_sh y) = Some h -> exists y', step y (LProc h) = Some y'.
  Proof.
    intros Hi Hl. destruct (si_holder _ Hi h Hl) as (p & Hp & Hpc).
    pose proof (si_safe _ Hi h p Hp) as Hs.
    assert (Hh : holds (y_sh y) h = true) by (unfold holds; rewrite Hl; apply N.eqb_refl).
    rewrite Hh in Hs. destruct (holder_can_step h (y_sh y) p Hpc Hs) as [[sh' p'] Hps].
    cbn [sys_step]. rewrite Hp, Hps. eauto.
  Qed.

  (** schedules that help task [pid] registering on topic [name]: its own steps, its own topic's
      router, and steps of whoever holds the table lock at that moment *)
  Inductive helped (pid name : N) : sys -> sys -> Prop :=
  | H_refl y : helped pid name y y
  | H_self y y' y'' : step y (LProc pid) = Some y' -> helped pid name y' y'' -> helped pid name y y''
  | H_router y y' y'' : step y (LRouter name) = Some y' -> helped pid name y' y'' -> helped pid name y y''
  | H_holder y h y' y'' : sh_lock (y_sh y) = Some h -> step y (LProc h) = Some y' ->
                          helped pid name y' y'' -> helped pid name y y''.

  Lemma helped_trans pid name a b c : helped pid name a b -> helped pid name b c -> helped pid name a c.
  Proof.
    intros H1 H2. induction H1; [exact H2|econstructor 2|econstructor 3|econstructor 4]; eauto.
  Qed.

  (** ** the lock is released after finitely many steps of its holder, nobody else being touched *)
  Lemma holder_releases pid name n : forall y h ph,
    SInv y -> sh_lock (y_sh y) = Some h -> h <> pid ->
    p_get (y_procs y) h = Some ph -> (cost (p_pc ph) <= n)%nat ->
    exists y', helped pid name y y' /\ SInv y' /\ sh_lock (y_sh y') = None
               /\ p_get (y_procs y') pid = p_get (y_procs y) pid.
  Proof.
    induction n as [|n IH]; intros y h ph Hi Hl Hne Hph Hc.
    - exfalso. destruct (si_holder _ Hi h Hl) as (p & Hp & Hpc). rewrite Hph in Hp. inversion Hp; subst p.
      destruct (p_pc ph) as [|i r]; [contradiction|]. rewrite cost_cons in Hc.
      destruct i as [i|c body]; [destruct i|]; cbn [cost_i cost_s] in Hc; lia.
    - destruct (holder_moves y h Hi Hl) as [y1 Hs1].
      pose proof (sinv_step _ _ _ Hi Hs1) as Hi1.
      pose proof Hs1 as Hs1'. cbn [sys_step] in Hs1'. rewrite Hph in Hs1'.
      destruct (pstep bufof h (y_sh y) ph) as [[sh1 p1]|] eqn:Hps; [|discriminate].
      inversion Hs1'; subst y1; clear Hs1'. cbn [y_sh y_procs] in *.
      destruct (pstep_effect _ _ _ _ _ (si_safe _ Hi h ph Hph) (si_queues _ Hi) Hps) as (_ & _ & H3 & _ & H5 & _).
      assert (Hpid : p_get (p_set (y_procs y) h p1) pid = p_get (y_procs y) pid) by (apply p_get_set_other; congruence).
      destruct (sh_lock sh1) as [h1|] eqn:Hl1.
      + destruct (H3 h1 eq_refl) as [[-> Hpc1]|[Hne1 Hl0]].
        * destruct (IH _ h p1 Hi1 Hl1 Hne) as (y' & Hh & Hi' & Hl' & Hp').
          { cbn [y_procs]. now apply p_get_set_same with ph. }
          { lia. }
          exists y'. split; [|split; [exact Hi'|split; [exact Hl'|]]].
          -- eapply H_holder; [exact Hl|exact Hs1|exact Hh].
          -- rewrite Hp'. exact Hpid.
        * rewrite Hl in Hl0. inversion Hl0. congruence.
      + eexists. split; [|split; [exact Hi1|split; [exact Hl1|exact Hpid]]].
        eapply H_holder; [exact Hl|exact Hs1|apply H_refl].
  Qed.

  (** ** the router of a topic un-parks every sender parked on it by adopting registrations *)
  Lemma drain pid name n : forall y,
    SInv y -> (N.to_nat (parked_count (q_get (sh_queues (y_sh y)) name)) <= n)%nat ->
    exists y', helped pid name y y' /\ SInv y' /\ parked_count (q_get (sh_queues (y_sh y')) name) = 0
               /\ y_procs y' = y_procs y /\ sh_lock (y_sh y') = sh_lock (y_sh y).
  Proof.
    induction n as [|n IH]; intros y Hi Hc.
    - exists y. split; [apply H_refl|]. split; [exact Hi|]. split; [lia|]. split; reflexivity.
    - destruct (N.eq_dec (parked_count (q_get (sh_queues (y_sh y)) name)) 0) as [Hz|Hnz].
      { exists y. split; [apply H_refl|]. split; [exact Hi|]. split; [exact Hz|]. split; reflexivity. }
      pose proof (si_queues _ Hi name) as Hq.
      destruct (router_dequeue (y_sh y) name) as [sh1|] eqn:Hd.
      2:{ unfold router_dequeue in Hd. destruct (N.eqb_spec (q_len (q_get (sh_queues (y_sh y)) name)) 0); [lia|discriminate]. }
      assert (Hs : step y (LRouter name) = Some {| y_sh := sh1; y_procs := y_procs y; y_next := y_next y |}).
      { cbn [sys_step]. now rewrite Hd. }
      pose proof (sinv_step _ _ _ Hi Hs) as Hi1.
      assert (Hdec : (N.to_nat (parked_count (q_get (sh_queues sh1) name)) <= n)%nat /\ sh_lock sh1 = sh_lock (y_sh y)).
      { unfold router_dequeue in Hd. destruct (q_len (q_get (sh_queues (y_sh y)) name) =? 0); [discriminate|].
        inversion Hd; subst sh1; clear Hd. cbn [sh_queues set_queues sh_lock]. rewrite q_get_set_same.
        split; [|reflexivity]. unfold parked_count in *.
        destruct (q_parked (q_get (sh_queues (y_sh y)) name)) as [|x r]; cbn [q_parked q_shared_parked List.length] in *.
        - lia.
        - destruct (q_shared_parked (q_get (sh_queues (y_sh y)) name)); lia. }
      destruct Hdec as [Hdec Hlk].
      destruct (IH _ Hi1 Hdec) as (y' & Hh & Hi' & Hz' & Hp' & Hl').
      exists y'. split; [eapply H_router; [exact Hs|exact Hh]|].
      split; [exact Hi'|split; [exact Hz'|split; [exact Hp'|]]]. rewrite Hl'. exact Hlk.
  Qed.

  (** ** one more step of [pid], whatever the others are doing *)
  Lemma advance pid y p :
    SInv y -> p_get (y_procs y) pid = Some p -> p_pc p <> [] -> e_reads (p_env p) = true ->
    exists y' p', helped pid (e_name (p_env p)) y y' /\ SInv y' /\ p_get (y_procs y') pid = Some p'
                  /\ (cost (p_pc p') < cost (p_pc p))%nat /\ p_env p' = p_env p.
  Proof.
    intros Hi Hp Hpc Hr. set (name := e_name (p_env p)).
    (* A: let the holder of the lock, if it is somebody else, finish its locked section *)
    assert (HA : exists y1, helped pid name y y1 /\ SInv y1 /\ p_get (y_procs y1) pid = Some p
                            /\ (sh_lock (y_sh y1) = None \/ sh_lock (y_sh y1) = Some pid)).
    { destruct (sh_lock (y_sh y)) as [h|] eqn:Hl.
      - destruct (N.eq_dec h pid) as [->|Hne].
        + exists y. split; [apply H_refl|]. split; [exact Hi|]. split; [exact Hp|]. now right.
        + destruct (si_holder _ Hi h Hl) as (ph & Hph & _).
          destruct (holder_releases pid name _ y h ph Hi Hl Hne Hph (le_n _)) as (y1 & Hh & Hi1 & Hl1 & Hp1).
          exists y1. split; [exact Hh|]. split; [exact Hi1|]. split; [now rewrite Hp1|]. now left.
      - exists y. split; [apply H_refl|]. split; [exact Hi|]. split; [exact Hp|]. now left. }
    destruct HA as (y1 & Hh1 & Hi1 & Hp1 & Hl1).
    (* B: let the topic's own router adopt registrations until nobody is parked on it *)
    destruct (drain pid name _ y1 Hi1 (le_n _)) as (y2 & Hh2 & Hi2 & Hz2 & Hprocs2 & Hl2).
    rewrite <- Hl2 in Hl1. rewrite <- Hprocs2 in Hp1.
    (* C: now the task can move *)
    destruct (can_step pid (y_sh y2) p Hpc Hr (si_safe _ Hi2 pid p Hp1) Hl1 Hz2) as [[sh3 p3] Hps].
    assert (Hs : step y2 (LProc pid) = Some {| y_sh := sh3; y_procs := p_set (y_procs y2) pid p3; y_next := y_next y2 |}).
    { cbn [sys_step]. now rewrite Hp1, Hps. }
    destruct (pstep_effect _ _ _ _ _ (si_safe _ Hi2 pid p Hp1) (si_queues _ Hi2) Hps) as (_ & _ & _ & _ & H5 & H6 & _).
    eexists. exists p3. split; [|split; [exact (sinv_step _ _ _ Hi2 Hs)|split; [|split; [exact H5|exact H6]]]].
    - eapply helped_trans; [exact Hh1|]. eapply helped_trans; [exact Hh2|]. eapply H_self; [exact Hs|apply H_refl].
    - cbn [y_procs]. now apply p_get_set_same with p.
  Qed.

  (** ** T2 (C17): a registration whose peer reads completes, helped only by its own topic's router
        and by the current holder of the table lock -- no step of any other topic's router, nor of
        any other registration outside its locked section, is needed. *)
  Theorem completes pid : forall n y p,
    SInv y -> p_get (y_procs y) pid = Some p -> e_reads (p_env p) = true -> (cost (p_pc p) <= n)%nat ->
    exists y' p', helped pid (e_name (p_env p)) y y' /\ SInv y' /\ p_get (y_procs y') pid = Some p' /\ p_pc p' = []
                  /\ p_env p' = p_env p.
  Proof.
    induction n as [|n IH]; intros y p Hi Hp Hr Hc.
    - exists y, p. split; [apply H_refl|]. split; [exact Hi|]. split; [exact Hp|]. split; [|reflexivity].
      destruct (p_pc p) as [|i r]; [reflexivity|]. rewrite cost_cons in Hc.
      destruct i as [i|c body]; [destruct i|]; cbn [cost_i cost_s] in Hc; lia.
    - destruct (p_pc p) as [|i r] eqn:Epc.
      { exists y, p. split; [apply H_refl|]. split; [exact Hi|]. split; [exact Hp|]. split; [exact Epc|reflexivity]. }
      assert (Hpc : p_pc p <> []) by (rewrite Epc; discriminate).
      destruct (advance pid y p Hi Hp Hpc Hr) as (y1 & p1 & Hh1 & Hi1 & Hp1 & Hc1 & He1).
      rewrite Epc in Hc1.
      destruct (IH y1 p1 Hi1 Hp1) as (y2 & p2 & Hh2 & Hi2 & Hp2 & Hpc2 & He2).
      { now rewrite He1. }
      { lia. }
      exists y2, p2. rewrite He1 in Hh2, He2.
      split; [eapply helped_trans; [exact Hh1|exact Hh2]|]. split; [exact Hi2|]. split; [exact Hp2|]. split; assumption.
  Qed.
End Conc.

Section Atomic.
  Variable prog : list instr.
  Hypothesis prog_safe : lock_safe false prog = true.

  (** the table changes only by a step of the task that holds the lock: the locked section of a
      registration is atomic with respect to the table, which is what Part 1 relies on *)
  Theorem table_changes_only_under_lock y l y' :
    SInv y -> sys_step bufof prog y l = Some y' ->
    sh_table (y_sh y') = sh_table (y_sh y) \/ (exists pid, l = LProc pid /\ sh_lock (y_sh y) = Some pid).
  Proof.
    intros Hi Hs. destruct l as [e|pid|name]; cbn [sys_step] in Hs.
    - inversion Hs. now left.
    - destruct (p_get (y_procs y) pid) as [p|] eqn:Hp; [|discriminate].
      destruct (pstep bufof pid (y_sh y) p) as [[sh' p']|] eqn:Hps; [|discriminate].
      inversion Hs; subst y'; clear Hs. cbn [y_sh].
      destruct (pstep_effect _ _ _ _ _ (si_safe _ Hi _ _ Hp) (si_queues _ Hi) Hps) as (_ & _ & _ & _ & _ & _ & [Ht|Hh]).
      + now left.
      + right. exists pid. split; [reflexivity|]. unfold holds in Hh.
        destruct (sh_lock (y_sh y)) as [h|]; [|discriminate]. apply N.eqb_eq in Hh. now subst.
    - destruct (router_dequeue (y_sh y) name) as [sh'|] eqn:Hd; [|discriminate].
      inversion Hs; subst y'; clear Hs. left. cbn [y_sh].
      unfold router_dequeue in Hd. destruct (q_len (q_get (sh_queues (y_sh y)) name) =? 0); [discriminate|].
      inversion Hd. reflexivity.
  Qed.
End Atomic.
