(** C07, server side — property theorems (statements and [exact]s only): the registration path
    (translated program, see Props_C11.v) answers an invalid name with INVALID_TOPIC_NAME and
    creates nothing, and a registration touches nothing but its own name.  That `is_valid` is the
    grammar of Props_C07.v is theorem c07_is_valid_iff_grammar there. *)
Require Import Selium.Base Selium.ServerLang Selium.Server SeliumGen.ServerFacts SeliumGen.KeepAliveFacts Selium.ServerRun Selium.P_Server.
Open Scope N_scope.

Theorem c07_server_refuses_invalid_names : forall tb n w,
  outcome_of (ho tb {| e_name := n; e_valid := false; e_wants := w; e_reads := true |}) = Refused INVALID_TOPIC_NAME
  /\ sh_table (fst (ho tb {| e_name := n; e_valid := false; e_wants := w; e_reads := true |})) = tb
  /\ sh_queues (fst (ho tb {| e_name := n; e_valid := false; e_wants := w; e_reads := true |})) = [].
Proof. intros tb n w. now rewrite open_invalid. Qed.
Print Assumptions c07_server_refuses_invalid_names.

Theorem c07_names_do_not_interfere : forall tb e n,
  e_reads e = true -> n <> e_name e -> lookup (sh_table (fst (ho tb e))) n = lookup tb n.
Proof. exact other_names_untouched. Qed.
Print Assumptions c07_names_do_not_interfere.

Example c07_server_example :
  ff [(7, TPubSub)] KRegPub 8 false = (Refused INVALID_TOPIC_NAME, [(7, TPubSub)])
  /\ ff [(7, TPubSub)] KRegReq 8 true = (Served TReqRep, [(8, TReqRep); (7, TPubSub)]).
Proof. vm_compute. split; reflexivity. Qed.
