(** C05 / C06 — proofs about the frame codec, the streaming decoder and the batch codec. *)
Require Import Selium.Base Selium.Bytes Selium.Utf8 Selium.Bincode Selium.P_Bincode Selium.CodecTactics Selium.Wire Selium.BatchArith.
Require Import SeliumGen.Layouts SeliumGen.LayoutsOk SeliumGen.BatchFacts.
Require Import ZifyBool ZifyN ZifyNat.
Ltac Zify.zify_post_hook ::= Z.div_mod_to_equations.
Open Scope N_scope.

(** * Frames: payload, length, type *)

Lemma frame_length_payload f : frame_length f = blen (frame_payload f).
Proof. destruct f; reflexivity. Qed.

Lemma frame_of_type_payload f : frame_wf f -> frame_of_type (frame_type f) (frame_payload f) = Some f.
Proof.
  intros Hwf.
  destruct f; cbn [frame_type frame_payload frame_wf] in *; unfold frame_of_type; eval_eqb; cbv iota;
    try reflexivity;
    match goal with
    | |- context [dec ?c (enc ?c ?x)] =>
      let H := fresh in
      assert (H : codec_ok c) by auto with codec;
      specialize (H x [] Hwf); rewrite app_nil_r in H; rewrite H; reflexivity
    end.
Qed.

Definition enc_bytes (f : Frame) : bytes := be_bytes 8 (frame_length f) ++ frame_type f :: frame_payload f.
Definition wire_ok (f : Frame) : Prop := frame_wf f /\ frame_length f <= MAX_MESSAGE_SIZE.

Lemma MAX_val : MAX_MESSAGE_SIZE = 1048576. Proof. reflexivity. Qed.
Lemma RESERVED_val : RESERVED_SIZE = 9. Proof. reflexivity. Qed.
Lemma LEN_MARKER_val : LEN_MARKER_SIZE = 8. Proof. reflexivity. Qed.

Lemma encode_ok f : frame_length f <= MAX_MESSAGE_SIZE -> encode f = EncOk (enc_bytes f).
Proof. intros H. unfold encode. destruct (N.ltb_spec MAX_MESSAGE_SIZE (frame_length f)); [lia|reflexivity]. Qed.

Lemma encode_too_large f : MAX_MESSAGE_SIZE < frame_length f -> encode f = EncTooLarge (frame_length f).
Proof. intros H. unfold encode. destruct (N.ltb_spec MAX_MESSAGE_SIZE (frame_length f)); [reflexivity|lia]. Qed.

Lemma enc_bytes_length f : blen (enc_bytes f) = 9 + frame_length f.
Proof.
  unfold enc_bytes, blen. rewrite app_length, be_bytes_length. cbn [List.length].
  rewrite frame_length_payload. unfold blen. lia.
Qed.

Lemma split_to_app (a b : bytes) : split_to (blen a) (a ++ b) = Val (a, b).
Proof.
  unfold split_to, blen. rewrite app_length.
  destruct (N.leb_spec (N.of_nat (List.length a)) (N.of_nat (List.length a + List.length b))); [|lia].
  now rewrite Nat2N.id, firstn_app_exact, skipn_app_exact.
Qed.

Lemma split_to_app' n (a b : bytes) : n = blen a -> split_to n (a ++ b) = Val (a, b).
Proof. intros ->. apply split_to_app. Qed.

Lemma be_prefix_val len tail : len < 2 ^ 64 -> be_val (firstn 8 (be_bytes 8 len ++ tail)) = len.
Proof.
  intros H. rewrite <- (be_bytes_length 8 len) at 1. rewrite firstn_app_exact.
  apply (be_val_be_bytes 8). exact H.
Qed.

(** * C05.1: decode inverts encode, consuming exactly the bytes written *)
Theorem decode_encode f rest :
  wire_ok f -> decode (enc_bytes f ++ rest) = Val (Got f rest, []).
Proof.
  intros [Hwf Hlen]. rewrite MAX_val in Hlen.
  unfold decode, enc_bytes.
  rewrite RESERVED_val, LEN_MARKER_val.
  set (len := frame_length f) in *.
  assert (Hb : blen ((be_bytes 8 len ++ frame_type f :: frame_payload f) ++ rest) = 9 + len + blen rest).
  { unfold blen. rewrite !app_length, be_bytes_length. cbn [List.length].
    unfold len. rewrite frame_length_payload. unfold blen. lia. }
  rewrite Hb.
  destruct (N.ltb_spec (9 + len + blen rest) 9); [lia|].
  rewrite <- app_assoc.
  rewrite (split_to_app' 8 (be_bytes 8 len)) by (unfold blen; now rewrite be_bytes_length).
  cbn [bind fst snd].
  rewrite (be_val_be_bytes 8) by (change (256 ^ N.of_nat 8) with 18446744073709551616; lia).
  rewrite MAX_val.
  destruct (N.ltb_spec 1048576 len); [lia|].
  destruct (N.ltb_spec (9 + len + blen rest - 9) len); [lia|].
  cbn [app get_u8 bind fst snd].
  rewrite (split_to_app' len (frame_payload f)) by (unfold len; apply frame_length_payload).
  cbn [bind fst snd].
  now rewrite frame_of_type_payload.
Qed.

(** * C05.2: the length prefix is the payload length *)
Theorem prefix_is_payload_length f b :
  encode f = EncOk b ->
  be_val (firstn 8 b) = frame_length f /\ blen b = 9 + frame_length f /\ frame_length f = blen (frame_payload f).
Proof.
  unfold encode. destruct (N.ltb_spec MAX_MESSAGE_SIZE (frame_length f)) as [|Hle]; [discriminate|].
  intros H; injection H as <-. rewrite MAX_val in Hle.
  split; [|split].
  - apply be_prefix_val. change (2 ^ 64) with 18446744073709551616. lia.
  - apply enc_bytes_length.
  - apply frame_length_payload.
Qed.

(** * C05.3: limits *)
Theorem encoder_limit f :
  (exists len, encode f = EncTooLarge len) <-> MAX_MESSAGE_SIZE < frame_length f.
Proof.
  unfold encode. destruct (N.ltb_spec MAX_MESSAGE_SIZE (frame_length f)); split; intros H0.
  - assumption.
  - eexists; reflexivity.
  - destruct H0; discriminate.
  - lia.
Qed.

Theorem decoder_limit_early src :
  9 <= blen src -> MAX_MESSAGE_SIZE < be_val (firstn 8 src) -> decode src = Val (Fail, []).
Proof.
  intros H9 Hbig. unfold decode. rewrite RESERVED_val, LEN_MARKER_val.
  destruct (N.ltb_spec (blen src) 9); [lia|].
  unfold split_to. destruct (N.leb_spec 8 (blen src)); [|lia].
  cbn [bind fst]. change (N.to_nat 8) with 8%nat.
  destruct (N.ltb_spec MAX_MESSAGE_SIZE (be_val (firstn 8 src))); [reflexivity|lia].
Qed.

(** * C06: the frame decoder is total: no input makes it panic, and what it asks the buffer to
    reserve is bounded by what it already holds *)
Theorem decode_total src :
  exists r allocs, decode src = Val (r, allocs) /\ Forall (fun a => a <= blen src) allocs.
Proof.
  unfold decode. rewrite RESERVED_val, LEN_MARKER_val.
  destruct (N.ltb_spec (blen src) 9) as [|H9]; [eexists _, _; split; [reflexivity|constructor]|].
  unfold split_to at 1. destruct (N.leb_spec 8 (blen src)); [|lia].
  cbn [bind fst snd].
  destruct (MAX_MESSAGE_SIZE <? be_val (firstn (N.to_nat 8) src)); [eexists _, _; split; [reflexivity|constructor]|].
  destruct (N.ltb_spec (blen src - 9) (be_val (firstn (N.to_nat 8) src))) as [|Hlen].
  { eexists _, _; split; [reflexivity|]. constructor; [lia|constructor]. }
  unfold split_to at 1. destruct (N.leb_spec 8 (blen src)); [|lia].
  cbn [bind fst snd].
  assert (Hs : blen (skipn (N.to_nat 8) src) = blen src - 8).
  { unfold blen. rewrite skipn_length. unfold blen in *. lia. }
  destruct (skipn (N.to_nat 8) src) as [|t tl] eqn:E.
  { unfold blen in *. cbn [List.length] in *. lia. }
  cbn [get_u8 bind fst snd].
  unfold split_to.
  assert (Htl : blen tl = blen src - 9).
  { unfold blen in *. cbn [List.length] in Hs. lia. }
  destruct (N.leb_spec (be_val (firstn (N.to_nat 8) src)) (blen tl)); [|lia].
  cbn [bind fst snd].
  destruct (frame_of_type _ _); eexists _, _; (split; [reflexivity|constructor]).
Qed.

(** * Streaming *)

Definition stream (fs : list Frame) : bytes := concat (map enc_bytes fs).

Lemma enc_bytes_nonempty f : enc_bytes f <> [].
Proof. intros H. pose proof (enc_bytes_length f) as L. rewrite H in L. unfold blen in L. cbn in L. lia. Qed.

(** a strict prefix of a frame's encoding makes the decoder wait *)
Lemma decode_strict_prefix f p q :
  wire_ok f -> enc_bytes f = p ++ q -> q <> [] -> exists allocs, decode p = Val (Need, allocs).
Proof.
  intros [Hwf Hlen] Heq Hq. rewrite MAX_val in Hlen.
  assert (Hpl : blen p < 9 + frame_length f).
  { pose proof (enc_bytes_length f) as L. rewrite Heq in L. unfold blen in *. rewrite app_length in L.
    destruct q; [contradiction|]. cbn [List.length] in L. lia. }
  unfold decode. rewrite RESERVED_val, LEN_MARKER_val.
  destruct (N.ltb_spec (blen p) 9) as [|H9]; [eexists; reflexivity|].
  unfold split_to. destruct (N.leb_spec 8 (blen p)); [|lia].
  cbn [bind fst snd]. change (N.to_nat 8) with 8%nat.
  assert (Hfirst : firstn 8 p = be_bytes 8 (frame_length f)).
  { assert (H8 : firstn 8 (p ++ q) = firstn 8 p).
    { rewrite firstn_app. replace (8 - List.length p)%nat with 0%nat by (unfold blen in *; lia).
      cbn [firstn]. now rewrite app_nil_r. }
    rewrite <- H8, <- Heq. unfold enc_bytes.
    rewrite <- (be_bytes_length 8 (frame_length f)) at 1. apply firstn_app_exact. }
  rewrite Hfirst.
  rewrite (be_val_be_bytes 8) by (change (256 ^ N.of_nat 8) with 18446744073709551616; lia).
  rewrite MAX_val.
  destruct (N.ltb_spec 1048576 (frame_length f)); [lia|].
  destruct (N.ltb_spec (blen p - 9) (frame_length f)); [eexists; reflexivity|lia].
Qed.

Definition pending (buf : bytes) (fs : list Frame) : Prop :=
  match fs with
  | [] => buf = []
  | f :: _ => exists q, q <> [] /\ enc_bytes f = buf ++ q
  end.

Lemma decode_empty : decode [] = Val (Need, []).
Proof. reflexivity. Qed.

Lemma drain_complete fs1 : forall p fs2 fuel,
  Forall wire_ok fs1 -> Forall wire_ok fs2 -> pending p fs2 ->
  (List.length (stream fs1 ++ p) < fuel)%nat ->
  drain fuel (stream fs1 ++ p) = Val (fs1, {| r_buf := p; r_failed := false |}).
Proof.
  induction fs1 as [|f fs1 IH]; intros p fs2 fuel H1 H2 Hp Hfuel.
  - cbn [stream map concat app] in *.
    destruct fuel as [|k]; [lia|]. cbn [drain].
    assert (Hneed : exists allocs, decode p = Val (Need, allocs)).
    { destruct fs2 as [|f2 fs2]; cbn [pending] in Hp.
      - subst p. eexists. exact decode_empty.
      - destruct Hp as (q & Hq & Heq). inversion H2; subst. eapply decode_strict_prefix; eassumption. }
    destruct Hneed as [allocs ->]. reflexivity.
  - inversion H1 as [|? ? Hf Hfs]; subst.
    cbn [stream map concat] in *. fold (stream fs1) in *.
    rewrite <- app_assoc in *.
    destruct fuel as [|k]; [lia|]. cbn [drain].
    rewrite decode_encode by assumption. cbn [bind fst snd].
    rewrite (IH p fs2 k); [reflexivity|assumption|assumption|assumption|].
    rewrite app_length in Hfuel.
    pose proof (enc_bytes_length f) as L. unfold blen in L. lia.
Qed.

(** every prefix of a frame stream splits into complete frames and a pending remainder *)
Lemma stream_prefix_split fs : forall s t,
  s ++ t = stream fs ->
  exists fs1 fs2 p, fs = fs1 ++ fs2 /\ s = stream fs1 ++ p /\ pending p fs2 /\ p ++ t = stream fs2.
Proof.
  induction fs as [|f fs IH]; intros s t Heq.
  - cbn in Heq. apply app_eq_nil in Heq as [-> ->]. exists [], [], []. repeat split; reflexivity.
  - cbn [stream map concat] in Heq. fold (stream fs) in Heq.
    destruct (Nat.le_gt_cases (List.length (enc_bytes f)) (List.length s)) as [Hge|Hlt].
    + (* s contains the whole first frame *)
      assert (Hs : s = enc_bytes f ++ skipn (List.length (enc_bytes f)) s).
      { rewrite <- (firstn_skipn (List.length (enc_bytes f)) s) at 1. f_equal.
        assert (firstn (List.length (enc_bytes f)) (s ++ t) = firstn (List.length (enc_bytes f)) s).
        { rewrite firstn_app. replace (List.length (enc_bytes f) - List.length s)%nat with 0%nat by lia.
          cbn [firstn]. now rewrite app_nil_r. }
        rewrite <- H, Heq. apply firstn_app_exact. }
      set (s' := skipn (List.length (enc_bytes f)) s) in *.
      assert (Heq' : s' ++ t = stream fs).
      { rewrite Hs, <- app_assoc in Heq. now apply app_inv_head in Heq. }
      destruct (IH s' t Heq') as (fs1 & fs2 & p & -> & Hs' & Hp & Hpt).
      exists (f :: fs1), fs2, p. repeat split; try assumption.
      rewrite Hs, Hs'. cbn [stream map concat]. now rewrite app_assoc.
    + (* s is a strict prefix of the first frame *)
      exists [], (f :: fs), s. repeat split; try reflexivity; [|assumption].
      cbn [pending].
      exists (skipn (List.length s) (enc_bytes f)). split.
      * intros Hnil. apply (f_equal (@List.length N)) in Hnil. rewrite skipn_length in Hnil. cbn [List.length] in Hnil. lia.
      * rewrite <- (firstn_skipn (List.length s) (enc_bytes f)) at 1. f_equal.
        assert (firstn (List.length s) (enc_bytes f ++ stream fs) = firstn (List.length s) (enc_bytes f)).
        { rewrite firstn_app. replace (List.length s - List.length (enc_bytes f))%nat with 0%nat by lia.
          cbn [firstn]. now rewrite app_nil_r. }
        rewrite <- H, <- Heq. apply firstn_app_exact.
Qed.

Lemma feed_all_frames chunks : forall buf fs,
  Forall wire_ok fs -> pending buf fs -> buf ++ concat chunks = stream fs ->
  feed_all {| r_buf := buf; r_failed := false |} chunks = Val (fs, {| r_buf := []; r_failed := false |}).
Proof.
  induction chunks as [|c chunks IH]; intros buf fs Hok Hp Heq.
  - cbn [concat] in Heq. rewrite app_nil_r in Heq. cbn [feed_all].
    destruct fs as [|f fs]; cbn [pending] in Hp.
    + now subst.
    + exfalso. destruct Hp as (q & Hq & Hf). cbn [stream map concat] in Heq.
      apply (f_equal (@List.length N)) in Heq. apply (f_equal (@List.length N)) in Hf.
      rewrite !app_length in *. destruct q; [contradiction|cbn [List.length] in *; lia].
  - cbn [feed_all feed r_failed r_buf concat] in *.
    rewrite app_assoc in Heq.
    destruct (stream_prefix_split fs (buf ++ c) (concat chunks) Heq) as (fs1 & fs2 & p & -> & Hs & Hp2 & Hpt).
    apply Forall_app in Hok as [Hok1 Hok2].
    rewrite Hs.
    rewrite (drain_complete fs1 p fs2) by (assumption || lia).
    cbn [bind fst snd].
    rewrite (IH p fs2) by assumption.
    reflexivity.
Qed.

(** * C05.4: any chunking of the concatenated encodings decodes to the same frame sequence *)
Theorem chunking fs chunks :
  Forall wire_ok fs -> concat chunks = stream fs ->
  run_feed chunks = Val (fs, {| r_buf := []; r_failed := false |}).
Proof.
  intros Hok Heq. unfold run_feed, r_init. apply feed_all_frames; try assumption.
  destruct fs as [|f fs]; cbn [pending]; [reflexivity|].
  exists (enc_bytes f). split; [apply enc_bytes_nonempty|reflexivity].
Qed.

(** * C06: the streaming loop never panics (fuel always suffices), whatever the bytes *)
Lemma decode_got_shrinks src f rest allocs :
  decode src = Val (Got f rest, allocs) -> (List.length rest + 9 <= List.length src)%nat.
Proof.
  unfold decode. rewrite RESERVED_val, LEN_MARKER_val.
  destruct (N.ltb_spec (blen src) 9) as [|H9]; [discriminate|].
  unfold split_to at 1. destruct (N.leb_spec 8 (blen src)); [|lia].
  cbn [bind fst snd].
  destruct (MAX_MESSAGE_SIZE <? be_val (firstn (N.to_nat 8) src)); [discriminate|].
  destruct (N.ltb_spec (blen src - 9) (be_val (firstn (N.to_nat 8) src))) as [|Hlen]; [discriminate|].
  unfold split_to at 1. destruct (N.leb_spec 8 (blen src)); [|lia].
  cbn [bind fst snd].
  assert (Hs : List.length (skipn (N.to_nat 8) src) = (List.length src - 8)%nat) by (rewrite skipn_length; lia).
  destruct (skipn (N.to_nat 8) src) as [|t tl] eqn:E; [discriminate|].
  cbn [get_u8 bind fst snd List.length] in *.
  unfold split_to.
  destruct (N.leb_spec (be_val (firstn (N.to_nat 8) src)) (blen tl)); [|discriminate].
  cbn [bind fst snd].
  destruct (frame_of_type _ _); [|discriminate].
  intros Hinj; injection Hinj as _ <- _.
  rewrite skipn_length. lia.
Qed.

Theorem drain_total : forall fuel buf, (List.length buf < fuel)%nat -> exists r, drain fuel buf = Val r.
Proof.
  induction fuel as [|k IH]; intros buf Hf; [lia|].
  cbn [drain].
  destruct (decode_total buf) as (r & allocs & Hd & _). rewrite Hd. cbn [bind fst].
  destruct r as [| |f rest]; try (eexists; reflexivity).
  pose proof (decode_got_shrinks _ _ _ _ Hd) as Hs.
  destruct (IH rest) as [r' Hr]; [lia|]. rewrite Hr. eexists; reflexivity.
Qed.

Theorem feed_total st chunk : exists r, feed st chunk = Val r.
Proof.
  unfold feed. destruct (r_failed st); [eexists; reflexivity|].
  apply drain_total. lia.
Qed.

(** * Batch codec (utils.rs) *)

(** What the translated conditions and expressions of utils.rs have to be for the theorems below;
    each is closed by computation on the regenerated definition, so a changed comparison, bound or
    arithmetic expression in the source fails here first. *)
Lemma gen_enc_count_spec n : gen_enc_count n = Val n.  Proof. reflexivity. Qed.
Lemma gen_enc_len_spec n : gen_enc_len n = Val n.  Proof. reflexivity. Qed.
Lemma gen_head_guard_spec r : gen_head_guard r = Val (r <? 8).  Proof. reflexivity. Qed.
Lemma gen_capacity_spec r n : gen_capacity r n = Val (N.min (r / 8) n).  Proof. reflexivity. Qed.
Lemma gen_loop_guard1_spec r : gen_loop_guard1 r = Val (r <? 8).  Proof. reflexivity. Qed.
Lemma gen_loop_guard2_spec ml r : gen_loop_guard2 ml r = Val (r <? ml).  Proof. reflexivity. Qed.
Lemma gen_split_arg_spec ml r : gen_split_arg ml r = Val ml.  Proof. reflexivity. Qed.

Ltac gen_batch := rewrite ?gen_enc_count_spec, ?gen_enc_len_spec, ?gen_head_guard_spec, ?gen_capacity_spec,
                          ?gen_loop_guard1_spec, ?gen_loop_guard2_spec, ?gen_split_arg_spec; cbn [bind out_or].

Lemma encode_batch_eq ms :
  encode_batch ms = be_bytes 8 (N.of_nat (List.length ms)) ++ concat (map (fun m => be_bytes 8 (blen m) ++ m) ms).
Proof. reflexivity. Qed.

Definition batch_body (ms : list bytes) : bytes := concat (map (fun m => be_bytes 8 (blen m) ++ m) ms).

Lemma get_u64_be_app n rest : n < 2 ^ 64 -> get_u64_be (be_bytes 8 n ++ rest) = Val (n, rest).
Proof.
  intros H. unfold get_u64_be.
  rewrite (split_to_app' 8 (be_bytes 8 n)) by (unfold blen; now rewrite be_bytes_length).
  cbn [bind fst snd]. now rewrite (be_val_be_bytes 8).
Qed.

Lemma batch_loop_ok ms : forall fuel acc,
  Forall (fun m => blen m < 2 ^ 64) ms -> (List.length ms <= fuel)%nat ->
  batch_loop fuel (N.of_nat (List.length ms)) (batch_body ms) acc = Val (rev acc ++ ms).
Proof.
  induction ms as [|m ms IH]; intros fuel acc Hwf Hfuel.
  - destruct fuel; cbn [batch_loop List.length]; change (N.of_nat 0 =? 0) with true; cbv iota; now rewrite app_nil_r.
  - inversion Hwf as [|? ? Hm Hms]; subst.
    destruct fuel as [|k]; [cbn in Hfuel; lia|].
    cbn [batch_loop].
    destruct (N.eqb_spec (N.of_nat (List.length (m :: ms))) 0) as [H0|_]; [cbn [List.length] in H0; lia|].
    cbn [batch_body map concat]. fold (batch_body ms).
    rewrite <- app_assoc. gen_batch.
    assert (Hb : blen (be_bytes 8 (blen m) ++ m ++ batch_body ms) = 8 + blen m + blen (batch_body ms)).
    { unfold blen. rewrite !app_length, be_bytes_length. lia. }
    rewrite Hb. destruct (N.ltb_spec (8 + blen m + blen (batch_body ms)) 8); [lia|].
    rewrite get_u64_be_app by assumption. cbn [bind fst snd]. gen_batch.
    assert (Hb2 : blen (m ++ batch_body ms) = blen m + blen (batch_body ms)) by (unfold blen; rewrite app_length; lia).
    rewrite Hb2. destruct (N.ltb_spec (blen m + blen (batch_body ms)) (blen m)); [lia|].
    rewrite split_to_app. cbn [bind fst snd].
    replace (N.of_nat (List.length (m :: ms)) - 1) with (N.of_nat (List.length ms)) by (cbn [List.length]; lia).
    rewrite IH by (assumption || (cbn [List.length] in Hfuel; lia)).
    cbn [rev]. now rewrite <- app_assoc.
Qed.

Lemma batch_body_length ms : (List.length ms <= List.length (batch_body ms))%nat.
Proof.
  induction ms as [|m ms IH]; [cbn; lia|].
  cbn [batch_body map concat List.length]. fold (batch_body ms).
  rewrite !app_length, be_bytes_length. lia.
Qed.

(** * C05.5: unbatching the encoding of a list of messages returns the same messages *)
Theorem batch_roundtrip ms :
  N.of_nat (List.length ms) < 2 ^ 64 -> Forall (fun m => blen m < 2 ^ 64) ms ->
  exists cap, decode_batch (encode_batch ms) = Val (ms, cap).
Proof.
  intros Hn Hwf. rewrite encode_batch_eq. unfold decode_batch. fold (batch_body ms). gen_batch.
  assert (Hb : blen (be_bytes 8 (N.of_nat (List.length ms)) ++ batch_body ms) = 8 + blen (batch_body ms)).
  { unfold blen. rewrite app_length, be_bytes_length. lia. }
  rewrite Hb. destruct (N.ltb_spec (8 + blen (batch_body ms)) 8); [lia|].
  rewrite get_u64_be_app by assumption. cbn [bind fst snd]. gen_batch.
  rewrite batch_loop_ok by (assumption || (pose proof (batch_body_length ms); lia)).
  cbn [rev app bind]. eexists; reflexivity.
Qed.

(** * C06: unbatching is total on arbitrary bytes, and reserves no more than the input can hold *)
Lemma batch_loop_total : forall fuel count b acc,
  (List.length b < fuel)%nat -> exists r, batch_loop fuel count b acc = Val r.
Proof.
  induction fuel as [|k IH]; intros count b acc Hf; [lia|].
  cbn [batch_loop].
  destruct (count =? 0); [eexists; reflexivity|]. gen_batch.
  destruct (N.ltb_spec (blen b) 8) as [|H8]; [eexists; reflexivity|].
  unfold get_u64_be, split_to at 1. destruct (N.leb_spec 8 (blen b)); [|lia].
  cbn [bind fst snd]. gen_batch.
  assert (Hs : blen (skipn (N.to_nat 8) b) = blen b - 8) by (unfold blen in *; rewrite skipn_length; lia).
  destruct (N.ltb_spec (blen (skipn (N.to_nat 8) b)) (be_val (firstn (N.to_nat 8) b))) as [|Hl]; [eexists; reflexivity|].
  unfold split_to. destruct (N.leb_spec (be_val (firstn (N.to_nat 8) b)) (blen (skipn (N.to_nat 8) b))); [|lia].
  cbn [bind fst snd].
  apply IH. rewrite !skipn_length. unfold blen in *. lia.
Qed.

Theorem decode_batch_total b :
  exists ms cap, decode_batch b = Val (ms, cap) /\ cap * 8 <= blen b.
Proof.
  unfold decode_batch. gen_batch.
  destruct (N.ltb_spec (blen b) 8) as [|H8]; [exists [], 0; split; [reflexivity|lia]|].
  unfold get_u64_be, split_to. destruct (N.leb_spec 8 (blen b)); [|lia].
  cbn [bind fst snd]. gen_batch.
  destruct (batch_loop_total (S (List.length (skipn (N.to_nat 8) b))) (be_val (firstn (N.to_nat 8) b)) (skipn (N.to_nat 8) b) []) as [ms Hms]; [lia|].
  rewrite Hms. cbn [bind]. eexists _, _. split; [reflexivity|].
  assert (Hs : blen (skipn (N.to_nat 8) b) = blen b - 8) by (unfold blen in *; rewrite skipn_length; lia).
  rewrite Hs. lia.
Qed.
