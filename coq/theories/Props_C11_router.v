(** C11 (router part) — no sequence of frames of any kind, from requestors or repliers, in any
    schedule, makes a topic router panic; and no socket the request/reply router took from its
    registration channel is dropped on the floor: it waits in the queue or was given a role. *)
Require Import Selium.Base Selium.PubSub Selium.PubSubSpec Selium.P_PubSub Selium.ReqRep Selium.ReqRepSpec Selium.P_ReqRep Selium.P_ReqRepOrder Selium.P_ReqRepReg Selium.P_PubSubReg.
Open Scope N_scope.

Theorem c11_reqrep_router_total : forall tr s, rrun rinit tr = Some s -> rpanicked s = false.
Proof. exact rr_never_panics. Qed.
Print Assumptions c11_reqrep_router_total.

Theorem c11_pubsub_router_total : forall tr s, run init tr = Some s -> panicked s = false.
Proof. intros tr s H. apply (run_c01 tr s H). Qed.
Print Assumptions c11_pubsub_router_total.

(** "never accepted and then silently abandoned", inside the request/reply router: every socket it
    took from the registration channel is still waiting in its queue, or is a replier that was
    bound, or a replier that was refused (theorem c10_refused_replier_told_then_closed continues
    from there: error frame, then close, or its sink failed), or a requestor that was given a key *)
Theorem c11_reqrep_registration_never_dropped : forall tr s, rrun rinit tr = Some s ->
  forall l, In l (h_used (rgh s)) ->
    In l (map rlabel_of (rqueue s)) \/ In l (h_bound (rgh s)) \/ In l (h_rejected (rgh s))
    \/ In l (map snd (h_keys (rgh s))).
Proof. exact rr_no_registration_lost. Qed.
Print Assumptions c11_reqrep_registration_never_dropped.

(** the same, anchored in the trace: every socket sent on the registration channel of the
    request/reply router, at any point of any accepted trace, is waiting or was given a role *)
Theorem c11_reqrep_every_queued_socket_placed : forall tr s, rrun rinit tr = Some s ->
  forall q w, In (VQueue q w) tr ->
    In (rlabel_of q) (map rlabel_of (rqueue s)) \/ In (rlabel_of q) (h_bound (rgh s))
    \/ In (rlabel_of q) (h_rejected (rgh s)) \/ In (rlabel_of q) (map snd (h_keys (rgh s))).
Proof. exact rr_every_queued_socket_placed. Qed.
Print Assumptions c11_reqrep_every_queued_socket_placed.

(** the pub/sub router drops no subscriber registration either: every subscriber socket it took
    from its registration channel is still waiting in its queue or was adopted into the fan-out
    (from where c01 owes it every later message) *)
Theorem c11_pubsub_subscriber_registration_never_dropped : forall tr s, run init tr = Some s ->
  forall k, In (QSink k) (g_used (gh s)) -> In (QSink k) (queue s) \/ In k (map fst (g_adopt (gh s))).
Proof. exact ps_subscriber_registration_never_dropped. Qed.
Print Assumptions c11_pubsub_subscriber_registration_never_dropped.
