(** C11 (router part) — no sequence of frames of any kind, from requestors or repliers, in any
    schedule, makes a topic router panic. *)
Require Import Selium.Base Selium.PubSub Selium.PubSubSpec Selium.P_PubSub Selium.ReqRep Selium.ReqRepSpec Selium.P_ReqRep.
Open Scope N_scope.

Theorem c11_reqrep_router_total : forall tr s, rrun rinit tr = Some s -> rpanicked s = false.
Proof. exact rr_never_panics. Qed.
Print Assumptions c11_reqrep_router_total.

Theorem c11_pubsub_router_total : forall tr s, run init tr = Some s -> panicked s = false.
Proof. intros tr s H. apply (run_c01 tr s H). Qed.
Print Assumptions c11_pubsub_router_total.
