(** C13 — proofs about the translated iterator. *)
Require Import Selium.Base Selium.RustArith Selium.P_RustArith Selium.BackoffSpec Selium.BackoffRun.
Require Import SeliumGen.Backoff.
Require Import ZifyBool ZifyN ZifyNat.
Ltac Zify.zify_post_hook ::= Z.div_mod_to_equations.
Open Scope N_scope.

Lemma DUR_LIMIT_val : DUR_LIMIT = 18446744073709551616000000000.
Proof. reflexivity. Qed.
Lemma DUR_MAX_val : DUR_MAX = 18446744073709551615999999999.
Proof. reflexivity. Qed.
Lemma U128_MOD_val : U128_MOD = 340282366920938463463374607431768211456.
Proof. reflexivity. Qed.
Lemma U64_MOD_val : U64_MOD = 18446744073709551616.
Proof. reflexivity. Qed.
Lemma U32_MOD_val : U32_MOD = 4294967296.
Proof. reflexivity. Qed.
Lemma U32_MAX_val : U32_MAX = 4294967295.
Proof. reflexivity. Qed.

(** The exponential arm, as a closed form. *)
Definition exp_delay (step f e : N) : N :=
  if f ^ e <? U128_MOD then
    if step * f ^ e <? U128_MOD then
      if step * f ^ e / NANOS_PER_SEC <? U64_MOD then step * f ^ e else DUR_MAX
    else DUR_MAX
  else if step =? 0 then 0 else DUR_MAX.

Lemma exp_delay_spec step f e :
  step < DUR_LIMIT -> exp_delay step f e = N.min (step * f ^ e) DUR_MAX.
Proof.
  intros Hs. unfold exp_delay.
  rewrite DUR_LIMIT_val in Hs.
  destruct (N.ltb_spec (f ^ e) U128_MOD) as [Hp|Hp].
  - remember (step * f ^ e) as p eqn:Hpe. clear Hpe.
    rewrite U128_MOD_val, U64_MOD_val, DUR_MAX_val. unfold NANOS_PER_SEC.
    destruct (N.ltb_spec p 340282366920938463463374607431768211456) as [Hm|Hm].
    + destruct (N.ltb_spec (p / 1000000000) 18446744073709551616) as [Hd|Hd]; lia.
    + lia.
  - destruct (N.eqb_spec step 0) as [H0|H0].
    + subst. rewrite N.mul_0_l. rewrite N.min_l; [reflexivity|]. rewrite DUR_MAX_val. lia.
    + rewrite N.min_r; [reflexivity|]. rewrite DUR_MAX_val. rewrite U128_MOD_val in Hp. nia.
Qed.

(** One call of the translated [next], for an iterator produced from a well-formed
    configuration and positioned at attempt [n]. *)
Definition at_attempt (c : cfg) (n : N) : BackoffStrategyIter :=
  {| bsi_strategy_type := strategy_of (c_kind c);
     bsi_state := {| bss_max_duration := c_max c; bss_max_attempts := c_max_attempts c; bss_step := c_step c |};
     bsi_current_attempt := n |}.

Lemma into_iter_at c : into_iter c = at_attempt c 1.
Proof. reflexivity. Qed.

Lemma mod_small_u32 a : a < U32_MOD -> a mod U32_MOD = a.
Proof. intros; apply N.mod_small; assumption. Qed.

Lemma next_exhausted debug c n :
  c_max_attempts c < n -> next debug (at_attempt c n) = Val (None, at_attempt c n).
Proof.
  intros H. unfold next, at_attempt; cbn [bsi_state bsi_current_attempt bss_max_attempts bss_step bss_max_duration bsi_strategy_type].
  unfold u32_gt. destruct (N.ltb_spec (c_max_attempts c) n); [reflexivity|lia].
Qed.

Lemma next_yields debug c n :
  cfg_wf c -> 1 <= n -> n <= c_max_attempts c ->
  next debug (at_attempt c n) =
  Val (Some {| na_duration := spec_delay c n; na_attempt_num := n; na_max_attempts := c_max_attempts c |},
       at_attempt c (n + 1)).
Proof.
  intros (Hstep & Hatt & Hmax & Hf) H1 Hn.
  rewrite U32_MAX_val in Hatt.
  unfold next, at_attempt; cbn [bsi_state bsi_current_attempt bss_max_attempts bss_step bss_max_duration bsi_strategy_type].
  unfold u32_gt. destruct (N.ltb_spec (c_max_attempts c) n) as [Hlt|_]; [lia|].
  assert (Hadd : u32_add debug n 1 = Val (n + 1)).
  { unfold u32_add, wrap_or_panic. rewrite U32_MOD_val.
    destruct (N.ltb_spec (n + 1) 4294967296); [reflexivity|lia]. }
  unfold spec_delay, law.
  destruct (c_kind c) as [| |f] eqn:Hk; cbn [strategy_of bind].
  - rewrite Hadd; cbn [bind]. unfold dur_saturating_mul, dur_min.
    destruct (c_max c); reflexivity.
  - rewrite Hadd; cbn [bind]. unfold dur_min.
    rewrite (N.min_l (c_step c) DUR_MAX) by (rewrite DUR_MAX_val; rewrite DUR_LIMIT_val in Hstep; lia).
    destruct (c_max c); reflexivity.
  - assert (Hsub : u32_sub debug n 1 = Val (n - 1)).
    { unfold u32_sub. destruct (N.leb_spec 1 n); [reflexivity|lia]. }
    rewrite Hsub; cbn [bind].
    rewrite <- (exp_delay_spec (c_step c) f (n - 1) Hstep).
    rewrite u128_checked_pow_spec.
    unfold exp_delay, dur_as_nanos, cast_widen, dur_is_zero.
    destruct (f ^ (n - 1) <? U128_MOD) eqn:Hp; cbn [opt_and_then bind opt_unwrap_or].
    + unfold u128_checked_mul.
      destruct (c_step c * f ^ (n - 1) <? U128_MOD) eqn:Hm; cbn [opt_and_then bind opt_unwrap_or].
      * unfold u128_div, u128_rem, NANOS_PER_SEC. cbn [N.eqb bind]. 
        change (1000000000 =? 0) with false. cbn [bind].
        unfold u64_try_from_u128.
        destruct (c_step c * f ^ (n - 1) / 1000000000 <? U64_MOD) eqn:Hd; cbn [opt_map bind omap opt_unwrap_or].
        -- unfold cast_u32.
           remember (c_step c * f ^ (n - 1)) as p eqn:Hpe. clear Hpe.
           assert (Hr : p mod 1000000000 < 1000000000) by (apply N.mod_lt; lia).
           rewrite mod_small_u32 by (rewrite U32_MOD_val; lia).
           unfold dur_new, NANOS_PER_SEC_N.
           assert (Heq : p / 1000000000 * 1000000000 + p mod 1000000000 = p) by lia.
           rewrite Heq.
           assert (Hlim : p <? DUR_LIMIT = true).
           { apply N.ltb_lt. apply N.ltb_lt in Hd. rewrite U64_MOD_val in Hd. rewrite DUR_LIMIT_val. lia. }
           rewrite Hlim. cbn [omap bind opt_unwrap_or].
           rewrite Hadd; cbn [bind]. unfold dur_min. destruct (c_max c); reflexivity.
        -- destruct (N.eqb_spec (c_step c) 0) as [Hz|Hz].
           { exfalso. rewrite Hz, N.mul_0_l in Hd. vm_compute in Hd. discriminate. }
           rewrite Hadd; cbn [bind]. unfold dur_min. destruct (c_max c); reflexivity.
      * destruct (N.eqb_spec (c_step c) 0) as [Hz|Hz].
        { exfalso. rewrite Hz, N.mul_0_l in Hm. vm_compute in Hm. discriminate. }
        rewrite Hadd; cbn [bind]. unfold dur_min. destruct (c_max c); reflexivity.
    + rewrite Hadd; cbn [bind]. unfold dur_min.
      destruct (c_step c =? 0); destruct (c_max c); reflexivity.
Qed.

Lemma spec_delay_fast_eq c n : c_step c < DUR_LIMIT -> spec_delay_fast c n = spec_delay c n.
Proof.
  intros Hs. unfold spec_delay_fast, spec_delay, law.
  destruct (c_kind c) as [| |f]; [reflexivity|reflexivity|].
  rewrite cpow_spec by reflexivity.
  destruct (N.ltb_spec (f ^ (n - 1)) U128_MOD) as [Hp|Hp]; [reflexivity|].
  f_equal.
  destruct (N.eqb_spec (c_step c) 0) as [Hz|Hz].
  - rewrite Hz, N.mul_0_l. reflexivity.
  - rewrite N.min_r; [reflexivity|]. rewrite DUR_MAX_val. rewrite U128_MOD_val in Hp. nia.
Qed.

(** Running [calls] calls from attempt [n]. *)
Lemma run_from debug c : cfg_wf c -> forall calls n,
  1 <= n -> n <= c_max_attempts c + 1 ->
  run debug calls (at_attempt c n) =
  Obs (map (fun m => (m, spec_delay c m, c_max_attempts c))
           (attempts_from n (Nat.min calls (N.to_nat (c_max_attempts c + 1 - n)))))
      (Nat.ltb (N.to_nat (c_max_attempts c + 1 - n)) calls).
Proof.
  intros Hwf. induction calls as [|k IH]; intros n H1 Hn.
  - cbn [run Nat.min attempts_from map]. f_equal.
  - cbn [run].
    destruct (N.ltb_spec (c_max_attempts c) n) as [Hdone|Hmore].
    + rewrite next_exhausted by assumption.
      replace (c_max_attempts c + 1 - n) with 0 by lia. reflexivity.
    + rewrite next_yields by assumption.
      rewrite IH by lia.
      replace (N.to_nat (c_max_attempts c + 1 - n)) with (S (N.to_nat (c_max_attempts c + 1 - (n + 1)))) by lia.
      cbn [Nat.min attempts_from map Nat.ltb Nat.leb]. reflexivity.
Qed.

Theorem run_meets_spec debug c calls :
  cfg_wf c -> run debug calls (into_iter c) = spec_obs c calls.
Proof.
  intros Hwf. rewrite into_iter_at, run_from by (assumption || lia).
  unfold spec_obs, spec_prefix.
  rewrite (map_ext _ (fun n => (n, spec_delay c n))) by (intros; rewrite spec_delay_fast_eq; [reflexivity|apply Hwf]).
  replace (c_max_attempts c + 1 - 1) with (c_max_attempts c) by lia.
  rewrite map_map.
  replace (N.to_nat (N.min (N.of_nat calls) (c_max_attempts c))) with (Nat.min calls (N.to_nat (c_max_attempts c))) by lia.
  f_equal.
  destruct (N.ltb_spec (c_max_attempts c) (N.of_nat calls)); destruct (Nat.ltb_spec (N.to_nat (c_max_attempts c)) calls); (reflexivity || lia).
Qed.

(** Consequences in the property's own words. *)
Lemma attempts_from_length from len : List.length (attempts_from from len) = len.
Proof. revert from; induction len; intros; cbn; [reflexivity|now rewrite IHlen]. Qed.

Lemma attempts_from_nth from len i :
  (i < len)%nat -> nth i (attempts_from from len) 0 = from + N.of_nat i.
Proof.
  revert from i; induction len as [|len IH]; intros from i Hi; [lia|].
  destruct i as [|i]; cbn [attempts_from nth].
  - lia.
  - rewrite IH by lia. lia.
Qed.

Lemma spec_schedule_length c : List.length (spec_schedule c) = N.to_nat (c_max_attempts c).
Proof. unfold spec_schedule. now rewrite map_length, attempts_from_length. Qed.

Lemma spec_delay_clamped c n m : c_max c = Some m -> spec_delay c n <= m.
Proof. intros H. unfold spec_delay. rewrite H. apply N.le_min_r. Qed.

Lemma spec_delay_exact c n :
  law c n <= DUR_MAX -> (match c_max c with Some m => law c n <= m | None => True end) ->
  spec_delay c n = law c n.
Proof.
  intros H1 H2. unfold spec_delay. rewrite (N.min_l _ _ H1).
  destruct (c_max c); [apply N.min_l; assumption|reflexivity].
Qed.

Lemma spec_delay_saturates c n :
  DUR_MAX <= law c n ->
  spec_delay c n = match c_max c with Some m => N.min DUR_MAX m | None => DUR_MAX end.
Proof. intros H. unfold spec_delay. now rewrite (N.min_r _ _ H). Qed.

Lemma spec_delay_valid c n : cfg_wf c -> spec_delay c n < DUR_LIMIT.
Proof.
  intros _. unfold spec_delay.
  assert (N.min (law c n) DUR_MAX < DUR_LIMIT).
  { rewrite DUR_LIMIT_val, DUR_MAX_val. lia. }
  destruct (c_max c); lia.
Qed.

Lemma attempts_from_firstn from len k :
  firstn k (attempts_from from len) = attempts_from from (Nat.min k len).
Proof.
  revert from len; induction k as [|k IH]; intros from len; [reflexivity|].
  destruct len as [|len]; [reflexivity|].
  cbn [attempts_from firstn Nat.min]. now rewrite IH.
Qed.

Lemma spec_prefix_firstn c k : c_step c < DUR_LIMIT -> spec_prefix c k = firstn k (spec_schedule c).
Proof.
  intros Hs. unfold spec_prefix, spec_schedule.
  rewrite (map_ext _ (fun n => (n, spec_delay c n))) by (intros; rewrite spec_delay_fast_eq; [reflexivity|assumption]). rewrite firstn_map, attempts_from_firstn.
  replace (N.to_nat (N.min (N.of_nat k) (c_max_attempts c))) with (Nat.min k (N.to_nat (c_max_attempts c))) by lia.
  reflexivity.
Qed.

Lemma spec_schedule_nth_error c i :
  (i < N.to_nat (c_max_attempts c))%nat ->
  nth_error (spec_schedule c) i = Some (N.of_nat i + 1, spec_delay c (N.of_nat i + 1)).
Proof.
  intros Hi. unfold spec_schedule.
  rewrite nth_error_map.
  assert (H : nth_error (attempts_from 1 (N.to_nat (c_max_attempts c))) i = Some (N.of_nat i + 1)).
  { rewrite (nth_error_nth' _ 0) by (rewrite attempts_from_length; assumption).
    rewrite attempts_from_nth by assumption. f_equal. lia. }
  now rewrite H.
Qed.

Theorem run_never_panics debug c calls :
  cfg_wf c -> match run debug calls (into_iter c) with ObsPanic _ _ => False | Obs _ _ => True end.
Proof. intros H. now rewrite run_meets_spec. Qed.
