(** Proofs about the TLS model (Tls.v) and its instantiation (TlsRun.v). *)
Require Import Selium.Base Selium.Tls SeliumGen.TlsFacts Selium.TlsRun.
Open Scope N_scope.

Lemma path_ok_certified fuel roots inters c : path_ok fuel roots inters c = true -> certified roots inters c.
Proof.
  revert c. induction fuel as [|f IH]; intros c H; cbn [path_ok] in H; apply orb_prop in H as [H|H].
  - apply existsb_exists in H as (r & Hin & Hr). now apply Cert_root with r.
  - discriminate.
  - apply existsb_exists in H as (r & Hin & Hr). now apply Cert_root with r.
  - apply existsb_exists in H as (i & Hin & Hi). apply andb_prop in Hi as [Hi Hp].
    apply Cert_inter with i; auto.
Qed.

Lemma verify_sound roots p chain :
  verify roots p chain = true ->
  exists leaf inters, chain = leaf :: inters /\ is_ca leaf = false /\ eku_ok p leaf = true /\ certified roots inters leaf.
Proof.
  destruct chain as [|leaf inters]; cbn [verify]; [discriminate|]. intros H.
  apply andb_prop in H as [H Hp]. apply andb_prop in H as [Hca He].
  exists leaf, inters. repeat split; auto.
  - now apply negb_true_iff in Hca.
  - now apply path_ok_certified in Hp.
Qed.

(** the server as configured admits a client only if it presents a chain certified by the CA given with --ca *)
Lemma server_only_certified ca presented :
  server_admits ca presented = true ->
  exists leaf inters, presented = Some (leaf :: inters) /\ is_ca leaf = false /\ eku_ok PClientAuth leaf = true
                      /\ certified [ca] inters leaf.
Proof.
  unfold server_admits, server_client_verifier, server_accepts. destruct presented as [ch|]; [|discriminate].
  intros H. apply verify_sound in H as (leaf & inters & -> & H1 & H2 & H3). exists leaf, inters. auto.
Qed.

Lemma client_only_certified ca chain :
  client_admits ca chain = true ->
  exists leaf inters, chain = leaf :: inters /\ is_ca leaf = false /\ eku_ok PServerAuth leaf = true
                      /\ certified [ca] inters leaf /\ name_matches client_server_name leaf = true.
Proof.
  unfold client_admits, client_server_verifier, client_accepts. intros H. apply andb_prop in H as [H Hn].
  apply verify_sound in H as (leaf & inters & -> & H1 & H2 & H3). exists leaf, inters. auto.
Qed.

(** a certificate with no presented intermediates is certified by [ca] only if [ca]'s key signed it *)
Lemma certified_single ca c : certified [ca] [] c -> issuer_key c = subject_key ca /\ is_ca ca = true.
Proof.
  intros H. inversion H as [? r Hin Hi|? i Hin]; [|contradiction].
  destruct Hin as [<-|[]]. unfold issued_by in Hi. apply andb_prop in Hi as [Hi _]. apply andb_prop in Hi as [Hk Hca].
  split; [now apply N.eqb_eq|exact Hca].
Qed.

Lemma generator_adequate kca ks kc :
  client_admits (gen_ca kca) [gen_server kca ks] = true /\ server_admits (gen_ca kca) (Some [gen_client kca kc]) = true.
Proof.
  unfold client_admits, server_admits, client_accepts, server_accepts, verify, path_ok, issued_by, eku_ok, name_matches.
  cbn. rewrite !N.eqb_refl. split; reflexivity.
Qed.

(** certificates of another CA are refused in both directions, whatever the keys *)
Lemma other_ca_refused kca kother ks kc :
  kother <> kca ->
  client_admits (gen_ca kca) [gen_server kother ks] = false /\ server_admits (gen_ca kca) (Some [gen_client kother kc]) = false.
Proof.
  intros Hne. unfold client_admits, server_admits, client_accepts, server_accepts, verify, path_ok, issued_by, eku_ok.
  cbn. apply N.eqb_neq in Hne. rewrite Hne. split; reflexivity.
Qed.

Lemma self_signed_refused kca k : k <> kca -> server_admits (gen_ca kca) (Some [self_signed k]) = false.
Proof.
  intros Hne. unfold server_admits, server_accepts, verify, path_ok, issued_by, eku_ok. cbn.
  apply N.eqb_neq in Hne. now rewrite Hne.
Qed.

Lemma no_certificate_refused ca : server_admits ca None = false.
Proof. reflexivity. Qed.
