(** Model of the server's registration path (server/src/server.rs handle_stream) as a small-step
    semantics of the instruction language of ServerLang.v.  The program that is executed is not
    written here: it is gen/ServerFacts.v [handle_stream_prog], translated from the source on
    every run.

    Shared state: the topic table behind the global async mutex, the mutex itself, and one bounded
    registration queue per topic (futures::channel::mpsc::channel(SOCK_CHANNEL_SIZE)) with the
    senders parked on it.  Every registration is a process running the program; topic routers
    appear only as "dequeue one registration" steps, which may or may not happen (a stalled router
    is one whose dequeue step is never taken).

    mpsc semantics modelled (futures-channel 0.3, BoundedSenderInner):
      - a sender is parked by its own send when, after enqueueing, the queue holds more than
        `buffer` messages; a parked sender cannot send again and its flush waits;
      - every dequeue un-parks the longest-parked sender;
      - a fresh clone of a sender is not parked, so its first send always enqueues.
    SinkExt::send = poll_ready; start_send; poll_flush, hence [IHandoff] (enqueue) then [IFlush]. *)
Require Import Selium.Base Selium.ServerLang.
Open Scope N_scope.

Definition tkind_eqb (a b : tkind) : bool :=
  match a, b with TPubSub, TPubSub | TReqRep, TReqRep => true | _, _ => false end.

Definition is_header (hk : list fkind) (k : fkind) : bool :=
  existsb (fun x => match x, k with
                    | KRegPub, KRegPub | KRegSub, KRegSub | KRegRep, KRegRep | KRegReq, KRegReq
                    | KMsg, KMsg | KBatch, KBatch | KError, KError | KOk, KOk => true
                    | _, _ => false end) hk.

(** the messaging pattern a register frame asks for (wants_pubsub in handle_stream) *)
Definition wants_of (k : fkind) : tkind :=
  match k with KRegPub | KRegSub => TPubSub | _ => TReqRep end.

(** one registration request, as far as the registration path looks at it *)
Record env := { e_name : N;          (* identity of the (namespace, topic) pair *)
                e_valid : bool;      (* TopicName::is_valid() of the name received *)
                e_wants : tkind;
                e_reads : bool }.    (* the peer reads what the server writes on this stream *)

Definition table := list (N * tkind).
Fixpoint lookup (tb : table) (n : N) : option tkind :=
  match tb with
  | [] => None
  | (m, k) :: r => if m =? n then Some k else lookup r n
  end.

Record topicq := { q_len : N; q_parked : list N; q_shared_parked : bool }.
Definition q_empty := {| q_len := 0; q_parked := []; q_shared_parked := false |}.

Fixpoint q_get (qs : list (N * topicq)) (n : N) : topicq :=
  match qs with
  | [] => q_empty
  | (m, q) :: r => if m =? n then q else q_get r n
  end.
Fixpoint q_set (qs : list (N * topicq)) (n : N) (q : topicq) : list (N * topicq) :=
  match qs with
  | [] => [(n, q)]
  | (m, q0) :: r => if m =? n then (m, q) :: r else (m, q0) :: q_set r n q
  end.

Record shared := { sh_table : table; sh_lock : option N; sh_queues : list (N * topicq) }.

Inductive reply := ROk | RErr (code : N).

Record proc := { p_env : env;
                 p_pc : list instr;
                 p_replies : list reply;       (* newest first *)
                 p_sender : option tkind;      (* kind of the topic whose sender the task holds *)
                 p_handed : option tkind;      (* the socket was put into the queue of a topic of this kind *)
                 p_panic : bool }.

Definition mkproc (prog : list instr) (e : env) : proc :=
  {| p_env := e; p_pc := prog; p_replies := []; p_sender := None; p_handed := None; p_panic := false |}.

Definition set_pc (p : proc) (pc : list instr) : proc :=
  {| p_env := p_env p; p_pc := pc; p_replies := p_replies p; p_sender := p_sender p; p_handed := p_handed p; p_panic := p_panic p |}.
Definition add_reply (r : reply) (p : proc) : proc :=
  {| p_env := p_env p; p_pc := p_pc p; p_replies := r :: p_replies p; p_sender := p_sender p; p_handed := p_handed p; p_panic := p_panic p |}.
Definition set_sender (k : tkind) (p : proc) : proc :=
  {| p_env := p_env p; p_pc := p_pc p; p_replies := p_replies p; p_sender := Some k; p_handed := p_handed p; p_panic := p_panic p |}.
Definition set_handed (k : tkind) (p : proc) : proc :=
  {| p_env := p_env p; p_pc := p_pc p; p_replies := p_replies p; p_sender := p_sender p; p_handed := Some k; p_panic := p_panic p |}.
Definition panic (p : proc) : proc :=
  {| p_env := p_env p; p_pc := []; p_replies := p_replies p; p_sender := p_sender p; p_handed := p_handed p; p_panic := true |}.

Definition holds (sh : shared) (pid : N) : bool :=
  match sh_lock sh with Some h => h =? pid | None => false end.

Definition set_lock (sh : shared) (l : option N) : shared :=
  {| sh_table := sh_table sh; sh_lock := l; sh_queues := sh_queues sh |}.
Definition release (sh : shared) (pid : N) : shared :=
  if holds sh pid then set_lock sh None else sh.
Definition set_table (sh : shared) (tb : table) : shared :=
  {| sh_table := tb; sh_lock := sh_lock sh; sh_queues := sh_queues sh |}.
Definition set_queues (sh : shared) (qs : list (N * topicq)) : shared :=
  {| sh_table := sh_table sh; sh_lock := sh_lock sh; sh_queues := qs |}.

Definition eval_cond (c : cond) (sh : shared) (e : env) : bool :=
  match c with
  | CInvalidName => negb (e_valid e)
  | CKindMismatch => match lookup (sh_table sh) (e_name e) with
                     | Some k => negb (tkind_eqb k (e_wants e))
                     | None => false
                     end
  | CTopicAbsent => match lookup (sh_table sh) (e_name e) with Some _ => false | None => true end
  end.

Section Sem.
  Variable bufof : tkind -> N.     (* SOCK_CHANNEL_SIZE of the two routers *)

  Definition enqueue (sh : shared) (k : tkind) (name pid : N) (own : bool) : shared :=
    let q := q_get (sh_queues sh) name in
    let len := q_len q + 1 in
    let over := bufof k <? len in
    set_queues sh (q_set (sh_queues sh) name
      {| q_len := len;
         q_parked := if over && own then q_parked q ++ [pid] else q_parked q;
         q_shared_parked := if over && negb own then true else q_shared_parked q |}).

  Definition mem (x : N) (l : list N) : bool := existsb (N.eqb x) l.

  (** one instruction of one registration task; [None] = the task cannot move now *)
  Definition pstep_raw (pid : N) (sh : shared) (p : proc) : option (shared * proc) :=
    match p_pc p with
    | [] => None
    | IIf c body :: rest =>
        Some (sh, set_pc p (if eval_cond c sh (p_env p) then map S body ++ rest else rest))
    | S i :: rest =>
        let e := p_env p in
        match i with
        | ILock => match sh_lock sh with
                   | None => Some (set_lock sh (Some pid), set_pc p rest)
                   | Some _ => None
                   end
        | IUnlock => Some (release sh pid, set_pc p rest)
        | IReplyOk => if e_reads e then Some (sh, add_reply ROk (set_pc p rest)) else None
        | IReplyErr c => if e_reads e then Some (sh, add_reply (RErr c) (set_pc p rest)) else None
        | IReturn => Some (sh, set_pc p [])
        | IAwaitHandles => Some (sh, set_pc p rest)
        | ICreateTopic => Some (set_table sh ((e_name e, e_wants e) :: sh_table sh), set_pc p rest)
        | ITakeSender => match lookup (sh_table sh) (e_name e) with
                         | Some k => Some (sh, set_sender k (set_pc p rest))
                         | None => Some (sh, panic p)                     (* .unwrap() on None *)
                         end
        | IHandoff own =>
            match p_sender p with
            | Some k =>
                if tkind_eqb k (e_wants e) then
                  if negb own && q_shared_parked (q_get (sh_queues sh) (e_name e)) then None   (* poll_ready of the shared sender *)
                  else Some (enqueue sh k (e_name e) pid own, set_handed k (set_pc p (S (IFlush own) :: rest)))
                else Some (sh, panic p)                                   (* Socket::unwrap_pubsub / unwrap_reqrep *)
            | None => Some (sh, panic p)
            end
        | IFlush own =>
            let q := q_get (sh_queues sh) (e_name e) in
            if (if own then mem pid (q_parked q) else q_shared_parked q) then None
            else Some (sh, set_pc p rest)
        end
    end.

  (** a task that has finished (returned, ran off the end, panicked) drops the table guard *)
  Definition pstep (pid : N) (sh : shared) (p : proc) : option (shared * proc) :=
    match pstep_raw pid sh p with
    | Some (sh', p') => Some (match p_pc p' with [] => release sh' pid | _ => sh' end, p')
    | None => None
    end.

  (** the router of topic [name] adopts one queued registration *)
  Definition router_dequeue (sh : shared) (name : N) : option shared :=
    let q := q_get (sh_queues sh) name in
    if q_len q =? 0 then None
    else Some (set_queues sh (q_set (sh_queues sh) name
           match q_parked q with
           | _ :: r => {| q_len := q_len q - 1; q_parked := r; q_shared_parked := q_shared_parked q |}
           | [] => {| q_len := q_len q - 1; q_parked := []; q_shared_parked := false |}
           end)).

  (** * The whole server: any number of registration tasks *)
  Variable prog : list instr.

  Record sys := { y_sh : shared; y_procs : list (N * proc); y_next : N }.

  Definition sys_init : sys :=
    {| y_sh := {| sh_table := []; sh_lock := None; sh_queues := [] |}; y_procs := []; y_next := 0 |}.

  Fixpoint p_get (ps : list (N * proc)) (pid : N) : option proc :=
    match ps with
    | [] => None
    | (m, p) :: r => if m =? pid then Some p else p_get r pid
    end.
  Fixpoint p_set (ps : list (N * proc)) (pid : N) (p : proc) : list (N * proc) :=
    match ps with
    | [] => []
    | (m, p0) :: r => if m =? pid then (m, p) :: r else (m, p0) :: p_set r pid p
    end.

  Inductive label := LSpawn (e : env) | LProc (pid : N) | LRouter (name : N).

  Definition sys_step (y : sys) (l : label) : option sys :=
    match l with
    | LSpawn e => Some {| y_sh := y_sh y; y_procs := (y_next y, mkproc prog e) :: y_procs y; y_next := y_next y + 1 |}
    | LProc pid => match p_get (y_procs y) pid with
                   | Some p => match pstep pid (y_sh y) p with
                               | Some (sh', p') => Some {| y_sh := sh'; y_procs := p_set (y_procs y) pid p'; y_next := y_next y |}
                               | None => None
                               end
                   | None => None
                   end
    | LRouter name => match router_dequeue (y_sh y) name with
                      | Some sh' => Some {| y_sh := sh'; y_procs := y_procs y; y_next := y_next y |}
                      | None => None
                      end
    end.

  (** labels that cannot be taken are skipped, so every label list is a schedule *)
  Definition sys_step' (y : sys) (l : label) : sys :=
    match sys_step y l with Some y' => y' | None => y end.
  Definition sys_run (ls : list label) : sys := fold_left sys_step' ls sys_init.

  (** * One registration on its own: the table section is atomic under the lock, so what a
        registration answers is a function of the table it finds there. *)
  Fixpoint run_alone (fuel : nat) (pid : N) (sh : shared) (p : proc) : shared * proc :=
    match fuel with
    | O => (sh, p)
    | Datatypes.S f => match pstep pid sh p with
                       | Some (sh', p') => run_alone f pid sh' p'
                       | None => (sh, p)
                       end
    end.

  Definition open_fuel : nat := 3 * List.length prog + 8.

  Definition handle_open (tb : table) (e : env) : shared * proc :=
    run_alone open_fuel 0 {| sh_table := tb; sh_lock := None; sh_queues := [] |} (mkproc prog e).
End Sem.

(** what the peer that opened the stream observes first, and what became of the stream *)
Inductive open_outcome :=
| Served (k : tkind)          (* Ok, and the socket is with a router of this kind *)
| Refused (code : N)          (* an Error frame with this code, nothing handed over *)
| ClosedNoReply               (* the stream ends without any frame *)
| OkThenAbandoned             (* Ok, but the socket reached no router *)
| Other.                      (* anything else (several replies, error after hand-off, stuck) *)

Definition outcome_of (r : shared * proc) : open_outcome :=
  let p := snd r in
  match p_pc p, rev (p_replies p), p_handed p with
  | [], [ROk], Some k => if p_panic p then Other else Served k
  | [], [ROk], None => OkThenAbandoned
  | [], [RErr c], None => if p_panic p then Other else Refused c
  | [], [], None => ClosedNoReply
  | _, _, _ => Other
  end.

(** the first frame of a stream: only frames that carry a topic enter the registration path *)
Definition first_frame (bufof : tkind -> N) (prog : list instr) (hk : list fkind)
           (tb : table) (k : fkind) (name : N) (valid : bool) : open_outcome * table :=
  if is_header hk k then
    let r := handle_open bufof prog tb {| e_name := name; e_valid := valid; e_wants := wants_of k; e_reads := true |} in
    (outcome_of r, sh_table (fst r))
  else (ClosedNoReply, tb).

(** client/src/streams/mod.rs handle_reply *)
Definition reply_pat_eqb (a b : reply_pat) : bool :=
  match a, b with
  | PFrameOk, PFrameOk | PFrameError, PFrameError | PFrameOther, PFrameOther
  | PDecodeError, PDecodeError | PEnd, PEnd => true
  | _, _ => false
  end.
Fixpoint client_reads (arms : list (reply_pat * client_res)) (x : reply_pat) : option client_res :=
  match arms with
  | [] => None
  | (pt, r) :: rest => if reply_pat_eqb pt x then Some r else client_reads rest x
  end.

(** * Syntactic discipline that makes the lock harmless and the table section atomic: nothing that
      can wait for a peer or a router is executed while the table is locked, the lock is not taken
      twice, and the table is read and written only while it is locked. *)
Definition blocking (i : sinstr) : bool :=
  match i with
  | ILock | IReplyOk | IReplyErr _ | IHandoff _ | IFlush _ => true
  | _ => false
  end.
Definition touches_table (i : sinstr) : bool :=
  match i with ICreateTopic | ITakeSender => true | _ => false end.
Definition reads_table (c : cond) : bool :=
  match c with CInvalidName => false | _ => true end.

(** [Some (Some h)] = falls through with lock state h; [Some None] = returned; [None] = violation *)
Fixpoint safe_simple (held : bool) (l : list sinstr) : option (option bool) :=
  match l with
  | [] => Some (Some held)
  | i :: r =>
      match i with
      | IReturn => Some None
      | ILock => if held then None else safe_simple true r
      | IUnlock => safe_simple false r
      | _ => if (held && blocking i) || (negb held && touches_table i) then None else safe_simple held r
      end
  end.

Fixpoint lock_safe (held : bool) (l : list instr) : bool :=
  match l with
  | [] => true
  | S i :: r =>
      match i with
      | IReturn => true
      | ILock => if held then false else lock_safe true r
      | IUnlock => lock_safe false r
      | _ => if (held && blocking i) || (negb held && touches_table i) then false else lock_safe held r
      end
  | IIf c body :: r =>
      if negb held && reads_table c then false else
      match safe_simple held body with
      | None => false
      | Some None => lock_safe held r
      | Some (Some h) => Bool.eqb h held && lock_safe held r
      end
  end.
