(** C13 — the property's law, written without reference to the code. *)
Require Import Selium.Base Selium.RustArith.
Open Scope N_scope.

Inductive kind := KLinear | KConstant | KExponential (factor : N).

Record cfg := {
  c_kind : kind;
  c_step : N;              (* nanoseconds *)
  c_max_attempts : N;
  c_max : option N;        (* nanoseconds *)
}.

(** delay of attempt [n] (numbered from 1) according to the chosen law, unbounded *)
Definition law (c : cfg) (n : N) : N :=
  match c_kind c with
  | KLinear => c_step c * n
  | KConstant => c_step c
  | KExponential f => c_step c * f ^ (n - 1)
  end.

(** saturate at the largest representable delay, then clamp to the configured maximum *)
Definition spec_delay (c : cfg) (n : N) : N :=
  let sat := N.min (law c n) DUR_MAX in
  match c_max c with Some m => N.min sat m | None => sat end.

(** The same delay computed without ever forming [f ^ (n-1)] when it is astronomically large
    (used when the spec is executed; [spec_delay_fast_eq] in P_Backoff proves it equal). *)
Definition spec_delay_fast (c : cfg) (n : N) : N :=
  let clamp d := match c_max c with Some m => N.min d m | None => d end in
  match c_kind c with
  | KExponential f =>
    match cpow f (n - 1) U128_MOD with
    | Some p => clamp (N.min (c_step c * p) DUR_MAX)
    | None => clamp (if c_step c =? 0 then 0 else DUR_MAX)
    end
  | _ => spec_delay c n
  end.

(** attempts [from, from+1, ..., from+len-1] *)
Fixpoint attempts_from (from : N) (len : nat) : list N :=
  match len with O => [] | S k => from :: attempts_from (from + 1) k end.

Definition spec_schedule (c : cfg) : list (N * N) :=
  map (fun n => (n, spec_delay c n)) (attempts_from 1 (N.to_nat (c_max_attempts c))).

(** The first [k] entries, computed without building the whole list (the driver uses this for
    configurations with billions of attempts). *)
Definition spec_prefix (c : cfg) (k : nat) : list (N * N) :=
  map (fun n => (n, spec_delay_fast c n))
      (attempts_from 1 (N.to_nat (N.min (N.of_nat k) (c_max_attempts c)))).

Definition cfg_wf (c : cfg) : Prop :=
  c_step c < DUR_LIMIT /\
  c_max_attempts c < U32_MAX /\
  (match c_max c with Some m => m < DUR_LIMIT | None => True end) /\
  (match c_kind c with KExponential f => f < U64_MOD | _ => True end).

Definition cfg_wfb (c : cfg) : bool :=
  (c_step c <? DUR_LIMIT) && (c_max_attempts c <? U32_MAX) &&
  (match c_max c with Some m => m <? DUR_LIMIT | None => true end) &&
  (match c_kind c with KExponential f => f <? U64_MOD | _ => true end).
