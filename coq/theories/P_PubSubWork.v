(** C09, first half, for the pub/sub router — "each scheduling step performs work bounded by the
    data currently available": a potential argument.  [rank] bounds the peer calls the loop body
    can still make before it returns or consumes something; [cap] bounds the rank at the top of
    the loop; every peer call lowers [potential] by one, except that a call which hands the
    router data (an item, an invalid frame) may raise it by [cap], and processing a queued
    registration pays for itself out of the [queue * cap] term. *)
Require Import Selium.Base Selium.PubSub Selium.PubSubSpec Selium.P_Vec Selium.P_PubSub Selium.P_PubSubPark.
Open Scope nat_scope.

Definition nS (s : st) : nat := List.length (sinks s).
Definition nT (s : st) : nat := List.length (streams s).
Definition nQ (s : st) : nat := List.length (queue s).

(** peer calls one pass of the loop body can make, from the top, at most (+1) *)
Definition cap (s : st) : nat := 4 * nS s + nT s + 5 * nQ s + 1.

Definition has_buf (s : st) : nat := match buffered s with Some _ => 1 | None => 0 end.
Definition tcost (s : st) : nat := match streams s with [] => 0 | _ => nT s + nS s end.

(** rank of the top of the loop *)
Definition rank_top (s : st) : nat := tcost s + nS s + 2 * nS s * has_buf s.
(** rank of the registration-channel poll *)
Definition rank_handle (s : st) : nat := tcost s + nS s + 3 * nS s * has_buf s.

Definition rank (s : st) : nat :=
  match ctl s with
  | PTop => rank_top s
  | PReady idx => (nS s - idx) + nS s + tcost s + nS s
  | PSend idx _ => (nS s - idx) + rank_handle s
  | PHandle => rank_handle s
  | PStreamsStart => nT s + 2 * nS s + 2 * nS s * has_buf s
  | PStreams _ _ rem => rem + 2 * nS s + 2 * nS s * has_buf s
  | PFlush idx FlStreamsDone => (nS s - idx) + rank_top s
  | PFlush idx _ => nS s - idx
  | _ => 0
  end.

Definition potential (s : st) : nat := rank s + nQ s * cap s.

(** events that are calls on a peer, and those among them that hand the router data *)
Definition peer_call (e : ev) : bool :=
  match e with ESinkReady _ _ | ESinkSend _ _ _ | ESinkFlush _ _ | EStream _ _ => true | _ => false end.
Definition hands_data (e : ev) : bool :=
  match e with EStream _ (SItem _) | EStream _ SErr => true | _ => false end.

Lemma swap_remove_length idx l k : nth_error l idx = Some k -> S (List.length (swap_remove idx l)) = List.length l.
Proof.
  intros H. destruct (split_at _ _ _ H) as (pre & post & -> & <-).
  rewrite swap_remove_spec. destruct post as [|p post].
  - rewrite app_length. cbn. lia.
  - rewrite !app_length. cbn [List.length].
    assert (Hl : S (List.length (removelast (p :: post))) = List.length (p :: post)).
    { pose proof (app_removelast_last 0%N (l := p :: post)) as E.
      assert (Hne : p :: post <> []) by discriminate. specialize (E Hne).
      apply (f_equal (@List.length N)) in E. rewrite app_length in E. cbn [List.length] in E.
      cbn [List.length]. lia. }
    cbn [List.length] in Hl. lia.
Qed.

Lemma nth_error_lt {A} (l : list A) i x : nth_error l i = Some x -> i < List.length l.
Proof. intros H. apply nth_error_Some. congruence. Qed.

Lemma pot_same q b r r' b' c d : b' <= b -> r' + c <= r + d -> r' + q * b' + c <= r + q * b + d.
Proof. intros Hb Hr. assert (q * b' <= q * b) by (apply Nat.mul_le_mono_l; exact Hb). lia. Qed.

Lemma pot_consume q b r r' b' : b' <= b -> r' <= b -> r' + q * b' <= r + S q * b.
Proof. intros Hb Hr. assert (q * b' <= q * b) by (apply Nat.mul_le_mono_l; exact Hb). lia. Qed.

Ltac work_prep :=
  unfold potential, rank, cap, rank_top, rank_handle, tcost, has_buf, nS, nT, nQ, after_flush in *; simp_st;
  repeat match goal with
         | Hc : ctl _ = _ |- _ => rewrite Hc in *; clear Hc
         | Hq : queue _ = _ |- _ => rewrite Hq in *; clear Hq
         | Hb : buffered _ = _ |- _ => rewrite Hb in *; clear Hb
         | Hs : streams _ = _ |- _ => rewrite Hs in *; clear Hs
         | Hn : nth_error _ _ = Some _ |- _ =>
           let HL := fresh "HL" in let HS := fresh "HS" in
           pose proof (nth_error_lt _ _ _ Hn) as HL; pose proof (swap_remove_length _ _ _ Hn) as HS; clear Hn
         end;
  rewrite ?app_length in *; cbn [List.length] in *.

Lemma work_internal s s' : internal s = Some s' -> potential s' <= potential s /\ cap s' <= cap s.
Proof.
  intros H. unfold internal in H.
  crush_matches H; injection H as <-; work_prep.
  all: try (split; nia).
  all: repeat match goal with
              | |- context[match buffered ?s with _ => _ end] => destruct (buffered s)
              | |- context[match streams ?s with _ => _ end] => destruct (streams s)
              | |- context[match ?w with FlHandleClosed => _ | _ => _ end] => destruct w
              end; cbn [app List.length]; try (split; nia).
Qed.

Definition at_start (s : st) : bool := match ctl s with PStreamsStart => true | _ => false end.

Ltac work_fin :=
  repeat match goal with
         | |- context[match buffered ?s with _ => _ end] => destruct (buffered s)
         | |- context[match streams ?s with _ => _ end] => destruct (streams s)
         | |- context[match ?w with FlHandleClosed => _ | _ => _ end] => destruct w
         | |- context[match swap_remove ?i ?l with _ => _ end] => destruct (swap_remove i l)
         end; cbn [app List.length] in *.

(** one peer call: the StreamMap's first call only fixes its start index (and is replayed) *)
Lemma work_raw s e s' : step_raw s e = Some s' -> peer_call e = true ->
  cap s' <= cap s /\
  (if at_start s then potential s' <= potential s /\ at_start s' = false
   else potential s' + 1 <= potential s + (if hands_data e then cap s else 0)).
Proof.
  intros H Hp. unfold step_raw in H.
  crush_matches H; injection H as <-; cbn [peer_call] in Hp; try discriminate; unfold at_start; work_prep; cbn [hands_data].
  all: try (split; [nia|]; try split; try reflexivity; nia).
  all: work_fin; try (split; [nia|]; try split; try reflexivity; nia).
Qed.

Lemma work_settle fuel : forall s s', settle fuel s = Some s' -> potential s' <= potential s /\ cap s' <= cap s.
Proof.
  induction fuel as [|k IH]; intros s s' H; cbn [settle] in H; [discriminate|].
  destruct (internal s) as [s1|] eqn:E.
  - destruct (work_internal _ _ E) as [H1 H2]. destruct (IH _ _ H) as [H3 H4]. lia.
  - injection H as <-. lia.
Qed.

Definition data_calls (seg : list ev) : nat := List.length (filter hands_data seg).

Lemma work_step s e s' : step s e = Some s' -> peer_call e = true ->
  cap s' <= cap s /\ potential s' + 1 <= potential s + (if hands_data e then cap s else 0).
Proof.
  intros H Hp. unfold step, obind in H.
  destruct (settled s) as [s0|] eqn:E0; [|discriminate].
  destruct (work_settle _ _ _ E0) as [P0 C0].
  assert (Hone : forall a b, at_start a = false ->
            match step_raw a e with Some x => settled x | None => None end = Some b ->
            cap b <= cap a /\ potential b + 1 <= potential a + (if hands_data e then cap a else 0)).
  { intros a b Ha Hb. destruct (step_raw a e) as [x|] eqn:Ex; [|discriminate].
    destruct (work_raw _ _ _ Ex Hp) as [C1 P1]. rewrite Ha in P1.
    destruct (work_settle _ _ _ Hb) as [P2 C2]. split; [lia|]. destruct (hands_data e); lia. }
  destruct (ctl s0) eqn:Ec;
    try (destruct (Hone s0 s' ltac:(unfold at_start; rewrite Ec; reflexivity) H) as [C1 P1];
         split; [lia|]; destruct (hands_data e); nia).
  destruct e; cbn [peer_call] in Hp; try discriminate;
    try (unfold step_raw in H; rewrite Ec in H; discriminate).
  destruct (step_raw s0 (EStream j r)) as [s1|] eqn:E1; [|discriminate].
  destruct (work_raw _ _ _ E1 eq_refl) as [C1 P1].
  unfold at_start in P1 at 1. rewrite Ec in P1. destruct P1 as [P1 S1].
  destruct (Hone s1 s' S1 H) as [C2 P2].
  split; [lia|]. destruct (hands_data (EStream j r)); nia.
Qed.

Lemma work_run seg : forall s s', forallb peer_call seg = true -> run s seg = Some s' ->
  cap s' <= cap s /\ List.length seg + potential s' <= potential s + data_calls seg * cap s.
Proof.
  induction seg as [|e seg IH]; intros s s' Hp H; cbn [run] in H.
  - injection H as <-. unfold data_calls. cbn. lia.
  - cbn [forallb] in Hp. apply andb_prop in Hp as [Hp1 Hp2].
    destruct (step s e) as [s1|] eqn:E; [|discriminate].
    destruct (work_step _ _ _ E Hp1) as [C1 P1].
    destruct (IH _ _ Hp2 H) as [C2 P2].
    split; [lia|]. unfold data_calls in *. cbn [filter List.length].
    assert (Hm : List.length (filter hands_data seg) * cap s1 <= List.length (filter hands_data seg) * cap s)
      by (apply Nat.mul_le_mono_l; exact C1).
    destruct (hands_data e); cbn [List.length]; nia.
Qed.

(** The statement: inside one poll (from [EBegin] on, before the poll returns) the router makes
    at most [(data + queued + 1) * cap] calls on its peers, where [data] counts the calls that
    handed it an item or an invalid frame, [queued] the registrations waiting in the channel, and
    [cap = 4 * subscribers + publishers + 5 * queued + 1] when the poll starts. *)
Theorem ps_poll_work_bounded s0 seg s1 :
  ctl s0 = PIdle -> forallb peer_call seg = true -> run s0 (EBegin :: seg) = Some s1 ->
  List.length seg <= (data_calls seg + nQ s0 + 1) * cap s0.
Proof.
  intros Hc Hp H. cbn [run] in H. destruct (step s0 EBegin) as [sb|] eqn:Eb; [|discriminate].
  destruct (work_run _ _ _ Hp H) as [_ P].
  assert (Hb : potential sb <= (nQ s0 + 1) * cap s0 /\ cap sb <= cap s0).
  { unfold step, obind in Eb. destruct (settled s0) as [sa|] eqn:Ea; [|discriminate].
    assert (sa = s0).
    { unfold settled in Ea. destruct (settle_fuel s0); cbn [settle] in Ea; [discriminate|].
      unfold internal in Ea. rewrite Hc in Ea. now injection Ea as <-. }
    subst sa. rewrite Hc in Eb. cbn [step_raw] in Eb. unfold step_raw in Eb. rewrite Hc in Eb.
    destruct (work_settle _ _ _ Eb) as [P1 C1].
    assert (Ht : potential (set_ctl s0 PTop) <= (nQ s0 + 1) * cap s0).
    { unfold potential, rank, cap, rank_top, tcost, has_buf, nS, nT, nQ; simp_st.
      destruct (buffered s0); destruct (streams s0); cbn [List.length]; nia. }
    assert (cap (set_ctl s0 PTop) = cap s0) by reflexivity. split; lia. }
  destruct Hb as [Hb1 Hb2].
  assert (data_calls seg * cap sb <= data_calls seg * cap s0) by (apply Nat.mul_le_mono_l; exact Hb2).
  nia.
Qed.

(** * The loop never spins between two peer calls: the internal moves of the model terminate
    within the fuel [settled] gives them, from every state (so [settled] never answers [None],
    and a rejected trace is never rejected for lack of fuel). *)
Definition ipos_handle (s : st) : nat := match streams s, buffered s with [], Some _ => 8 | _, _ => 2 end.
Definition ipos_top (s : st) : nat := match buffered s with Some _ => 5 | None => 3 end.
Definition ipos (s : st) : nat :=
  match ctl s with
  | PTop => ipos_top s
  | PReady _ => match buffered s with Some _ => 4 | None => 1 end
  | PSend _ _ => 1 + ipos_handle s
  | PHandle => ipos_handle s
  | PStreamsStart => match streams s with [] => 2 + ipos_top s | _ => 0 end
  | PStreams _ _ _ => match streams s with [] => 2 + ipos_top s | _ => 2 end
  | PFlush _ FlStreamsDone => 1 + ipos_top s
  | PFlush _ _ => 1
  | _ => 0
  end.
Definition imeasure (s : st) : nat := ipos s + 12 * nQ s.

Lemma internal_decreases s s' : internal s = Some s' -> imeasure s' < imeasure s.
Proof.
  intros H. unfold internal in H.
  crush_matches H; injection H as <-;
    unfold imeasure, ipos, ipos_handle, ipos_top, nQ, after_flush in *; simp_st;
    repeat match goal with
           | Hc : ctl _ = _ |- _ => rewrite Hc in *; clear Hc
           | Hq : queue _ = _ |- _ => rewrite Hq in *; clear Hq
           | Hb : buffered _ = _ |- _ => rewrite Hb in *; clear Hb
           | Hs : streams _ = _ |- _ => rewrite Hs in *; clear Hs
           end; cbn [List.length]; try lia.
  all: repeat match goal with
              | |- context[match buffered ?s with _ => _ end] => destruct (buffered s)
              | |- context[match streams ?s with _ => _ end] => destruct (streams s)
              | |- context[match ?l ++ _ with _ => _ end] => destruct l
              | |- context[match ?w with FlHandleClosed => _ | _ => _ end] => destruct w
              end; cbn [app List.length]; try lia.
Qed.

Lemma settle_enough n : forall s, imeasure s < n -> exists s', settle n s = Some s'.
Proof.
  induction n as [|n IH]; intros s Hm; [lia|]. cbn [settle].
  destruct (internal s) as [s1|] eqn:E; [|now exists s].
  apply IH. pose proof (internal_decreases _ _ E). lia.
Qed.

Theorem ps_settled_total s : exists s', settled s = Some s'.
Proof.
  unfold settled. apply settle_enough. unfold imeasure, settle_fuel, nQ.
  assert (ipos s <= 9).
  { unfold ipos, ipos_handle, ipos_top. destruct (ctl s); try lia;
      repeat match goal with
             | |- context[match buffered ?s with _ => _ end] => destruct (buffered s)
             | |- context[match streams ?s with _ => _ end] => destruct (streams s)
             | |- context[match ?w with FlHandleClosed => _ | _ => _ end] => destruct w
             end; lia. }
  lia.
Qed.

(** * After close: a poll in which no subscriber answers Pending completes the future (C16) *)
Lemma run_app l1 : forall s l2, run s (l1 ++ l2) = obind (run s l1) (fun s' => run s' l2).
Proof.
  induction l1 as [|e l1 IH]; intros s l2; [reflexivity|].
  cbn [app run]. destruct (step s e) as [s1|]; [apply IH|reflexivity].
Qed.

Lemma settle_halts fuel : forall s s', settle fuel s = Some s' -> internal s' = None.
Proof.
  induction fuel as [|k IH]; intros s s' H; cbn [settle] in H; [discriminate|].
  destruct (internal s) as [s1|] eqn:E; [now apply (IH s1)|]. now injection H as <-.
Qed.

Lemma step_halts s e s' : step s e = Some s' -> settled s' = Some s'.
Proof.
  intros H. assert (Hi : internal s' = None).
  { unfold step, obind in H. destruct (settled s) as [s0|]; [|discriminate].
    assert (Hone : forall a, match step_raw a e with Some x => settled x | None => None end = Some s' -> internal s' = None).
    { intros a Ha. destruct (step_raw a e) as [x|]; [|discriminate]. unfold settled in Ha. now apply settle_halts in Ha. }
    destruct (ctl s0); try (now apply (Hone s0)).
    destruct e; try (now apply (Hone s0)).
    match type of H with match ?t with _ => _ end = _ => destruct t as [x|]; [|discriminate] end.
    now apply (Hone x). }
  unfold settled. destruct (settle_fuel s') as [|k] eqn:Ef; [unfold settle_fuel in Ef; lia|].
  cbn [settle]. now rewrite Hi.
Qed.

Lemma closed_run tr s s' : closed s = true -> run s tr = Some s' -> closed s' = true.
Proof.
  intros Hc H. revert H. apply (ps_lift_run (fun x => closed x = true)).
  - intros a b Ha Hi. now rewrite (internal_closed _ _ Hi).
  - intros a e b Ha Hr. now apply (step_raw_closed _ _ _ Hr).
  - exact Hc.
Qed.

Theorem ps_poll_after_close_completes tr0 s0 seg r s1 :
  run init tr0 = Some s0 -> closed s0 = true -> ctl s0 = PIdle ->
  run s0 (EBegin :: seg ++ [EEnd r]) = Some s1 ->
  forallb peer_call seg = true -> forallb (fun e => negb (sink_pending e)) seg = true ->
  r = true /\ List.length seg <= (data_calls seg + nQ s0 + 1) * cap s0.
Proof.
  intros H0 Hcl Hc H Hp Hnp.
  change (EBegin :: seg ++ [EEnd r]) with ((EBegin :: seg) ++ [EEnd r]) in H.
  rewrite run_app in H. destruct (run s0 (EBegin :: seg)) as [sm|] eqn:Em; [|discriminate].
  cbn [obind run] in H. destruct (step sm (EEnd r)) as [se|] eqn:Ee; [|discriminate].
  split; [|now apply (ps_poll_work_bounded s0 seg sm)].
  (* the last event before the return *)
  destruct (exists_last (l := EBegin :: seg)) as (pre & elast & Hl); [discriminate|].
  rewrite Hl in Em. rewrite run_app in Em. destruct (run s0 pre) as [sp|] eqn:Epre; [|discriminate].
  cbn [obind run] in Em. destruct (step sp elast) as [sm'|] eqn:El; [|discriminate]. injection Em as ->.
  pose proof (step_halts _ _ _ El) as Hs.
  unfold step, obind in Ee. rewrite Hs in Ee.
  assert (Hret : ctl sm = PReturn r).
  { unfold step_raw in Ee. destruct (ctl sm) eqn:E; try discriminate;
      try (match type of Ee with context[match ?n with O => _ | S _ => _ end] => destruct n; discriminate end).
    match type of Ee with context[if Bool.eqb ?b r then _ else _] => destruct (Bool.eqb b r) eqn:Eb; [|discriminate];
      apply Bool.eqb_prop in Eb; now subst end. }
  destruct r; [reflexivity|exfalso].
  assert (Hsp : run init (tr0 ++ pre) = Some sp) by (rewrite run_app, H0; exact Epre).
  pose proof (closed_run _ _ _ Hcl Epre) as Hclp.
  pose proof (ps_closed_pending_only_from_sinks _ _ _ _ Hsp Hclp El Hret) as Hpend.
  assert (Hin : In elast (EBegin :: seg)) by (rewrite Hl; apply in_or_app; right; left; reflexivity).
  destruct Hin as [<-|Hin]; [discriminate|].
  rewrite forallb_forall in Hnp. specialize (Hnp _ Hin). rewrite Hpend in Hnp. discriminate.
Qed.
