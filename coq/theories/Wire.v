(** C05 / C06 — model of protocol/src/codec.rs (MessageCodec as tokio_util Encoder/Decoder),
    of FramedRead's feed/decode loop, and of protocol/src/utils.rs (batch codec).  Data types,
    layouts, tags and constants come from SeliumGen.Layouts (regenerated from the source);
    the function bodies are transcribed by hand with bounds-checked primitives whose failure is
    an explicit [Panic], and tied to the code by the differential run.  The batch codec is assembled
    from SeliumGen.BatchFacts: every condition and arithmetic expression of utils.rs is translated,
    only the control skeleton (recognised statement by statement by the translator) is written here. *)
Require Import Selium.Base Selium.Bytes Selium.Utf8 Selium.Bincode Selium.BatchArith.
Require Import SeliumGen.Layouts SeliumGen.BatchFacts.
Open Scope N_scope.

(** Encoder<Frame>::encode, appending to an empty [dst] *)
Inductive enc_result :=
| EncOk (b : bytes)
| EncTooLarge (len : N).

Definition encode (f : Frame) : enc_result :=
  let len := frame_length f in
  if MAX_MESSAGE_SIZE <? len then EncTooLarge len
  else EncOk (be_bytes 8 len ++ frame_type f :: frame_payload f).

(** Decoder::decode on the buffered bytes [src]; second component: sizes passed to
    [BytesMut::reserve] / allocation requests made by selium's own code in this call *)
Inductive dec_result :=
| Need                         (* Ok(None) *)
| Fail                         (* Err(_)  *)
| Got (f : Frame) (rest : bytes).

Definition decode (src : bytes) : outcome (dec_result * list N) :=
  if blen src <? RESERVED_SIZE then Val (Need, []) else
  do lb <- split_to LEN_MARKER_SIZE src;
  let length := be_val (fst lb) in
  if MAX_MESSAGE_SIZE <? length then Val (Fail, []) else
  let bytes_read := blen src - RESERVED_SIZE in
  if bytes_read <? length then Val (Need, [bytes_read]) else
  do a <- split_to LEN_MARKER_SIZE src;
  do t <- get_u8 (snd a);
  do p <- split_to length (snd t);
  match frame_of_type (fst t) (fst p) with
  | Some f => Val (Got f (snd p), [])
  | None => Val (Fail, [])
  end.

(** FramedRead: append the chunk, decode until [Need]; an error ends the stream. *)
Record rstate := { r_buf : bytes; r_failed : bool }.
Definition r_init : rstate := {| r_buf := []; r_failed := false |}.

Fixpoint drain (fuel : nat) (buf : bytes) : outcome (list Frame * rstate) :=
  match fuel with
  | O => Panic "drain: out of fuel"
  | S k =>
    do d <- decode buf;
    match fst d with
    | Need => Val ([], {| r_buf := buf; r_failed := false |})
    | Fail => Val ([], {| r_buf := buf; r_failed := true |})
    | Got f rest =>
      do r <- drain k rest; Val (f :: fst r, snd r)
    end
  end.

Definition feed (st : rstate) (chunk : bytes) : outcome (list Frame * rstate) :=
  if r_failed st then Val ([], st)
  else let buf := r_buf st ++ chunk in drain (S (List.length buf)) buf.

Fixpoint feed_all (st : rstate) (chunks : list bytes) : outcome (list Frame * rstate) :=
  match chunks with
  | [] => Val ([], st)
  | c :: cs =>
    do r <- feed st c;
    do r' <- feed_all (snd r) cs;
    Val (fst r ++ fst r', snd r')
  end.

(** utils.rs *)
Definition encode_batch (ms : list bytes) : bytes :=
  be_bytes 8 (out_or 0 (gen_enc_count (N.of_nat (List.length ms))))
  ++ concat (map (fun m => be_bytes 8 (out_or 0 (gen_enc_len (blen m))) ++ m) ms).

Fixpoint batch_loop (fuel : nat) (count : N) (b : bytes) (acc : list bytes) : outcome (list bytes) :=
  if count =? 0 then Val (rev acc) else
  match fuel with
  | O => Panic "batch_loop: out of fuel"
  | S k =>
    do g1 <- gen_loop_guard1 (blen b);
    if g1 then Val (rev acc) else
    do p <- get_u64_be b;
    do g2 <- gen_loop_guard2 (fst p) (blen (snd p));
    if g2 then Val (rev acc) else
    do n <- gen_split_arg (fst p) (blen (snd p));
    do q <- split_to n (snd p);
    batch_loop k (count - 1) (snd q) (fst q :: acc)
  end.

(** returns the messages and the capacity requested from [Vec::with_capacity] *)
Definition decode_batch (b : bytes) : outcome (list bytes * N) :=
  do g0 <- gen_head_guard (blen b);
  if g0 then Val ([], 0) else
  do p <- get_u64_be b;
  do capacity <- gen_capacity (blen (snd p)) (fst p);
  do ms <- batch_loop (S (List.length (snd p))) (fst p) (snd p) [];
  Val (ms, capacity).

(** Header maps are compared as maps: later duplicates win (HashMap insertion), order is
    irrelevant.  [norm_frame] is used by the trace judge to compare frames. *)
Fixpoint bytes_cmp (a b : bytes) : comparison :=
  match a, b with
  | [], [] => Eq
  | [], _ => Lt
  | _, [] => Gt
  | x :: a', y :: b' => match N.compare x y with Eq => bytes_cmp a' b' | c => c end
  end.

Fixpoint hdr_insert (k v : bytes) (l : list (bytes * bytes)) : list (bytes * bytes) :=
  match l with
  | [] => [(k, v)]
  | (k', v') :: r =>
    match bytes_cmp k k' with
    | Lt => (k, v) :: l
    | Eq => (k, v) :: r
    | Gt => (k', v') :: hdr_insert k v r
    end
  end.

Definition norm_headers (l : list (bytes * bytes)) : list (bytes * bytes) :=
  fold_left (fun acc kv => hdr_insert (fst kv) (snd kv) acc) l [].

Definition norm_frame (f : Frame) : Frame :=
  match f with
  | F_Message p => F_Message {| mp_headers := option_map norm_headers (mp_headers p); mp_message := mp_message p |}
  | _ => f
  end.

Definition run_feed (chunks : list bytes) : outcome (list Frame * rstate) := feed_all r_init chunks.
