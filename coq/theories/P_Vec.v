(** Lemmas about [swap_remove] and friends (Vec::swap_remove under a moving cursor). *)
Require Import Selium.Base Selium.PubSub.
Open Scope N_scope.

Lemma removelast'_eq l : removelast' l = removelast l.
Proof.
  induction l as [|x l IH]; [reflexivity|].
  destruct l as [|y r]; [reflexivity|].
  change (removelast' (x :: y :: r)) with (x :: removelast' (y :: r)).
  change (removelast (x :: y :: r)) with (x :: removelast (y :: r)).
  now rewrite IH.
Qed.

Lemma last_app_ne (a b : list N) d : b <> [] -> last (a ++ b) d = last b d.
Proof.
  intros Hb. induction a as [|x a IH]; [reflexivity|].
  cbn [app]. destruct (a ++ b) eqn:E.
  - apply app_eq_nil in E as [_ ->]. contradiction.
  - rewrite <- E in *. cbn [last]. rewrite E in *. exact IH.
Qed.

Lemma NoDup_app_r (a b : list N) : NoDup (a ++ b) -> NoDup b.
Proof. induction a as [|x a IH]; [auto|]. cbn [app]. intros H. inversion H; subst. auto. Qed.

Lemma nth_error_app_exact {A} (pre : list A) k post : nth_error (pre ++ k :: post) (List.length pre) = Some k.
Proof. induction pre; cbn; auto. Qed.

Lemma swap_remove_spec pre k post :
  swap_remove (List.length pre) (pre ++ k :: post) =
  match post with [] => pre | _ => pre ++ last post 0 :: removelast post end.
Proof.
  unfold swap_remove. rewrite nth_error_app_exact.
  destruct post as [|p post].
  - destruct (Nat.eqb_spec (S (List.length pre)) (List.length (pre ++ [k]))) as [_|Hne].
    + rewrite removelast'_eq, removelast_last. reflexivity.
    + rewrite app_length in Hne. cbn in Hne. lia.
  - destruct (Nat.eqb_spec (S (List.length pre)) (List.length (pre ++ k :: p :: post))) as [He|_].
    { rewrite app_length in He. cbn in He. lia. }
    rewrite firstn_app, Nat.sub_diag, firstn_all. cbn [firstn]. rewrite app_nil_r.
    f_equal.
    assert (Hskip : skipn (S (List.length pre)) (pre ++ k :: p :: post) = p :: post).
    { replace (S (List.length pre)) with (List.length (pre ++ [k])) by (rewrite app_length; cbn; lia).
      replace (pre ++ k :: p :: post) with ((pre ++ [k]) ++ p :: post) by (rewrite <- app_assoc; reflexivity).
      rewrite skipn_app, Nat.sub_diag, skipn_all. reflexivity. }
    rewrite Hskip, removelast'_eq.
    f_equal.
    replace (pre ++ k :: p :: post) with ((pre ++ [k]) ++ p :: post) by (rewrite <- app_assoc; reflexivity).
    rewrite last_app_ne; [reflexivity|discriminate].
Qed.

Lemma split_at {A} (l : list A) idx k :
  nth_error l idx = Some k -> exists pre post, l = pre ++ k :: post /\ List.length pre = idx.
Proof.
  intros H. apply nth_error_split in H as (pre & post & -> & Hl). now exists pre, post.
Qed.

Lemma In_last_removelast (post : list N) y :
  post <> [] -> (In y (last post 0 :: removelast post) <-> In y post).
Proof.
  intros Hne. rewrite (app_removelast_last 0 Hne) at 3.
  rewrite in_app_iff. cbn [In]. tauto.
Qed.

Lemma swap_remove_In idx l y : In y (swap_remove idx l) -> In y l.
Proof.
  destruct (nth_error l idx) as [k|] eqn:E.
  - destruct (split_at _ _ _ E) as (pre & post & -> & <-).
    rewrite swap_remove_spec. destruct post as [|p post].
    + intros H. apply in_or_app. now left.
    + intros H. apply in_app_or in H as [H|H]; apply in_or_app; [now left|right; right].
      apply (proj1 (In_last_removelast (p :: post) y ltac:(discriminate))) in H. exact H.
  - unfold swap_remove. now rewrite E.
Qed.

Lemma swap_remove_keeps idx l k y :
  nth_error l idx = Some k -> In y l -> y <> k -> In y (swap_remove idx l).
Proof.
  intros E Hin Hne. destruct (split_at _ _ _ E) as (pre & post & -> & <-).
  rewrite swap_remove_spec.
  apply in_app_or in Hin as [H|[H|H]].
  - destruct post; [exact H|apply in_or_app; now left].
  - congruence.
  - destruct post as [|p post]; [contradiction|].
    apply in_or_app; right. apply (proj2 (In_last_removelast (p :: post) y ltac:(discriminate))). exact H.
Qed.

Lemma NoDup_last_removelast (post : list N) :
  post <> [] -> NoDup post -> NoDup (last post 0 :: removelast post).
Proof.
  intros Hne Hnd. rewrite (app_removelast_last 0 Hne) in Hnd.
  apply NoDup_remove in Hnd as [Hnd Hnot]. rewrite app_nil_r in *. constructor; assumption.
Qed.

Lemma swap_remove_NoDup idx l : NoDup l -> NoDup (swap_remove idx l).
Proof.
  intros Hnd. destruct (nth_error l idx) as [k|] eqn:E.
  - destruct (split_at _ _ _ E) as (pre & post & -> & <-).
    rewrite swap_remove_spec.
    apply NoDup_remove in Hnd as [Hnd Hk].
    destruct post as [|p post]; [now rewrite app_nil_r in Hnd|].
    assert (Hne : p :: post <> []) by discriminate.
    pose proof (NoDup_app_r _ _ Hnd) as Hpost.
    pose proof (NoDup_last_removelast _ Hne Hpost) as Hnd2.
    (* pre ++ (perm of post) *)
    clear Hk E.
    induction pre as [|a pre IH]; [exact Hnd2|].
    cbn [app] in *. inversion Hnd as [|? ? Ha Hr]; subst. constructor.
    + intros Hin. apply Ha. apply in_app_or in Hin as [H|H]; apply in_or_app; [now left|right].
      apply (proj1 (In_last_removelast (p :: post) a Hne)) in H. exact H.
    + apply IH. exact Hr.
  - unfold swap_remove. now rewrite E.
Qed.

Lemma swap_remove_removed idx l k :
  NoDup l -> nth_error l idx = Some k -> ~ In k (swap_remove idx l).
Proof.
  intros Hnd E. destruct (split_at _ _ _ E) as (pre & post & -> & <-).
  rewrite swap_remove_spec. apply NoDup_remove in Hnd as [_ Hk].
  destruct post as [|p post].
  - intros H. apply Hk. rewrite app_nil_r. exact H.
  - intros H. apply Hk. apply in_app_or in H as [H|H]; apply in_or_app; [now left|right].
    apply (proj1 (In_last_removelast (p :: post) k ltac:(discriminate))) in H. exact H.
Qed.

Lemma swap_remove_firstn idx l : firstn idx (swap_remove idx l) = firstn idx l.
Proof.
  destruct (nth_error l idx) as [k|] eqn:E.
  - destruct (split_at _ _ _ E) as (pre & post & -> & <-).
    rewrite swap_remove_spec.
    rewrite firstn_app, Nat.sub_diag, firstn_all. cbn [firstn]. rewrite app_nil_r.
    destruct post.
    + now rewrite firstn_all.
    + now rewrite firstn_app, Nat.sub_diag, firstn_all, app_nil_r.
  - unfold swap_remove. now rewrite E.
Qed.

Lemma swap_remove_skipn_In idx l y :
  In y (skipn idx (swap_remove idx l)) -> In y (skipn (S idx) l).
Proof.
  destruct (nth_error l idx) as [k|] eqn:E.
  - destruct (split_at _ _ _ E) as (pre & post & -> & <-).
    rewrite swap_remove_spec.
    assert (Hs : skipn (S (List.length pre)) (pre ++ k :: post) = post).
    { replace (S (List.length pre)) with (List.length (pre ++ [k])) by (rewrite app_length; cbn; lia).
      replace (pre ++ k :: post) with ((pre ++ [k]) ++ post) by (rewrite <- app_assoc; reflexivity).
      now rewrite skipn_app, Nat.sub_diag, skipn_all. }
    rewrite Hs. destruct post as [|p post].
    + rewrite skipn_all. contradiction.
    + rewrite skipn_app, Nat.sub_diag, skipn_all. cbn [skipn app].
      intros H. apply (proj1 (In_last_removelast (p :: post) y ltac:(discriminate))) in H. exact H.
  - unfold swap_remove. rewrite E. intros H.
    apply nth_error_None in E. rewrite skipn_all2 in H by lia. contradiction.
Qed.

Lemma swap_remove_length idx l k :
  nth_error l idx = Some k -> S (List.length (swap_remove idx l)) = List.length l.
Proof.
  intros E. destruct (split_at _ _ _ E) as (pre & post & -> & <-).
  rewrite swap_remove_spec, app_length.
  destruct post as [|p post]; [cbn [List.length]; lia|].
  rewrite app_length. cbn [List.length].
  assert (Hne : p :: post <> []) by discriminate.
  pose proof (app_removelast_last 0 Hne) as H.
  apply (f_equal (@List.length N)) in H. rewrite app_length in H. cbn [List.length] in H. lia.
Qed.
