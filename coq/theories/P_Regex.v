(** Soundness and completeness of the matcher of Regex.v with respect to a declarative
    "there is a split" semantics. *)
Require Import Selium.Base Selium.Regex.
Require Import ZifyBool ZifyN ZifyNat.
Open Scope N_scope.

Inductive matches : list item -> list N -> list (list N) -> Prop :=
| m_nil : matches [] [] []
| m_lit c r s caps : matches r s caps -> matches (Lit c :: r) (c :: s) caps
| m_rep cls lo hi cap r pre s caps :
    (lo <= List.length pre)%nat -> (List.length pre <= hi)%nat ->
    forallb (in_class cls) pre = true ->
    matches r s caps ->
    matches (Rep cls lo hi cap :: r) (pre ++ s) (if cap then pre :: caps else caps).

Lemma span_le_limit cls limit s : (span cls limit s <= limit)%nat.
Proof.
  revert s; induction limit as [|l IH]; intros s; cbn [span]; [lia|].
  destruct s as [|c r]; [lia|]. destruct (in_class cls c); [specialize (IH r); lia|lia].
Qed.

Lemma span_le_length cls limit s : (span cls limit s <= List.length s)%nat.
Proof.
  revert s; induction limit as [|l IH]; intros s; cbn [span]; [lia|].
  destruct s as [|c r]; [cbn; lia|]. destruct (in_class cls c); cbn [List.length]; [specialize (IH r); lia|lia].
Qed.

Lemma span_firstn cls limit s j :
  (j <= span cls limit s)%nat -> forallb (in_class cls) (firstn j s) = true.
Proof.
  revert s j; induction limit as [|l IH]; intros s j Hj; cbn [span] in Hj.
  - replace j with O by lia. reflexivity.
  - destruct s as [|c r]; [replace j with O by lia; reflexivity|].
    destruct (in_class cls c) eqn:Hc.
    + destruct j as [|j]; [reflexivity|]. cbn [firstn forallb]. rewrite Hc. cbn [andb]. apply IH. lia.
    + replace j with O by lia. reflexivity.
Qed.

Lemma span_app_ge cls limit pre s :
  forallb (in_class cls) pre = true -> (List.length pre <= limit)%nat ->
  (List.length pre <= span cls limit (pre ++ s))%nat.
Proof.
  revert limit; induction pre as [|c pre IH]; intros limit Hall Hlen; cbn [List.length]; [lia|].
  cbn [forallb] in Hall. apply andb_true_iff in Hall as [Hc Hall].
  cbn [List.length] in Hlen. destruct limit as [|l]; [lia|].
  cbn [app span]. rewrite Hc. specialize (IH l Hall). lia.
Qed.

Lemma try_counts_sound rm cap lo s : forall k r,
  try_counts rm cap lo s k = Some r ->
  exists j caps, (j <= k)%nat /\ (lo <= j)%nat /\ rm (skipn j s) = Some caps /\
                 r = (if cap then firstn j s :: caps else caps).
Proof.
  induction k as [|k IH]; intros r H; cbn [try_counts] in H.
  - destruct (Nat.leb_spec lo 0) as [Hlo|Hlo].
    + destruct (rm (skipn 0 s)) as [caps|] eqn:Hrm; [|discriminate].
      injection H as <-. exists O, caps. repeat split; (lia || assumption || reflexivity).
    + discriminate.
  - destruct (Nat.leb_spec lo (S k)) as [Hlo|Hlo].
    + destruct (rm (skipn (S k) s)) as [caps|] eqn:Hrm.
      * injection H as <-. exists (S k), caps. repeat split; (lia || assumption || reflexivity).
      * destruct (IH r H) as (j & caps & Hj & Hl & Hr & ->). exists j, caps. repeat split; (lia || assumption).
    + destruct (IH r H) as (j & caps & Hj & Hl & Hr & ->). exists j, caps. repeat split; (lia || assumption).
Qed.

Lemma try_counts_complete rm cap lo s : forall k j,
  (j <= k)%nat -> (lo <= j)%nat -> rm (skipn j s) <> None ->
  try_counts rm cap lo s k <> None.
Proof.
  induction k as [|k IH]; intros j Hj Hlo Hrm; cbn [try_counts].
  - replace j with O in * by lia.
    destruct (Nat.leb_spec lo 0); [|lia].
    destruct (rm (skipn 0 s)); [discriminate|contradiction].
  - destruct (Nat.leb_spec lo (S k)) as [Hle|Hgt].
    + destruct (rm (skipn (S k) s)) as [caps|] eqn:E; [discriminate|].
      destruct (Nat.eq_dec j (S k)) as [->|Hne]; [rewrite E in Hrm; contradiction|].
      apply (IH j); (lia || assumption).
    + apply (IH j); (lia || assumption).
Qed.

Theorem match_items_sound : forall its s caps,
  match_items its s = Some caps -> matches its s caps.
Proof.
  induction its as [|it r IH]; intros s caps H.
  - cbn [match_items] in H. destruct s; [injection H as <-; constructor|discriminate].
  - destruct it as [c|cls lo hi cap]; cbn [match_items] in H.
    + destruct s as [|x s']; [discriminate|].
      destruct (N.eqb_spec x c) as [->|]; [|discriminate].
      constructor. apply IH. assumption.
    + apply try_counts_sound in H as (j & caps' & Hj & Hlo & Hrm & ->).
      assert (Hlen : List.length (firstn j s) = j).
      { apply firstn_length_le. pose proof (span_le_length cls hi s). lia. }
      rewrite <- (firstn_skipn j s) at 1.
      apply m_rep.
      * lia.
      * rewrite Hlen. pose proof (span_le_limit cls hi s). lia.
      * apply span_firstn with (limit := hi). assumption.
      * apply IH. assumption.
Qed.

Theorem match_items_complete : forall its s caps,
  matches its s caps -> match_items its s <> None.
Proof.
  intros its s caps H. induction H as [|c r s caps H IH|cls lo hi cap r pre s caps Hlo Hhi Hall H IH].
  - cbn. discriminate.
  - cbn [match_items]. rewrite N.eqb_refl. assumption.
  - cbn [match_items].
    apply try_counts_complete with (j := List.length pre).
    + apply span_app_ge; assumption.
    + assumption.
    + rewrite skipn_app, skipn_all, Nat.sub_diag. cbn [skipn app]. assumption.
Qed.

Lemma starts_with_app_sep pre a c b :
  forallb (fun p => negb (p =? c)) pre = true ->
  starts_with pre (a ++ c :: b) = starts_with pre a.
Proof.
  revert a; induction pre as [|p pr IH]; intros a Hnot; [reflexivity|].
  cbn [forallb] in Hnot. apply andb_true_iff in Hnot as [Hp Hr].
  destruct a as [|x a]; cbn [app starts_with].
  - destruct (N.eqb_spec p c); [discriminate|reflexivity].
  - rewrite IH by assumption. reflexivity.
Qed.

Lemma split_unique (c : N) : forall a a' b b',
  forallb (fun x => negb (x =? c)) a = true ->
  forallb (fun x => negb (x =? c)) a' = true ->
  a ++ c :: b = a' ++ c :: b' -> a = a' /\ b = b'.
Proof.
  induction a as [|x a IH]; intros a' b b' Ha Ha' H.
  - destruct a' as [|y a']; cbn [app] in H.
    + injection H as ->. split; reflexivity.
    + injection H as <- _. cbn [forallb] in Ha'. rewrite N.eqb_refl in Ha'. discriminate.
  - destruct a' as [|y a']; cbn [app] in H.
    + injection H as -> _. cbn [forallb] in Ha. rewrite N.eqb_refl in Ha. discriminate.
    + injection H as -> H. cbn [forallb] in Ha, Ha'.
      apply andb_true_iff in Ha as [_ Ha]. apply andb_true_iff in Ha' as [_ Ha'].
      destruct (IH a' b b' Ha Ha' H) as [-> ->]. split; reflexivity.
Qed.
