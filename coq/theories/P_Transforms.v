(** C14 — the standard codecs are lossless; the compression wrappers pair the same format on
    both sides; the composition used on the wire is the identity under the library contract. *)
Require Import Selium.Base Selium.Bytes Selium.Utf8 Selium.Bincode Selium.P_Bincode Selium.CodecTactics
               Selium.Wire Selium.P_Wire Selium.Transforms Selium.ClientPubSub Selium.P_ClientPubSub.
Require Import SeliumGen.CompFacts.
Open Scope N_scope.

Theorem string_roundtrip s : utf8_valid s = true -> string_decode (string_encode s) = Some s.
Proof. intros H. unfold string_decode, string_encode. now rewrite H. Qed.

(** invalid UTF-8 is reported as an error, never decoded to some other value *)
Theorem string_rejects b : string_decode b = (if utf8_valid b then Some b else None).
Proof. reflexivity. Qed.

Theorem string_never_wrong b s : string_decode b = Some s -> s = b /\ utf8_valid b = true.
Proof. unfold string_decode. destruct (utf8_valid b); [intros H; injection H as <-; auto|discriminate]. Qed.

Theorem bytes_roundtrip v : bytes_decode (bytes_encode v) = Some v.
Proof. reflexivity. Qed.

(** every item type whose bincode layout is built from the combinators round-trips *)
Theorem bincode_roundtrip {A} (c : codec A) (a : A) :
  codec_ok c -> wf c a -> bincode_decode c (bincode_encode c a) = Some a.
Proof.
  intros Hok Hwf. unfold bincode_decode, bincode_encode.
  specialize (Hok a [] Hwf). rewrite app_nil_r in Hok. now rewrite Hok.
Qed.

Lemma c_Dummy_ok : codec_ok c_Dummy. Proof. unfold c_Dummy. auto with codec. Qed.
Lemma c_VecString_ok : codec_ok c_VecString. Proof. unfold c_VecString. auto with codec. Qed.
Lemma c_OptT_ok : codec_ok c_OptT. Proof. unfold c_OptT. auto with codec. Qed.

(** the wrappers select the same format on both sides, for both DEFLATE variants and for the
    public constructors *)
Theorem wrappers_pair_formats :
  deflate_comp_gzip = deflate_decomp_gzip /\ deflate_comp_zlib = deflate_decomp_zlib /\
  deflate_comp_gzip <> deflate_comp_zlib /\
  deflate_comp_ctor_gzip = deflate_comp_gzip /\ deflate_decomp_ctor_gzip = deflate_decomp_gzip /\
  deflate_comp_ctor_zlib = deflate_comp_zlib /\ deflate_decomp_ctor_zlib = deflate_decomp_zlib /\
  zstd_comp = zstd_decomp /\ lz4_comp = lz4_decomp /\ brotli_comp = brotli_decomp.
Proof. repeat split; try reflexivity. discriminate. Qed.

(** the three presets lie inside each library's supported level range *)
Theorem presets_in_range :
  deflate_fast <= 9 /\ deflate_default <= 9 /\ deflate_best <= 9 /\
  1 <= zstd_FASTEST_COMPRESSION /\ zstd_HIGHEST_COMPRESSION <= 22 /\
  zstd_FASTEST_COMPRESSION <= zstd_RECOMMENDED_COMPRESSION /\ zstd_RECOMMENDED_COMPRESSION <= zstd_HIGHEST_COMPRESSION /\
  brotli_FASTEST_COMPRESSION <= brotli_RECOMMENDED_COMPRESSION /\ brotli_RECOMMENDED_COMPRESSION <= brotli_HIGHEST_COMPRESSION /\
  brotli_HIGHEST_COMPRESSION <= 11.
Proof. vm_compute. repeat split; discriminate. Qed.

(** the composition used on the wire: encode, batch, compress, then decompress, unbatch, decode *)
Theorem wire_composition :
  forall (item : Type) (encode : item -> bytes) (decode : bytes -> option item)
         (compress : bytes -> bytes) (decompress : bytes -> option bytes),
  (forall x, decode (encode x) = Some x) ->
  (forall b, decompress (compress b) = Some b) ->
  (forall x, blen (encode x) < 2 ^ 64) ->
  forall xs, N.of_nat (List.length xs) < 2 ^ 64 ->
  sub_frame item decode decompress (WBatch (compress (encode_batch (map encode xs)))) = SubItems item xs.
Proof. intros. now apply sub_frame_batch. Qed.
