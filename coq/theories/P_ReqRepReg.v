(** C10 / C11 (router level) — no registration is lost inside the request/reply router, and they
    are decided first-in first-out: every socket the router took from its registration channel is
    still waiting in its queue, or was given its role -- a requestor with a key, the bound
    replier, or a refused replier (for which c10_refused_replier_told_then_closed continues).  A
    replier is refused only while another one is bound, and bound only while nobody is. *)
Require Import Selium.Base Selium.PubSub Selium.ReqRep Selium.ReqRepSpec Selium.P_ReqRep Selium.P_ReqRepOrder.
Open Scope N_scope.

Inductive reg_effect (s s' : rst) : Prop :=
| GE_same : rqueue s' = rqueue s -> h_used (rgh s') = h_used (rgh s) -> h_bound (rgh s') = h_bound (rgh s) ->
            h_rejected (rgh s') = h_rejected (rgh s) -> h_keys (rgh s') = h_keys (rgh s) -> reg_effect s s'
| GE_enq q : rqueue s' = rqueue s ++ [q] -> h_used (rgh s') = rlabel_of q :: h_used (rgh s) ->
            h_bound (rgh s') = h_bound (rgh s) ->
            h_rejected (rgh s') = h_rejected (rgh s) -> h_keys (rgh s') = h_keys (rgh s) -> reg_effect s s'
| GE_key k l : rqueue s = QClient l :: rqueue s' -> h_used (rgh s') = h_used (rgh s) -> h_bound (rgh s') = h_bound (rgh s) ->
            h_rejected (rgh s') = h_rejected (rgh s) -> h_keys (rgh s') = h_keys (rgh s) ++ [(k, l)] -> reg_effect s s'
| GE_bind l : rqueue s = QServer l :: rqueue s' -> server s = None -> server s' = Some l ->
            h_used (rgh s') = h_used (rgh s) -> h_bound (rgh s') = h_bound (rgh s) ++ [l] ->
            h_rejected (rgh s') = h_rejected (rgh s) -> h_keys (rgh s') = h_keys (rgh s) -> reg_effect s s'
| GE_reject l l' : rqueue s = QServer l :: rqueue s' -> server s = Some l' -> server s' = Some l' ->
            h_used (rgh s') = h_used (rgh s) -> h_bound (rgh s') = h_bound (rgh s) ->
            h_rejected (rgh s') = h_rejected (rgh s) ++ [l] -> h_keys (rgh s') = h_keys (rgh s) -> reg_effect s s'.

Lemma rinternal_reg s s' : rinternal s = Some s' -> reg_effect s s'.
Proof.
  intros H. unfold rinternal in H.
  crush_matches H; injection H as <-;
    first [ solve [apply GE_same; rsimp; auto]
          | solve [eapply GE_key; rsimp; eauto]
          | solve [eapply GE_bind; rsimp; eauto]
          | solve [eapply GE_reject; rsimp; eauto] ].
Qed.

Lemma rstep_raw_reg s e s' : rstep_raw s e = Some s' -> reg_effect s s'.
Proof.
  intros H. unfold rstep_raw, router_pass in H.
  crush_matches H; injection H as <-;
    first [ solve [apply GE_same; rsimp; auto]
          | solve [eapply GE_enq; rsimp; eauto] ].
Qed.

Definition placed (s : rst) (l : N) : Prop :=
  In l (map rlabel_of (rqueue s)) \/ In l (h_bound (rgh s)) \/ In l (h_rejected (rgh s))
  \/ In l (map snd (h_keys (rgh s))).

Definition RegInv (s : rst) : Prop := forall l, In l (h_used (rgh s)) -> placed s l.

Lemma reginv_effect s s' : RegInv s -> reg_effect s s' -> RegInv s'.
Proof.
  intros HI Eff l Hl. unfold placed.
  destruct Eff as [Hq Hu Hb Hr Hk | q Hq Hu Hb Hr Hk | k l0 Hq Hu Hb Hr Hk | l0 Hq Hs Hs' Hu Hb Hr Hk | l0 l1 Hq Hs Hs' Hu Hb Hr Hk];
    rewrite ?Hq, ?Hb, ?Hr, ?Hk; rewrite Hu in Hl.
  - exact (HI l Hl).
  - rewrite map_app, in_app_iff. cbn [map In].
    destruct Hl as [<-|Hl]; [left; right; now left|].
    destruct (HI l Hl) as [H|H]; [left; now left|right; exact H].
  - specialize (HI l Hl). unfold placed in HI. rewrite Hq in HI. cbn [map In rlabel_of] in HI.
    rewrite map_app, in_app_iff. cbn [map In snd].
    destruct HI as [[<-|H]|[H|[H|H]]]; auto 6.
  - specialize (HI l Hl). unfold placed in HI. rewrite Hq in HI. cbn [map In rlabel_of] in HI.
    rewrite in_app_iff. cbn [In].
    destruct HI as [[<-|H]|[H|[H|H]]]; auto 6.
  - specialize (HI l Hl). unfold placed in HI. rewrite Hq in HI. cbn [map In rlabel_of] in HI.
    rewrite in_app_iff. cbn [In].
    destruct HI as [[<-|H]|[H|[H|H]]]; auto 7.
Qed.

Theorem rr_no_registration_lost tr s : rrun rinit tr = Some s ->
  forall l, In l (h_used (rgh s)) -> placed s l.
Proof.
  revert s. intros s H. revert H. apply (lift_run RegInv).
  - intros a b Ha Hi. exact (reginv_effect a b Ha (rinternal_reg _ _ Hi)).
  - intros a e b Ha Hr. exact (reginv_effect a b Ha (rstep_raw_reg _ _ _ Hr)).
  - intros l [].
Qed.


(** ... and exactly once: the sockets taken from the channel are, as a multiset, the ones waiting
    plus the ones given each role -- nobody is both bound and refused, or given a role twice *)
Require Import Coq.Sorting.Permutation.

Definition places (s : rst) : list N :=
  map rlabel_of (rqueue s) ++ h_bound (rgh s) ++ h_rejected (rgh s) ++ map snd (h_keys (rgh s)).

Definition RegPerm (s : rst) : Prop := Permutation (h_used (rgh s)) (places s).

Lemma pm_key (a : N) Q B R K : Permutation (a :: Q ++ B ++ R ++ K) (Q ++ B ++ R ++ K ++ [a]).
Proof. rewrite !app_assoc. apply Permutation_cons_append. Qed.
Lemma pm_bind (a : N) Q B X : Permutation (a :: Q ++ B ++ X) (Q ++ (B ++ [a]) ++ X).
Proof. rewrite <- (app_assoc B [a]). cbn [app]. rewrite !app_assoc. apply Permutation_middle. Qed.
Lemma pm_rej (a : N) Q B R K : Permutation (a :: Q ++ B ++ R ++ K) (Q ++ B ++ (R ++ [a]) ++ K).
Proof. rewrite <- (app_assoc R [a]). cbn [app]. rewrite !app_assoc. apply Permutation_middle. Qed.

Lemma regperm_effect s s' : RegPerm s -> reg_effect s s' -> RegPerm s'.
Proof.
  unfold RegPerm, places. intros HI Eff.
  destruct Eff as [Hq Hu Hb Hr Hk | q Hq Hu Hb Hr Hk | k l0 Hq Hu Hb Hr Hk | l0 Hq Hs Hs' Hu Hb Hr Hk | l0 l1 Hq Hs Hs' Hu Hb Hr Hk];
    rewrite ?Hb, ?Hr, ?Hk, Hu; [rewrite Hq | | rewrite Hq in HI | rewrite Hq in HI | rewrite Hq in HI].
  - exact HI.
  - rewrite Hq, map_app. cbn [map]. rewrite <- app_assoc. cbn [app].
    now apply Permutation_cons_app.
  - cbn [map rlabel_of app] in HI. rewrite map_app. cbn [map snd].
    etransitivity; [exact HI|]. apply pm_key.
  - cbn [map rlabel_of app] in HI. etransitivity; [exact HI|]. apply pm_bind.
  - cbn [map rlabel_of app] in HI. etransitivity; [exact HI|]. apply pm_rej.
Qed.

Theorem rr_registrations_placed_exactly_once tr s : rrun rinit tr = Some s ->
  Permutation (h_used (rgh s)) (places s).
Proof.
  intros H. revert H. apply (lift_run RegPerm).
  - intros a b Ha Hi. exact (regperm_effect a b Ha (rinternal_reg _ _ Hi)).
  - intros a e b Ha Hr. exact (regperm_effect a b Ha (rstep_raw_reg _ _ _ Hr)).
  - constructor.
Qed.

(** the decision itself, at the one control point where a replier's registration is taken from the
    queue: it is bound exactly when nobody is bound, and otherwise its rejection is put in the
    slot and the bound replier stays *)
Theorem rr_replier_decision s l q s' :
  rctl s = RHandle -> rqueue s = QServer l :: q -> rinternal s = Some s' ->
  rqueue s' = q /\
  (server s = None -> server s' = Some l /\ h_bound (rgh s') = h_bound (rgh s) ++ [l] /\ b_err s' = b_err s) /\
  (forall l', server s = Some l' ->
     server s' = Some l' /\ h_rejected (rgh s') = h_rejected (rgh s) ++ [l] /\ b_err s' = Some (true, l)).
Proof.
  intros Hc Hq H. unfold rinternal in H. rewrite Hc, Hq in H.
  destruct (server s) as [l0|] eqn:Es; injection H as <-; rsimp; (split; [reflexivity|]); split.
  - discriminate.
  - intros l1 E. injection E as <-. auto.
  - intros _. auto.
  - intros l1 E. discriminate.
Qed.

(** * Anchored in the trace: the sockets the router took are exactly the ones sent on its channel *)

(** every socket sent on the registration channel in a trace is one the router took *)
Definition queued_in (tr : list rev) (l : N) : Prop := exists q w, In (VQueue q w) tr /\ rlabel_of q = l.

Lemma rinternal_used s s' : rinternal s = Some s' -> h_used (rgh s') = h_used (rgh s).
Proof. intros H. unfold rinternal in H. crush_matches H; injection H as <-; rsimp; reflexivity. Qed.

Lemma sink_ev_not_queue l op e r : is_sink_ev_on l op e = Some r -> forall q w, e <> VQueue q w.
Proof. intros H q w ->. discriminate. Qed.

Lemma rstep_raw_used s e s' : rstep_raw s e = Some s' ->
  (h_used (rgh s') = h_used (rgh s) /\ forall q w, e <> VQueue q w)
  \/ (exists q w, e = VQueue q w /\ h_used (rgh s') = rlabel_of q :: h_used (rgh s)).
Proof.
  intros H. unfold rstep_raw, router_pass in H.
  crush_matches H; injection H as <-; rsimp;
    first [ solve [left; split; [reflexivity|intros; discriminate]]
          | solve [left; split; [reflexivity|eauto using sink_ev_not_queue]]
          | solve [right; eexists; eexists; split; reflexivity] ].
Qed.

Definition UInv (tr : list rev) (s : rst) : Prop := forall l, queued_in tr l <-> In l (h_used (rgh s)).

Lemma uinv_settle fuel : forall tr s s', UInv tr s -> rsettle fuel s = Some s' -> UInv tr s'.
Proof.
  induction fuel as [|k IH]; intros tr s s' HI H; cbn [rsettle] in H; [discriminate|].
  destruct (rinternal s) as [s1|] eqn:E.
  - apply (IH tr s1); [|exact H]. intros l. rewrite (rinternal_used _ _ E). apply HI.
  - now injection H as <-.
Qed.

Lemma queued_in_snoc tr e l : queued_in (tr ++ [e]) l <-> queued_in tr l \/ (exists q w, e = VQueue q w /\ rlabel_of q = l).
Proof.
  unfold queued_in. split.
  - intros (q & w & Hin & Hl). apply in_app_or in Hin as [Hin|[E|[]]].
    + left. eauto.
    + right. exists q, w. split; [now symmetry|exact Hl].
  - intros [(q & w & Hin & Hl)|(q & w & -> & Hl)].
    + exists q, w. split; [apply in_or_app; now left|exact Hl].
    + exists q, w. split; [apply in_or_app; right; now left|exact Hl].
Qed.

Lemma uinv_raw tr s e s' : UInv tr s -> rstep_raw s e = Some s' -> UInv (tr ++ [e]) s'.
Proof.
  intros HI H l. rewrite queued_in_snoc.
  destruct (rstep_raw_used _ _ _ H) as [[Hu Hne]|(q & w & -> & Hu)]; rewrite Hu.
  - rewrite <- (HI l). split; [intros [Hq|(q & w & -> & _)]; [exact Hq|now destruct (Hne q w)]|now left].
  - cbn [In]. rewrite <- (HI l). split.
    + intros [Hq|(q0 & w0 & E & Hl)]; [now right|left]. injection E as <- <-. exact Hl.
    + intros [Hl|Hq]; [right; eauto|now left].
Qed.

Lemma uinv_same_raw tr s e s1 : rctl s = RStreamsStart -> rstep_raw s e = Some s1 -> UInv tr s -> UInv tr s1.
Proof.
  intros Hc H HI. unfold rstep_raw in H. rewrite Hc in H.
  destruct e; try discriminate. destruct (index_of_label l (rstreams s)); [|discriminate].
  injection H as <-. intros l0. rsimp. apply HI.
Qed.

Lemma uinv_step tr s e s' : UInv tr s -> rstep s e = Some s' -> UInv (tr ++ [e]) s'.
Proof.
  intros HI H. unfold rstep, obind in H.
  destruct (rsettled s) as [s0|] eqn:E0; [|discriminate].
  assert (H0 : UInv tr s0) by (unfold rsettled in E0; now apply uinv_settle with (rsettle_fuel s) s).
  assert (Hone : forall a, UInv tr a -> match rstep_raw a e with Some x => rsettled x | None => None end = Some s' -> UInv (tr ++ [e]) s').
  { intros a Ha Hb. destruct (rstep_raw a e) as [x|] eqn:Ex; [|discriminate].
    unfold rsettled in Hb. apply uinv_settle with (rsettle_fuel x) x; [|exact Hb].
    now apply uinv_raw with a. }
  destruct (rctl s0) eqn:Ec; try (now apply (Hone s0)).
  destruct e; try (now apply (Hone s0)).
  match type of H with match ?t with _ => _ end = _ => destruct t as [s1|] eqn:E1; [|discriminate] end.
  apply (Hone s1); [|exact H].
  now apply uinv_same_raw with s0 (VStream l r).
Qed.

Lemma uinv_run tr : forall tr0 s s', UInv tr0 s -> rrun s tr = Some s' -> UInv (tr0 ++ tr) s'.
Proof.
  induction tr as [|e tr IH]; intros tr0 s s' HI H; cbn [rrun] in H.
  - injection H as <-. now rewrite app_nil_r.
  - destruct (rstep s e) as [s1|] eqn:E; [|discriminate].
    replace (tr0 ++ e :: tr) with ((tr0 ++ [e]) ++ tr) by (rewrite <- app_assoc; reflexivity).
    apply (IH (tr0 ++ [e]) s1); [now apply uinv_step with s|exact H].
Qed.

Theorem rr_used_is_queued tr s : rrun rinit tr = Some s ->
  forall l, queued_in tr l <-> In l (h_used (rgh s)).
Proof.
  intros H. apply (uinv_run tr [] rinit s); [|exact H].
  intros l. cbn. split; [intros (q & w & [] & _)|intros []].
Qed.

(** trace-anchored form of rr_no_registration_lost *)
Theorem rr_every_queued_socket_placed tr s : rrun rinit tr = Some s ->
  forall q w, In (VQueue q w) tr -> placed s (rlabel_of q).
Proof.
  intros H q w Hin. apply (rr_no_registration_lost tr s H).
  apply (rr_used_is_queued tr s H). exists q, w. auto.
Qed.

(** * No label twice *)

Lemma rstep_raw_used_fresh s e s' : rstep_raw s e = Some s' ->
  h_used (rgh s') = h_used (rgh s) \/ exists l, h_used (rgh s') = l :: h_used (rgh s) /\ ~ In l (h_used (rgh s)).
Proof.
  intros H. unfold rstep_raw, router_pass in H.
  crush_matches H; injection H as <-; rsimp;
    first [ solve [left; reflexivity]
          | right; eexists; split; [reflexivity|];
            match goal with Hm : (_ || memb _ _)%bool = false |- _ =>
              apply Bool.orb_false_iff in Hm; destruct Hm as [_ Hm]; intros Hin; apply memb_In in Hin; congruence end ].
Qed.

Theorem rr_used_nodup tr s : rrun rinit tr = Some s -> NoDup (h_used (rgh s)).
Proof.
  intros H. revert H. apply (lift_run (fun s => NoDup (h_used (rgh s)))).
  - intros a b Ha Hi. now rewrite (rinternal_used _ _ Hi).
  - intros a e b Ha Hr. destruct (rstep_raw_used_fresh _ _ _ Hr) as [->|(l & -> & Hn)]; [exact Ha|now constructor].
  - constructor.
Qed.

(** nobody is given two roles, or one role twice: the labels waiting, bound, refused and keyed
    are pairwise distinct *)
Theorem rr_roles_nodup tr s : rrun rinit tr = Some s -> NoDup (places s).
Proof.
  intros H. apply (Permutation_NoDup (rr_registrations_placed_exactly_once tr s H)). now apply rr_used_nodup with tr.
Qed.
