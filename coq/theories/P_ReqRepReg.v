(** C10 / C11 (router level) — no registration is lost inside the request/reply router, and they
    are decided first-in first-out: every socket the router took from its registration channel is
    still waiting in its queue, or was given its role -- a requestor with a key, the bound
    replier, or a refused replier (for which c10_refused_replier_told_then_closed continues).  A
    replier is refused only while another one is bound, and bound only while nobody is. *)
Require Import Selium.Base Selium.PubSub Selium.ReqRep Selium.ReqRepSpec Selium.P_ReqRep Selium.P_ReqRepOrder.
Open Scope N_scope.

Inductive reg_effect (s s' : rst) : Prop :=
| GE_same : rqueue s' = rqueue s -> h_used (rgh s') = h_used (rgh s) -> h_bound (rgh s') = h_bound (rgh s) ->
            h_rejected (rgh s') = h_rejected (rgh s) -> h_keys (rgh s') = h_keys (rgh s) -> reg_effect s s'
| GE_enq q : rqueue s' = rqueue s ++ [q] -> h_used (rgh s') = rlabel_of q :: h_used (rgh s) ->
            h_bound (rgh s') = h_bound (rgh s) ->
            h_rejected (rgh s') = h_rejected (rgh s) -> h_keys (rgh s') = h_keys (rgh s) -> reg_effect s s'
| GE_key k l : rqueue s = QClient l :: rqueue s' -> h_used (rgh s') = h_used (rgh s) -> h_bound (rgh s') = h_bound (rgh s) ->
            h_rejected (rgh s') = h_rejected (rgh s) -> h_keys (rgh s') = h_keys (rgh s) ++ [(k, l)] -> reg_effect s s'
| GE_bind l : rqueue s = QServer l :: rqueue s' -> server s = None -> server s' = Some l ->
            h_used (rgh s') = h_used (rgh s) -> h_bound (rgh s') = h_bound (rgh s) ++ [l] ->
            h_rejected (rgh s') = h_rejected (rgh s) -> h_keys (rgh s') = h_keys (rgh s) -> reg_effect s s'
| GE_reject l l' : rqueue s = QServer l :: rqueue s' -> server s = Some l' -> server s' = Some l' ->
            h_used (rgh s') = h_used (rgh s) -> h_bound (rgh s') = h_bound (rgh s) ->
            h_rejected (rgh s') = h_rejected (rgh s) ++ [l] -> h_keys (rgh s') = h_keys (rgh s) -> reg_effect s s'.

Lemma rinternal_reg s s' : rinternal s = Some s' -> reg_effect s s'.
Proof.
  intros H. unfold rinternal in H.
  crush_matches H; injection H as <-;
    first [ solve [apply GE_same; rsimp; auto]
          | solve [eapply GE_key; rsimp; eauto]
          | solve [eapply GE_bind; rsimp; eauto]
          | solve [eapply GE_reject; rsimp; eauto] ].
Qed.

Lemma rstep_raw_reg s e s' : rstep_raw s e = Some s' -> reg_effect s s'.
Proof.
  intros H. unfold rstep_raw, router_pass in H.
  crush_matches H; injection H as <-;
    first [ solve [apply GE_same; rsimp; auto]
          | solve [eapply GE_enq; rsimp; eauto] ].
Qed.

Definition placed (s : rst) (l : N) : Prop :=
  In l (map rlabel_of (rqueue s)) \/ In l (h_bound (rgh s)) \/ In l (h_rejected (rgh s))
  \/ In l (map snd (h_keys (rgh s))).

Definition RegInv (s : rst) : Prop := forall l, In l (h_used (rgh s)) -> placed s l.

Lemma reginv_effect s s' : RegInv s -> reg_effect s s' -> RegInv s'.
Proof.
  intros HI Eff l Hl. unfold placed.
  destruct Eff as [Hq Hu Hb Hr Hk | q Hq Hu Hb Hr Hk | k l0 Hq Hu Hb Hr Hk | l0 Hq Hs Hs' Hu Hb Hr Hk | l0 l1 Hq Hs Hs' Hu Hb Hr Hk];
    rewrite ?Hq, ?Hb, ?Hr, ?Hk; rewrite Hu in Hl.
  - exact (HI l Hl).
  - rewrite map_app, in_app_iff. cbn [map In].
    destruct Hl as [<-|Hl]; [left; right; now left|].
    destruct (HI l Hl) as [H|H]; [left; now left|right; exact H].
  - specialize (HI l Hl). unfold placed in HI. rewrite Hq in HI. cbn [map In rlabel_of] in HI.
    rewrite map_app, in_app_iff. cbn [map In snd].
    destruct HI as [[<-|H]|[H|[H|H]]]; auto 6.
  - specialize (HI l Hl). unfold placed in HI. rewrite Hq in HI. cbn [map In rlabel_of] in HI.
    rewrite in_app_iff. cbn [In].
    destruct HI as [[<-|H]|[H|[H|H]]]; auto 6.
  - specialize (HI l Hl). unfold placed in HI. rewrite Hq in HI. cbn [map In rlabel_of] in HI.
    rewrite in_app_iff. cbn [In].
    destruct HI as [[<-|H]|[H|[H|H]]]; auto 7.
Qed.

Theorem rr_no_registration_lost tr s : rrun rinit tr = Some s ->
  forall l, In l (h_used (rgh s)) -> placed s l.
Proof.
  revert s. intros s H. revert H. apply (lift_run RegInv).
  - intros a b Ha Hi. exact (reginv_effect a b Ha (rinternal_reg _ _ Hi)).
  - intros a e b Ha Hr. exact (reginv_effect a b Ha (rstep_raw_reg _ _ _ Hr)).
  - intros l [].
Qed.


(** ... and exactly once: the sockets taken from the channel are, as a multiset, the ones waiting
    plus the ones given each role -- nobody is both bound and refused, or given a role twice *)
Require Import Coq.Sorting.Permutation.

Definition places (s : rst) : list N :=
  map rlabel_of (rqueue s) ++ h_bound (rgh s) ++ h_rejected (rgh s) ++ map snd (h_keys (rgh s)).

Definition RegPerm (s : rst) : Prop := Permutation (h_used (rgh s)) (places s).

Lemma pm_key (a : N) Q B R K : Permutation (a :: Q ++ B ++ R ++ K) (Q ++ B ++ R ++ K ++ [a]).
Proof. rewrite !app_assoc. apply Permutation_cons_append. Qed.
Lemma pm_bind (a : N) Q B X : Permutation (a :: Q ++ B ++ X) (Q ++ (B ++ [a]) ++ X).
Proof. rewrite <- (app_assoc B [a]). cbn [app]. rewrite !app_assoc. apply Permutation_middle. Qed.
Lemma pm_rej (a : N) Q B R K : Permutation (a :: Q ++ B ++ R ++ K) (Q ++ B ++ (R ++ [a]) ++ K).
Proof. rewrite <- (app_assoc R [a]). cbn [app]. rewrite !app_assoc. apply Permutation_middle. Qed.

Lemma regperm_effect s s' : RegPerm s -> reg_effect s s' -> RegPerm s'.
Proof.
  unfold RegPerm, places. intros HI Eff.
  destruct Eff as [Hq Hu Hb Hr Hk | q Hq Hu Hb Hr Hk | k l0 Hq Hu Hb Hr Hk | l0 Hq Hs Hs' Hu Hb Hr Hk | l0 l1 Hq Hs Hs' Hu Hb Hr Hk];
    rewrite ?Hb, ?Hr, ?Hk, Hu; [rewrite Hq | | rewrite Hq in HI | rewrite Hq in HI | rewrite Hq in HI].
  - exact HI.
  - rewrite Hq, map_app. cbn [map]. rewrite <- app_assoc. cbn [app].
    now apply Permutation_cons_app.
  - cbn [map rlabel_of app] in HI. rewrite map_app. cbn [map snd].
    etransitivity; [exact HI|]. apply pm_key.
  - cbn [map rlabel_of app] in HI. etransitivity; [exact HI|]. apply pm_bind.
  - cbn [map rlabel_of app] in HI. etransitivity; [exact HI|]. apply pm_rej.
Qed.

Theorem rr_registrations_placed_exactly_once tr s : rrun rinit tr = Some s ->
  Permutation (h_used (rgh s)) (places s).
Proof.
  intros H. revert H. apply (lift_run RegPerm).
  - intros a b Ha Hi. exact (regperm_effect a b Ha (rinternal_reg _ _ Hi)).
  - intros a e b Ha Hr. exact (regperm_effect a b Ha (rstep_raw_reg _ _ _ Hr)).
  - constructor.
Qed.

(** the decision itself, at the one control point where a replier's registration is taken from the
    queue: it is bound exactly when nobody is bound, and otherwise its rejection is put in the
    slot and the bound replier stays *)
Theorem rr_replier_decision s l q s' :
  rctl s = RHandle -> rqueue s = QServer l :: q -> rinternal s = Some s' ->
  rqueue s' = q /\
  (server s = None -> server s' = Some l /\ h_bound (rgh s') = h_bound (rgh s) ++ [l] /\ b_err s' = b_err s) /\
  (forall l', server s = Some l' ->
     server s' = Some l' /\ h_rejected (rgh s') = h_rejected (rgh s) ++ [l] /\ b_err s' = Some (true, l)).
Proof.
  intros Hc Hq H. unfold rinternal in H. rewrite Hc, Hq in H.
  destruct (server s) as [l0|] eqn:Es; injection H as <-; rsimp; (split; [reflexivity|]); split.
  - discriminate.
  - intros l1 E. injection E as <-. auto.
  - intros _. auto.
  - intros l1 E. discriminate.
Qed.
