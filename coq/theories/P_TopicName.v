(** C07 — proofs about the model of topic_name.rs instantiated with the regexes that the
    translator regenerates from the source. *)
Require Import Selium.Base Selium.Regex Selium.P_Regex Selium.TopicName Selium.TopicSpec.
Require Import SeliumGen.TopicRegex.
Require Import ZifyBool ZifyN ZifyNat.
Open Scope N_scope.

(** The generated constants have the documented shape. *)
Definition name_class : class :=
  match COMPONENT_REGEX with [Rep cls _ _ _] => cls | _ => [] end.

Lemma component_regex_shape : COMPONENT_REGEX = [Rep name_class 3 64 false].
Proof. reflexivity. Qed.

Lemma topic_regex_shape :
  TOPIC_REGEX = [Lit slash; Rep name_class 3 64 true; Lit slash; Rep name_class 3 64 true].
Proof. reflexivity. Qed.

Lemma reserved_is_selium : RESERVED_NAMESPACE = reserved_word.
Proof. reflexivity. Qed.

Lemma name_class_spec c : in_class name_class c = is_name_char c.
Proof.
  unfold name_class, is_name_char. cbn [COMPONENT_REGEX in_class]. lia.
Qed.

Lemma forallb_name_class l : forallb (in_class name_class) l = forallb is_name_char l.
Proof. induction l as [|x l IH]; [reflexivity|]. cbn [forallb]. now rewrite name_class_spec, IH. Qed.

Lemma starts_with_has_prefix p s : starts_with p s = has_prefix p s.
Proof. revert s; induction p as [|a p IH]; intros [|c s]; cbn [starts_with has_prefix]; try reflexivity; now rewrite IH. Qed.

Lemma name_chars_no_slash l : forallb is_name_char l = true -> forallb (fun x => negb (x =? slash)) l = true.
Proof.
  intros H. rewrite forallb_forall in *. intros x Hx. specialize (H x Hx).
  unfold is_name_char, slash in *. lia.
Qed.

(** Declarative characterisation of a successful regex match. *)
Lemma topic_matches_inv s caps :
  matches TOPIC_REGEX s caps ->
  exists ns tp, caps = [ns; tp] /\ s = slash :: ns ++ slash :: tp /\
                component_ok ns = true /\ component_ok tp = true.
Proof.
  rewrite topic_regex_shape. intros H.
  inversion H as [|c r s1 caps1 H1|]; subst; clear H.
  inversion H1 as [| |cls lo hi cap r ns s2 caps2 Hlo Hhi Hall H2]; subst; clear H1.
  inversion H2 as [|c r s3 caps3 H3|]; subst; clear H2.
  inversion H3 as [| |cls lo hi cap r tp s4 caps4 Hlo' Hhi' Hall' H4]; subst; clear H3.
  inversion H4; subst; clear H4.
  exists ns, tp. rewrite app_nil_r.
  rewrite forallb_name_class in Hall, Hall'.
  repeat split; unfold component_ok; rewrite ?Hall, ?Hall'; lia.
Qed.

Lemma topic_matches_intro ns tp :
  component_ok ns = true -> component_ok tp = true ->
  matches TOPIC_REGEX (slash :: ns ++ slash :: tp) [ns; tp].
Proof.
  unfold component_ok. intros Hns Htp.
  apply andb_true_iff in Hns as [Hl Hns]. apply andb_true_iff in Hl as [Hl1 Hl2].
  apply andb_true_iff in Htp as [Hl' Htp]. apply andb_true_iff in Hl' as [Hl1' Hl2'].
  rewrite topic_regex_shape.
  apply m_lit.
  apply (m_rep name_class 3 64 true _ ns (slash :: tp) [tp]); [lia|lia|now rewrite forallb_name_class|].
  apply m_lit.
  rewrite <- (app_nil_r tp) at 1.
  apply (m_rep name_class 3 64 true [] tp [] []); [lia|lia|now rewrite forallb_name_class|constructor].
Qed.

Lemma reserved_no_slash : forallb (fun p => negb (p =? slash)) RESERVED_NAMESPACE = true.
Proof. reflexivity. Qed.

(** try_from *)
Theorem try_from_ok_inv s ns tp :
  try_from s = TnOk (ns, tp) -> s = print (ns, tp) /\ name_ok ns tp = true.
Proof.
  unfold try_from. destruct s as [|c0 s0]; [discriminate|].
  set (s := c0 :: s0).
  destruct (match str_get_from_1 s with Some rest => starts_with RESERVED_NAMESPACE rest | None => false end) eqn:Hres; [discriminate|].
  destruct (match_items TOPIC_REGEX s) as [caps|] eqn:Hm; [|discriminate].
  apply match_items_sound in Hm. apply topic_matches_inv in Hm as (ns' & tp' & -> & Hs & Hns & Htp).
  intros H; injection H as -> ->.
  split; [exact Hs|].
  unfold name_ok. rewrite Hns, Htp. cbn [andb].
  rewrite Hs in Hres. cbn [str_get_from_1] in Hres.
  change (utf8_len slash =? 1) with true in Hres. cbn iota in Hres.
  rewrite starts_with_app_sep in Hres by exact reserved_no_slash.
  rewrite starts_with_has_prefix, reserved_is_selium in Hres. now rewrite Hres.
Qed.

Theorem try_from_accepts ns tp :
  name_ok ns tp = true -> try_from (print (ns, tp)) = TnOk (ns, tp).
Proof.
  unfold name_ok. intros H. apply andb_true_iff in H as [H Hres]. apply andb_true_iff in H as [Hns Htp].
  unfold print, try_from; cbn [fst snd str_get_from_1].
  change (utf8_len slash =? 1) with true. cbn iota.
  rewrite starts_with_app_sep by exact reserved_no_slash.
  rewrite starts_with_has_prefix, reserved_is_selium.
  apply negb_true_iff in Hres. rewrite Hres.
  pose proof (topic_matches_intro ns tp Hns Htp) as Hm.
  destruct (match_items TOPIC_REGEX (slash :: ns ++ slash :: tp)) as [caps|] eqn:E.
  - apply match_items_sound in E. apply topic_matches_inv in E as (ns' & tp' & -> & Heq & Hns' & Htp').
    injection Heq as Heq.
    apply split_unique in Heq as [-> ->]; [reflexivity| |].
    + apply name_chars_no_slash. unfold component_ok in Hns. apply andb_true_iff in Hns. apply Hns.
    + apply name_chars_no_slash. unfold component_ok in Hns'. apply andb_true_iff in Hns'. apply Hns'.
  - exfalso. apply (match_items_complete _ _ _ Hm). exact E.
Qed.

Theorem try_from_never_panics s : match try_from s with TnPanic _ => False | _ => True end.
Proof.
  unfold try_from. destruct s as [|c0 s0]; [exact I|].
  destruct (match str_get_from_1 (c0 :: s0) with Some rest => starts_with RESERVED_NAMESPACE rest | None => false end); [exact I|].
  destruct (match_items TOPIC_REGEX (c0 :: s0)) as [caps|] eqn:Hm; [|exact I].
  apply match_items_sound in Hm. apply topic_matches_inv in Hm as (ns' & tp' & -> & _). exact I.
Qed.

(** the full "exactly when" statement *)
Theorem try_from_iff s ns tp :
  try_from s = TnOk (ns, tp) <-> (s = print (ns, tp) /\ name_ok ns tp = true).
Proof.
  split; [apply try_from_ok_inv|]. intros [-> H]. now apply try_from_accepts.
Qed.

Theorem try_from_rejects s :
  (forall ns tp, ~ (s = print (ns, tp) /\ name_ok ns tp = true)) ->
  exists e, try_from s = TnErr e.
Proof.
  intros Hno. pose proof (try_from_never_panics s) as Hp.
  destruct (try_from s) as [[ns tp]|e|site] eqn:E.
  - exfalso. apply (Hno ns tp). now apply try_from_ok_inv.
  - now exists e.
  - contradiction.
Qed.

(** is_valid / create: the server-side rule is the same rule *)
Lemma is_match_component l : is_match COMPONENT_REGEX l = component_ok l.
Proof.
  destruct (component_ok l) eqn:Hok.
  - unfold is_match.
    assert (Hm : matches COMPONENT_REGEX l []).
    { rewrite component_regex_shape. rewrite <- (app_nil_r l).
      unfold component_ok in Hok. apply andb_true_iff in Hok as [Hl Hall]. apply andb_true_iff in Hl as [H1 H2].
      apply (m_rep name_class 3 64 false [] l [] []); [lia|lia|now rewrite forallb_name_class|constructor]. }
    destruct (match_items COMPONENT_REGEX l) eqn:E; [reflexivity|].
    exfalso. exact (match_items_complete _ _ _ Hm E).
  - unfold is_match. destruct (match_items COMPONENT_REGEX l) as [caps|] eqn:E; [|reflexivity].
    apply match_items_sound in E. rewrite component_regex_shape in E.
    inversion E as [| |cls lo hi cap r pre s2 caps2 Hlo Hhi Hall H2]; subst.
    inversion H2; subst. rewrite app_nil_r in Hok.
    rewrite forallb_name_class in Hall. unfold component_ok in Hok. rewrite Hall in Hok. lia.
Qed.

Theorem is_valid_spec ns tp : is_valid (ns, tp) = name_ok ns tp.
Proof.
  unfold is_valid, name_ok; cbn [fst snd].
  rewrite !is_match_component, starts_with_has_prefix, reserved_is_selium.
  destruct (has_prefix reserved_word ns), (component_ok ns), (component_ok tp); reflexivity.
Qed.

Theorem server_rule_same ns tp :
  is_valid (ns, tp) = true <-> try_from (print (ns, tp)) = TnOk (ns, tp).
Proof.
  rewrite is_valid_spec. split.
  - apply try_from_accepts.
  - intros H. apply try_from_ok_inv in H. apply H.
Qed.

Theorem create_spec ns tp :
  create ns tp = if name_ok ns tp then TnOk (ns, tp) else TnErr ParseTopicNameError.
Proof. unfold create. now rewrite is_valid_spec. Qed.

(** printing and parsing are inverse; printing is injective on legal names *)
Theorem parse_print ns tp : name_ok ns tp = true -> try_from (print (ns, tp)) = TnOk (ns, tp).
Proof. apply try_from_accepts. Qed.

Theorem print_parse s t : try_from s = TnOk t -> print t = s.
Proof. destruct t as [ns tp]. intros H. apply try_from_ok_inv in H. symmetry. apply H. Qed.

Theorem print_injective ns tp ns' tp' :
  name_ok ns tp = true -> name_ok ns' tp' = true ->
  print (ns, tp) = print (ns', tp') -> ns = ns' /\ tp = tp'.
Proof.
  intros H H' Heq.
  pose proof (try_from_accepts ns tp H) as E. rewrite Heq in E.
  rewrite (try_from_accepts ns' tp' H') in E. injection E as -> ->. split; reflexivity.
Qed.
