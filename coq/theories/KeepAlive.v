(** C12 — model of the reconnecting wrappers (client/src/keep_alive/pubsub.rs and reqrep.rs).
    The retry budget is the number of attempts the back-off iterator yields (C13: exactly
    max_attempts).  Events are what the wrapped stream and the reconnection attempts report. *)
Require Import Selium.Base.
Require Import SeliumGen.KeepAliveFacts.
Open Scope N_scope.

Inductive status :=
| Connected
| Disconnected (remaining : nat)   (* attempts the iterator can still yield; one attempt is in flight *)
| Exhausted
| Failed (e : err_class).          (* an unrecoverable error was returned to the caller *)

Inductive kev :=
| KLost                      (* an operation on the live stream reported a recoverable error / end *)
| KAttemptOk                 (* the attempt in flight re-registered the stream *)
| KAttemptErr (e : err_class).

(** pub/sub wrapper: on_disconnect / poll_reconnect *)
Definition next_attempt (remaining : nat) : status :=
  match remaining with O => Exhausted | S k => Disconnected k end.

Definition ps_step (budget : nat) (s : status) (e : kev) : status :=
  match s, e with
  | Connected, KLost => next_attempt budget               (* fresh iterator for this outage *)
  | Disconnected k, KAttemptOk => Connected
  | Disconnected k, KAttemptErr err => if is_recoverable_error err then next_attempt k else Failed err
  | _, _ => s
  end.

(** req/rep wrapper (Replier::listen loop).  The iterator is local to the loop: it is renewed
    when an established stream is lost, kept when the server refuses the re-registration after
    having acknowledged it. *)
Inductive rkev :=
| RLost                      (* listen() ended: stream lost / ended *)
| RRefused (code : N)        (* listen() ended with OpenStream(code): the registration was refused after all *)
| RFatal (e : err_class)     (* listen() ended with an unrecoverable error *)
| RAttemptOk
| RAttemptErr (e : err_class).

Record rstate := { r_status : status; r_iter : nat }.

Definition rr_try (it : nat) : rstate :=
  match it with O => {| r_status := Exhausted; r_iter := O |} | S k => {| r_status := Disconnected k; r_iter := k |} end.

Definition rr_step (budget : nat) (s : rstate) (e : rkev) : rstate :=
  match r_status s, e with
  | Connected, RLost => rr_try budget
  | Connected, RRefused code =>
    if is_bind_error code then rr_try (r_iter s) else {| r_status := Failed (EOpenStream code); r_iter := r_iter s |}
  | Connected, RFatal err => {| r_status := Failed err; r_iter := r_iter s |}
  | Disconnected k, RAttemptOk => {| r_status := Connected; r_iter := k |}
  | Disconnected k, RAttemptErr err => if is_recoverable_error err then rr_try k else {| r_status := Failed err; r_iter := k |}
  | _, _ => s
  end.

Definition r_init (budget : nat) : rstate := {| r_status := Connected; r_iter := budget |}.
