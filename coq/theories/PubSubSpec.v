(** C01 / C08 / C09 / C16 — what the properties demand of a pub/sub router, as executable
    predicates.  Two families:
    - on model states (their history component is written by [PubSub.step]): these are what the
      theorems are about, and what the judge evaluates after replaying an implementation trace
      through the model;
    - on raw event traces, without any reference to the model: these are what the judge
      evaluates on implementation traces that the model no longer accepts (the search for a
      concrete failing history after a change of the code). *)
Require Import Selium.Base Selium.PubSub.
Open Scope N_scope.

Fixpoint is_prefix (a b : list N) : bool :=
  match a, b with
  | [], _ => true
  | x :: a', y :: b' => (x =? y) && is_prefix a' b'
  | _ :: _, [] => false
  end.

Definition mem_n (k : N) (l : list N) : bool := existsb (N.eqb k) l.

(** * On states *)
Definition sent_of (k : N) (g : ghost) : list N :=
  map snd (filter (fun p => fst p =? k) (g_sent g)).

(** items pulled since sink [k]'s registration was processed *)
Definition due (a : nat) (g : ghost) : list N := skipn a (g_pulled g).

(** C01 (safety part): every subscriber ever adopted has received a prefix of the items pulled
    since its adoption — in order, contiguous, nothing duplicated or skipped — and a live one
    is missing at most the single item in flight. *)
Definition c01_sink_ok (s : st) (ka : N * nat) : bool :=
  let (k, a) := ka in
  is_prefix (sent_of k (gh s)) (due a (gh s)) &&
  (if mem_n k (sinks s) then Nat.leb (List.length (due a (gh s))) (S (List.length (sent_of k (gh s)))) else true).

Definition c01_state_ok (s : st) : bool := forallb (c01_sink_ok s) (g_adopt (gh s)).

(** live subscribers are exactly: adopted, never failed *)
Definition live_ok (s : st) : bool :=
  forallb (fun k => existsb (fun ka : N * nat => fst ka =? k) (g_adopt (gh s)) && negb (mem_n k (g_failed (gh s)))) (sinks s).

(** nothing accepted is left undelivered or unflushed *)
Definition delivered_all (s : st) : bool :=
  match buffered s with Some _ => false | None => true end &&
  forallb (fun ka : N * nat => let (k, a) := ka in
                     if mem_n k (sinks s)
                     then Nat.eqb (List.length (sent_of k (gh s))) (List.length (due a (gh s))) && negb (mem_n k (g_dirty (gh s)))
                     else true) (g_adopt (gh s)).

(** C16: when the future has completed, everything was handed over and flushed *)
Definition c16_state_ok (s : st) : bool :=
  match ctl s with PDone | PReturn true => delivered_all s | _ => true end.

Definition no_panic_state (s : st) : bool := negb (panicked s).

(** * On raw traces *)
Definition pulled (tr : list ev) : list N :=
  flat_map (fun e => match e with EStream _ (SItem x) => [x] | _ => [] end) tr.

Definition sent_to (k : N) (tr : list ev) : list N :=
  flat_map (fun e => match e with ESinkSend k' x true => if k =? k' then [x] else [] | _ => [] end) tr.

Definition on_sink (k : N) (e : ev) : bool :=
  match e with
  | ESinkReady k' _ | ESinkFlush k' _ | ESinkSend k' _ _ => k =? k'
  | _ => false
  end.

Definition sink_err (k : N) (e : ev) : bool :=
  match e with
  | ESinkReady k' RErr | ESinkFlush k' RErr | ESinkSend k' _ false => k =? k'
  | _ => false
  end.

Fixpoint take_until {A} (p : A -> bool) (l : list A) : list A :=
  match l with [] => [] | x :: r => if p x then [] else x :: take_until p r end.

Fixpoint find_index (x : N) (l : list N) : option nat :=
  match l with [] => None | y :: r => if x =? y then Some O else option_map S (find_index x r) end.

Definition queued_sinks (tr : list ev) : list N :=
  flat_map (fun e => match e with EQueue (QSink k) _ => [k] | _ => [] end) tr.

(** for sink [k]: its deliveries form one contiguous run of the pulled items that starts no
    earlier than its registration was queued; if it never failed, every item pulled after the
    router first touched it has been delivered, except at most one in flight *)
Definition obs_sink_ok (tr : list ev) (k : N) : bool :=
  let p := pulled tr in
  let s := sent_to k tr in
  let base := List.length (pulled (take_until (fun e => match e with EQueue (QSink k') _ => k =? k' | _ => false end) tr)) in
  let contact := List.length (pulled (take_until (on_sink k) tr)) in
  let touched := existsb (on_sink k) tr in
  let healthy := negb (existsb (sink_err k) tr) in
  (match s with
   | [] => true
   | x0 :: _ =>
     match find_index x0 p with
     | Some i => Nat.leb base i && is_prefix s (skipn i p)
     | None => false
     end
   end) &&
  (if touched && healthy then Nat.leb (List.length p - contact) (S (List.length s)) else true).

Definition obs_c01_ok (tr : list ev) : bool := forallb (obs_sink_ok tr) (queued_sinks tr).

(** dirty flag of sink [k] at the end of the trace *)
Definition obs_dirty (k : N) (tr : list ev) : bool :=
  fold_left (fun d e => match e with
                        | ESinkSend k' _ true => if k =? k' then true else d
                        | ESinkFlush k' ROk => if k =? k' then false else d
                        | _ => d end) tr false.

(** everything pulled has reached every healthy subscriber the router has touched, and is flushed *)
Definition obs_delivered_all (tr : list ev) : bool :=
  forallb (fun k =>
    let touched := existsb (on_sink k) tr in
    let healthy := negb (existsb (sink_err k) tr) in
    let contact := List.length (pulled (take_until (on_sink k) tr)) in
    if touched && healthy
    then Nat.leb (List.length (pulled tr) - contact) (List.length (sent_to k tr)) && negb (obs_dirty k tr)
    else true) (queued_sinks tr).

(** every queued, healthy subscriber has been touched at all (its registration was processed) *)
Definition obs_all_adopted (tr : list ev) : bool :=
  forallb (fun k => existsb (on_sink k) tr) (queued_sinks tr).

Definition completed (tr : list ev) : bool := existsb (fun e => match e with EEnd true => true | _ => false end) tr.

(** C16 on traces: if the future completed, everything was delivered and flushed *)
Definition obs_c16_ok (tr : list ev) : bool := if completed tr then obs_delivered_all tr else true.

(** C09 (first half) on traces: peer calls inside one poll are bounded by the data consumed in
    it: [(3 K + J + 2) * (items + errors + ends + adopted + 3)], K / J = subscribers / publishers
    queued so far *)
Fixpoint poll_segments (tr : list ev) (cur : option (list ev)) (queued : list ev) : list (list ev * list ev) :=
  match tr with
  | [] => []
  | e :: r =>
    match e, cur with
    | EBegin, _ => poll_segments r (Some []) queued
    | EEnd _, Some seg => (rev seg, queued) :: poll_segments r None queued
    | EQueue _ _, None => poll_segments r None (e :: queued)
    | _, Some seg => poll_segments r (Some (e :: seg)) queued
    | _, None => poll_segments r None queued
    end
  end.

Definition seg_bound_ok (sq : list ev * list ev) : bool :=
  let (seg, queued) := sq in
  let k := List.length (filter (fun e => match e with EQueue (QSink _) _ => true | _ => false end) queued) in
  let j := List.length (filter (fun e => match e with EQueue (QStream _) _ => true | _ => false end) queued) in
  let data := List.length (filter (fun e => match e with EStream _ (SItem _) | EStream _ SErr | EStream _ SEnd => true | _ => false end) seg) in
  Nat.leb (List.length seg) ((3 * k + j + 2) * (data + List.length queued + 3)).

Definition obs_c09_bounded_ok (tr : list ev) : bool := forallb seg_bound_ok (poll_segments tr None []).

(** end of a drained history of a live router: every publisher stream that was polled at all gave
    Pending (or ended / failed) as its LAST answer -- the router does not park right after a stream
    handed it something without asking that stream again (it would hold no waker of it) *)
Definition last_stream_answer (j : N) (tr : list ev) : option sresp :=
  fold_left (fun acc e => match e with EStream j' r => if j =? j' then Some r else acc | _ => acc end) tr None.
Definition polled_streams (tr : list ev) : list N :=
  nodup N.eq_dec (flat_map (fun e => match e with EStream j _ => [j] | _ => [] end) tr).
Definition obs_streams_polled_to_pending (tr : list ev) : bool :=
  forallb (fun j => match last_stream_answer j tr with
                    | Some (SItem _) => false
                    | _ => true
                    end) (polled_streams tr).

(** the same per poll: a poll that returns Pending for another reason than a sink having just
    answered Pending has asked every publisher stream it polled until that stream answered Pending
    (or ended) *)
Fixpoint split_polls (tr : list ev) (cur : option (list ev)) : list (list ev) :=
  match tr with
  | [] => []
  | EBegin :: r => split_polls r (Some [])
  | EEnd false :: r => (match cur with Some c => [rev c] | None => [] end) ++ split_polls r None
  | EEnd true :: r => split_polls r None
  | e :: r => split_polls r (option_map (cons e) cur)
  end.
Definition seg_repolled (seg : list ev) : bool :=
  match rev seg with
  | ESinkReady _ RPending :: _ | ESinkFlush _ RPending :: _ => true
  | _ => forallb (fun j => match last_stream_answer j seg with Some (SItem _) => false | _ => true end)
                 (polled_streams seg)
  end.
Definition obs_repoll_ok (tr : list ev) : bool := forallb seg_repolled (split_polls tr None).

(** a publisher stream that has ended is never asked again (the StreamMap drops it) *)
Fixpoint no_poll_after_end (ended : list N) (tr : list ev) : bool :=
  match tr with
  | [] => true
  | EStream j r :: t =>
    if mem_n j ended then false
    else no_poll_after_end (match r with SEnd => j :: ended | _ => ended end) t
  | _ :: t => no_poll_after_end ended t
  end.
Definition obs_no_poll_after_end (tr : list ev) : bool := no_poll_after_end [] tr.

(** once the registration channel is closed the router takes nothing more from its publishers:
    it hands over what it holds, flushes and finishes (C16: bounded time, whatever the publishers do) *)
Fixpoint no_pull_after_close (closed : bool) (tr : list ev) : bool :=
  match tr with
  | [] => true
  | EClose _ :: t => no_pull_after_close true t
  | EStream _ _ :: t => if closed then false else no_pull_after_close closed t
  | _ :: t => no_pull_after_close closed t
  end.
Definition obs_no_pull_after_close (tr : list ev) : bool := no_pull_after_close false tr.
