(** C13 — running the translated iterator ([SeliumGen.Backoff.next]). *)
Require Import Selium.Base Selium.RustArith Selium.BackoffSpec.
Require Import SeliumGen.Backoff.
Open Scope N_scope.

Definition strategy_of (k : kind) : Strategy :=
  match k with KLinear => Linear | KConstant => Constant | KExponential f => Exponential f end.

(** [BackoffStrategy::into_iter] on a configured strategy *)
Definition into_iter (c : cfg) : BackoffStrategyIter :=
  {| bsi_strategy_type := strategy_of (c_kind c);
     bsi_state := {| bss_max_duration := c_max c; bss_max_attempts := c_max_attempts c; bss_step := c_step c |};
     bsi_current_attempt := INITIAL_ATTEMPT |}.

(** what one call sequence of [take] calls to [next()] observes: the yielded attempts, whether the
    iterator reported exhaustion ([None]) within those calls, or a panic *)
Inductive obs :=
| Obs (items : list (N * N * N)) (ended : bool)
| ObsPanic (items : list (N * N * N)) (site : string).

Fixpoint run (debug : bool) (calls : nat) (it : BackoffStrategyIter) : obs :=
  match calls with
  | O => Obs [] false
  | S k =>
    match next debug it with
    | Panic s => ObsPanic [] s
    | Val (None, _) => Obs [] true
    | Val (Some a, it') =>
      let item := (na_attempt_num a, na_duration a, na_max_attempts a) in
      match run debug k it' with
      | Obs items e => Obs (item :: items) e
      | ObsPanic items s => ObsPanic (item :: items) s
      end
    end
  end.

(** the observation the property demands for [calls] calls *)
Definition spec_obs (c : cfg) (calls : nat) : obs :=
  Obs (map (fun p => (fst p, snd p, c_max_attempts c)) (spec_prefix c calls))
      (c_max_attempts c <? N.of_nat calls).
