(** C02 / C08 / C09 / C10 / C11 / C16 — model of server/src/topic/reqrep.rs (Topic::poll) and
    server/src/sink/router.rs (Router as Sink<Frame>), in the same style as PubSub.v: a labelled
    transition system accepting the trace of calls the router makes on its mock peers.  The
    registration channel is internal (real futures::mpsc; answers are a function of what was
    queued).  HashMap iteration order inside Router::poll_* is read from the trace. *)
Require Import Selium.Base Selium.PubSub.
Open Scope N_scope.

(** * Frames, abstractly: what the router looks at *)
Inductive cidv := CKey (k : N) | CJunk (j : N).   (* value of the "cid" header: parses as usize, or not *)

Record msg := {
  m_cid : option cidv;          (* the routing tag, if present *)
  m_others : list (N * N);      (* the remaining headers, as (name id, value id), sorted by name *)
  m_body : N;                   (* payload identity *)
  m_hnone : bool;               (* headers = None (as opposed to Some of a possibly empty map) *)
}.

Inductive frame :=
| FMsg (m : msg)
| FErr (code : N)               (* Frame::Error *)
| FOther (tag : N).             (* any other frame kind *)

Definition cidv_eqb (a b : cidv) : bool :=
  match a, b with CKey x, CKey y => x =? y | CJunk x, CJunk y => x =? y | _, _ => false end.

Definition ocid_eqb (a b : option cidv) : bool :=
  match a, b with Some x, Some y => cidv_eqb x y | None, None => true | _, _ => false end.

Fixpoint hdrs_eqb (a b : list (N * N)) : bool :=
  match a, b with
  | [], [] => true
  | (k, v) :: a', (k', v') :: b' => (k =? k') && (v =? v') && hdrs_eqb a' b'
  | _, _ => false
  end.

Definition msg_eqb (a b : msg) : bool :=
  ocid_eqb (m_cid a) (m_cid b) && hdrs_eqb (m_others a) (m_others b) && (m_body a =? m_body b) &&
  Bool.eqb (m_hnone a) (m_hnone b).

Definition frame_eqb (a b : frame) : bool :=
  match a, b with
  | FMsg x, FMsg y => msg_eqb x y
  | FErr x, FErr y => x =? y
  | FOther x, FOther y => x =? y
  | _, _ => false
  end.

(** what the topic does to a request pulled from requestor [key]: overwrite the tag *)
Definition tag_req (key : N) (m : msg) : msg :=
  {| m_cid := Some (CKey key); m_others := m_others m; m_body := m_body m; m_hnone := false |}.

(** what Router::start_send forwards: the tag removed, everything else intact *)
Definition strip (m : msg) : msg :=
  {| m_cid := None; m_others := m_others m; m_body := m_body m;
     m_hnone := match m_others m with [] => true | _ => false end |}.

Definition REPLIER_ALREADY_BOUND_CODE : N := 5.

(** * Events *)
Inductive rsock := QClient (l : N) | QServer (l : N).
Inductive sop := OReady | OSend (f : frame) | OFlush | OClose.
Inductive fresp := FItem (f : frame) | FErrR | FEnd | FPending.

Inductive rev :=
| VBegin
| VEnd (ready : bool)
| VQueue (q : rsock) (woke : bool)
| VClose (woke : bool)
| VFire (s : src) (woke : bool)
| VSink (l : N) (op : sop) (r : resp3)      (* for OSend the answer is ROk or RErr *)
| VStream (l : N) (r : fresp).

(** * State *)
Inductive rpc :=
| RIdle
| RTop
| RReqReady | RReqSend
| RErrSlot | RErrReady (l : N) | RErrSend (l : N) | RErrClose (l : N)
| RHandle
| RShutFlush (visited : list N)
| RServerCheck | RServerPoll | RSrvEndFlushSrv | RSrvEndFlushRouter (visited : list N)
| RRepCheck | RRepReady (visited : list N) | RRepSend
| RStreamsStart | RStreams (start idx rem : nat)
| RDoneFlushRouter (visited : list N) | RDoneFlushSrv
| RBothCheck | RBothFlushRouter (visited : list N) | RBothFlushSrv
| RReturn (ready : bool)
| RDone
| RPanic (site : string).

(** history written by the transition function, never read by it *)
Record rghost := {
  h_reqs_pulled : list (N * msg);       (* (requestor key, request as pulled) in pull order *)
  h_reqs_sent : list (N * msg);         (* (replier label, frame handed over with start_send Ok) *)
  h_reqs_refused : list (N * msg);      (* start_send on the replier's sink answered Err *)
  h_reqs_dropped : list (option N * msg);   (* superseded in the one-request buffer, with the replier bound at that moment (None = nobody) *)
  h_reps_pulled : list frame;           (* replies pulled from the bound replier, in order *)
  h_reps_routed : list (N * msg);       (* (requestor sink label, forwarded message) with start_send Ok *)
  h_reps_failed : list (N * msg);       (* requestor sink answered Err to start_send *)
  h_reps_discarded : list (frame * N);  (* missing / unknown / malformed tag, or not a message; with next_id at that time *)
  h_bound : list N;                     (* repliers that were bound, in order *)
  h_rejected : list N;                  (* repliers that were refused *)
  h_keys : list (N * N);                (* (key, requestor label) *)
  h_used : list N;
  h_told : list N;              (* rejected repliers whose sink accepted the replier-already-bound error frame *)
  h_closed : list N;            (* rejected repliers on whose sink poll_close completed (Ok or Err) *)
  h_rej_failed : list N;        (* rejected repliers whose sink failed before the error frame could be written *)                      (* labels already queued *)
}.

Definition rghost0 : rghost :=
  {| h_reqs_pulled := []; h_reqs_sent := []; h_reqs_refused := []; h_reqs_dropped := [];
     h_reps_pulled := []; h_reps_routed := []; h_reps_failed := []; h_reps_discarded := [];
     h_bound := []; h_rejected := []; h_keys := []; h_used := []; h_told := []; h_closed := []; h_rej_failed := [] |}.

Record rst := {
  server : option N;
  rstreams : list (N * N);       (* StreamMap entries (key, label), vector order *)
  rsinks : list (N * N);         (* Router entries (key, label), a set *)
  next_id : N;
  b_req : option frame;
  b_rep : option frame;
  b_err : option (bool * N);     (* (error frame still to be sent, rejected replier's label) *)
  rqueue : list rsock;
  rclosed : bool;
  rctl : rpc;
  sp : bool;                     (* server_pending *)
  stp : bool;                    (* stream_pending *)
  rh_armed : bool;
  rarmed : list src;
  rgh : rghost;
}.

Definition rinit : rst :=
  {| server := None; rstreams := []; rsinks := []; next_id := 0; b_req := None; b_rep := None; b_err := None;
     rqueue := []; rclosed := false; rctl := RIdle; sp := false; stp := false; rh_armed := false; rarmed := [];
     rgh := rghost0 |}.

(** record updates *)
Definition u_ctl (s : rst) (c : rpc) : rst :=
  {| server := server s; rstreams := rstreams s; rsinks := rsinks s; next_id := next_id s; b_req := b_req s;
     b_rep := b_rep s; b_err := b_err s; rqueue := rqueue s; rclosed := rclosed s; rctl := c; sp := sp s; stp := stp s;
     rh_armed := rh_armed s; rarmed := rarmed s; rgh := rgh s |}.
Definition u_server (s : rst) (v : option N) : rst :=
  {| server := v; rstreams := rstreams s; rsinks := rsinks s; next_id := next_id s; b_req := b_req s;
     b_rep := b_rep s; b_err := b_err s; rqueue := rqueue s; rclosed := rclosed s; rctl := rctl s; sp := sp s; stp := stp s;
     rh_armed := rh_armed s; rarmed := rarmed s; rgh := rgh s |}.
Definition u_streams (s : rst) (v : list (N * N)) : rst :=
  {| server := server s; rstreams := v; rsinks := rsinks s; next_id := next_id s; b_req := b_req s;
     b_rep := b_rep s; b_err := b_err s; rqueue := rqueue s; rclosed := rclosed s; rctl := rctl s; sp := sp s; stp := stp s;
     rh_armed := rh_armed s; rarmed := rarmed s; rgh := rgh s |}.
Definition u_sinks (s : rst) (v : list (N * N)) : rst :=
  {| server := server s; rstreams := rstreams s; rsinks := v; next_id := next_id s; b_req := b_req s;
     b_rep := b_rep s; b_err := b_err s; rqueue := rqueue s; rclosed := rclosed s; rctl := rctl s; sp := sp s; stp := stp s;
     rh_armed := rh_armed s; rarmed := rarmed s; rgh := rgh s |}.
Definition u_next (s : rst) (v : N) : rst :=
  {| server := server s; rstreams := rstreams s; rsinks := rsinks s; next_id := v; b_req := b_req s;
     b_rep := b_rep s; b_err := b_err s; rqueue := rqueue s; rclosed := rclosed s; rctl := rctl s; sp := sp s; stp := stp s;
     rh_armed := rh_armed s; rarmed := rarmed s; rgh := rgh s |}.
Definition u_req (s : rst) (v : option frame) : rst :=
  {| server := server s; rstreams := rstreams s; rsinks := rsinks s; next_id := next_id s; b_req := v;
     b_rep := b_rep s; b_err := b_err s; rqueue := rqueue s; rclosed := rclosed s; rctl := rctl s; sp := sp s; stp := stp s;
     rh_armed := rh_armed s; rarmed := rarmed s; rgh := rgh s |}.
Definition u_rep (s : rst) (v : option frame) : rst :=
  {| server := server s; rstreams := rstreams s; rsinks := rsinks s; next_id := next_id s; b_req := b_req s;
     b_rep := v; b_err := b_err s; rqueue := rqueue s; rclosed := rclosed s; rctl := rctl s; sp := sp s; stp := stp s;
     rh_armed := rh_armed s; rarmed := rarmed s; rgh := rgh s |}.
Definition u_err (s : rst) (v : option (bool * N)) : rst :=
  {| server := server s; rstreams := rstreams s; rsinks := rsinks s; next_id := next_id s; b_req := b_req s;
     b_rep := b_rep s; b_err := v; rqueue := rqueue s; rclosed := rclosed s; rctl := rctl s; sp := sp s; stp := stp s;
     rh_armed := rh_armed s; rarmed := rarmed s; rgh := rgh s |}.
Definition u_queue (s : rst) (v : list rsock) : rst :=
  {| server := server s; rstreams := rstreams s; rsinks := rsinks s; next_id := next_id s; b_req := b_req s;
     b_rep := b_rep s; b_err := b_err s; rqueue := v; rclosed := rclosed s; rctl := rctl s; sp := sp s; stp := stp s;
     rh_armed := rh_armed s; rarmed := rarmed s; rgh := rgh s |}.
Definition u_closed (s : rst) (v : bool) : rst :=
  {| server := server s; rstreams := rstreams s; rsinks := rsinks s; next_id := next_id s; b_req := b_req s;
     b_rep := b_rep s; b_err := b_err s; rqueue := rqueue s; rclosed := v; rctl := rctl s; sp := sp s; stp := stp s;
     rh_armed := rh_armed s; rarmed := rarmed s; rgh := rgh s |}.
Definition u_flags (s : rst) (a b : bool) : rst :=
  {| server := server s; rstreams := rstreams s; rsinks := rsinks s; next_id := next_id s; b_req := b_req s;
     b_rep := b_rep s; b_err := b_err s; rqueue := rqueue s; rclosed := rclosed s; rctl := rctl s; sp := a; stp := b;
     rh_armed := rh_armed s; rarmed := rarmed s; rgh := rgh s |}.
Definition u_harmed (s : rst) (v : bool) : rst :=
  {| server := server s; rstreams := rstreams s; rsinks := rsinks s; next_id := next_id s; b_req := b_req s;
     b_rep := b_rep s; b_err := b_err s; rqueue := rqueue s; rclosed := rclosed s; rctl := rctl s; sp := sp s; stp := stp s;
     rh_armed := v; rarmed := rarmed s; rgh := rgh s |}.
Definition u_armed (s : rst) (v : list src) : rst :=
  {| server := server s; rstreams := rstreams s; rsinks := rsinks s; next_id := next_id s; b_req := b_req s;
     b_rep := b_rep s; b_err := b_err s; rqueue := rqueue s; rclosed := rclosed s; rctl := rctl s; sp := sp s; stp := stp s;
     rh_armed := rh_armed s; rarmed := v; rgh := rgh s |}.
Definition u_gh (s : rst) (v : rghost) : rst :=
  {| server := server s; rstreams := rstreams s; rsinks := rsinks s; next_id := next_id s; b_req := b_req s;
     b_rep := b_rep s; b_err := b_err s; rqueue := rqueue s; rclosed := rclosed s; rctl := rctl s; sp := sp s; stp := stp s;
     rh_armed := rh_armed s; rarmed := rarmed s; rgh := v |}.

(** ghost updates *)
Definition gh_req_pulled (k : N) (m : msg) (g : rghost) : rghost :=
  {| h_reqs_pulled := h_reqs_pulled g ++ [(k, m)]; h_reqs_sent := h_reqs_sent g; h_reqs_refused := h_reqs_refused g;
     h_reqs_dropped := h_reqs_dropped g; h_reps_pulled := h_reps_pulled g; h_reps_routed := h_reps_routed g;
     h_reps_failed := h_reps_failed g; h_reps_discarded := h_reps_discarded g; h_bound := h_bound g;
     h_rejected := h_rejected g; h_keys := h_keys g; h_used := h_used g; h_told := h_told g; h_closed := h_closed g; h_rej_failed := h_rej_failed g |}.
Definition gh_req_sent (l : N) (m : msg) (g : rghost) : rghost :=
  {| h_reqs_pulled := h_reqs_pulled g; h_reqs_sent := h_reqs_sent g ++ [(l, m)]; h_reqs_refused := h_reqs_refused g;
     h_reqs_dropped := h_reqs_dropped g; h_reps_pulled := h_reps_pulled g; h_reps_routed := h_reps_routed g;
     h_reps_failed := h_reps_failed g; h_reps_discarded := h_reps_discarded g; h_bound := h_bound g;
     h_rejected := h_rejected g; h_keys := h_keys g; h_used := h_used g; h_told := h_told g; h_closed := h_closed g; h_rej_failed := h_rej_failed g |}.
Definition gh_req_refused (l : N) (m : msg) (g : rghost) : rghost :=
  {| h_reqs_pulled := h_reqs_pulled g; h_reqs_sent := h_reqs_sent g; h_reqs_refused := h_reqs_refused g ++ [(l, m)];
     h_reqs_dropped := h_reqs_dropped g; h_reps_pulled := h_reps_pulled g; h_reps_routed := h_reps_routed g;
     h_reps_failed := h_reps_failed g; h_reps_discarded := h_reps_discarded g; h_bound := h_bound g;
     h_rejected := h_rejected g; h_keys := h_keys g; h_used := h_used g; h_told := h_told g; h_closed := h_closed g; h_rej_failed := h_rej_failed g |}.
Definition gh_req_dropped (srv : option N) (m : msg) (g : rghost) : rghost :=
  {| h_reqs_pulled := h_reqs_pulled g; h_reqs_sent := h_reqs_sent g; h_reqs_refused := h_reqs_refused g;
     h_reqs_dropped := h_reqs_dropped g ++ [(srv, m)]; h_reps_pulled := h_reps_pulled g; h_reps_routed := h_reps_routed g;
     h_reps_failed := h_reps_failed g; h_reps_discarded := h_reps_discarded g; h_bound := h_bound g;
     h_rejected := h_rejected g; h_keys := h_keys g; h_used := h_used g; h_told := h_told g; h_closed := h_closed g; h_rej_failed := h_rej_failed g |}.
Definition gh_rep_pulled (f : frame) (g : rghost) : rghost :=
  {| h_reqs_pulled := h_reqs_pulled g; h_reqs_sent := h_reqs_sent g; h_reqs_refused := h_reqs_refused g;
     h_reqs_dropped := h_reqs_dropped g; h_reps_pulled := h_reps_pulled g ++ [f]; h_reps_routed := h_reps_routed g;
     h_reps_failed := h_reps_failed g; h_reps_discarded := h_reps_discarded g; h_bound := h_bound g;
     h_rejected := h_rejected g; h_keys := h_keys g; h_used := h_used g; h_told := h_told g; h_closed := h_closed g; h_rej_failed := h_rej_failed g |}.
Definition gh_rep_routed (l : N) (m : msg) (g : rghost) : rghost :=
  {| h_reqs_pulled := h_reqs_pulled g; h_reqs_sent := h_reqs_sent g; h_reqs_refused := h_reqs_refused g;
     h_reqs_dropped := h_reqs_dropped g; h_reps_pulled := h_reps_pulled g; h_reps_routed := h_reps_routed g ++ [(l, m)];
     h_reps_failed := h_reps_failed g; h_reps_discarded := h_reps_discarded g; h_bound := h_bound g;
     h_rejected := h_rejected g; h_keys := h_keys g; h_used := h_used g; h_told := h_told g; h_closed := h_closed g; h_rej_failed := h_rej_failed g |}.
Definition gh_rep_failed (l : N) (m : msg) (g : rghost) : rghost :=
  {| h_reqs_pulled := h_reqs_pulled g; h_reqs_sent := h_reqs_sent g; h_reqs_refused := h_reqs_refused g;
     h_reqs_dropped := h_reqs_dropped g; h_reps_pulled := h_reps_pulled g; h_reps_routed := h_reps_routed g;
     h_reps_failed := h_reps_failed g ++ [(l, m)]; h_reps_discarded := h_reps_discarded g; h_bound := h_bound g;
     h_rejected := h_rejected g; h_keys := h_keys g; h_used := h_used g; h_told := h_told g; h_closed := h_closed g; h_rej_failed := h_rej_failed g |}.
Definition gh_rep_discarded (f : frame * N) (g : rghost) : rghost :=
  {| h_reqs_pulled := h_reqs_pulled g; h_reqs_sent := h_reqs_sent g; h_reqs_refused := h_reqs_refused g;
     h_reqs_dropped := h_reqs_dropped g; h_reps_pulled := h_reps_pulled g; h_reps_routed := h_reps_routed g;
     h_reps_failed := h_reps_failed g; h_reps_discarded := h_reps_discarded g ++ [f]; h_bound := h_bound g;
     h_rejected := h_rejected g; h_keys := h_keys g; h_used := h_used g; h_told := h_told g; h_closed := h_closed g; h_rej_failed := h_rej_failed g |}.
Definition gh_bound (l : N) (g : rghost) : rghost :=
  {| h_reqs_pulled := h_reqs_pulled g; h_reqs_sent := h_reqs_sent g; h_reqs_refused := h_reqs_refused g;
     h_reqs_dropped := h_reqs_dropped g; h_reps_pulled := h_reps_pulled g; h_reps_routed := h_reps_routed g;
     h_reps_failed := h_reps_failed g; h_reps_discarded := h_reps_discarded g; h_bound := h_bound g ++ [l];
     h_rejected := h_rejected g; h_keys := h_keys g; h_used := h_used g; h_told := h_told g; h_closed := h_closed g; h_rej_failed := h_rej_failed g |}.
Definition gh_rejected (l : N) (g : rghost) : rghost :=
  {| h_reqs_pulled := h_reqs_pulled g; h_reqs_sent := h_reqs_sent g; h_reqs_refused := h_reqs_refused g;
     h_reqs_dropped := h_reqs_dropped g; h_reps_pulled := h_reps_pulled g; h_reps_routed := h_reps_routed g;
     h_reps_failed := h_reps_failed g; h_reps_discarded := h_reps_discarded g; h_bound := h_bound g;
     h_rejected := h_rejected g ++ [l]; h_keys := h_keys g; h_used := h_used g; h_told := h_told g; h_closed := h_closed g; h_rej_failed := h_rej_failed g |}.
Definition gh_key (k l : N) (g : rghost) : rghost :=
  {| h_reqs_pulled := h_reqs_pulled g; h_reqs_sent := h_reqs_sent g; h_reqs_refused := h_reqs_refused g;
     h_reqs_dropped := h_reqs_dropped g; h_reps_pulled := h_reps_pulled g; h_reps_routed := h_reps_routed g;
     h_reps_failed := h_reps_failed g; h_reps_discarded := h_reps_discarded g; h_bound := h_bound g;
     h_rejected := h_rejected g; h_keys := h_keys g ++ [(k, l)]; h_used := h_used g; h_told := h_told g; h_closed := h_closed g; h_rej_failed := h_rej_failed g |}.
Definition gh_use (l : N) (g : rghost) : rghost :=
  {| h_reqs_pulled := h_reqs_pulled g; h_reqs_sent := h_reqs_sent g; h_reqs_refused := h_reqs_refused g;
     h_reqs_dropped := h_reqs_dropped g; h_reps_pulled := h_reps_pulled g; h_reps_routed := h_reps_routed g;
     h_reps_failed := h_reps_failed g; h_reps_discarded := h_reps_discarded g; h_bound := h_bound g;
     h_rejected := h_rejected g; h_keys := h_keys g; h_used := l :: h_used g; h_told := h_told g; h_closed := h_closed g; h_rej_failed := h_rej_failed g |}.

Definition gh_told (l : N) (g : rghost) : rghost :=
  {| h_reqs_pulled := h_reqs_pulled g; h_reqs_sent := h_reqs_sent g; h_reqs_refused := h_reqs_refused g;
     h_reqs_dropped := h_reqs_dropped g; h_reps_pulled := h_reps_pulled g; h_reps_routed := h_reps_routed g;
     h_reps_failed := h_reps_failed g; h_reps_discarded := h_reps_discarded g; h_bound := h_bound g;
     h_rejected := h_rejected g; h_keys := h_keys g; h_used := h_used g;
     h_told := l :: h_told g; h_closed := h_closed g; h_rej_failed := h_rej_failed g |}.
Definition gh_closed (l : N) (g : rghost) : rghost :=
  {| h_reqs_pulled := h_reqs_pulled g; h_reqs_sent := h_reqs_sent g; h_reqs_refused := h_reqs_refused g;
     h_reqs_dropped := h_reqs_dropped g; h_reps_pulled := h_reps_pulled g; h_reps_routed := h_reps_routed g;
     h_reps_failed := h_reps_failed g; h_reps_discarded := h_reps_discarded g; h_bound := h_bound g;
     h_rejected := h_rejected g; h_keys := h_keys g; h_used := h_used g;
     h_told := h_told g; h_closed := l :: h_closed g; h_rej_failed := h_rej_failed g |}.
Definition gh_rej_failed (l : N) (g : rghost) : rghost :=
  {| h_reqs_pulled := h_reqs_pulled g; h_reqs_sent := h_reqs_sent g; h_reqs_refused := h_reqs_refused g;
     h_reqs_dropped := h_reqs_dropped g; h_reps_pulled := h_reps_pulled g; h_reps_routed := h_reps_routed g;
     h_reps_failed := h_reps_failed g; h_reps_discarded := h_reps_discarded g; h_bound := h_bound g;
     h_rejected := h_rejected g; h_keys := h_keys g; h_used := h_used g;
     h_told := h_told g; h_closed := h_closed g; h_rej_failed := l :: h_rej_failed g |}.

(** * helpers *)
Definition labels (l : list (N * N)) : list N := map snd l.

Fixpoint lookup_key (k : N) (l : list (N * N)) : option N :=
  match l with
  | [] => None
  | (k', lab) :: r => if k =? k' then Some lab else lookup_key k r
  end.

Definition remove_label (lab : N) (l : list (N * N)) : list (N * N) :=
  filter (fun p => negb (snd p =? lab)) l.

Definition memb (x : N) (l : list N) : bool := existsb (N.eqb x) l.

(** all Router entries visited in this pass? *)
Definition all_visited (visited : list N) (s : rst) : bool :=
  forallb (fun lab => memb lab visited) (labels (rsinks s)).

(** Vec::swap_remove on (key, label) entries *)
Fixpoint removelast2 (l : list (N * N)) : list (N * N) :=
  match l with [] => [] | [_] => [] | x :: r => x :: removelast2 r end.
Definition swap_remove2 (idx : nat) (l : list (N * N)) : list (N * N) :=
  match nth_error l idx with
  | None => l
  | Some _ =>
    if Nat.eqb (S idx) (List.length l) then removelast2 l
    else firstn idx l ++ last l (0, 0) :: removelast2 (skipn (S idx) l)
  end.

Fixpoint index_of_label (lab : N) (l : list (N * N)) : option nat :=
  match l with
  | [] => None
  | (_, lab') :: r => if lab =? lab' then Some O else option_map S (index_of_label lab r)
  end.

Definition rlabel_of (q : rsock) : N := match q with QClient l | QServer l => l end.

(** the Router's verdict on a reply (Router::start_send before touching a sink) *)
Definition route (s : rst) (f : frame) : option (N * msg) :=
  match f with
  | FMsg m =>
    match m_cid m with
    | Some (CKey k) =>
      match lookup_key k (rsinks s) with
      | Some lab => Some (lab, strip m)
      | None => None
      end
    | _ => None
    end
  | _ => None
  end.

(** * Internal moves *)
Definition rinternal (s : rst) : option rst :=
  match rctl s with
  | RTop =>
    let s := u_flags s false false in
    match b_req s, server s with
    | Some _, Some _ => Some (u_ctl s RReqReady)
    | _, _ => Some (u_ctl s RErrSlot)
    end
  | RErrSlot =>
    match b_err s with
    | Some (true, l) => Some (u_ctl (u_err s None) (RErrReady l))     (* buffered_err.take() *)
    | Some (false, l) => Some (u_ctl (u_err s None) (RErrClose l))
    | None => Some (u_ctl s RHandle)
    end
  | RHandle =>
    match rqueue s with
    | QClient l :: q =>
      let k := next_id s in
      Some (u_ctl (u_gh (u_queue (u_next (u_sinks (u_streams s (rstreams s ++ [(k, l)])) (rsinks s ++ [(k, l)])) (k + 1)) q)
                        (gh_key k l (rgh s))) RTop)
    | QServer l :: q =>
      match server s with
      | Some _ => Some (u_ctl (u_gh (u_queue (u_err s (Some (true, l))) q) (gh_rejected l (rgh s))) RTop)
      | None => Some (u_ctl (u_gh (u_queue (u_server s (Some l)) q) (gh_bound l (rgh s))) RTop)
      end
    | [] =>
      if rclosed s then Some (u_ctl s (RShutFlush []))
      else
        let s' := u_harmed s true in
        match rstreams s, server s, b_req s, b_rep s with
        | [], None, None, None => Some (u_ctl s' (RReturn false))
        | _, _, _, _ => Some (u_ctl s' RServerCheck)
        end
    end
  | RShutFlush visited =>
    if all_visited visited s then Some (u_ctl s (RReturn true)) else None
  | RServerCheck =>
    match server s, b_rep s with
    | Some _, None => Some (u_ctl s RServerPoll)
    | None, _ => Some (u_ctl (u_flags s true (stp s)) RRepCheck)
    | Some _, Some _ => Some (u_ctl s RRepCheck)
    end
  | RSrvEndFlushRouter visited =>
    if all_visited visited s then Some (u_ctl (u_server s None) RRepCheck) else None
  | RRepCheck =>
    match b_rep s with
    | Some _ => Some (u_ctl s (RRepReady []))
    | None => Some (u_ctl s RStreamsStart)
    end
  | RRepReady visited =>
    if all_visited visited s then Some (u_ctl s RRepSend) else None
  | RRepSend =>
    match b_rep s with
    | Some f =>
      match route s f with
      | Some _ => None                       (* a sink is called: observable *)
      | None => Some (u_ctl (u_gh (u_rep s None) (gh_rep_discarded (f, next_id s) (rgh s))) RStreamsStart)
      end
    | None => Some (u_ctl s (RPanic "buffered_rep.take().unwrap()"))
    end
  | RStreamsStart =>
    match rstreams s with
    | [] => Some (u_ctl s (RDoneFlushRouter []))
    | _ => None
    end
  | RStreams start idx rem =>
    match rem with
    | O => match rstreams s with
           | [] => Some (u_ctl s (RDoneFlushRouter []))
           | _ => Some (u_ctl (u_flags s (sp s) true) RBothCheck)
           end
    | S _ => None
    end
  | RDoneFlushRouter visited =>
    if all_visited visited s then
      match server s with
      | Some _ => Some (u_ctl s RDoneFlushSrv)
      | None => Some (u_ctl (u_flags s (sp s) true) RBothCheck)
      end
    else None
  | RBothCheck =>
    if sp s && stp s then Some (u_ctl s (RBothFlushRouter [])) else Some (u_ctl s RTop)
  | RBothFlushRouter visited =>
    if all_visited visited s then
      match server s with
      | Some _ => Some (u_ctl s RBothFlushSrv)
      | None => Some (u_ctl s (RReturn false))
      end
    else None
  | _ => None
  end.

Fixpoint rsettle (fuel : nat) (s : rst) : option rst :=
  match fuel with
  | O => None
  | S k => match rinternal s with Some s' => rsettle k s' | None => Some s end
  end.

Definition rsettle_fuel (s : rst) : nat := 40 * (S (List.length (rqueue s))) + 40.
Definition rsettled (s : rst) : option rst := rsettle (rsettle_fuel s) s.

(** * Observable steps *)
Definition is_sink_ev_on (l : N) (op : sop) (e : rev) : option resp3 :=
  match e with
  | VSink l' op' r =>
    if l =? l' then
      match op, op' with
      | OReady, OReady | OFlush, OFlush | OClose, OClose => Some r
      | OSend f, OSend f' => if frame_eqb f f' then Some r else None
      | _, _ => None
      end
    else None
  | _ => None
  end.

(** one call of a Router::poll_* pass: the event's sink must be an entry not yet visited *)
Definition router_pass (s : rst) (visited : list N) (op : sop) (e : rev)
           (cont : list N -> rpc) : option rst :=
  match e with
  | VSink l op' r =>
    let same := match op, op' with OReady, OReady | OFlush, OFlush => true | _, _ => false end in
    if same && memb l (labels (rsinks s)) && negb (memb l visited) then
      match r with
      | ROk => Some (u_ctl (u_armed s (disarm (SSink l) (rarmed s))) (cont (l :: visited)))
      | RErr => Some (u_ctl (u_armed (u_sinks s (remove_label l (rsinks s))) (disarm (SSink l) (rarmed s))) (cont visited))
      | RPending => Some (u_ctl (u_armed s (arm (SSink l) (rarmed s))) (RReturn false))
      end
    else None
  | _ => None
  end.

Definition rstreams_after_end := streams_after_end.

Definition rstep_raw (s : rst) (e : rev) : option rst :=
  match rctl s with
  | RIdle =>
    match e with
    | VBegin => Some (u_ctl s RTop)
    | VQueue q woke =>
      if rclosed s || memb (rlabel_of q) (h_used (rgh s)) then None
      else if Bool.eqb woke (rh_armed s)
           then Some (u_gh (u_harmed (u_queue s (rqueue s ++ [q])) false) (gh_use (rlabel_of q) (rgh s)))
           else None
    | VClose woke => if Bool.eqb woke (rh_armed s) then Some (u_harmed (u_closed s true) false) else None
    | VFire x woke => if woke && is_armed x (rarmed s) then Some (u_armed s (disarm x (rarmed s))) else None
    | _ => None
    end
  | RReturn r =>
    match e with
    | VEnd r' => if Bool.eqb r r' then Some (u_ctl s (if r then RDone else RIdle)) else None
    | _ => None
    end
  (* buffered request -> bound replier *)
  | RReqReady =>
    match server s with
    | Some l =>
      match is_sink_ev_on l OReady e with
      | Some ROk => Some (u_ctl (u_armed s (disarm (SSink l) (rarmed s))) RReqSend)
      | Some RErr => Some (u_ctl (u_armed (u_server s None) (disarm (SSink l) (rarmed s))) RErrSlot)   (* unbind *)
      | Some RPending => Some (u_ctl (u_armed s (arm (SSink l) (rarmed s))) (RReturn false))
      | None => None
      end
    | None => None
    end
  | RReqSend =>
    match server s, b_req s with
    | Some l, Some (FMsg m) =>
      match is_sink_ev_on l (OSend (FMsg m)) e with
      | Some ROk => Some (u_ctl (u_gh (u_req s None) (gh_req_sent l m (rgh s))) RErrSlot)
      | Some RErr => Some (u_ctl (u_gh (u_req s None) (gh_req_refused l m (rgh s))) RErrSlot)
      | _ => None
      end
    | _, _ => None
    end
  (* rejected replier: error frame, then close *)
  | RErrReady l =>
    match is_sink_ev_on l OReady e with
    | Some ROk => Some (u_ctl (u_armed s (disarm (SSink l) (rarmed s))) (RErrSend l))
    | Some RErr => Some (u_ctl (u_gh (u_armed s (disarm (SSink l) (rarmed s))) (gh_rej_failed l (rgh s))) RErrSlot)          (* dropped *)
    | Some RPending => Some (u_ctl (u_armed (u_err s (Some (true, l))) (arm (SSink l) (rarmed s))) (RReturn false))
    | None => None
    end
  | RErrSend l =>
    match is_sink_ev_on l (OSend (FErr REPLIER_ALREADY_BOUND_CODE)) e with
    | Some ROk => Some (u_ctl (u_gh (u_err s (Some (false, l))) (gh_told l (rgh s))) RErrSlot)
    | Some RErr => Some (u_ctl (u_gh s (gh_rej_failed l (rgh s))) RErrSlot)
    | _ => None
    end
  | RErrClose l =>
    match is_sink_ev_on l OClose e with
    | Some ROk | Some RErr => Some (u_ctl (u_gh (u_armed s (disarm (SSink l) (rarmed s))) (gh_closed l (rgh s))) RErrSlot)
    | Some RPending => Some (u_ctl (u_armed (u_err s (Some (false, l))) (arm (SSink l) (rarmed s))) (RReturn false))
    | None => None
    end
  (* shutdown *)
  | RShutFlush visited => router_pass s visited OFlush e RShutFlush
  (* bound replier's stream *)
  | RServerPoll =>
    match server s, e with
    | Some l, VStream l' r =>
      if l =? l' then
        match r with
        | FItem f => Some (u_ctl (u_gh (u_armed (u_rep s (Some f)) (disarm (SStream l) (rarmed s))) (gh_rep_pulled f (rgh s))) RRepCheck)
        | FErrR => Some (u_ctl (u_armed s (disarm (SStream l) (rarmed s))) RRepCheck)
        | FEnd => Some (u_ctl (u_armed s (disarm (SStream l) (rarmed s))) RSrvEndFlushSrv)
        | FPending => Some (u_ctl (u_armed (u_flags s true (stp s)) (arm (SStream l) (rarmed s))) RRepCheck)
        end
      else None
    | _, _ => None
    end
  | RSrvEndFlushSrv =>
    match server s with
    | Some l =>
      match is_sink_ev_on l OFlush e with
      | Some ROk | Some RErr => Some (u_ctl (u_armed s (disarm (SSink l) (rarmed s))) (RSrvEndFlushRouter []))
      | Some RPending => Some (u_ctl (u_armed s (arm (SSink l) (rarmed s))) (RReturn false))
      | None => None
      end
    | None => None
    end
  | RSrvEndFlushRouter visited => router_pass s visited OFlush e RSrvEndFlushRouter
  (* buffered reply -> requestors *)
  | RRepReady visited => router_pass s visited OReady e RRepReady
  | RRepSend =>
    match b_rep s with
    | Some f =>
      match route s f with
      | Some (lab, m') =>
        match is_sink_ev_on lab (OSend (FMsg m')) e with
        | Some ROk => Some (u_ctl (u_gh (u_rep s None) (gh_rep_routed lab m' (rgh s))) RStreamsStart)
        | Some RErr => Some (u_ctl (u_gh (u_armed (u_sinks (u_rep s None) (remove_label lab (rsinks s))) (disarm (SSink lab) (rarmed s)))
                                         (gh_rep_failed lab m' (rgh s))) RStreamsStart)
        | _ => None
        end
      | None => None
      end
    | None => None
    end
  (* requestor streams (StreamMap) *)
  | RStreamsStart =>
    match e with
    | VStream l _ =>
      match index_of_label l (rstreams s) with
      | Some start => Some (u_ctl s (RStreams start start (List.length (rstreams s))))
      | None => None
      end
    | _ => None
    end
  | RStreams start idx (S rem) =>
    match e, nth_error (rstreams s) idx with
    | VStream l r, Some (key, l') =>
      if l =? l' then
        let len := List.length (rstreams s) in
        match r with
        | FItem (FMsg m) =>
          let g := gh_req_pulled key m (rgh s) in
          let g := match b_req s with Some (FMsg old) => gh_req_dropped (server s) old g | _ => g end in
          Some (u_ctl (u_gh (u_armed (u_req s (Some (FMsg (tag_req key m)))) (disarm (SStream l) (rarmed s))) g) RBothCheck)
        | FItem _ => Some (u_ctl (u_armed s (disarm (SStream l) (rarmed s))) RBothCheck)
        | FErrR => Some (u_ctl (u_armed s (disarm (SStream l) (rarmed s))) RBothCheck)
        | FEnd =>
          let l2 := swap_remove2 idx (rstreams s) in
          Some (u_ctl (u_armed (u_streams s l2) (disarm (SStream l) (rarmed s)))
                      (RStreams start (rstreams_after_end start idx (List.length l2)) rem))
        | FPending => Some (u_ctl (u_armed s (arm (SStream l) (rarmed s))) (RStreams start (Nat.modulo (S idx) len) rem))
        end
      else None
    | _, _ => None
    end
  (* all requestor streams finished: flush *)
  | RDoneFlushRouter visited => router_pass s visited OFlush e RDoneFlushRouter
  | RDoneFlushSrv =>
    match server s with
    | Some l =>
      match is_sink_ev_on l OFlush e with
      | Some ROk => Some (u_ctl (u_flags (u_armed s (disarm (SSink l) (rarmed s))) (sp s) true) RBothCheck)
      | Some RErr => Some (u_ctl (u_flags (u_armed (u_server s None) (disarm (SSink l) (rarmed s))) (sp s) true) RBothCheck)
      | Some RPending => Some (u_ctl (u_armed s (arm (SSink l) (rarmed s))) (RReturn false))
      | None => None
      end
    | None => None
    end
  (* both sides pending: flush and park *)
  | RBothFlushRouter visited => router_pass s visited OFlush e RBothFlushRouter
  | RBothFlushSrv =>
    match server s with
    | Some l =>
      match is_sink_ev_on l OFlush e with
      | Some ROk => Some (u_ctl (u_armed s (disarm (SSink l) (rarmed s))) (RReturn false))
      | Some RErr => Some (u_ctl (u_armed (u_server s None) (disarm (SSink l) (rarmed s))) (RReturn false))
      | Some RPending => Some (u_ctl (u_armed s (arm (SSink l) (rarmed s))) (RReturn false))
      | None => None
      end
    | None => None
    end
  | _ => None
  end.

Definition rstep (s : rst) (e : rev) : option rst :=
  obind (rsettled s) (fun s0 =>
  match rctl s0, e with
  | RStreamsStart, VStream _ _ => obind (rstep_raw s0 e) (fun s1 => obind (rstep_raw s1 e) rsettled)
  | _, _ => obind (rstep_raw s0 e) rsettled
  end).

Fixpoint rrun_count (s : rst) (tr : list rev) (n : nat) : nat * rst :=
  match tr with
  | [] => (n, s)
  | e :: r => match rstep s e with Some s' => rrun_count s' r (S n) | None => (n, s) end
  end.

Fixpoint rrun (s : rst) (tr : list rev) : option rst :=
  match tr with
  | [] => Some s
  | e :: r => match rstep s e with Some s' => rrun s' r | None => None end
  end.

Definition rpanicked (s : rst) : bool := match rctl s with RPanic _ => true | _ => false end.
