(** Rust's u64 / usize arithmetic as used by the translated batch codec (debug build: + - * panic on
    overflow, / panics on zero; `as u64` / `as usize` are the identity on a 64-bit target).
    Operands are themselves outcomes, so that a translated expression composes. *)
Require Import Selium.Base.
Open Scope N_scope.

Definition BA_MOD : N := 2 ^ 64.

Definition ba_add (a b : outcome N) : outcome N :=
  do x <- a; do y <- b; if x + y <? BA_MOD then Val (x + y) else Panic "attempt to add with overflow".
Definition ba_sub (a b : outcome N) : outcome N :=
  do x <- a; do y <- b; if y <=? x then Val (x - y) else Panic "attempt to subtract with overflow".
Definition ba_mul (a b : outcome N) : outcome N :=
  do x <- a; do y <- b; if x * y <? BA_MOD then Val (x * y) else Panic "attempt to multiply with overflow".
Definition ba_div (a b : outcome N) : outcome N :=
  do x <- a; do y <- b; if y =? 0 then Panic "attempt to divide by zero" else Val (x / y).
Definition ba_min (a b : outcome N) : outcome N := do x <- a; do y <- b; Val (N.min x y).
Definition ba_max (a b : outcome N) : outcome N := do x <- a; do y <- b; Val (N.max x y).
Definition ba_satsub (a b : outcome N) : outcome N := do x <- a; do y <- b; Val (x - y).

Definition ba_lt (a b : outcome N) : outcome bool := do x <- a; do y <- b; Val (x <? y).
Definition ba_le (a b : outcome N) : outcome bool := do x <- a; do y <- b; Val (x <=? y).
Definition ba_gt (a b : outcome N) : outcome bool := do x <- a; do y <- b; Val (y <? x).
Definition ba_ge (a b : outcome N) : outcome bool := do x <- a; do y <- b; Val (y <=? x).
Definition ba_eq (a b : outcome N) : outcome bool := do x <- a; do y <- b; Val (x =? y).
Definition ba_ne (a b : outcome N) : outcome bool := do x <- a; do y <- b; Val (negb (x =? y)).
Definition ba_and (a b : outcome bool) : outcome bool := do x <- a; if x then b else Val false.
Definition ba_or (a b : outcome bool) : outcome bool := do x <- a; if x then Val true else b.
Definition ba_not (a : outcome bool) : outcome bool := do x <- a; Val (negb x).

Definition out_or {A} (d : A) (o : outcome A) : A := match o with Val a => a | Panic _ => d end.
