(** C09 — property theorems (statements and [exact]s only).
    PARTIAL: proved is the second half for the pub/sub router in the form "a poll in which no
    subscriber answers Pending leaves nothing undelivered or unflushed, from every reachable
    state" together with acceptance of the wake-up bits: the model predicts, for every
    environment action, whether the router task is woken, and every implementation trace must
    agree (the channel's waker is armed only by a Pending answer and consumed by a send or
    close).  The first half (bounded work per poll) is a predicate on implementation traces
    (obs_c09_bounded_ok / obs_rr_c09_bounded_ok) plus the harness's spin detector. *)
Require Import Selium.Base Selium.PubSub Selium.PubSubSpec Selium.P_PubSub Selium.P_PubSubPark.
Require Import Selium.ReqRep Selium.ReqRepSpec Selium.P_ReqRep Selium.P_ReqRepOrder.
Open Scope N_scope.

Theorem c09_pubsub_no_sleep_on_undone_work : forall tr0 s0 seg s1 r,
  run init tr0 = Some s0 -> ctl s0 = PIdle ->
  forallb (fun e => negb (sink_pending e)) seg = true ->
  run s0 (EBegin :: seg) = Some s1 -> ctl s1 = PReturn r ->
  delivered_all s1 = true.
Proof.
  intros tr0 s0 seg s1 r H0. apply quiescent_poll. exact (inv_run tr0 _ _ inv_init H0).
Qed.
Print Assumptions c09_pubsub_no_sleep_on_undone_work.

(** neither router ever returns Pending without a registered waker: whenever a poll is about to
    return Pending, a peer sink holds the task's waker (the router is blocked on that sink), or
    the registration channel does (it was polled to Pending in this very poll).  This is what the
    repaired defect D20 violated: parking on publisher / requestor streams alone, channel unarmed. *)
Theorem c09_pubsub_never_parks_unarmed : forall tr s, run init tr = Some s -> ctl s = PReturn false ->
  (exists k, is_armed (SSink k) (armed s) = true) \/ h_armed s = true.
Proof. exact ps_never_parks_unarmed. Qed.
Print Assumptions c09_pubsub_never_parks_unarmed.

Theorem c09_reqrep_never_parks_unarmed : forall tr s, rrun rinit tr = Some s -> rctl s = RReturn false ->
  (exists l, is_armed (SSink l) (rarmed s) = true) \/ rh_armed s = true.
Proof. exact rr_never_parks_unarmed. Qed.
Print Assumptions c09_reqrep_never_parks_unarmed.

(** "never sleeps on undone work", the buffers: when a poll returns Pending in a step in which no
    sink answered Pending (so the router is parking on its streams and the registration channel,
    not waiting for a peer to accept data), nothing it could still act on is buffered.
    pub/sub: the message pulled from a publisher has been handed to the subscribers *)
Theorem c09_pubsub_parks_only_when_drained : forall tr s e s',
  run init tr = Some s -> step s e = Some s' -> ctl s' = PReturn false -> sink_pending e = false ->
  buffered s' = None.
Proof. exact ps_parks_only_when_drained. Qed.
Print Assumptions c09_pubsub_parks_only_when_drained.

(** request/reply: no reply and no rejection is waiting, and a request is waiting only if no
    replier is bound to take it *)
Theorem c09_reqrep_parks_only_when_drained : forall tr s e s',
  rrun rinit tr = Some s -> rstep s e = Some s' -> rctl s' = RReturn false -> rr_pending_answer e = false ->
  b_rep s' = None /\ b_err s' = None /\ (b_req s' = None \/ server s' = None).
Proof. exact rr_parks_only_when_drained. Qed.
Print Assumptions c09_reqrep_parks_only_when_drained.
