(** C09 — property theorems (statements and [exact]s only).
    PARTIAL: proved is the second half for the pub/sub router in the form "a poll in which no
    subscriber answers Pending leaves nothing undelivered or unflushed, from every reachable
    state" together with acceptance of the wake-up bits: the model predicts, for every
    environment action, whether the router task is woken, and every implementation trace must
    agree (the channel's waker is armed only by a Pending answer and consumed by a send or
    close).  The first half (bounded work per poll) is proved for both routers as a potential
    argument over the model's control points: peer calls inside one poll are bounded by the data
    handed over in it, and the internal moves between two peer calls always terminate
    (P_PubSubWork.v, P_ReqRepWork.v); the predicates obs_c09_bounded_ok / obs_rr_c09_bounded_ok
    and the harness's spin detector check the same on implementation traces. *)
Require Import Selium.Base Selium.PubSub Selium.PubSubSpec Selium.P_PubSub Selium.P_PubSubPark.
Require Import Selium.ReqRep Selium.ReqRepSpec Selium.P_ReqRep Selium.P_ReqRepOrder.
Require Import Selium.P_PubSubWork Selium.P_ReqRepWork Selium.P_PubSubPass Selium.P_ReqRepPass.
Open Scope N_scope.

Theorem c09_pubsub_no_sleep_on_undone_work : forall tr0 s0 seg s1 r,
  run init tr0 = Some s0 -> ctl s0 = PIdle ->
  forallb (fun e => negb (sink_pending e)) seg = true ->
  run s0 (EBegin :: seg) = Some s1 -> ctl s1 = PReturn r ->
  delivered_all s1 = true.
Proof.
  intros tr0 s0 seg s1 r H0. apply quiescent_poll. exact (inv_run tr0 _ _ inv_init H0).
Qed.
Print Assumptions c09_pubsub_no_sleep_on_undone_work.

(** neither router ever returns Pending without a registered waker: whenever a poll is about to
    return Pending, a peer sink holds the task's waker (the router is blocked on that sink), or
    the registration channel does (it was polled to Pending in this very poll).  This is what the
    repaired defect D20 violated: parking on publisher / requestor streams alone, channel unarmed. *)
Theorem c09_pubsub_never_parks_unarmed : forall tr s, run init tr = Some s -> ctl s = PReturn false ->
  (exists k, is_armed (SSink k) (armed s) = true) \/ h_armed s = true.
Proof. exact ps_never_parks_unarmed. Qed.
Print Assumptions c09_pubsub_never_parks_unarmed.

Theorem c09_reqrep_never_parks_unarmed : forall tr s, rrun rinit tr = Some s -> rctl s = RReturn false ->
  (exists l, is_armed (SSink l) (rarmed s) = true) \/ rh_armed s = true.
Proof. exact rr_never_parks_unarmed. Qed.
Print Assumptions c09_reqrep_never_parks_unarmed.

(** "never sleeps on undone work", the buffers: when a poll returns Pending in a step in which no
    sink answered Pending (so the router is parking on its streams and the registration channel,
    not waiting for a peer to accept data), nothing it could still act on is buffered.
    pub/sub: the message pulled from a publisher has been handed to the subscribers *)
Theorem c09_pubsub_parks_only_when_drained : forall tr s e s',
  run init tr = Some s -> step s e = Some s' -> ctl s' = PReturn false -> sink_pending e = false ->
  buffered s' = None.
Proof. exact ps_parks_only_when_drained. Qed.
Print Assumptions c09_pubsub_parks_only_when_drained.

(** request/reply: no reply and no rejection is waiting, and a request is waiting only if no
    replier is bound to take it *)
Theorem c09_reqrep_parks_only_when_drained : forall tr s e s',
  rrun rinit tr = Some s -> rstep s e = Some s' -> rctl s' = RReturn false -> rr_pending_answer e = false ->
  b_rep s' = None /\ b_err s' = None /\ (b_req s' = None \/ server s' = None).
Proof. exact rr_parks_only_when_drained. Qed.
Print Assumptions c09_reqrep_parks_only_when_drained.

(** "performs work bounded by the data currently available and then yields", pub/sub: inside one
    poll (from [EBegin], before the poll returns) the router calls its peers at most
    [(data + queued + 1) * cap] times: [data] = calls that handed it an item or an invalid frame,
    [queued] = registrations waiting in the channel, [cap = 4 * subscribers + publishers +
    5 * queued + 1] when the poll starts; from ANY state between two polls, with any mix of
    publishers and subscribers (including none) *)
Theorem c09_pubsub_work_bounded : forall s0 seg s1,
  ctl s0 = PIdle -> forallb peer_call seg = true -> run s0 (EBegin :: seg) = Some s1 ->
  (List.length seg <= (data_calls seg + nQ s0 + 1) * cap s0)%nat.
Proof. exact ps_poll_work_bounded. Qed.
Print Assumptions c09_pubsub_work_bounded.

(** the same for the request/reply router ([data] also counts the end of a stream; [cap = 6 *
    requestor sinks + 2 * requestor streams + 8 * queued + 19]); with no replier bound, or no
    requestor stream, the loop still leaves: this is what the [server_pending] / [stream_pending]
    flags must guarantee *)
Theorem c09_reqrep_work_bounded : forall s0 seg s1,
  rctl s0 = RIdle -> forallb rpeer_call seg = true -> rrun s0 (VBegin :: seg) = Some s1 ->
  (List.length seg <= (rdata_calls seg + rQ s0 + 1) * rcap s0)%nat.
Proof. exact rr_poll_work_bounded. Qed.
Print Assumptions c09_reqrep_work_bounded.

(** "never loops indefinitely inside one step": between two peer calls the loop makes finitely many
    moves, from every state (the internal moves of the model always reach a peer call or a return
    within the fuel [settled] grants; no trace is ever rejected for lack of fuel) *)
Theorem c09_pubsub_never_spins : forall s, exists s', settled s = Some s'.
Proof. exact ps_settled_total. Qed.
Print Assumptions c09_pubsub_never_spins.

Theorem c09_reqrep_never_spins : forall s, exists s', rsettled s = Some s'.
Proof. exact rr_settled_total. Qed.
Print Assumptions c09_reqrep_never_spins.

(** "whenever it yields ... it has arranged to be woken", the publisher side of the pub/sub router:
    whenever a poll is about to return Pending, either it is blocked on a subscriber sink that
    holds the task's waker, or EVERY publisher stream in the map holds it -- each was asked in this
    poll and answered Pending last (tokio's StreamMap pass: a cyclic sweep from a start index over
    a vector that shrinks by swap_remove under the cursor) *)
Theorem c09_pubsub_parks_armed_everywhere : forall tr s,
  run init tr = Some s -> ctl s = PReturn false ->
  (forall j, In j (streams s) -> is_armed (SStream j) (armed s) = true)
  \/ (exists k, is_armed (SSink k) (armed s) = true).
Proof. exact ps_parks_armed_everywhere. Qed.
Print Assumptions c09_pubsub_parks_armed_everywhere.

(** the same for the request/reply router: blocked on a sink that holds the waker, or every requestor
    stream holds it AND so does the bound replier's stream (if a replier is bound): this is what the
    [server_pending] / [stream_pending] flags have to mean whenever the loop leaves through them *)
Theorem c09_reqrep_parks_armed_everywhere : forall tr s,
  rrun rinit tr = Some s -> rctl s = RReturn false ->
  (exists l, is_armed (SSink l) (rarmed s) = true)
  \/ ((forall l, In l (labels (rstreams s)) -> is_armed (SStream l) (rarmed s) = true)
      /\ match server s with Some l => is_armed (SStream l) (rarmed s) = true | None => True end).
Proof. exact rr_parks_armed_everywhere. Qed.
Print Assumptions c09_reqrep_parks_armed_everywhere.

(** the bounds are not vacuous: a poll of a router with two subscribers and a publisher that hands
    over two items makes 11 peer calls, bound (2 + 0 + 1) * 10 *)
Example c09_work_example :
  exists s0 s1 seg,
    run init [EBegin; EEnd false; EQueue (QSink 0) true; EQueue (QSink 1) false; EQueue (QStream 0) false;
              EBegin; EStream 0 SPending; ESinkFlush 0 ROk; ESinkFlush 1 ROk; EEnd false] = Some s0
    /\ ctl s0 = PIdle
    /\ seg = [EStream 0 (SItem 7); ESinkReady 0 ROk; ESinkReady 1 ROk; ESinkSend 0 7 true; ESinkSend 1 7 true;
              EStream 0 (SItem 8); ESinkReady 0 ROk; ESinkReady 1 ROk; ESinkSend 0 8 true; ESinkSend 1 8 true;
              EStream 0 SPending]
    /\ run s0 (EBegin :: seg) = Some s1
    /\ (data_calls seg = 2 /\ nQ s0 = 0 /\ cap s0 = 10)%nat.
Proof. do 3 eexists. split; [vm_compute; reflexivity|]. vm_compute. repeat split; reflexivity. Qed.
