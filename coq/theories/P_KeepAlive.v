(** C12 — proofs. *)
Require Import Selium.Base Selium.KeepAlive.
Require Import SeliumGen.KeepAliveFacts.
Open Scope N_scope.

(** every outage starts with the full budget, whatever happened before *)
Theorem ps_fresh_budget budget hist :
  fold_left (ps_step budget) hist Connected = Connected ->
  ps_step budget (fold_left (ps_step budget) hist Connected) KLost = next_attempt budget.
Proof. intros ->. reflexivity. Qed.

(** [n] consecutive recoverable failures after a loss *)
Fixpoint fails (n : nat) (e : err_class) : list kev := match n with O => [] | S k => KAttemptErr e :: fails k e end.

Lemma ps_fails_exhaust b e : is_recoverable_error e = true ->
  forall k, fold_left (ps_step b) (fails k e) (next_attempt k) = Exhausted.
Proof.
  intros He. induction k as [|k IH]; [reflexivity|].
  cbn [fails fold_left next_attempt ps_step]. rewrite He. exact IH.
Qed.

Theorem ps_exhaustion budget e :
  is_recoverable_error e = true ->
  fold_left (ps_step budget) (KLost :: fails budget e) Connected = Exhausted.
Proof. intros He. cbn [fold_left ps_step]. now apply ps_fails_exhaust. Qed.

Theorem ps_fewer_failures_then_ok budget e j :
  is_recoverable_error e = true -> (j < budget)%nat ->
  fold_left (ps_step budget) (KLost :: fails j e ++ [KAttemptOk]) Connected = Connected.
Proof.
  intros He Hj. cbn [fold_left ps_step].
  assert (H : forall k j, (j < k)%nat -> fold_left (ps_step budget) (fails j e ++ [KAttemptOk]) (next_attempt k) = Connected).
  { induction k as [|k IH]; intros j0 Hj0; [lia|].
    destruct j0 as [|j0]; cbn [fails app fold_left next_attempt ps_step]; [reflexivity|].
    rewrite He. apply IH. lia. }
  now apply H.
Qed.

Theorem ps_exhausted_absorbing budget hist : fold_left (ps_step budget) hist Exhausted = Exhausted.
Proof. induction hist as [|e h IH]; [reflexivity|]. cbn [fold_left]. destruct e; exact IH. Qed.

Theorem ps_unrecoverable_immediate budget k e :
  is_recoverable_error e = false -> ps_step budget (Disconnected k) (KAttemptErr e) = Failed e.
Proof. intros He. cbn. now rewrite He. Qed.

(** req/rep: a lost stream renews the budget whatever the history *)
Theorem rr_fresh_budget budget s : r_status s = Connected -> rr_step budget s RLost = rr_try budget.
Proof. intros H. unfold rr_step. now rewrite H. Qed.

Fixpoint rfails (n : nat) (e : err_class) : list rkev := match n with O => [] | S k => RAttemptErr e :: rfails k e end.

Theorem rr_exhaustion budget e :
  is_recoverable_error e = true ->
  r_status (fold_left (rr_step budget) (RLost :: rfails budget e) (r_init budget)) = Exhausted.
Proof.
  intros He. cbn [fold_left r_init rr_step r_status].
  assert (H : forall k, r_status (fold_left (rr_step budget) (rfails k e) (rr_try k)) = Exhausted).
  { induction k as [|k IH]; [reflexivity|].
    cbn [rfails fold_left rr_try rr_step r_status]. rewrite He. exact IH. }
  apply H.
Qed.

(** being acknowledged and then refused (another replier holds the topic) consumes the budget of
    the current outage: after [budget] such rounds the replier reports too-many-retries *)
Fixpoint refusals (n : nat) : list rkev :=
  match n with O => [] | S k => RAttemptOk :: RRefused REPLIER_ALREADY_BOUND :: refusals k end.

Theorem rr_squatted_topic_exhausts budget :
  r_status (fold_left (rr_step budget) (RLost :: refusals budget) (r_init budget)) = Exhausted.
Proof.
  cbn [fold_left r_init rr_step r_status].
  assert (H : forall k, r_status (fold_left (rr_step budget) (refusals k) (rr_try k)) = Exhausted).
  { induction k as [|k IH]; [reflexivity|].
    cbn [refusals fold_left rr_try rr_step r_status r_iter].
    change (is_bind_error REPLIER_ALREADY_BOUND) with true. cbn iota. exact IH. }
  apply H.
Qed.

Theorem rr_unrecoverable_immediate budget s k e :
  r_status s = Disconnected k -> is_recoverable_error e = false ->
  r_status (rr_step budget s (RAttemptErr e)) = Failed e.
Proof. intros Hs He. unfold rr_step. rewrite Hs, He. reflexivity. Qed.

(** the client treats replier-already-bound as retryable, connection loss as retryable,
    everything else not *)
Theorem classification :
  is_recoverable_error (EOpenStream REPLIER_ALREADY_BOUND) = true /\
  is_recoverable_error (EOpenStream INVALID_TOPIC_NAME) = false /\
  is_recoverable_error EQuicConnection = true /\
  is_recoverable_error (EIo IoNotConnected) = true /\ is_recoverable_error (EIo IoConnectionReset) = true /\
  is_recoverable_error (EIo IoOther) = false /\ is_recoverable_error EOther = false.
Proof. repeat split; reflexivity. Qed.
