(** C03 — property theorems (statements and [exact]s only).  The publisher may be used in any
    way (send / feed / flush in any order), the batching interval may expire at any moment
    ([expired] booleans are adversarial), batching may be off or on with any batch size, the
    codec and the compression pair are arbitrary functions satisfying their round-trip
    contract (C14).  The server forwards frames unchanged and in order (C01) and QUIC delivers
    them in order (trusted). *)
Require Import Selium.Base Selium.Bytes Selium.Wire Selium.ClientPubSub Selium.P_ClientPubSub.
Open Scope N_scope.

Theorem c03_fidelity :
  forall (item : Type) (encode : item -> bytes) (decode : bytes -> option item)
         (compress : bytes -> bytes) (decompress : bytes -> option bytes),
  (forall x, decode (encode x) = Some x) ->
  (forall b, decompress (compress b) = Some b) ->
  (forall x, blen (encode x) < 2 ^ 64) ->
  forall (batching : option N) (ops : list (pop item)),
  N.of_nat (List.length ops) < 2 ^ 64 ->
  subscribe item decode decompress (publish item encode compress batching ops) = SubItems item (accepted item ops).
Proof. exact fidelity. Qed.
Print Assumptions c03_fidelity.

(** finish() leaves nothing in the framed writer's buffer nor, with batching, in the batch *)
Theorem c03_finish_leaves_nothing :
  forall (compress : bytes -> bytes) (s0 : pstate),
  let s := p_finish compress s0 in
  p_buffered s = [] /\ (p_batching s0 <> None -> p_batch s = []).
Proof. exact finish_leaves_nothing. Qed.
Print Assumptions c03_finish_leaves_nothing.

(** Non-vacuity: batch size 2, five items fed without flushing, identity codec and compression *)
Example c03_example :
  subscribe bytes (fun b => Some b) (fun b => Some b)
    (publish bytes (fun b => b) (fun b => b) (Some 2)
       [OpFeed bytes [1] false; OpFeed bytes [2] false; OpFeed bytes [3] true; OpFeed bytes [] false; OpSend bytes [5; 5] false])
  = SubItems bytes [[1]; [2]; [3]; []; [5; 5]].
Proof. vm_compute. reflexivity. Qed.
