(** C11 — property theorems (statements and [exact]s only).
    The program these theorems talk about is gen/ServerFacts.v [handle_stream_prog], translated
    from server/src/server.rs on every run; [ho tb e] runs it for one registration that finds the
    table [tb] under the lock (the locked section is atomic: Props_C17.c17_table_section_atomic).
    The router half ("no frame sequence terminates a router") is Props_C11_router.v.
    PARTIAL: the encoding of replies on the wire and QUIC stream closure are observed on the real
    server (net engine `srv`), not modelled. *)
Require Import Selium.Base Selium.ServerLang Selium.Server SeliumGen.ServerFacts SeliumGen.KeepAliveFacts Selium.ServerRun Selium.P_Server.
Open Scope N_scope.

(** every first frame: a frame without a topic is dropped without any reply (never Ok); a register
    frame is served in the messaging pattern it asked for, or refused with one of two codes *)
Theorem c11_every_open_answered : forall tb k n v,
  (is_header header_kinds k = false /\ ff tb k n v = (ClosedNoReply, tb))
  \/ (is_header header_kinds k = true /\
      (fst (ff tb k n v) = Served (wants_of k) \/ fst (ff tb k n v) = Refused INVALID_TOPIC_NAME
       \/ fst (ff tb k n v) = Refused TOPIC_KIND_MISMATCH)).
Proof. exact first_frame_cases. Qed.
Print Assumptions c11_every_open_answered.

Theorem c11_register_frames_are_the_headers : forall k,
  is_header header_kinds k = true <-> (k = KRegPub \/ k = KRegSub \/ k = KRegRep \/ k = KRegReq).
Proof. exact header_kinds_are_registers. Qed.
Print Assumptions c11_register_frames_are_the_headers.

(** the four cases in full: what is answered, what happens to the table, lock released, no panic;
    [Served k] means: exactly one reply, Ok, and the socket is in the queue of a router of kind k *)
Theorem c11_open_cases : forall tb e,
  e_reads e = true ->
  open_case tb e (outcome_of (ho tb e)) (sh_table (fst (ho tb e)))
  /\ sh_lock (fst (ho tb e)) = None /\ p_panic (snd (ho tb e)) = false.
Proof. exact open_spec. Qed.
Print Assumptions c11_open_cases.

(** no sequence of registrations changes the kind of an existing topic or makes it refuse the
    registrations it is there for *)
Theorem c11_topic_stays_usable : forall tb es n k,
  Forall (fun e => e_reads e = true) es -> lookup tb n = Some k ->
  lookup (opens tb es) n = Some k
  /\ outcome_of (ho (opens tb es) {| e_name := n; e_valid := true; e_wants := k; e_reads := true |}) = Served k.
Proof.
  intros tb es n k Hall Hl. split; [now apply kind_stable|]. apply served_when_bound. now apply kind_stable.
Qed.
Print Assumptions c11_topic_stays_usable.

(** the client library reports everything but Ok as an error, with the server's code *)
Theorem c11_client_reports : forall x,
  (exists r, client_reads handle_reply_arms x = Some r)
  /\ (client_reads handle_reply_arms x = Some COk <-> x = PFrameOk)
  /\ client_reads handle_reply_arms PFrameError = Some CErrPayloadCode
  /\ client_reads handle_reply_arms PEnd = Some (CErrCode STREAM_CLOSED_PREMATURELY).
Proof.
  intros x. split; [apply client_reads_total|]. split; [apply client_ok_only_on_ok|].
  split; [exact client_reports_code|exact client_reports_eof].
Qed.
Print Assumptions c11_client_reports.

(** Non-vacuity: a requestor on a pub/sub topic is refused; a subscriber on it is served; the
    topic is still pub/sub afterwards *)
Example c11_example :
  ff [(7, TPubSub)] KRegReq 7 true = (Refused TOPIC_KIND_MISMATCH, [(7, TPubSub)])
  /\ ff [(7, TPubSub)] KRegSub 7 true = (Served TPubSub, [(7, TPubSub)])
  /\ ff [(7, TPubSub)] KMsg 7 true = (ClosedNoReply, [(7, TPubSub)])
  /\ ff [] KRegRep 7 true = (Served TReqRep, [(7, TReqRep)]).
Proof. vm_compute. repeat split; reflexivity. Qed.
