(** C04 — property theorems (statements and [exact]s only).  Events of one requestor (with all
    its clones: they share the id counter and the pending map) in ANY order: calls, replies
    pulled by the background reader (with any id, or none), timer expiries.
    Hypothesis stated, not hidden: call names are unique and fewer than 2^32 calls are made on
    one requestor (the u32 id counter wraps after that: the wrap is in the model).  Separate
    requestor streams have separate counters; the server's origin tag (C02) keeps them apart.
    That a call whose reply never arrives ends with a timeout within the configured time is a
    property of tokio's timer (trusted) and is observed by the run. *)
Require Import Selium.Base Selium.ClientReqRep Selium.P_ClientReqRep.
Open Scope N_scope.

Theorem c04_own_reply : forall evs,
  wf_history c_init evs ->
  let s := crun evs in
  (forall c p id, In (c, ResOk p id) (c_done s) -> In (c, id) (c_assigned s)) /\
  (forall c c' id, In (c, id) (c_assigned s) -> In (c', id) (c_assigned s) -> c = c') /\
  NoDup (map fst (c_done s)).
Proof. exact own_reply. Qed.
Print Assumptions c04_own_reply.

Theorem c04_reply_never_changes_a_finished_call : forall s id p c r,
  In (c, r) (c_done s) -> In (c, r) (c_done (cstep s (CReply id p))).
Proof. exact late_reply_harmless. Qed.
Print Assumptions c04_reply_never_changes_a_finished_call.

Theorem c04_late_reply_discarded : forall s c id p,
  In (c, ResTimeout) (c_done s) -> NoDup (map fst (c_done s)) ->
  forall p' id', ~ In (c, ResOk p' id') (c_done (cstep s (CReply id p))).
Proof. exact timeout_is_final. Qed.
Print Assumptions c04_late_reply_discarded.

(** Non-vacuity: three concurrent calls answered out of order, one late, one foreign id *)
Example c04_example :
  c_done (crun [CCall 10; CCall 11; CCall 12; CReply (Some 2) 92; CTimeout 11; CReply (Some 0) 90;
                CReply (Some 1) 91; CReply (Some 7) 99; CCall 13; CReply (Some 3) 93])
  = [(13, ResOk 93 3); (10, ResOk 90 0); (11, ResTimeout); (12, ResOk 92 2)].
Proof. vm_compute. reflexivity. Qed.
