(** C01 / C08 / C09 / C16 — model of server/src/topic/pubsub.rs (Topic::poll),
    server/src/sink/fanout_many.rs (FanoutMany as Sink) and tokio_stream::StreamMap::poll_next
    (0.1.14), as a labelled transition system that accepts the trace of calls the router makes on
    its peers.  One observable event = one call on a mock peer together with the peer's answer,
    or a poll boundary, or an action of the environment between polls.  Polls of the
    registration channel are internal: the channel is the real futures::mpsc channel, whose
    answers are a function of what was queued.

    The model is total and executable; [step] returns [None] when the event is not the one the
    code would produce next (correspondence failure) and the control state [PPanic] where the
    Rust code would panic. *)
Require Import Selium.Base.
Open Scope N_scope.

(** * Events *)
Inductive src := SHandle | SStream (j : N) | SSink (k : N).

Inductive resp3 := ROk | RErr | RPending.
Inductive sresp := SItem (x : N) | SErr | SEnd | SPending.
Inductive sock := QStream (j : N) | QSink (k : N).

Inductive ev :=
| EBegin                                  (* the executor calls Topic::poll *)
| EEnd (ready : bool)                     (* poll returns Ready(()) / Pending *)
| EQueue (s : sock) (woke : bool)         (* environment: a socket was queued on the channel *)
| EClose (woke : bool)                    (* environment: close_channel() *)
| EFire (s : src) (woke : bool)           (* environment: the waker kept by mock [s] was fired *)
| ESinkReady (k : N) (r : resp3)          (* poll_ready on subscriber sink k *)
| ESinkSend (k : N) (x : N) (ok : bool)   (* start_send *)
| ESinkFlush (k : N) (r : resp3)          (* poll_flush *)
| EStream (j : N) (r : sresp).            (* poll_next on publisher stream j *)

(** * State *)
Inductive fl_reason := FlHandleClosed | FlEarlyPark | FlStreamsDone | FlStreamsPending.

Inductive pc :=
| PIdle                              (* not being polled *)
| PTop                               (* top of the loop *)
| PReady (idx : nat)                 (* FanoutMany::poll_ready at entries[idx] *)
| PSend (idx : nat) (x : N)          (* FanoutMany::start_send at entries[idx] *)
| PHandle                            (* about to poll the registration channel *)
| PStreamsStart                      (* StreamMap::poll_next_entry: start index not chosen yet *)
| PStreams (start idx rem : nat)    (* ... [left] iterations of its for-loop remain *)
| PFlush (idx : nat) (why : fl_reason)
| PReturn (ready : bool)             (* poll is about to return *)
| PDone                              (* the future completed *)
| PPanic (site : string).

(** History kept alongside the router state so that the properties can be stated on states:
    it is written by [step] and never read by it. *)
Record ghost := {
  g_pulled : list N;            (* items yielded by publisher streams, in order *)
  g_adopt : list (N * nat);     (* subscriber sink -> number of items pulled when its registration was processed *)
  g_sent : list (N * N);        (* (sink, item) for every start_send that returned Ok, in order *)
  g_failed : list N;            (* sinks that answered Err to some call *)
  g_dirty : list N;             (* sinks holding items not yet covered by a successful flush *)
  g_used : list sock;           (* mock labels already queued (labels are unique) *)
}.

Definition ghost0 : ghost :=
  {| g_pulled := []; g_adopt := []; g_sent := []; g_failed := []; g_dirty := []; g_used := [] |}.

Record st := {
  streams : list N;        (* StreamMap.entries, vector order *)
  sinks : list N;          (* FanoutMany.entries, vector order *)
  buffered : option N;
  queue : list sock;       (* registration channel content *)
  closed : bool;
  ctl : pc;
  h_armed : bool;          (* the channel holds the task's waker *)
  armed : list src;        (* mock peers that hold the task's waker *)
  gh : ghost;
}.

Definition init : st :=
  {| streams := []; sinks := []; buffered := None; queue := []; closed := false;
     ctl := PIdle; h_armed := false; armed := []; gh := ghost0 |}.

Definition set_ctl (s : st) (c : pc) : st :=
  {| streams := streams s; sinks := sinks s; buffered := buffered s; queue := queue s;
     closed := closed s; ctl := c; h_armed := h_armed s; armed := armed s; gh := gh s |}.

(** * Vec helpers *)
Fixpoint removelast' (l : list N) : list N :=
  match l with [] => [] | [_] => [] | x :: r => x :: removelast' r end.

(** Vec::swap_remove(idx): the last element takes the place of entries[idx] *)
Definition swap_remove (idx : nat) (l : list N) : list N :=
  match nth_error l idx with
  | None => l
  | Some _ =>
    if Nat.eqb (S idx) (List.length l) then removelast' l
    else firstn idx l ++ last l 0 :: removelast' (skipn (S idx) l)
  end.

Definition src_eqb (a b : src) : bool :=
  match a, b with
  | SHandle, SHandle => true
  | SStream x, SStream y => x =? y
  | SSink x, SSink y => x =? y
  | _, _ => false
  end.

Definition disarm (x : src) (l : list src) : list src := filter (fun y => negb (src_eqb x y)) l.
Definition arm (x : src) (l : list src) : list src := x :: disarm x l.
Definition is_armed (x : src) (l : list src) : bool := existsb (src_eqb x) l.

Fixpoint index_of (x : N) (l : list N) : option nat :=
  match l with
  | [] => None
  | y :: r => if x =? y then Some O else option_map S (index_of x r)
  end.

(** * Internal moves: everything the router does without touching a mock peer *)
Definition upd (s : st) (f : st -> st) : st := f s.

Definition with_streams (s : st) (l : list N) : st :=
  {| streams := l; sinks := sinks s; buffered := buffered s; queue := queue s;
     closed := closed s; ctl := ctl s; h_armed := h_armed s; armed := armed s; gh := gh s |}.
Definition with_sinks (s : st) (l : list N) : st :=
  {| streams := streams s; sinks := l; buffered := buffered s; queue := queue s;
     closed := closed s; ctl := ctl s; h_armed := h_armed s; armed := armed s; gh := gh s |}.
Definition with_buffered (s : st) (b : option N) : st :=
  {| streams := streams s; sinks := sinks s; buffered := b; queue := queue s;
     closed := closed s; ctl := ctl s; h_armed := h_armed s; armed := armed s; gh := gh s |}.
Definition with_queue (s : st) (q : list sock) : st :=
  {| streams := streams s; sinks := sinks s; buffered := buffered s; queue := q;
     closed := closed s; ctl := ctl s; h_armed := h_armed s; armed := armed s; gh := gh s |}.
Definition with_closed (s : st) (c : bool) : st :=
  {| streams := streams s; sinks := sinks s; buffered := buffered s; queue := queue s;
     closed := c; ctl := ctl s; h_armed := h_armed s; armed := armed s; gh := gh s |}.
Definition with_h_armed (s : st) (b : bool) : st :=
  {| streams := streams s; sinks := sinks s; buffered := buffered s; queue := queue s;
     closed := closed s; ctl := ctl s; h_armed := b; armed := armed s; gh := gh s |}.
Definition with_armed (s : st) (l : list src) : st :=
  {| streams := streams s; sinks := sinks s; buffered := buffered s; queue := queue s;
     closed := closed s; ctl := ctl s; h_armed := h_armed s; armed := l; gh := gh s |}.

Definition with_gh (s : st) (g : ghost) : st :=
  {| streams := streams s; sinks := sinks s; buffered := buffered s; queue := queue s;
     closed := closed s; ctl := ctl s; h_armed := h_armed s; armed := armed s; gh := g |}.

Definition sock_eqb (a b : sock) : bool :=
  match a, b with
  | QStream x, QStream y => x =? y
  | QSink x, QSink y => x =? y
  | _, _ => false
  end.

Definition remove_n (k : N) (l : list N) : list N := filter (fun y => negb (y =? k)) l.

Definition g_pull (x : N) (g : ghost) : ghost :=
  {| g_pulled := g_pulled g ++ [x]; g_adopt := g_adopt g; g_sent := g_sent g; g_failed := g_failed g;
     g_dirty := g_dirty g; g_used := g_used g |}.
Definition g_adopt_sink (k : N) (g : ghost) : ghost :=
  {| g_pulled := g_pulled g; g_adopt := g_adopt g ++ [(k, List.length (g_pulled g))]; g_sent := g_sent g;
     g_failed := g_failed g; g_dirty := g_dirty g; g_used := g_used g |}.
Definition g_send_ok (k x : N) (g : ghost) : ghost :=
  {| g_pulled := g_pulled g; g_adopt := g_adopt g; g_sent := g_sent g ++ [(k, x)]; g_failed := g_failed g;
     g_dirty := k :: remove_n k (g_dirty g); g_used := g_used g |}.
Definition g_fail (k : N) (g : ghost) : ghost :=
  {| g_pulled := g_pulled g; g_adopt := g_adopt g; g_sent := g_sent g; g_failed := k :: g_failed g;
     g_dirty := remove_n k (g_dirty g); g_used := g_used g |}.
Definition g_flushed (k : N) (g : ghost) : ghost :=
  {| g_pulled := g_pulled g; g_adopt := g_adopt g; g_sent := g_sent g; g_failed := g_failed g;
     g_dirty := remove_n k (g_dirty g); g_used := g_used g |}.
Definition g_use (q : sock) (g : ghost) : ghost :=
  {| g_pulled := g_pulled g; g_adopt := g_adopt g; g_sent := g_sent g; g_failed := g_failed g;
     g_dirty := g_dirty g; g_used := q :: g_used g |}.

(** what follows a completed flush *)
Definition after_flush (why : fl_reason) : pc :=
  match why with
  | FlHandleClosed => PReturn true        (* shutdown: return Poll::Ready(()) *)
  | FlEarlyPark => PReturn false
  | FlStreamsDone => PTop                 (* loop again *)
  | FlStreamsPending => PReturn false
  end.

(** one internal move, if the control point is internal; [None] = an observable call is next *)
Definition internal (s : st) : option st :=
  match ctl s with
  | PTop =>
    match buffered s with
    | Some _ => Some (set_ctl s (PReady 0))
    | None => Some (set_ctl s PHandle)
    end
  | PReady idx =>
    if Nat.ltb idx (List.length (sinks s)) then None
    else (* Poll::Ready(Ok(())) -> start_send(buffered_item.take().unwrap()) *)
      match buffered s with
      | Some x => Some (set_ctl (with_buffered s None) (PSend 0 x))
      | None => Some (set_ctl s (PPanic "buffered_item.take().unwrap()"))
      end
  | PSend idx x =>
    if Nat.ltb idx (List.length (sinks s)) then None
    else Some (set_ctl s PHandle)
  | PHandle =>
    match queue s with
    | QStream j :: q => Some (set_ctl (with_queue (with_streams s (streams s ++ [j])) q) PTop)   (* insert; continue *)
    | QSink k :: q => Some (set_ctl (with_gh (with_queue (with_sinks s (sinks s ++ [k])) q) (g_adopt_sink k (gh s))) PTop)
    | [] =>
      if closed s then Some (set_ctl s (PFlush 0 FlHandleClosed))
      else
        let s' := with_h_armed s true in                                   (* Poll::Pending registers the waker *)
        match streams s, buffered s with
        | [], None => Some (set_ctl s' (PFlush 0 FlEarlyPark))
        | _, _ => Some (set_ctl s' PStreamsStart)
        end
    end
  | PStreamsStart =>
    match streams s with
    | [] => Some (set_ctl s (PFlush 0 FlStreamsDone))                      (* empty map: Ready(None) *)
    | _ => None                                                            (* start index: read from the next event *)
    end
  | PStreams start idx rem =>
    match rem with
    | O => match streams s with
           | [] => Some (set_ctl s (PFlush 0 FlStreamsDone))               (* Ready(None) *)
           | _ => Some (set_ctl s (PFlush 0 FlStreamsPending))             (* Pending *)
           end
    | S _ => None
    end
  | PFlush idx why =>
    if Nat.ltb idx (List.length (sinks s)) then None
    else Some (set_ctl s (after_flush why))
  | _ => None
  end.

(** [None]: the fuel did not suffice (excluded by statement from every theorem: an accepted
    trace is one on which this never happens; the judge would report it as a rejection) *)
Fixpoint settle (fuel : nat) (s : st) : option st :=
  match fuel with
  | O => None
  | S k => match internal s with Some s' => settle k s' | None => Some s end
  end.

(** every internal move either consumes a queued socket or moves forward in the loop body, and
    the body has fewer than 12 internal control points per iteration *)
Definition settle_fuel (s : st) : nat := 12 * (S (List.length (queue s))) + 12.

Definition settled (s : st) : option st := settle (settle_fuel s) s.

(** * Observable steps *)

(** StreamMap's index update after a stream at [idx] finished and was swap_removed;
    [len'] is the length after removal *)
Definition streams_after_end (start idx len' : nat) : nat :=
  if Nat.eqb idx len' then O
  else if Nat.ltb idx start && Nat.leb start len' then Nat.modulo (S idx) len'
  else idx.

Definition step_raw (s : st) (e : ev) : option st :=
  match ctl s, e with
  (* environment, between polls *)
  | PIdle, EBegin => Some (set_ctl s PTop)
  | PIdle, EQueue q woke =>
    if closed s || existsb (sock_eqb q) (g_used (gh s)) then None
    else if Bool.eqb woke (h_armed s) then Some (with_gh (with_h_armed (with_queue s (queue s ++ [q])) false) (g_use q (gh s))) else None
  | PIdle, EClose woke =>
    if Bool.eqb woke (h_armed s) then Some (with_h_armed (with_closed s true) false) else None
  | PIdle, EFire x woke =>
    if woke && is_armed x (armed s) then Some (with_armed s (disarm x (armed s))) else None
  (* poll returns *)
  | PReturn r, EEnd r' =>
    if Bool.eqb r r' then Some (set_ctl s (if r then PDone else PIdle)) else None
  (* FanoutMany::poll_ready *)
  | PReady idx, ESinkReady k r =>
    match nth_error (sinks s) idx with
    | Some k' =>
      if k =? k' then
        match r with
        | ROk => Some (set_ctl (with_armed s (disarm (SSink k) (armed s))) (PReady (S idx)))
        | RErr => Some (set_ctl (with_gh (with_armed (with_sinks s (swap_remove idx (sinks s))) (disarm (SSink k) (armed s))) (g_fail k (gh s))) (PReady idx))
        | RPending => Some (set_ctl (with_armed s (arm (SSink k) (armed s))) (PReturn false))
        end
      else None
    | None => None
    end
  (* FanoutMany::start_send *)
  | PSend idx x, ESinkSend k y ok =>
    match nth_error (sinks s) idx with
    | Some k' =>
      if (k =? k') && (x =? y) then
        if ok then Some (set_ctl (with_gh s (g_send_ok k x (gh s))) (PSend (S idx) x))
        else Some (set_ctl (with_gh (with_armed (with_sinks s (swap_remove idx (sinks s))) (disarm (SSink k) (armed s))) (g_fail k (gh s))) (PSend idx x))
      else None
    | None => None
    end
  (* FanoutMany::poll_flush *)
  | PFlush idx why, ESinkFlush k r =>
    match nth_error (sinks s) idx with
    | Some k' =>
      if k =? k' then
        match r with
        | ROk => Some (set_ctl (with_gh (with_armed s (disarm (SSink k) (armed s))) (g_flushed k (gh s))) (PFlush (S idx) why))
        | RErr => Some (set_ctl (with_gh (with_armed (with_sinks s (swap_remove idx (sinks s))) (disarm (SSink k) (armed s))) (g_fail k (gh s))) (PFlush idx why))
        | RPending => Some (set_ctl (with_armed s (arm (SSink k) (armed s))) (PReturn false))
        end
      else None
    | None => None
    end
  (* StreamMap::poll_next_entry *)
  | PStreamsStart, EStream j r =>
    match index_of j (streams s) with
    | Some start => Some (set_ctl s (PStreams start start (List.length (streams s))))   (* re-dispatched below *)
    | None => None
    end
  | PStreams start idx (S rem), EStream j r =>
    match nth_error (streams s) idx with
    | Some j' =>
      if j =? j' then
        let len := List.length (streams s) in
        match r with
        | SItem x => Some (set_ctl (with_gh (with_armed (with_buffered s (Some x)) (disarm (SStream j) (armed s))) (g_pull x (gh s))) PTop)
        | SErr => Some (set_ctl (with_armed s (disarm (SStream j) (armed s))) PTop)
        | SEnd =>
          let l' := swap_remove idx (streams s) in
          Some (set_ctl (with_armed (with_streams s l') (disarm (SStream j) (armed s)))
                        (PStreams start (streams_after_end start idx (List.length l')) rem))
        | SPending => Some (set_ctl (with_armed s (arm (SStream j) (armed s))) (PStreams start (Nat.modulo (S idx) len) rem))
        end
      else None
    | None => None
    end
  | _, _ => None
  end.

(** the start index of StreamMap is not observable by itself: it is read off the first stream
    the loop polls, then the same event is processed as the first iteration *)
Definition obind {A B} (o : option A) (f : A -> option B) : option B :=
  match o with Some a => f a | None => None end.

Definition step (s : st) (e : ev) : option st :=
  obind (settled s) (fun s0 =>
  match ctl s0, e with
  | PStreamsStart, EStream _ _ => obind (step_raw s0 e) (fun s1 => obind (step_raw s1 e) settled)
  | _, _ => obind (step_raw s0 e) settled
  end).

Fixpoint run (s : st) (tr : list ev) : option st :=
  match tr with
  | [] => Some s
  | e :: r => match step s e with Some s' => run s' r | None => None end
  end.

(** number of events accepted before the first rejection, and the state reached *)
Fixpoint run_count (s : st) (tr : list ev) (n : nat) : nat * st :=
  match tr with
  | [] => (n, s)
  | e :: r => match step s e with Some s' => run_count s' r (S n) | None => (n, s) end
  end.

Definition panicked (s : st) : bool := match ctl s with PPanic _ => true | _ => false end.
