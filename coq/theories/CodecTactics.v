(** Generic tactics that prove [codec_ok] for the codecs the translator generates, so that a
    harmless change of field order or types in the source re-proves without edits. *)
Require Import Selium.Base Selium.Bytes Selium.Utf8 Selium.Bincode Selium.P_Bincode.
Open Scope N_scope.

Lemma c_u8_ok : codec_ok c_u8. Proof. apply c_uint_ok. Qed.
Lemma c_u32_ok : codec_ok c_u32. Proof. apply c_uint_ok. Qed.
Lemma c_u64_ok : codec_ok c_u64. Proof. apply c_uint_ok. Qed.
#[export] Hint Resolve c_u8_ok c_u32_ok c_u64_ok : codec.

Lemma dec_u32_app n rest : n < 2 ^ 32 -> dec c_u32 (le_bytes 4 n ++ rest) = Some (n, rest).
Proof. intros H. apply (c_uint_ok 4 n rest). exact H. Qed.

Ltac eval_eqb :=
  repeat match goal with
         | |- context [N.eqb ?a ?b] =>
           let v := eval vm_compute in (N.eqb a b) in change (N.eqb a b) with v
         end.

Ltac struct_codec_ok :=
  match goal with |- codec_ok ?c => unfold c end;
  apply c_iso_ok; auto 30 with codec.

Ltac enum_codec_ok :=
  match goal with |- codec_ok ?c => unfold c end;
  let e := fresh "e" in let rest := fresh "rest" in let Hwf := fresh "Hwf" in
  intros e rest Hwf; destruct e; cbn [enc dec wf] in *;
  rewrite <- app_assoc; rewrite dec_u32_app by (vm_compute; reflexivity);
  eval_eqb; cbv iota;
  match goal with
  | |- context [dec ?ca (enc ?ca ?a ++ ?r)] =>
    let H := fresh "H" in
    assert (H : codec_ok ca) by auto 30 with codec;
    rewrite (H a r Hwf); reflexivity
  end.
