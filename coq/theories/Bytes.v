(** Byte strings (lists of N, each meant to be < 256), fixed-width little/big endian integers,
    and bounds-checked buffer primitives whose failure is an explicit panic. *)
Require Import Selium.Base.
Open Scope N_scope.

Definition bytes := list N.
Definition blen (b : bytes) : N := N.of_nat (List.length b).

Fixpoint le_bytes (k : nat) (n : N) : bytes :=
  match k with O => [] | S k' => (n mod 256) :: le_bytes k' (n / 256) end.

Fixpoint le_val (b : bytes) : N :=
  match b with [] => 0 | x :: r => x + 256 * le_val r end.

Definition be_bytes (k : nat) (n : N) : bytes := rev (le_bytes k n).
Definition be_val (b : bytes) : N := le_val (rev b).

Definition bytes_ok (b : bytes) : Prop := Forall (fun x => x < 256) b.
Definition bytes_okb (b : bytes) : bool := forallb (fun x => x <? 256) b.

(** [Buf::split_to(n)] / slicing: panics when fewer than [n] bytes are available *)
Definition split_to (n : N) (b : bytes) : outcome (bytes * bytes) :=
  if n <=? blen b then Val (firstn (N.to_nat n) b, skipn (N.to_nat n) b)
  else Panic "split_to out of bounds".

(** [Buf::get_u64] (big endian): panics when fewer than 8 bytes remain *)
Definition get_u64_be (b : bytes) : outcome (N * bytes) :=
  do p <- split_to 8 b; Val (be_val (fst p), snd p).

Definition get_u8 (b : bytes) : outcome (N * bytes) :=
  match b with x :: r => Val (x, r) | [] => Panic "get_u8 on empty buffer" end.
