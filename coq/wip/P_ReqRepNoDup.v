Require Import Selium.Base Selium.PubSub Selium.ReqRep Selium.ReqRepSpec Selium.P_ReqRep Selium.P_ReqRepOrder Selium.P_ReqRepReg.
Require Import Coq.Sorting.Permutation.
Open Scope N_scope.

Lemma rstep_raw_used_fresh s e s' : rstep_raw s e = Some s' ->
  h_used (rgh s') = h_used (rgh s) \/ exists l, h_used (rgh s') = l :: h_used (rgh s) /\ ~ In l (h_used (rgh s)).
Proof.
  intros H. unfold rstep_raw, router_pass in H.
  crush_matches H; injection H as <-; rsimp;
    first [ solve [left; reflexivity]
          | right; eexists; split; [reflexivity|];
            match goal with Hm : (_ || memb _ _)%bool = false |- _ =>
              apply Bool.orb_false_iff in Hm; destruct Hm as [_ Hm]; intros Hin; apply memb_In in Hin; congruence end ].
Qed.

Theorem rr_used_nodup tr s : rrun rinit tr = Some s -> NoDup (h_used (rgh s)).
Proof.
  intros H. revert H. apply (lift_run (fun s => NoDup (h_used (rgh s)))).
  - intros a b Ha Hi. now rewrite (rinternal_used _ _ Hi).
  - intros a e b Ha Hr. destruct (rstep_raw_used_fresh _ _ _ Hr) as [->|(l & -> & Hn)]; [exact Ha|now constructor].
  - constructor.
Qed.

(** nobody is given two roles, or one role twice: the labels waiting, bound, refused and keyed
    are pairwise distinct *)
Theorem rr_roles_nodup tr s : rrun rinit tr = Some s -> NoDup (places s).
Proof.
  intros H. apply (Permutation_NoDup (rr_registrations_placed_exactly_once tr s H)). now apply rr_used_nodup with tr.
Qed.
