Require Import Selium.Base Selium.PubSub Selium.ReqRep Selium.ReqRepSpec Selium.P_ReqRep Selium.P_ReqRepOrder Selium.P_ReqRepReg.
Open Scope N_scope.

(** every socket sent on the registration channel in a trace is one the router took *)
Definition queued_in (tr : list rev) (l : N) : Prop := exists q w, In (VQueue q w) tr /\ rlabel_of q = l.

Lemma rinternal_used s s' : rinternal s = Some s' -> h_used (rgh s') = h_used (rgh s).
Proof. intros H. unfold rinternal in H. crush_matches H; injection H as <-; rsimp; reflexivity. Qed.

Lemma sink_ev_not_queue l op e r : is_sink_ev_on l op e = Some r -> forall q w, e <> VQueue q w.
Proof. intros H q w ->. discriminate. Qed.

Lemma rstep_raw_used s e s' : rstep_raw s e = Some s' ->
  (h_used (rgh s') = h_used (rgh s) /\ forall q w, e <> VQueue q w)
  \/ (exists q w, e = VQueue q w /\ h_used (rgh s') = rlabel_of q :: h_used (rgh s)).
Proof.
  intros H. unfold rstep_raw, router_pass in H.
  crush_matches H; injection H as <-; rsimp;
    first [ solve [left; split; [reflexivity|intros; discriminate]]
          | solve [left; split; [reflexivity|eauto using sink_ev_not_queue]]
          | solve [right; eexists; eexists; split; reflexivity] ].
Qed.

Definition UInv (tr : list rev) (s : rst) : Prop := forall l, queued_in tr l <-> In l (h_used (rgh s)).

Lemma uinv_settle fuel : forall tr s s', UInv tr s -> rsettle fuel s = Some s' -> UInv tr s'.
Proof.
  induction fuel as [|k IH]; intros tr s s' HI H; cbn [rsettle] in H; [discriminate|].
  destruct (rinternal s) as [s1|] eqn:E.
  - apply (IH tr s1); [|exact H]. intros l. rewrite (rinternal_used _ _ E). apply HI.
  - now injection H as <-.
Qed.

Lemma queued_in_snoc tr e l : queued_in (tr ++ [e]) l <-> queued_in tr l \/ (exists q w, e = VQueue q w /\ rlabel_of q = l).
Proof.
  unfold queued_in. split.
  - intros (q & w & Hin & Hl). apply in_app_or in Hin as [Hin|[E|[]]].
    + left. eauto.
    + right. exists q, w. split; [now symmetry|exact Hl].
  - intros [(q & w & Hin & Hl)|(q & w & -> & Hl)].
    + exists q, w. split; [apply in_or_app; now left|exact Hl].
    + exists q, w. split; [apply in_or_app; right; now left|exact Hl].
Qed.

Lemma uinv_raw tr s e s' : UInv tr s -> rstep_raw s e = Some s' -> UInv (tr ++ [e]) s'.
Proof.
  intros HI H l. rewrite queued_in_snoc.
  destruct (rstep_raw_used _ _ _ H) as [[Hu Hne]|(q & w & -> & Hu)]; rewrite Hu.
  - rewrite <- (HI l). split; [intros [Hq|(q & w & -> & _)]; [exact Hq|now destruct (Hne q w)]|now left].
  - cbn [In]. rewrite <- (HI l). split.
    + intros [Hq|(q0 & w0 & E & Hl)]; [now right|left]. injection E as <- <-. exact Hl.
    + intros [Hl|Hq]; [right; eauto|now left].
Qed.

Lemma uinv_same_raw tr s e s1 : rctl s = RStreamsStart -> rstep_raw s e = Some s1 -> UInv tr s -> UInv tr s1.
Proof.
  intros Hc H HI. unfold rstep_raw in H. rewrite Hc in H.
  destruct e; try discriminate. destruct (index_of_label l (rstreams s)); [|discriminate].
  injection H as <-. intros l0. rsimp. apply HI.
Qed.

Lemma uinv_step tr s e s' : UInv tr s -> rstep s e = Some s' -> UInv (tr ++ [e]) s'.
Proof.
  intros HI H. unfold rstep, obind in H.
  destruct (rsettled s) as [s0|] eqn:E0; [|discriminate].
  assert (H0 : UInv tr s0) by (unfold rsettled in E0; now apply uinv_settle with (rsettle_fuel s) s).
  assert (Hone : forall a, UInv tr a -> match rstep_raw a e with Some x => rsettled x | None => None end = Some s' -> UInv (tr ++ [e]) s').
  { intros a Ha Hb. destruct (rstep_raw a e) as [x|] eqn:Ex; [|discriminate].
    unfold rsettled in Hb. apply uinv_settle with (rsettle_fuel x) x; [|exact Hb].
    now apply uinv_raw with a. }
  destruct (rctl s0) eqn:Ec; try (now apply (Hone s0)).
  destruct e; try (now apply (Hone s0)).
  match type of H with match ?t with _ => _ end = _ => destruct t as [s1|] eqn:E1; [|discriminate] end.
  apply (Hone s1); [|exact H].
  now apply uinv_same_raw with s0 (VStream l r).
Qed.

Lemma uinv_run tr : forall tr0 s s', UInv tr0 s -> rrun s tr = Some s' -> UInv (tr0 ++ tr) s'.
Proof.
  induction tr as [|e tr IH]; intros tr0 s s' HI H; cbn [rrun] in H.
  - injection H as <-. now rewrite app_nil_r.
  - destruct (rstep s e) as [s1|] eqn:E; [|discriminate].
    replace (tr0 ++ e :: tr) with ((tr0 ++ [e]) ++ tr) by (rewrite <- app_assoc; reflexivity).
    apply (IH (tr0 ++ [e]) s1); [now apply uinv_step with s|exact H].
Qed.

Theorem rr_used_is_queued tr s : rrun rinit tr = Some s ->
  forall l, queued_in tr l <-> In l (h_used (rgh s)).
Proof.
  intros H. apply (uinv_run tr [] rinit s); [|exact H].
  intros l. cbn. split; [intros (q & w & [] & _)|intros []].
Qed.

(** trace-anchored form of rr_no_registration_lost *)
Theorem rr_every_queued_socket_placed tr s : rrun rinit tr = Some s ->
  forall q w, In (VQueue q w) tr -> placed s (rlabel_of q).
Proof.
  intros H q w Hin. apply (rr_no_registration_lost tr s H).
  apply (rr_used_is_queued tr s H). exists q, w. auto.
Qed.
