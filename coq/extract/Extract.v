(** Extraction of the executable models, specs and property predicates to OCaml.
    Only the directives of ExtrOcamlBasic are used: Extract Inductive for bool, option, unit,
    list, prod, sumbool, sumor and Extract Inlined Constant for andb/orb.  N, positive, nat,
    string and ascii stay the extracted Coq datatypes. *)
Require Import ExtrOcamlBasic.
Require Import Selium.Base Selium.RustArith Selium.BackoffSpec Selium.BackoffRun.
Require Import SeliumGen.Backoff.
Require Import Selium.Regex Selium.TopicSpec Selium.TopicName.
Require Import Selium.Bytes Selium.Utf8 Selium.Bincode Selium.Wire SeliumGen.Layouts Selium.Transforms Selium.PubSub Selium.PubSubSpec Selium.ReqRep Selium.ReqRepSpec Selium.ClientPubSub Selium.ClientReqRep.
Require Import Selium.ServerLang Selium.Server SeliumGen.ServerFacts Selium.ServerRun.
Require Import Selium.Tls SeliumGen.TlsFacts Selium.TlsRun.

Extraction Language OCaml.
Extraction "model.ml"
  N.add N.mul N.sub N.div N.modulo N.eqb N.ltb N.leb N.of_nat N.to_nat N.succ N.pred
  cfg_wfb spec_prefix spec_delay law
  BackoffRun.run BackoffRun.spec_obs BackoffRun.into_iter
  Wire.encode Wire.decode Wire.run_feed Wire.norm_frame Wire.encode_batch Wire.decode_batch Layouts.frame_length Utf8.utf8_valid Bytes.be_val
  Transforms.string_decode Transforms.bytes_decode Transforms.bincode_decode Transforms.bincode_encode Transforms.c_Dummy Transforms.c_VecString Transforms.c_OptT
  PubSub.init PubSub.step PubSub.run_count PubSub.panicked PubSub.settled
  PubSubSpec.c01_state_ok PubSubSpec.live_ok PubSubSpec.delivered_all PubSubSpec.c16_state_ok PubSubSpec.obs_c01_ok PubSubSpec.obs_delivered_all PubSubSpec.obs_all_adopted PubSubSpec.obs_c16_ok PubSubSpec.obs_c09_bounded_ok PubSubSpec.completed PubSubSpec.obs_streams_polled_to_pending PubSubSpec.obs_repoll_ok
  ReqRep.rinit ReqRep.rstep ReqRep.rrun_count ReqRep.rpanicked ReqRep.rsettled
  ReqRepSpec.c02_state_ok ReqRepSpec.c10_state_ok ReqRepSpec.obs_c02_ok ReqRepSpec.obs_replies_delivered ReqRepSpec.obs_c10_ok ReqRepSpec.rcompleted ReqRepSpec.obs_rr_c09_bounded_ok ReqRepSpec.obs_c10_final_ok ReqRepSpec.obs_c11_replier_answered ReqRepSpec.obs_requests_flushed ReqRepSpec.obs_no_request_stranded ReqRepSpec.obs_rr_flushed_at_completion ReqRepSpec.obs_rstreams_polled_to_pending ReqRepSpec.obs_rr_repoll_ok ReqRepSpec.obs_c10_rebind_justified ReqRepSpec.obs_c02_no_pull_while_request_waits ReqRepSpec.obs_replier_not_polled_after_end ReqRepSpec.obs_requestor_not_polled_after_end ReqRepSpec.obs_rr_no_pull_after_close PubSubSpec.obs_no_poll_after_end PubSubSpec.obs_no_pull_after_close
  ClientPubSub.subscribe ClientPubSub.publish
  ClientReqRep.crun ClientReqRep.c_done
  TopicName.try_from TopicName.create TopicName.is_valid TopicName.print TopicSpec.name_ok
  ServerRun.ff ServerRun.client_first_reply ServerRun.prog_keeps_discipline ServerRun.stall_predict Server.lookup
  TlsRun.matrix TlsRun.matrix_trust TlsRun.matrix_bundle.
