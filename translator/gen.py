"""All translators: (generated file name, function(repo) -> (coq text, info))."""
import backoff
import topicname
import layouts
import compfacts
import keepalive
import serverfacts
import tlsfacts
import batchfacts

GENERATORS = [
    ('Backoff.v', backoff.generate),
    ('TopicRegex.v', topicname.generate),
    ('Layouts.v', layouts.generate_defs),
    ('LayoutsOk.v', layouts.generate_ok),
    ('CompFacts.v', compfacts.generate),
    ('KeepAliveFacts.v', keepalive.generate),
    ('ServerFacts.v', serverfacts.generate),
    ('TlsFacts.v', tlsfacts.generate),
    ('BatchFacts.v', batchfacts.generate),
]

if __name__ == '__main__':
    import sys, os
    repo = sys.argv[1] if len(sys.argv) > 1 else '/repo'
    out = sys.argv[2] if len(sys.argv) > 2 else os.path.join(os.path.dirname(os.path.dirname(os.path.abspath(__file__))), 'coq', 'gen')
    os.makedirs(out, exist_ok=True)
    for name, fn in GENERATORS:
        text, _ = fn(repo)
        with open(os.path.join(out, name), 'w') as f:
            f.write(text)
        print('generated', name)
