"""Reads server/src/server.rs (fn handle_stream), protocol/src/frame.rs (Frame::get_topic),
server/src/topic/{pubsub,reqrep}.rs (registration channel sizes) and client/src/streams/mod.rs
(fn handle_reply) and emits gen/ServerFacts.v: the body of handle_stream as a program in the small
instruction language of theories/ServerLang.v, and the client's reading of the first reply frame.

The translation is statement-directed: every statement of the function is either recognised as
one instruction (or as pure), or the translation fails with Unsupported -- in particular no
statement containing `.await` or touching `stream`, the table guard or the topic sender is ever
skipped."""
import re
from rustparse import Unsupported, tokenize, find_fn_body


def tok_text(t):
    if t[0] == 'str':
        return '"%s"' % t[1]
    if t[0] == 'num':
        return str(t[1])
    return str(t[1])


def text(toks):
    return ' '.join(tok_text(t) for t in toks)


class Stmts:
    """token list -> statement tree"""

    def __init__(self, toks):
        self.t = toks
        self.i = 0

    def peek(self, k=0):
        return self.t[self.i + k] if self.i + k < len(self.t) else ('eof', None)

    def at(self, kind, val=None):
        p = self.peek()
        return p[0] == kind and (val is None or p[1] == val)

    def block(self):
        if not self.at('p', '{'):
            raise Unsupported('expected {')
        self.i += 1
        out = []
        while not self.at('p', '}'):
            if self.at('eof'):
                raise Unsupported('unterminated block')
            out.append(self.stmt())
        self.i += 1
        return out

    def until_brace(self):
        """tokens up to the `{` that opens the body (parenthesis depth 0)"""
        depth = 0
        start = self.i
        while True:
            p = self.peek()
            if p[0] == 'eof':
                raise Unsupported('no body')
            if p[0] == 'p' and p[1] in '([':
                depth += 1
            elif p[0] == 'p' and p[1] in ')]':
                depth -= 1
            elif p[0] == 'p' and p[1] == '{' and depth == 0:
                return self.t[start:self.i]
            self.i += 1

    def stmt(self):
        if self.at('p', '#'):
            start = self.i
            self.i += 1
            if not self.at('p', '['):
                raise Unsupported('attribute')
            depth = 0
            while True:
                p = self.peek()
                if p[0] == 'p' and p[1] == '[':
                    depth += 1
                if p[0] == 'p' and p[1] == ']':
                    depth -= 1
                    if depth == 0:
                        self.i += 1
                        break
                self.i += 1
            attr = text(self.t[start:self.i])
            return ('attr', attr, self.stmt())
        if self.at('id', 'if'):
            self.i += 1
            cond = self.until_brace()
            body = self.block()
            els = None
            if self.at('id', 'else'):
                self.i += 1
                if self.at('id', 'if'):
                    els = [self.stmt()]
                else:
                    els = self.block()
            return ('if', text(cond), body, els)
        if self.at('id', 'match'):
            self.i += 1
            scrut = self.until_brace()
            self.i += 1
            arms = []
            while not self.at('p', '}'):
                depth = 0
                start = self.i
                while not (self.at('p', '=>') and depth == 0):
                    p = self.peek()
                    if p[0] == 'eof':
                        raise Unsupported('match arm')
                    if p[0] == 'p' and p[1] in '([{':
                        depth += 1
                    if p[0] == 'p' and p[1] in ')]}':
                        depth -= 1
                    self.i += 1
                pat = text(self.t[start:self.i])
                self.i += 1
                if self.at('p', '{'):
                    body = self.block()
                elif self.at('id', 'match') or self.at('id', 'if'):
                    body = [self.stmt()]
                else:
                    depth = 0
                    start = self.i
                    while not ((self.at('p', ',') or self.at('p', '}')) and depth == 0):
                        p = self.peek()
                        if p[0] == 'p' and p[1] in '([{':
                            depth += 1
                        if p[0] == 'p' and p[1] in ')]}':
                            depth -= 1
                        self.i += 1
                    body = [('s', text(self.t[start:self.i]))]
                if self.at('p', ','):
                    self.i += 1
                arms.append((pat, body))
            self.i += 1
            if self.at('p', ';'):
                self.i += 1
            return ('match', text(scrut), arms)
        if self.at('p', '{'):
            return ('block', self.block())
        depth = 0
        start = self.i
        while True:
            p = self.peek()
            if p[0] == 'eof':
                raise Unsupported('statement')
            if p[0] == 'p' and p[1] in '([{':
                depth += 1
            if p[0] == 'p' and p[1] in ')]}':
                if depth == 0:
                    # trailing expression of the enclosing block
                    return ('s', text(self.t[start:self.i]))
                depth -= 1
            if p[0] == 'p' and p[1] == ';' and depth == 0:
                self.i += 1
                return ('s', text(self.t[start:self.i - 1]))
            self.i += 1


PUBSUB_PAT = 'Frame :: RegisterPublisher ( _ ) | Frame :: RegisterSubscriber ( _ )'
REQREP_PAT = 'Frame :: RegisterReplier ( _ ) | Frame :: RegisterRequestor ( _ )'
SENSITIVE = re.compile(r'\b(await|stream|ts|tx|topics|topic_handles|return|panic|unwrap|expect)\b')


def error_reply(stmts, codes):
    """`let payload = ErrorPayload { code : X , ... } ; stream.send(Frame::Error(payload)).await? ; return Ok(())`
    possibly preceded by drop(ts) -> instruction list"""
    out = []
    code = None
    for s in stmts:
        if s[0] != 's':
            raise Unsupported('nested statement in an error branch: %r' % (s,))
        t = s[1]
        m = re.fullmatch(r'let payload = ErrorPayload \{ code : (\w+) , message : .* \}', t)
        if m:
            if m.group(1) not in codes:
                raise Unsupported('unknown error code %s' % m.group(1))
            code = m.group(1)
        elif t == 'drop ( ts )':
            out.append('IUnlock')
        elif t == 'stream . send ( Frame :: Error ( payload ) ) . await ?':
            if code is None:
                raise Unsupported('error reply without payload')
            out.append('IReplyErr %s' % code)
        elif t == 'return Ok ( ( ) )':
            out.append('IReturn')
        elif SENSITIVE.search(t):
            raise Unsupported('unrecognised statement in an error branch: %s' % t)
    return out


def create_topic(stmts):
    if len(stmts) != 1 or stmts[0][0] != 'match' or stmts[0][1] != 'frame':
        raise Unsupported('topic creation is not a match on the frame')
    arms = stmts[0][2]
    want = {PUBSUB_PAT: ('pubsub', 'Pubsub'), REQREP_PAT: ('reqrep', 'ReqRep')}
    seen = set()
    out = None
    for pat, body in arms:
        if pat == '_':
            if [b for b in body if b != ('s', 'unreachable ! ( )')]:
                raise Unsupported('topic creation: unexpected fallback arm')
            continue
        if pat not in want:
            raise Unsupported('topic creation: unexpected arm %s' % pat)
        mod, ctor = want[pat]
        got = [b[1] for b in body if b[0] == 's']
        exp = ['let ( fut , tx ) = %s :: Topic :: pair ( )' % mod,
               'let handle = tokio :: spawn ( fut )',
               'topic_handles . lock ( ) . await . push ( handle )',
               'ts . insert ( topic . clone ( ) , Sender :: %s ( tx ) )' % ctor]
        if got != exp or len(got) != len(body):
            raise Unsupported('topic creation arm for %s is not the recognised one: %r' % (mod, got))
        seen.add(mod)
        out = ['IAwaitHandles', 'ICreateTopic']
    if seen != {'pubsub', 'reqrep'}:
        raise Unsupported('topic creation does not cover both messaging patterns')
    return out


HANDOFF = {
    'Frame :: RegisterPublisher ( _ )': (r'let \( _ , read \) = stream \. split \( \)', r'tx \. send \( Socket :: Pubsub \( pubsub :: Socket :: Stream \( Box :: pin \( read \) \) \) \) \. await \. context \( .* \) \?'),
    'Frame :: RegisterSubscriber ( _ )': (r'let \( write , _ \) = stream \. split \( \)', r'tx \. send \( Socket :: Pubsub \( pubsub :: Socket :: Sink \( Box :: pin \( write \) \) \) \) \. await \. context \( .* \) \?'),
    'Frame :: RegisterReplier ( _ )': (r'let \( si , st \) = stream \. split \( \)', r'tx \. send \( Socket :: Reqrep \( reqrep :: Socket :: Server \( \( Box :: pin \( si \) , Box :: pin \( st \) , ? \) \) \) \) \. await \. context \( .* \) \?'),
    'Frame :: RegisterRequestor ( _ )': (r'let \( si , st \) = stream \. split \( \)', r'tx \. send \( Socket :: Reqrep \( reqrep :: Socket :: Client \( \( Box :: pin \( si \) , Box :: pin \( st \) , ? \) \) \) \) \. await \. context \( .* \) \?'),
}


def handoff(node):
    seen = set()
    for pat, body in node[2]:
        if pat == '_':
            if [b for b in body if b != ('s', 'unreachable ! ( )')]:
                raise Unsupported('hand-off: unexpected fallback arm')
            continue
        if pat not in HANDOFF:
            raise Unsupported('hand-off: unexpected arm %s' % pat)
        got = [b[1] for b in body if b[0] == 's']
        if len(got) != 2 or len(body) != 2 or not re.fullmatch(HANDOFF[pat][0], got[0]) or not re.fullmatch(HANDOFF[pat][1], got[1]):
            raise Unsupported('hand-off arm %s is not the recognised one: %r' % (pat, got))
        seen.add(pat)
    if seen != set(HANDOFF):
        raise Unsupported('hand-off does not cover the four roles')


def translate_body(stmts, codes, st):
    """st: dict carrying 'own_sender' (None until the sender is taken)"""
    prog = []
    for node in stmts:
        if node[0] == 'attr':
            attr, inner = node[1], node[2]
            if attr == '# [ cfg ( feature = "__cloud" ) ]':
                st['skipped'].append('#[cfg(feature = "__cloud")] block (the feature is off in the build that is checked)')
                continue
            if attr == '# [ cfg ( not ( feature = "__cloud" ) ) ]':
                prog += translate_body(inner[1] if inner[0] == 'block' else [inner], codes, st)
                continue
            raise Unsupported('attribute %s' % attr)
        if node[0] == 'block':
            prog += translate_body(node[1], codes, st)
            continue
        if node[0] == 'if':
            cond, body, els = node[1], node[2], node[3]
            if els is not None:
                raise Unsupported('if/else in the registration path')
            if cond == '! topic . is_valid ( )':
                prog.append(('CInvalidName', error_reply(body, codes)))
            elif cond == 'ts . get ( topic ) . is_some_and ( | t | t . is_pubsub ( ) != wants_pubsub )':
                if not st.get('wants_pubsub'):
                    raise Unsupported('wants_pubsub is not the recognised definition')
                prog.append(('CKindMismatch', error_reply(body, codes)))
            elif cond == '! ts . contains_key ( topic )':
                prog.append(('CTopicAbsent', create_topic(body)))
            else:
                raise Unsupported('unrecognised condition: %s' % cond)
            continue
        if node[0] == 'match':
            if node[1] != 'frame':
                raise Unsupported('match on %s' % node[1])
            handoff(node)
            if st['own_sender'] is None:
                raise Unsupported('hand-off before the topic sender is taken')
            prog.append('IHandoff %s' % ('true' if st['own_sender'] else 'false'))
            continue
        t = node[1]
        if t == 'let mut ts = topics . lock ( ) . await':
            prog.append('ILock')
        elif t == 'drop ( ts )':
            prog.append('IUnlock')
        elif t == 'let wants_pubsub = matches ! ( frame , %s )' % PUBSUB_PAT:
            st['wants_pubsub'] = True
        elif t == 'let mut tx = ts . get ( topic ) . unwrap ( ) . clone ( )':
            st['own_sender'] = True
            prog.append('ITakeSender')
        elif t in ('let tx = ts . get_mut ( topic ) . unwrap ( )', 'let mut tx = ts . get_mut ( topic ) . unwrap ( )'):
            st['own_sender'] = False
            prog.append('ITakeSender')
        elif t == 'stream . send ( Frame :: Ok ) . await ?':
            prog.append('IReplyOk')
        elif SENSITIVE.search(t):
            raise Unsupported('unrecognised statement in handle_stream: %s' % t)
        else:
            st['pure'].append(t)
    return prog


def coq_prog(prog):
    items = []
    for p in prog:
        if isinstance(p, tuple):
            items.append('IIf %s [%s]' % (p[0], '; '.join(p[1])))
        else:
            items.append('S (%s)' % p if ' ' in p else 'S %s' % p)
    return '[' + ';\n   '.join(items) + ']'


def channel_size(repo, mod):
    src = open('%s/server/src/topic/%s.rs' % (repo, mod)).read()
    m = re.search(r'const SOCK_CHANNEL_SIZE: usize = (\d+);', src)
    if not m or not re.search(r'mpsc::channel\(SOCK_CHANNEL_SIZE\)', src):
        raise Unsupported('%s: registration channel size' % mod)
    return int(m.group(1))


def handle_reply_arms(repo):
    src = open(repo + '/client/src/streams/mod.rs').read()
    _, body = find_fn_body(src, 'handle_reply')
    tree = Stmts(tokenize(body)).block()
    if len(tree) != 1 or tree[0][0] != 'match' or tree[0][1] != 'stream . next ( ) . await':
        raise Unsupported('handle_reply is not a single match on stream.next().await')
    out = []
    for pat, body in tree[0][2]:
        b = body[0][1] if len(body) == 1 and body[0][0] == 's' else None
        if pat == 'Some ( Ok ( Frame :: Ok ) )' and b == 'Ok ( ( ) )':
            out.append('(PFrameOk, COk)')
        elif pat == 'Some ( Ok ( Frame :: Error ( payload ) ) )':
            if len(body) != 1 or body[0][0] != 'match':
                raise Unsupported('handle_reply: error arm')
            for _, bb in body[0][2]:
                tt = bb[0][1]
                if not re.match(r'Err \( SeliumError :: OpenStream \( payload \. code ,', tt):
                    raise Unsupported('handle_reply: error arm does not report the code: %s' % tt)
            out.append('(PFrameError, CErrPayloadCode)')
        elif pat == 'Some ( Ok ( _ ) )':
            m = re.match(r'Err \( SeliumError :: OpenStream \( (\w+) ,', b or '')
            if not m:
                raise Unsupported('handle_reply: other-frame arm')
            out.append('(PFrameOther, CErrCode %s)' % m.group(1))
        elif pat == 'Some ( Err ( e ) )' and b == 'Err ( e )':
            out.append('(PDecodeError, CErrDecode)')
        elif pat == 'None':
            m = re.match(r'Err \( SeliumError :: OpenStream \( (\w+) ,', b or '')
            if not m:
                raise Unsupported('handle_reply: end-of-stream arm')
            out.append('(PEnd, CErrCode %s)' % m.group(1))
        else:
            raise Unsupported('handle_reply: unrecognised arm %s => %s' % (pat, b))
    return out


def get_topic_kinds(repo):
    src = open(repo + '/protocol/src/frame.rs').read()
    _, body = find_fn_body(src, 'get_topic')
    tree = Stmts(tokenize(body)).block()
    if len(tree) != 1 or tree[0][0] != 'match' or tree[0][1] != 'self':
        raise Unsupported('Frame::get_topic is not a single match on self')
    names = {'RegisterPublisher': 'KRegPub', 'RegisterSubscriber': 'KRegSub', 'RegisterReplier': 'KRegRep', 'RegisterRequestor': 'KRegReq',
             'Message': 'KMsg', 'BatchMessage': 'KBatch', 'Error': 'KError', 'Ok': 'KOk'}
    some, none = [], []
    for pat, body in tree[0][2]:
        b = body[0][1] if len(body) == 1 and body[0][0] == 's' else ''
        for alt in pat.split('|'):
            m = re.fullmatch(r'\s*(?:Self|Frame) :: (\w+)(?: \( (\w+) \))?\s*', alt)
            if not m:
                raise Unsupported('get_topic arm %s' % pat)
            if m.group(1) not in names:
                raise Unsupported('get_topic: unknown frame kind %s' % m.group(1))
            mb = re.fullmatch(r'Some \( & (\w+) \. topic \)', b)
            if mb and mb.group(1) == m.group(2):
                some.append(names[m.group(1)])
            elif b == 'None':
                none.append(names[m.group(1)])
            else:
                raise Unsupported('get_topic arm body %s' % b)
    if sorted(some + none) != sorted(names.values()):
        raise Unsupported('get_topic does not list the eight frame kinds')
    return some


def generate(repo):
    ec = open(repo + '/protocol/src/error_codes.rs').read()
    codes = {m.group(1): int(m.group(2), 0) for m in re.finditer(r'pub const (\w+): u32 = (0x[0-9a-fA-F]+|\d+);', ec)}
    src = open(repo + '/server/src/server.rs').read()
    _, body = find_fn_body(src, 'handle_stream')
    tree = Stmts(tokenize(body)).block()
    # fn body: `if let Some(result) = stream.next().await { ... } else { info!(..) }` then `Ok(())`
    if len(tree) != 2 or tree[0][0] != 'if' or tree[0][1] != 'let Some ( result ) = stream . next ( ) . await' or tree[1] != ('s', 'Ok ( ( ) )'):
        raise Unsupported('handle_stream: outer shape')
    inner = tree[0][2]
    els = tree[0][3]
    if els is None or any(SENSITIVE.search(s[1]) for s in els if s[0] == 's') or any(s[0] != 's' for s in els):
        raise Unsupported('handle_stream: else branch')
    if [s for s in inner[:2]] != [('s', 'let frame = result ?'), ('s', 'let topic = frame . get_topic ( ) . ok_or ( anyhow ! ( "Expected header frame" ) ) ?')]:
        raise Unsupported('handle_stream: header prologue: %r' % (inner[:2],))
    st = {'own_sender': None, 'skipped': [], 'pure': []}
    prog = translate_body(inner[2:], codes, st)
    kinds = get_topic_kinds(repo)
    arms = handle_reply_arms(repo)
    out = ['(* GENERATED by translator/serverfacts.py from server/src/server.rs (fn handle_stream), protocol/src/frame.rs (Frame::get_topic),',
           '   server/src/topic/{pubsub,reqrep}.rs (SOCK_CHANNEL_SIZE) and client/src/streams/mod.rs (fn handle_reply) -- do not edit *)',
           'Require Import Selium.Base Selium.ServerLang SeliumGen.KeepAliveFacts.', 'Open Scope N_scope.', '',
           '(* first frames that carry a topic (Frame::get_topic is Some); any other first frame makes handle_stream return an error before replying *)',
           'Definition header_kinds : list fkind := [%s].' % '; '.join(kinds), '',
           '(* the registration path of handle_stream, statement by statement *)',
           'Definition handle_stream_prog : list instr :=\n  %s.' % coq_prog(prog), '',
           'Definition REG_BUFFER_PUBSUB : N := %d.' % channel_size(repo, 'pubsub'),
           'Definition REG_BUFFER_REQREP : N := %d.' % channel_size(repo, 'reqrep'), '',
           '(* client/src/streams/mod.rs handle_reply: what the client library makes of the first thing it reads *)',
           'Definition handle_reply_arms : list (reply_pat * client_res) :=\n  [%s].' % ';\n   '.join(arms)]
    return '\n'.join(out) + '\n', {'file': 'server/src/server.rs, protocol/src/frame.rs, server/src/topic/pubsub.rs, server/src/topic/reqrep.rs, client/src/streams/mod.rs',
                                   'items': ['fn handle_stream', 'Frame::get_topic', 'SOCK_CHANNEL_SIZE', 'fn handle_reply'], 'skipped': st['skipped'], 'pure_statements': st['pure']}


if __name__ == '__main__':
    import sys
    sys.stdout.write(generate(sys.argv[1] if len(sys.argv) > 1 else '/repo')[0])
