"""Reads the TLS configuration code -- server/src/quic.rs (server_config), server/src/server.rs
(where the root store and the certificates come from), client/src/connection.rs
(configure_client, connect_to_endpoint), client/src/client/custom/mod.rs (root store from the CA
file) and the bundled generator tools/src/commands/gen_certs/{certificate_builder,key_pair,cert_gen}.rs
-- and emits gen/TlsFacts.v: the configuration as data of theories/Tls.v.

Each fact is matched against the exact construct that establishes it; anything else is Unsupported
(in particular any use of rustls' `dangerous()` API or a custom verifier anywhere under client/src
or server/src)."""
import os
import re
from rustparse import Unsupported, find_fn_body, strip_comments


def squash(s):
    return re.sub(r'\s+', ' ', strip_comments(s)).strip()


def all_rs(root):
    out = []
    for d, _, fs in os.walk(root):
        for f in fs:
            if f.endswith('.rs'):
                out.append(os.path.join(d, f))
    return out


def generate(repo):
    facts = {}
    # no escape hatch anywhere
    for f in all_rs(repo + '/client/src') + all_rs(repo + '/server/src'):
        src = strip_comments(open(f).read())
        for bad in ('dangerous()', 'with_custom_certificate_verifier', 'ServerCertVerifier', 'ClientCertVerifier for', 'danger::'):
            if bad in src:
                raise Unsupported('%s mentions %s: a custom certificate verifier is outside the recognised configuration' % (f, bad))
    # --- server: verifier of client certificates
    q = open(repo + '/server/src/quic.rs').read()
    _, body = find_fn_body(q, 'server_config')
    b = squash(body)
    m = re.search(r'let client_cert_verifier = Arc::new\((\w+)::new\(root_store\)\);', b)
    if not m:
        m2 = re.search(r'let client_cert_verifier = (?:Arc::new\()?(\w+)::(?:new|boxed)\(\)', b)
        if m2 and m2.group(1) == 'NoClientAuth':
            verifier = 'NoClientAuth'
        else:
            raise Unsupported('server_config: client certificate verifier')
    else:
        verifier = m.group(1)
    if verifier not in ('AllowAnyAuthenticatedClient', 'AllowAnyAnonymousOrAuthenticatedClient', 'NoClientAuth'):
        raise Unsupported('server_config: unknown verifier %s' % verifier)
    if not re.search(r'rustls::ServerConfig::builder\(\) \.with_safe_defaults\(\) \.with_client_cert_verifier\(client_cert_verifier\) \.with_single_cert\(certs, key\)\?', b):
        raise Unsupported('server_config: builder chain')
    s = squash(open(repo + '/server/src/server.rs').read())
    if not re.search(r'let root_store = load_root_store\(args\.cert\.ca\)\?; let \(certs, key\) = read_certs\(args\.cert\.cert, args\.cert\.key\)\?;', s):
        raise Unsupported('server.rs: source of the root store and of the server certificate')
    if not re.search(r'let config = server_config\(root_store, certs, key, opts\)\?;', s):
        raise Unsupported('server.rs: server_config call')
    _, lrs = find_fn_body(q, 'load_root_store')
    if not re.search(r'let mut store = RootCertStore::empty\(\); let certs = load_certs\(ca_file\)\?; store\.add_parsable_certificates\(&certs\);', squash(lrs)):
        raise Unsupported('quic.rs load_root_store')
    # --- client
    c = open(repo + '/client/src/connection.rs').read()
    _, body = find_fn_body(c, 'configure_client')
    b = squash(body)
    if not re.search(r'rustls::ClientConfig::builder\(\) \.with_safe_defaults\(\) \.with_root_certificates\(options\.root_store\) \.with_client_auth_cert\(options\.certs, options\.key\) \.unwrap\(\);', b):
        raise Unsupported('configure_client: builder chain')
    _, body = find_fn_body(c, 'connect_to_endpoint')
    m = re.search(r'\.connect\(addr, "([^"]+)"\)', squash(body))
    if not m:
        raise Unsupported('connect_to_endpoint: server name')
    server_name = m.group(1)
    cm = squash(open(repo + '/client/src/client/custom/mod.rs').read())
    if not re.search(r'let ca_certs = load_certs\(ca_path\)\?; let root_store = load_root_store\(&ca_certs\)\?; let next_state = CustomWantsCertAndKey::new\(self\.state, root_store\);', cm):
        raise Unsupported('custom client: root store from the CA file')
    if not re.search(r'let options = ConnectionOptions::new\(certs\.as_slice\(\), key, root_store, keep_alive\);', cm):
        raise Unsupported('custom client: connection options')
    cc = squash(open(repo + '/client/src/crypto/cert.rs').read())
    if not re.search(r'let mut store = RootCertStore::empty\(\); store\.add_parsable_certificates\(certs\);', cc):
        raise Unsupported('client load_root_store')
    # --- generator
    g = open(repo + '/tools/src/commands/gen_certs/certificate_builder.rs').read()
    _, ca = find_fn_body(g, 'ca')
    ca = squash(ca)
    ca_is_ca = bool(re.search(r'params\.is_ca = IsCa::Ca\(BasicConstraints::Unconstrained\);', ca))
    ca_usages = re.findall(r'params\.key_usages\.push\(KeyUsagePurpose::(\w+)\);', ca)
    _, ent = find_fn_body(g, 'entity')
    ent = squash(ent)
    sans = re.findall(r'\.push\(SanType::DnsName\("([^"]+)"\.to_owned\(\)\)\);', ent)
    ent_usages = re.findall(r'params\.key_usages\.push\(KeyUsagePurpose::(\w+)\);', ent)
    if 'params.extended_key_usages.push(purpose);' not in ent or 'is_ca' in ent:
        raise Unsupported('generator: entity()')
    _, sv = find_fn_body(g, 'server')
    _, cl = find_fn_body(g, 'client')
    msv = re.search(r'CertificateBuilder::entity\(ExtendedKeyUsagePurpose::(\w+)\)', squash(sv))
    mcl = re.search(r'CertificateBuilder::entity\(ExtendedKeyUsagePurpose::(\w+)\)', squash(cl))
    if not msv or not mcl:
        raise Unsupported('generator: server()/client()')
    k = squash(open(repo + '/tools/src/commands/gen_certs/key_pair.rs').read())
    if not re.search(r'pub fn client\(ca: &Certificate, no_expiry: bool\) -> Result<Self> \{ let cert_builder = CertificateBuilder::client\(\); Self::build\(cert_builder, ca, no_expiry\) \}', k):
        raise Unsupported('generator: KeyPair::client')
    if not re.search(r'pub fn server\(ca: &Certificate, no_expiry: bool\) -> Result<Self> \{ let cert_builder = CertificateBuilder::server\(\); Self::build\(cert_builder, ca, no_expiry\) \}', k):
        raise Unsupported('generator: KeyPair::server')
    if not re.search(r'let cert = builder\.build\(\)\?; let signed_cert = cert\.serialize_der_with_signer\(ca\)\?; let key = cert\.serialize_private_key_der\(\);', k):
        raise Unsupported('generator: entity certificates are signed by the CA')
    cg = squash(open(repo + '/tools/src/commands/gen_certs/cert_gen.rs').read())
    if not re.search(r'let ca = generate_ca_cert\(no_expiry\)\?; let client = KeyPair::client\(&ca, no_expiry\)\?; let server = KeyPair::server\(&ca, no_expiry\)\?; let ca = ca\.serialize_der\(\)\?;', cg):
        raise Unsupported('generator: CertGen::generate')
    if not re.search(r'write_file\(&path\.join\("ca\.der"\), &self\.ca\)\?; write_file\(&path\.join\("localhost\.der"\), &keypair\.0\)\?; write_file\(&path\.join\("localhost\.key\.der"\), &keypair\.1\)\?;', cg):
        raise Unsupported('generator: files written')
    purp = {'ServerAuth': 'PServerAuth', 'ClientAuth': 'PClientAuth'}

    def plist(xs):
        out = []
        for x in xs:
            if x not in purp:
                raise Unsupported('generator: extended key usage %s' % x)
            out.append(purp[x])
        return '[' + '; '.join(out) + ']'

    out = ['(* GENERATED by translator/tlsfacts.py from server/src/quic.rs, server/src/server.rs, client/src/connection.rs,',
           '   client/src/client/custom/mod.rs, client/src/crypto/cert.rs and tools/src/commands/gen_certs/*.rs -- do not edit *)',
           'Require Import Selium.Base Selium.Tls.', 'Open Scope N_scope.', '',
           '(* server/src/quic.rs server_config: with_client_cert_verifier(Arc::new(%s::new(root_store))), root_store = load_root_store(--ca) *)' % verifier,
           'Definition server_client_verifier : client_verifier := %s.' % verifier,
           '(* client/src/connection.rs configure_client: with_root_certificates(root store of with_certificate_authority), with_client_auth_cert; no custom verifier anywhere *)',
           'Definition client_server_verifier : server_verifier := WebPkiRoots.',
           'Definition client_presents_certificate : bool := true.',
           'Definition client_server_name : string := "%s"%%string.' % server_name, '',
           '(* the bundled generator *)',
           'Definition gen_ca_is_ca : bool := %s.' % ('true' if ca_is_ca else 'false'),
           'Definition gen_ca_key_cert_sign : bool := %s.' % ('true' if 'KeyCertSign' in ca_usages else 'false'),
           'Definition gen_server_ekus : list purpose := %s.' % plist([msv.group(1)]),
           'Definition gen_client_ekus : list purpose := %s.' % plist([mcl.group(1)]),
           'Definition gen_entity_sans : list string := [%s].' % '; '.join('"%s"%%string' % x for x in sans),
           'Definition gen_entity_digital_signature : bool := %s.' % ('true' if 'DigitalSignature' in ent_usages else 'false')]
    return '\n'.join(out) + '\n', {'file': 'server/src/quic.rs, server/src/server.rs, client/src/connection.rs, client/src/client/custom/mod.rs, client/src/crypto/cert.rs, tools/src/commands/gen_certs/{certificate_builder,key_pair,cert_gen}.rs',
                                   'items': ['fn server_config', 'fn load_root_store', 'fn configure_client', 'fn connect_to_endpoint', 'with_certificate_authority', 'CertificateBuilder::{ca,server,client,entity}', 'KeyPair::{client,server,build}', 'CertGen::generate']}


if __name__ == '__main__':
    import sys
    sys.stdout.write(generate(sys.argv[1] if len(sys.argv) > 1 else '/repo')[0])
