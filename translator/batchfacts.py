"""protocol/src/utils.rs (batch codec) -> gen/BatchFacts.v

The control skeleton of encode_message_batch / decode_message_batch is recognised statement by
statement (anything else is Unsupported); every condition and every arithmetic expression in it
is translated compositionally into Gallina over N, in the outcome monad, with Rust's debug-build
semantics for u64/usize arithmetic: + - * panic on overflow / underflow, / panics on zero,
`as u64` / `as usize` are the identity on this 64-bit target.  Wire.v assembles the decoder and
the encoder from these pieces, so the theorems are re-checked against what the source says now.
"""
import os, re
import rustparse
from rustparse import Unsupported

U64 = 2 ** 64


class Env:
    def __init__(self, names):
        self.names = names          # rust expression text -> coq variable


def path_text(e):
    if e[0] == 'path':
        return '::'.join(e[1])
    return None


def tr_num(e, env, consts):
    """-> (coq term of type outcome N)"""
    k = e[0]
    if k == 'paren':
        return tr_num(e[1], env, consts)
    if k == 'num':
        return 'Val %d' % int(e[1])
    if k == 'path':
        name = path_text(e)
        if name in env.names:
            return 'Val %s' % env.names[name]
        if name in consts:
            return 'Val %d' % consts[name]
        raise Unsupported('unknown name in batch codec expression: %s' % name)
    if k == 'mcall':
        recv, m, args = e[1], e[2], e[3]
        key = '%s.%s()' % (path_text(recv), m) if recv[0] == 'path' and not args else None
        if key and key in env.names:
            return 'Val %s' % env.names[key]
        if m == 'min' and len(args) == 1:
            return 'ba_min (%s) (%s)' % (tr_num(recv, env, consts), tr_num(args[0], env, consts))
        if m == 'max' and len(args) == 1:
            return 'ba_max (%s) (%s)' % (tr_num(recv, env, consts), tr_num(args[0], env, consts))
        if m in ('saturating_sub',) and len(args) == 1:
            return 'ba_satsub (%s) (%s)' % (tr_num(recv, env, consts), tr_num(args[0], env, consts))
        raise Unsupported('unsupported method in batch codec expression: .%s' % m)
    if k == 'cast':
        ty = e[2] if isinstance(e[2], str) else path_text(e[2]) or str(e[2])
        if 'u64' in str(ty) or 'usize' in str(ty):
            return tr_num(e[1], env, consts)
        raise Unsupported('unsupported cast in batch codec expression: as %s' % (ty,))
    if k == 'bin':
        op, a, b = e[1], e[2], e[3]
        fn = {'+': 'ba_add', '-': 'ba_sub', '*': 'ba_mul', '/': 'ba_div'}.get(op)
        if fn:
            return '%s (%s) (%s)' % (fn, tr_num(a, env, consts), tr_num(b, env, consts))
    raise Unsupported('unsupported batch codec expression: %r' % (e,))


def tr_bool(e, env, consts):
    k = e[0]
    if k == 'paren':
        return tr_bool(e[1], env, consts)
    if k == 'bin':
        op, a, b = e[1], e[2], e[3]
        fn = {'<': 'ba_lt', '<=': 'ba_le', '>': 'ba_gt', '>=': 'ba_ge', '==': 'ba_eq', '!=': 'ba_ne'}.get(op)
        if fn:
            return '%s (%s) (%s)' % (fn, tr_num(a, env, consts), tr_num(b, env, consts))
        if op in ('&&', '||'):
            return '%s (%s) (%s)' % ('ba_and' if op == '&&' else 'ba_or', tr_bool(a, env, consts), tr_bool(b, env, consts))
    if k == 'un' and e[1] == '!':
        return 'ba_not (%s)' % tr_bool(e[2], env, consts)
    raise Unsupported('unsupported batch codec condition: %r' % (e,))


def stmts_of(block):
    assert block[0] == 'block'
    return list(block[1]), block[2]


def is_mcall(e, recv, m, nargs=None):
    return e[0] == 'mcall' and path_text(e[1]) == recv and e[2] == m and (nargs is None or len(e[3]) == nargs)


def expect(cond, what):
    if not cond:
        raise Unsupported('batch codec: %s' % what)


def if_only(stmt):
    """('expr', ('if', cond, thenblock, None)) -> (cond, thenblock)"""
    e = stmt[1] if stmt[0] == 'expr' else stmt
    expect(e[0] == 'if' and (len(e) < 4 or e[3] is None), 'expected an `if` without else, got %r' % (e[0],))
    return e[1], e[2]


def generate(repo):
    path = os.path.join(repo, 'protocol/src/utils.rs')
    src = rustparse.strip_comments(open(path).read())
    consts = {}
    m = re.search(r'const\s+LEN_SIZE\s*:\s*usize\s*=\s*([^;]+);', src)
    expect(m is not None, 'const LEN_SIZE not found in decode_message_batch')
    val = re.sub(r'\s+', '', m.group(1))
    if val == 'std::mem::size_of::<u64>()':
        consts['LEN_SIZE'] = 8
    elif re.fullmatch(r'\d+', val):
        consts['LEN_SIZE'] = int(val)
    else:
        raise Unsupported('batch codec: LEN_SIZE = %s not understood' % val)
    src_nc = src.replace(m.group(0), '')

    # ---- encode_message_batch
    _, enc = rustparse.parse_fn_body(src_nc, 'encode_message_batch')
    st, tail = stmts_of(enc)
    expect(len(st) == 3, 'encode_message_batch: expected 3 statements, found %d' % len(st))
    expect(st[0][0] == 'let' and st[0][3][0] == 'call' and path_text(st[0][3][1]) == 'BytesMut::new', 'encode: `let mut bytes = BytesMut::new()` expected')
    buf = st[0][1][1]
    e1 = st[1][1]
    expect(st[1][0] == 'expr' and is_mcall(e1, buf, 'put_u64', 1), 'encode: `bytes.put_u64(count)` expected')
    enc_count = tr_num(e1[3][0], Env({'batch.len()': 'count'}), consts)
    e2 = st[2][1]
    expect(st[2][0] == 'expr' and e2[0] == 'mcall' and e2[2] == 'for_each' and is_mcall(e2[1], 'batch', 'iter', 0) and e2[3][0][0] == 'closure',
           'encode: `batch.iter().for_each(|m| ...)` expected')
    clo = e2[3][0]
    mv = clo[1][0][1]
    cst, ctail = stmts_of(clo[2])
    expect(len(cst) == 1 and cst[0][0] == 'expr' and is_mcall(cst[0][1], buf, 'put_u64', 1), 'encode: closure must start with `bytes.put_u64(len)`')
    enc_len = tr_num(cst[0][1][3][0], Env({'%s.len()' % mv: 'len'}), consts)
    expect(ctail is not None and is_mcall(ctail, buf, 'extend_from_slice', 1) and path_text(ctail[3][0]) == mv, 'encode: closure must end with `bytes.extend_from_slice(m)`')
    expect(tail is not None and is_mcall(tail, buf, 'into', 0), 'encode: must end with `bytes.into()`')

    # ---- decode_message_batch
    _, dec = rustparse.parse_fn_body(src_nc, 'decode_message_batch')
    st, tail = stmts_of(dec)
    expect(len(st) == 5, 'decode_message_batch: expected 5 statements after the constant, found %d' % len(st))
    rem = 'bytes.remaining()'
    c0, b0 = if_only(st[0])
    b0s, b0t = stmts_of(b0)
    ret = b0s[0][1] if b0s and b0s[0][0] == 'expr' else (b0s[0] if b0s else b0t)
    expect(ret is not None and ret[0] == 'return' and ret[1][0] == 'call' and path_text(ret[1][1]) == 'Vec::new', 'decode: head guard must `return Vec::new()`')
    head_guard = tr_bool(c0, Env({rem: 'remaining'}), consts)
    expect(st[1][0] == 'let' and is_mcall(st[1][3], 'bytes', 'get_u64', 0), 'decode: `let num = bytes.get_u64()` expected')
    num = st[1][1][1]
    expect(st[2][0] == 'let', 'decode: `let capacity = ...` expected')
    capv = st[2][1][1]
    capacity = tr_num(st[2][3], Env({rem: 'remaining', num: 'num'}), consts)
    expect(st[3][0] == 'let' and st[3][3][0] == 'call' and path_text(st[3][3][1]) == 'Vec::with_capacity' and path_text(st[3][3][2][0]) == capv,
           'decode: `let mut messages = Vec::with_capacity(capacity)` expected')
    msgs = st[3][1][1]
    loop = st[4][1] if st[4][0] == 'expr' else st[4]
    expect(loop[0] == 'for' and loop[2][0] == 'range' and loop[2][1][0] == 'num' and int(loop[2][1][1]) == 0 and path_text(loop[2][2]) == num,
           'decode: `for _ in 0..num` expected')
    ls, lt = stmts_of(loop[3])
    expect(len(ls) == 5 and lt is None, 'decode: loop body must have 5 statements, found %d' % len(ls))
    c1, b1 = if_only(ls[0])
    expect(stmts_of(b1)[0] == [('expr', ('break',))], 'decode: first loop guard must `break`')
    guard1 = tr_bool(c1, Env({rem: 'remaining'}), consts)
    expect(ls[1][0] == 'let' and is_mcall(ls[1][3], 'bytes', 'get_u64', 0), 'decode: `let message_len = bytes.get_u64()` expected')
    ml = ls[1][1][1]
    c2, b2 = if_only(ls[2])
    expect(stmts_of(b2)[0] == [('expr', ('break',))], 'decode: second loop guard must `break`')
    guard2 = tr_bool(c2, Env({rem: 'remaining', ml: 'message_len'}), consts)
    expect(ls[3][0] == 'let' and is_mcall(ls[3][3], 'bytes', 'split_to', 1), 'decode: `let message_bytes = bytes.split_to(..)` expected')
    mb = ls[3][1][1]
    split_arg = tr_num(ls[3][3][3][0], Env({rem: 'remaining', ml: 'message_len'}), consts)
    expect(ls[4][0] == 'expr' and is_mcall(ls[4][1], msgs, 'push', 1) and path_text(ls[4][1][3][0]) == mb, 'decode: `messages.push(message_bytes)` expected')
    expect(tail is not None and path_text(tail) == msgs, 'decode: must end with `messages`')

    out = ['(* GENERATED by translator/batchfacts.py from protocol/src/utils.rs -- do not edit *)',
           'Require Import Selium.Base Selium.Bytes Selium.BatchArith.',
           'Open Scope N_scope.',
           '',
           'Definition BATCH_LEN_SIZE : N := %d.' % consts['LEN_SIZE'],
           '(* encode_message_batch: the two values written with put_u64 *)',
           'Definition gen_enc_count (count : N) : outcome N := %s.' % enc_count,
           'Definition gen_enc_len (len : N) : outcome N := %s.' % enc_len,
           '(* decode_message_batch *)',
           'Definition gen_head_guard (remaining : N) : outcome bool := %s.' % head_guard,
           'Definition gen_capacity (remaining num : N) : outcome N := %s.' % capacity,
           'Definition gen_loop_guard1 (remaining : N) : outcome bool := %s.' % guard1,
           'Definition gen_loop_guard2 (message_len remaining : N) : outcome bool := %s.' % guard2,
           'Definition gen_split_arg (message_len remaining : N) : outcome N := %s.' % split_arg,
           '']
    info = {'file': 'protocol/src/utils.rs', 'items': ['fn encode_message_batch', 'fn decode_message_batch', 'const LEN_SIZE']}
    return '\n'.join(out), info


if __name__ == '__main__':
    import sys
    print(generate(sys.argv[1] if len(sys.argv) > 1 else '/repo')[0])
