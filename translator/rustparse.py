"""A small parser for the subset of Rust that the translated functions use.

It is deliberately strict: anything outside the subset raises Unsupported, which the
check reports as "the proof obligation can no longer be regenerated from the source".

AST nodes are tuples:
  ('num', int, suffix|None)        ('str', text)             ('path', [seg,...])
  ('call', fn_expr, [args])        ('mcall', recv, name, [args])
  ('field', recv, name)            ('try', e)                ('cast', e, type_str)
  ('bin', op, a, b)                ('un', op, e)             ('closure', [params], body)
  ('block', [stmts], tail|None)    ('match', scrut, [(pat, guard|None, expr)])
  ('if', cond, then_block, else|None)      ('iflet', pat, e, then_block, else|None)
  ('struct', path, [(field, expr)])        ('return', e|None)      ('tuple', [e])
  ('ref', e) ('macro', name, raw_text)
statements:
  ('let', pat, mutable, expr)      ('expr', e)     ('assign', lhs, op, e)   (op in '=', '+=', '-=')
patterns:
  ('pwild',) ('pbind', name) ('ptuple_struct', path, [pats]) ('ppath', path) ('plit', value)
  ('pstruct', path, [(field, pat)]) ('ptuple', [pats]) ('por', [pats])
"""
import re


class Unsupported(Exception):
    pass


TOKEN_RE = re.compile(r'''
    (?P<ws>\s+|//[^\n]*|/\*.*?\*/)
  | (?P<rawstr>r(?P<hashes>\#*)"(?P<rawbody>.*?)"(?P=hashes))
  | (?P<bstr>b"(?:[^"\\]|\\.)*")
  | (?P<str>"(?:[^"\\]|\\.)*")
  | (?P<char>'(?:[^'\\]|\\.)')
  | (?P<lifetime>'[A-Za-z_][A-Za-z0-9_]*)
  | (?P<num>0x[0-9a-fA-F_]+|[0-9][0-9_]*(?:\.[0-9][0-9_]*)?)(?P<suffix>(?:u8|u16|u32|u64|u128|usize|i8|i16|i32|i64|i128|isize|f32|f64))?
  | (?P<id>[A-Za-z_][A-Za-z0-9_]*)
  | (?P<punct>::|->|=>|==|!=|<=|>=|&&|\|\||\+=|-=|\*=|/=|\.\.=|\.\.|[-+*/%=<>!&|.,;:(){}\[\]?\#@])
''', re.X | re.S)


def tokenize(src):
    toks = []
    pos = 0
    while pos < len(src):
        m = TOKEN_RE.match(src, pos)
        if not m:
            raise Unsupported("cannot tokenize at: %r" % src[pos:pos + 40])
        pos = m.end()
        if m.group('ws') is not None:
            continue
        if m.group('rawstr') is not None:
            toks.append(('str', m.group('rawbody')))
        elif m.group('bstr') is not None:
            toks.append(('bstr', m.group('bstr')[2:-1]))
        elif m.group('str') is not None:
            toks.append(('str', unescape(m.group('str')[1:-1])))
        elif m.group('char') is not None:
            toks.append(('char', m.group('char')[1:-1]))
        elif m.group('lifetime') is not None:
            toks.append(('lifetime', m.group('lifetime')))
        elif m.group('num') is not None:
            t = m.group('num').replace('_', '')
            if '.' in t:
                raise Unsupported("float literal %s" % t)
            toks.append(('num', int(t, 0), m.group('suffix')))
        elif m.group('id') is not None:
            toks.append(('id', m.group('id')))
        else:
            toks.append(('p', m.group('punct')))
    return toks


def unescape(s):
    out = []
    i = 0
    while i < len(s):
        if s[i] == '\\':
            i += 1
            c = s[i]
            out.append({'n': '\n', 't': '\t', 'r': '\r', '0': '\0', '\\': '\\', '"': '"', "'": "'"}.get(c, '\\' + c))
        else:
            out.append(s[i])
        i += 1
    return ''.join(out)


BINPREC = {
    '||': 1, '&&': 2,
    '==': 3, '!=': 3, '<': 3, '>': 3, '<=': 3, '>=': 3,
    '|': 4, '&': 6,
    '+': 8, '-': 8,
    '*': 9, '/': 9, '%': 9,
}


class Parser:
    def __init__(self, toks):
        self.t = toks
        self.i = 0

    def peek(self, k=0):
        return self.t[self.i + k] if self.i + k < len(self.t) else ('eof',)

    def next(self):
        tok = self.peek()
        self.i += 1
        return tok

    def at_p(self, p, k=0):
        tok = self.peek(k)
        return tok[0] == 'p' and tok[1] == p

    def at_id(self, name=None, k=0):
        tok = self.peek(k)
        return tok[0] == 'id' and (name is None or tok[1] == name)

    def eat_p(self, p):
        if self.at_p(p):
            self.i += 1
            return True
        return False

    def expect_p(self, p):
        if not self.eat_p(p):
            raise Unsupported("expected %r, got %r" % (p, self.peek(),))

    def expect_id(self):
        tok = self.next()
        if tok[0] != 'id':
            raise Unsupported("expected identifier, got %r" % (tok,))
        return tok[1]

    # ---- types (kept as normalised strings) ----
    def parse_type(self):
        parts = []
        depth = 0
        while True:
            tok = self.peek()
            if tok[0] == 'p':
                if tok[1] in ('<', '(', '['):
                    depth += 1
                elif tok[1] in ('>', ')', ']'):
                    if depth == 0:
                        break
                    depth -= 1
                elif tok[1] in (',', ';', '=', '{', '|', '=>') and depth == 0:
                    break
                elif tok[1] in ('.', '?', '+', '-', '*', '/', '%', '==', '!=', '<=', '>=', '&&', '||') and depth == 0:
                    break
            elif tok[0] == 'eof':
                break
            elif tok[0] == 'id' and tok[1] in ('as', 'where') and depth == 0:
                break
            self.i += 1
            parts.append(tok[1] if tok[0] in ('p', 'id', 'lifetime') else str(tok[1]))
        return ''.join(parts).replace(',', ', ')

    # ---- patterns ----
    def parse_pattern(self):
        pats = [self.parse_pattern1()]
        while self.at_p('|'):
            self.i += 1
            pats.append(self.parse_pattern1())
        return pats[0] if len(pats) == 1 else ('por', pats)

    def parse_pattern1(self):
        tok = self.peek()
        if tok[0] == 'id' and tok[1] == '_':
            self.i += 1
            return ('pwild',)
        if tok[0] == 'num':
            self.i += 1
            return ('plit', tok[1])
        if tok[0] == 'p' and tok[1] == '(':
            self.i += 1
            ps = []
            while not self.at_p(')'):
                ps.append(self.parse_pattern())
                if not self.eat_p(','):
                    break
            self.expect_p(')')
            return ('ptuple', ps)
        if tok[0] == 'p' and tok[1] == '&':
            self.i += 1
            return self.parse_pattern1()
        if tok[0] == 'id':
            if tok[1] in ('ref', 'mut'):
                self.i += 1
                return self.parse_pattern1()
            path = self.parse_path_segments()
            if self.at_p('('):
                self.i += 1
                ps = []
                while not self.at_p(')'):
                    ps.append(self.parse_pattern())
                    if not self.eat_p(','):
                        break
                self.expect_p(')')
                return ('ptuple_struct', path, ps)
            if self.at_p('{'):
                self.i += 1
                fs = []
                while not self.at_p('}'):
                    if self.eat_p('..'):
                        break
                    f = self.expect_id()
                    if self.eat_p(':'):
                        fs.append((f, self.parse_pattern()))
                    else:
                        fs.append((f, ('pbind', f)))
                    if not self.eat_p(','):
                        break
                self.expect_p('}')
                return ('pstruct', path, fs)
            if len(path) == 1 and (path[0][0].islower() or path[0][0] == '_'):
                return ('pbind', path[0])
            return ('ppath', path)
        raise Unsupported("pattern at %r" % (tok,))

    def parse_path_segments(self):
        segs = [self.expect_id()]
        while self.at_p('::'):
            self.i += 1
            if self.at_p('<'):
                # turbofish: skip generic args
                depth = 0
                while True:
                    tok = self.next()
                    if tok == ('p', '<'):
                        depth += 1
                    elif tok == ('p', '>'):
                        depth -= 1
                        if depth == 0:
                            break
                continue
            segs.append(self.expect_id())
        return segs

    # ---- expressions ----
    def parse_expr(self, no_struct=False, minprec=0):
        lhs = self.parse_unary(no_struct)
        while True:
            tok = self.peek()
            if tok[0] == 'id' and tok[1] == 'as':
                self.i += 1
                ty = self.parse_type()
                lhs = ('cast', lhs, ty)
                continue
            if tok[0] == 'p' and tok[1] in BINPREC and BINPREC[tok[1]] > minprec:
                op = tok[1]
                self.i += 1
                rhs = self.parse_expr(no_struct, BINPREC[op])
                lhs = ('bin', op, lhs, rhs)
                continue
            return lhs

    def parse_unary(self, no_struct):
        if self.at_p('!') or self.at_p('-') or self.at_p('*'):
            op = self.next()[1]
            return ('un', op, self.parse_unary(no_struct))
        if self.at_p('&'):
            self.i += 1
            if self.at_id('mut'):
                self.i += 1
            return ('ref', self.parse_unary(no_struct))
        return self.parse_postfix(self.parse_primary(no_struct))

    def parse_args(self):
        self.expect_p('(')
        args = []
        while not self.at_p(')'):
            args.append(self.parse_expr())
            if not self.eat_p(','):
                break
        self.expect_p(')')
        return args

    def parse_postfix(self, e):
        while True:
            if self.at_p('.'):
                self.i += 1
                tok = self.next()
                if tok[0] == 'num':
                    e = ('field', e, str(tok[1]))
                    continue
                if tok[0] != 'id':
                    raise Unsupported("after '.': %r" % (tok,))
                name = tok[1]
                if name == 'await':
                    e = ('await', e)
                    continue
                if self.at_p('::'):
                    self.i += 1
                    self.expect_p('<')
                    depth = 1
                    while depth:
                        t2 = self.next()
                        if t2 == ('p', '<'):
                            depth += 1
                        elif t2 == ('p', '>'):
                            depth -= 1
                if self.at_p('('):
                    e = ('mcall', e, name, self.parse_args())
                else:
                    e = ('field', e, name)
                continue
            if self.at_p('?'):
                self.i += 1
                e = ('try', e)
                continue
            if self.at_p('('):
                e = ('call', e, self.parse_args())
                continue
            if self.at_p('['):
                self.i += 1
                idx = None if self.at_p('..') else self.parse_expr()
                if self.eat_p('..'):
                    hi = None if self.at_p(']') else self.parse_expr()
                    self.expect_p(']')
                    e = ('slice', e, idx, hi)
                else:
                    self.expect_p(']')
                    e = ('index', e, idx)
                continue
            return e

    def parse_block(self):
        self.expect_p('{')
        stmts = []
        tail = None
        while not self.at_p('}'):
            if self.at_p('#'):
                # attribute: #[...]
                self.i += 1
                self.expect_p('[')
                depth = 1
                start = self.i
                while depth:
                    t2 = self.next()
                    if t2 == ('p', '['):
                        depth += 1
                    elif t2 == ('p', ']'):
                        depth -= 1
                stmts.append(('attr', self.t[start:self.i - 1]))
                continue
            if self.at_id('let'):
                self.i += 1
                pat = self.parse_pattern()
                ty = None
                if self.eat_p(':'):
                    ty = self.parse_type()
                self.expect_p('=')
                e = self.parse_expr()
                els = None
                if self.at_id('else'):
                    self.i += 1
                    els = self.parse_block()
                self.expect_p(';')
                stmts.append(('let', pat, ty, e, els))
                continue
            e = self.parse_expr()
            if self.at_p('=') or self.at_p('+=') or self.at_p('-=') or self.at_p('*='):
                op = self.next()[1]
                rhs = self.parse_expr()
                self.expect_p(';')
                stmts.append(('assign', e, op, rhs))
                continue
            if self.eat_p(';'):
                stmts.append(('expr', e))
                continue
            if self.at_p('}'):
                tail = e
                break
            if e[0] in ('if', 'iflet', 'match', 'block', 'while', 'for', 'loop'):
                stmts.append(('expr', e))
                continue
            raise Unsupported("expected ';' or '}' after expression, got %r" % (self.peek(),))
        self.expect_p('}')
        return ('block', stmts, tail)

    def parse_primary(self, no_struct):
        tok = self.peek()
        if tok[0] == 'num':
            self.i += 1
            return ('num', tok[1], tok[2])
        if tok[0] == 'str':
            self.i += 1
            return ('str', tok[1])
        if tok[0] == 'bstr':
            self.i += 1
            return ('bstr', tok[1])
        if tok[0] == 'char':
            self.i += 1
            return ('char', tok[1])
        if tok[0] == 'p':
            if tok[1] == '(':
                self.i += 1
                if self.eat_p(')'):
                    return ('tuple', [])
                e = self.parse_expr()
                if self.at_p(','):
                    es = [e]
                    while self.eat_p(','):
                        if self.at_p(')'):
                            break
                        es.append(self.parse_expr())
                    self.expect_p(')')
                    return ('tuple', es)
                self.expect_p(')')
                return ('paren', e)
            if tok[1] == '{':
                return self.parse_block()
            if tok[1] == '|' or tok[1] == '||':
                params = []
                if tok[1] == '||':
                    self.i += 1
                else:
                    self.i += 1
                    while not self.at_p('|'):
                        p = self.parse_pattern1()
                        if self.eat_p(':'):
                            self.parse_type()
                        params.append(p)
                        if not self.eat_p(','):
                            break
                    self.expect_p('|')
                body = self.parse_expr()
                return ('closure', params, body)
            if tok[1] == '[':
                self.i += 1
                es = []
                while not self.at_p(']'):
                    es.append(self.parse_expr())
                    if self.eat_p(';'):
                        n = self.parse_expr()
                        self.expect_p(']')
                        return ('array_repeat', es[0], n)
                    if not self.eat_p(','):
                        break
                self.expect_p(']')
                return ('array', es)
        if tok[0] == 'id':
            kw = tok[1]
            if kw == 'match':
                self.i += 1
                scrut = self.parse_expr(no_struct=True)
                self.expect_p('{')
                arms = []
                while not self.at_p('}'):
                    pat = self.parse_pattern()
                    guard = None
                    if self.at_id('if'):
                        self.i += 1
                        guard = self.parse_expr(no_struct=True)
                    self.expect_p('=>')
                    body = self.parse_expr()
                    arms.append((pat, guard, body))
                    if not self.eat_p(','):
                        if body[0] not in ('block', 'match', 'if', 'iflet') and not self.at_p('}'):
                            raise Unsupported("match arm separator")
                self.expect_p('}')
                return ('match', scrut, arms)
            if kw == 'if':
                self.i += 1
                if self.at_id('let'):
                    self.i += 1
                    pat = self.parse_pattern()
                    self.expect_p('=')
                    e = self.parse_expr(no_struct=True)
                    then = self.parse_block()
                    els = None
                    if self.at_id('else'):
                        self.i += 1
                        els = self.parse_primary(False) if self.at_id('if') else self.parse_block()
                    return ('iflet', pat, e, then, els)
                cond = self.parse_expr(no_struct=True)
                then = self.parse_block()
                els = None
                if self.at_id('else'):
                    self.i += 1
                    els = self.parse_primary(False) if self.at_id('if') else self.parse_block()
                return ('if', cond, then, els)
            if kw == 'return':
                self.i += 1
                if self.at_p(';') or self.at_p('}') or self.at_p(','):
                    return ('return', None)
                return ('return', self.parse_expr())
            if kw in ('loop',):
                self.i += 1
                return ('loop', self.parse_block())
            if kw == 'while':
                self.i += 1
                if self.at_id('let'):
                    self.i += 1
                    pat = self.parse_pattern()
                    self.expect_p('=')
                    e = self.parse_expr(no_struct=True)
                    return ('whilelet', pat, e, self.parse_block())
                cond = self.parse_expr(no_struct=True)
                return ('while', cond, self.parse_block())
            if kw == 'for':
                self.i += 1
                pat = self.parse_pattern()
                if not self.at_id('in'):
                    raise Unsupported("for without in")
                self.i += 1
                it = self.parse_expr(no_struct=True)
                if self.at_p('..'):
                    self.i += 1
                    hi = self.parse_expr(no_struct=True)
                    it = ('range', it, hi)
                return ('for', pat, it, self.parse_block())
            if kw in ('break', 'continue'):
                self.i += 1
                return (kw,)
            if kw == 'move':
                self.i += 1
                return self.parse_primary(no_struct)
            if kw == 'async':
                self.i += 1
                if self.at_id('move'):
                    self.i += 1
                return ('async', self.parse_block())
            # path, call, struct literal, macro
            path = self.parse_path_segments()
            if self.at_p('!') and (self.at_p('(', 1) or self.at_p('[', 1) or self.at_p('{', 1)):
                self.i += 1
                open_tok = self.next()[1]
                close = {'(': ')', '[': ']', '{': '}'}[open_tok]
                depth = 1
                start = self.i
                while depth:
                    t2 = self.next()
                    if t2 == ('p', open_tok):
                        depth += 1
                    elif t2 == ('p', close):
                        depth -= 1
                    elif t2[0] == 'eof':
                        raise Unsupported("unterminated macro")
                return ('macro', path[-1], self.t[start:self.i - 1])
            if self.at_p('{') and not no_struct and path[-1][0].isupper():
                # struct literal: Name { field: e, field }
                save = self.i
                try:
                    self.i += 1
                    fs = []
                    while not self.at_p('}'):
                        if self.eat_p('..'):
                            fs.append(('..', self.parse_expr()))
                            break
                        f = self.expect_id()
                        if self.eat_p(':'):
                            fs.append((f, self.parse_expr()))
                        else:
                            fs.append((f, ('path', [f])))
                        if not self.eat_p(','):
                            break
                    self.expect_p('}')
                    return ('struct', path, fs)
                except Unsupported:
                    self.i = save
            return ('path', path)
        raise Unsupported("expression at %r" % (tok,))


# ---------------------------------------------------------------------------------------
# item-level helpers (regex based; items in this code base are simply formatted)
# ---------------------------------------------------------------------------------------

def strip_comments(src):
    return re.sub(r'//[^\n]*', '', src)


def find_fn_body(src, fn_name, after=None):
    """Returns (signature_text, body_source_including_braces) of `fn fn_name` (first occurrence
    after the optional marker string)."""
    start = 0
    if after is not None:
        start = src.find(after)
        if start < 0:
            raise Unsupported("marker %r not found" % after)
    m = re.compile(r'\bfn\s+' + re.escape(fn_name) + r'\b').search(src, start)
    if not m:
        raise Unsupported("fn %s not found" % fn_name)
    brace = src.find('{', m.end())
    sig = src[m.start():brace]
    depth = 0
    i = brace
    while i < len(src):
        c = src[i]
        if c == '{':
            depth += 1
        elif c == '}':
            depth -= 1
            if depth == 0:
                return sig, src[brace:i + 1]
        elif c == '"':
            # skip string literal
            i += 1
            while src[i] != '"':
                if src[i] == '\\':
                    i += 1
                i += 1
        elif c == '/' and src[i + 1] == '/':
            i = src.find('\n', i)
            continue
        i += 1
    raise Unsupported("unbalanced braces in fn %s" % fn_name)


def parse_fn_body(src, fn_name, after=None):
    sig, body = find_fn_body(src, fn_name, after)
    p = Parser(tokenize(body))
    blk = p.parse_block()
    if p.peek()[0] != 'eof':
        raise Unsupported("trailing tokens after fn %s body" % fn_name)
    return sig, blk


def parse_struct(src, name):
    """[(field, type_str)] of `struct name { ... }`"""
    m = re.search(r'\bstruct\s+' + re.escape(name) + r'\b[^{;]*\{', src)
    if not m:
        raise Unsupported("struct %s not found" % name)
    end = src.find('}', m.end())
    body = strip_comments(src[m.end():end])
    fields = []
    for part in split_top(body, ','):
        part = re.sub(r'#\[[^\]]*\]', '', part).strip()
        if not part:
            continue
        part = re.sub(r'^pub(\([^)]*\))?\s+', '', part)
        fname, ty = part.split(':', 1)
        fields.append((fname.strip(), re.sub(r'\s+', '', ty).replace(',', ', ')))
    return fields


def parse_enum(src, name):
    """[(variant, [payload types])]"""
    m = re.search(r'\benum\s+' + re.escape(name) + r'\b[^{;]*\{', src)
    if not m:
        raise Unsupported("enum %s not found" % name)
    depth = 1
    i = m.end()
    while depth:
        if src[i] == '{':
            depth += 1
        elif src[i] == '}':
            depth -= 1
        i += 1
    body = strip_comments(src[m.end():i - 1])
    out = []
    for part in split_top(body, ','):
        part = re.sub(r'#\[[^\]]*\]', '', part).strip()
        if not part:
            continue
        mm = re.match(r'([A-Za-z_][A-Za-z0-9_]*)\s*(\((.*)\))?\s*(=\s*\S+)?$', part, re.S)
        if not mm:
            raise Unsupported("enum variant %r" % part)
        tys = [re.sub(r'\s+', '', t) for t in split_top(mm.group(3), ',')] if mm.group(3) else []
        out.append((mm.group(1), [t for t in tys if t]))
    return out


def split_top(s, sep):
    parts = []
    depth = 0
    cur = []
    for c in s:
        if c in '(<[{':
            depth += 1
        elif c in ')>]}':
            depth -= 1
        if c == sep and depth == 0:
            parts.append(''.join(cur))
            cur = []
        else:
            cur.append(c)
    parts.append(''.join(cur))
    return parts


def find_const(src, name):
    """value expression text of `const NAME: T = <expr>;` (or static)"""
    m = re.search(r'\b(?:const|static)\s+' + re.escape(name) + r'\s*:\s*([^=]+?)\s*=\s*(.*?);', src, re.S)
    if not m:
        raise Unsupported("const %s not found" % name)
    return m.group(1).strip(), m.group(2).strip()


def eval_const_int(expr_text, consts=None):
    """Evaluates a constant integer expression (literals, + - * /, size_of::<uN>(), other consts)."""
    consts = consts or {}
    p = Parser(tokenize(expr_text))
    e = p.parse_expr()

    def ev(e):
        k = e[0]
        if k == 'num':
            return e[1]
        if k == 'paren':
            return ev(e[1])
        if k == 'bin':
            a, b = ev(e[2]), ev(e[3])
            return {'+': a + b, '-': a - b, '*': a * b, '/': a // b if b else 0}[e[1]]
        if k == 'cast':
            return ev(e[1])
        if k == 'path':
            if len(e[1]) == 1 and e[1][0] in consts:
                return consts[e[1][0]]
            raise Unsupported("unknown constant %s" % '::'.join(e[1]))
        if k == 'call' and e[1][0] == 'path' and e[1][1][0] == 'size_of':
            raise Unsupported("size_of without turbofish info")
        raise Unsupported("constant expression %r" % (e,))

    # size_of::<u64>() handled textually
    txt = re.sub(r'size_of::<u(\d+)>\(\)', lambda m: str(int(m.group(1)) // 8), expr_text)
    if txt != expr_text:
        return eval_const_int(txt, consts)
    return ev(e)
