"""Translates client/src/keep_alive/backoff_strategy.rs (types, constants and the body of
`BackoffStrategyIter::next`) into gen/Backoff.v.

The translation is type directed: every Rust operation is mapped through PRIMS to a Gallina
primitive of Selium.RustArith whose overflow behaviour is explicit.  A sub-term that may panic
has type `outcome T` and is sequenced with `bind`; a pure one is emitted as a plain term.
Anything not in the tables raises Unsupported (the obligation cannot be regenerated).
"""
from rustparse import *

# (receiver type, method) -> (coq function, [arg types], result type, pure?)
METHODS = {
    ('Duration', 'saturating_mul'): ('dur_saturating_mul', ['u32'], 'Duration', True),
    ('Duration', 'checked_mul'): ('dur_checked_mul', ['u32'], 'Option<Duration>', True),
    ('Duration', 'as_nanos'): ('dur_as_nanos', [], 'u128', True),
    ('Duration', 'is_zero'): ('dur_is_zero', [], 'bool', True),
    ('Duration', 'min'): ('dur_min', ['Duration'], 'Duration', True),
    ('Duration', 'max'): ('dur_max', ['Duration'], 'Duration', True),
    ('u64', 'checked_pow'): ('u64_checked_pow', ['u32'], 'Option<u64>', True),
    ('u64', 'saturating_pow'): ('u64_saturating_pow', ['u32'], 'u64', True),
    ('u64', 'pow'): ('u64_pow debug', ['u32'], 'u64', False),
    ('u128', 'checked_mul'): ('u128_checked_mul', ['u128'], 'Option<u128>', True),
    ('u128', 'checked_pow'): ('u128_checked_pow', ['u32'], 'Option<u128>', True),
}
# path call -> (coq function, [arg types], result type, pure?)
PATHCALLS = {
    ('u64', 'try_from'): {'u128': ('u64_try_from_u128', 'Result<u64>', True)},
    ('u32', 'try_from'): {'u64': ('u32_try_from_u64', 'Result<u32>', True)},
    ('u128', 'from'): {'u64': ('cast_widen', 'u128', True), 'u32': ('cast_widen', 'u128', True)},
    ('u64', 'from'): {'u32': ('cast_widen', 'u64', True)},
    ('Duration', 'new'): {('u64', 'u32'): ('dur_new', 'Duration', False)},
}
BINOPS = {
    ('u32', '-', 'u32'): ('u32_sub debug', 'u32', False),
    ('u32', '+', 'u32'): ('u32_add debug', 'u32', False),
    ('Duration', '*', 'u32'): ('dur_mul_u32', 'Duration', False),
    ('u128', '/', 'u128'): ('u128_div', 'u128', False),
    ('u128', '%', 'u128'): ('u128_rem', 'u128', False),
    ('u32', '>', 'u32'): ('u32_gt', 'bool', True),
    ('u32', '>=', 'u32'): ('u32_ge', 'bool', True),
    ('u32', '<', 'u32'): ('u32_lt', 'bool', True),
    ('u32', '<=', 'u32'): ('u32_le', 'bool', True),
}
CASTS = {
    ('u64', 'u128'): 'cast_widen', ('u32', 'u64'): 'cast_widen', ('u32', 'u128'): 'cast_widen',
    ('u128', 'u32'): 'cast_u32', ('u128', 'u64'): 'cast_u64', ('u64', 'u32'): 'cast_u32',
}
INT_TYPES = ('u32', 'u64', 'u128')


def coq_type(t):
    if t in INT_TYPES:
        return 'N'
    if t == 'Duration':
        return 'dur'
    if t == 'bool':
        return 'bool'
    if t.startswith('Option<') or t.startswith('Result<'):
        return '(option %s)' % coq_type(t[7:-1])
    return t  # a generated record / inductive


def prefix_of(struct_name):
    return ''.join(c for c in struct_name if c.isupper()).lower() + '_'


class Emitter:
    def __init__(self, structs, enums, consts):
        self.structs = structs      # name -> [(field, type)]
        self.enums = enums          # name -> [(variant, [types])]
        self.consts = consts        # NAME -> (type, value)
        self.fresh = 0

    def gensym(self, base='t'):
        self.fresh += 1
        return '%s%d' % (base, self.fresh)

    # returns (term, type, pure)
    def expr(self, e, env, expect=None):
        k = e[0]
        if k == 'paren':
            return self.expr(e[1], env, expect)
        if k == 'num':
            ty = e[2] or expect
            if ty not in INT_TYPES:
                raise Unsupported("integer literal of unknown type (expected %r)" % (expect,))
            return (str(e[1]), ty, True)
        if k == 'path':
            p = e[1]
            if len(p) == 1:
                if p[0] in env:
                    return (env[p[0]][0], env[p[0]][1], True)
                if p[0] in self.consts:
                    ty, val = self.consts[p[0]]
                    return ('%s' % p[0], ty, True)
                if p[0] == 'None':
                    if not expect or not expect.startswith('Option<'):
                        raise Unsupported("None of unknown type")
                    return ('None', expect, True)
                raise Unsupported("unknown variable %s" % p[0])
            if p == ['Duration', 'MAX']:
                return ('DUR_MAX', 'Duration', True)
            if p == ['Duration', 'ZERO']:
                return ('0', 'Duration', True)
            if p == ['u32', 'MAX']:
                return ('U32_MAX', 'u32', True)
            if p == ['u64', 'MAX']:
                return ('U64_MAX', 'u64', True)
            if len(p) == 2 and p[0] in self.enums:
                for v, tys in self.enums[p[0]]:
                    if v == p[1] and not tys:
                        return (v, p[0], True)
            raise Unsupported("path %s" % '::'.join(p))
        if k == 'field':
            r, rty, rp = self.expr(e[1], env)
            if rty not in self.structs:
                raise Unsupported("field access on %s" % rty)
            for f, fty in self.structs[rty]:
                if f == e[2]:
                    return self.lift1(r, rp, lambda x: '(%s%s %s)' % (prefix_of(rty), f, x), fty)
            raise Unsupported("no field %s in %s" % (e[2], rty))
        if k == 'bin':
            a = self.expr(e[2], env)
            b = self.expr(e[3], env, expect=a[1] if a[1] in INT_TYPES else None)
            key = (a[1], e[1], b[1])
            if key not in BINOPS:
                raise Unsupported("operator %s on (%s, %s)" % (e[1], a[1], b[1]))
            fn, rty, pure = BINOPS[key]
            return self.apply(fn, [a, b], rty, pure)
        if k == 'cast':
            a = self.expr(e[1], env)
            key = (a[1], e[2])
            if key not in CASTS:
                raise Unsupported("cast %s as %s" % key)
            return self.apply(CASTS[key], [a], e[2], True)
        if k == 'mcall':
            return self.mcall(e, env, expect)
        if k == 'call':
            return self.call(e, env, expect)
        if k == 'match':
            return self.match(e, env, expect)
        if k == 'struct':
            name = e[1][-1]
            if name not in self.structs:
                raise Unsupported("struct literal %s" % name)
            fields = dict(e[2])
            vals = []
            for f, fty in self.structs[name]:
                if f not in fields:
                    raise Unsupported("struct literal %s misses %s" % (name, f))
                vals.append(self.expr(fields[f], env, expect=fty))
            pre = prefix_of(name)
            names = [f for f, _ in self.structs[name]]
            return self.applyn(vals, lambda xs: '{| ' + '; '.join('%s%s := %s' % (pre, f, x) for f, x in zip(names, xs)) + ' |}', name, True)
        if k == 'block':
            if e[1] or e[2] is None:
                raise Unsupported("statements inside expression block")
            return self.expr(e[2], env, expect)
        if k == 'if':
            c = self.expr(e[1], env)
            if c[1] != 'bool' or e[3] is None:
                raise Unsupported("if expression form")
            a = self.expr(e[2], env, expect)
            b = self.expr(e[3], env, expect or a[1])
            if a[1] != b[1]:
                raise Unsupported("if branches of different types")
            pure = a[2] and b[2]
            br = (lambda t: t[0]) if pure else self.as_outcome
            return self.applyn([c], lambda xs: '(if %s then %s else %s)' % (xs[0], br(a), br(b)), a[1], pure)
        raise Unsupported("expression form %s" % k)

    def lift1(self, r, rpure, f, ty):
        if rpure:
            return (f(r), ty, True)
        x = self.gensym()
        return ('(bind %s (fun %s => Val %s))' % (r, x, f(x)), ty, False)

    def apply(self, fn, args, rty, pure):
        return self.applyn(args, lambda xs: '(%s %s)' % (fn, ' '.join(xs)) if xs else fn, rty, pure)

    def applyn(self, args, mk, rty, pure):
        """args: [(term, type, pure)]; mk builds the application from plain argument terms.
        `pure` says whether the built application itself is pure."""
        binds = []
        xs = []
        for (t, _ty, p) in args:
            if p:
                xs.append(t)
            else:
                x = self.gensym()
                binds.append((x, t))
                xs.append(x)
        body = mk(xs)
        if not binds:
            return (body, rty, pure)
        inner = body if not pure else 'Val %s' % body
        for x, t in reversed(binds):
            inner = '(bind %s (fun %s => %s))' % (t, x, inner)
        return (inner, rty, False)

    def closure(self, c, param_types, env, expect=None):
        if c[0] != 'closure':
            raise Unsupported("expected a closure argument")
        if len(c[1]) != len(param_types):
            raise Unsupported("closure arity")
        env2 = dict(env)
        names = []
        for p, ty in zip(c[1], param_types):
            if p[0] != 'pbind':
                raise Unsupported("closure parameter pattern")
            env2[p[1]] = (p[1], ty)
            names.append(p[1])
        body = self.expr(c[2], env2, expect)
        return names, body

    def as_outcome(self, t):
        return t[0] if not t[2] else '(Val %s)' % t[0]

    def mcall(self, e, env, expect):
        recv = self.expr(e[1], env)
        name = e[2]
        rty = recv[1]
        args = e[3]
        if rty.startswith('Option<'):
            inner = rty[7:-1]
            if name == 'and_then':
                names, body = self.closure(args[0], [inner], env)
                if not body[1].startswith('Option<'):
                    raise Unsupported("and_then closure must return Option")
                return self.applyn([recv], lambda xs: '(opt_and_then %s (fun %s => %s))' % (xs[0], names[0], self.as_outcome(body)), body[1], False)
            if name == 'map':
                names, body = self.closure(args[0], [inner], env)
                return self.applyn([recv], lambda xs: '(opt_map %s (fun %s => %s))' % (xs[0], names[0], self.as_outcome(body)), 'Option<%s>' % body[1], False)
            if name == 'unwrap_or':
                d = self.expr(args[0], env, expect=inner)
                if d[1] != inner:
                    raise Unsupported("unwrap_or type mismatch")
                return self.apply('opt_unwrap_or', [recv, d], inner, True)
            if name == 'map_or':
                d = self.expr(args[0], env, expect=expect)
                names, body = self.closure(args[1], [inner], env, expect=d[1])
                if d[1] != body[1]:
                    raise Unsupported("map_or type mismatch")
                return self.applyn([recv, d], lambda xs: '(opt_map_or %s %s (fun %s => %s))' % (xs[0], xs[1], names[0], self.as_outcome(body)), d[1], False)
            raise Unsupported("Option::%s" % name)
        if rty.startswith('Result<'):
            if name == 'ok' and not args:
                return (recv[0], 'Option<%s>' % rty[7:-1], recv[2])
            raise Unsupported("Result::%s" % name)
        key = (rty, name)
        if key not in METHODS:
            raise Unsupported("method %s::%s is outside the translated subset" % (rty, name))
        fn, atys, resty, pure = METHODS[key]
        if len(atys) != len(args):
            raise Unsupported("arity of %s::%s" % key)
        avals = [recv]
        for a, aty in zip(args, atys):
            v = self.expr(a, env, expect=aty)
            if v[1] != aty:
                raise Unsupported("argument of %s::%s has type %s, expected %s" % (rty, name, v[1], aty))
            avals.append(v)
        return self.apply(fn, avals, resty, pure)

    def call(self, e, env, expect):
        f = e[1]
        if f[0] != 'path':
            raise Unsupported("call of non-path")
        p = f[1]
        if p == ['Some']:
            inner_expect = expect[7:-1] if expect and expect.startswith('Option<') else None
            a = self.expr(e[2][0], env, expect=inner_expect)
            return self.apply('Some', [a], 'Option<%s>' % a[1], True)
        key = tuple(p[-2:])
        if key in PATHCALLS:
            avals = [self.expr(a, env) for a in e[2]]
            tys = tuple(a[1] for a in avals)
            table = PATHCALLS[key]
            sel = tys[0] if len(tys) == 1 and tys[0] in table else tys
            if sel not in table:
                raise Unsupported("%s on %r" % ('::'.join(p), tys))
            fn, resty, pure = table[sel]
            return self.apply(fn, avals, resty, pure)
        raise Unsupported("call of %s" % '::'.join(p))

    def match(self, e, env, expect):
        scrut = self.expr(e[1], env)
        sty = scrut[1]
        arms = []
        resty = None
        anyimpure = False
        if sty in self.enums:
            variants = dict(self.enums[sty])
        elif sty.startswith('Option<'):
            variants = {'Some': [sty[7:-1]], 'None': []}
        else:
            raise Unsupported("match on %s" % sty)
        compiled = []
        for pat, guard, body in e[2]:
            if guard is not None:
                raise Unsupported("match guard")
            env2 = dict(env)
            if pat[0] == 'ppath':
                v = pat[1][-1]
                cp = v
            elif pat[0] == 'ptuple_struct':
                v = pat[1][-1]
                names = []
                for sp, ty in zip(pat[2], variants.get(v, [])):
                    if sp[0] == 'pbind':
                        env2[sp[1]] = (sp[1], ty)
                        names.append(sp[1])
                    elif sp[0] == 'pwild':
                        names.append('_')
                    else:
                        raise Unsupported("nested pattern")
                cp = '%s %s' % (v, ' '.join(names))
            elif pat[0] == 'pwild':
                v = None
                cp = '_'
            elif pat[0] == 'pbind' and pat[1] == 'None':
                v = 'None'
                cp = 'None'
            else:
                raise Unsupported("pattern %r" % (pat,))
            if v is not None and v not in variants:
                raise Unsupported("variant %s not in %s" % (v, sty))
            b = self.expr(body, env2, expect or resty)
            if resty is None:
                resty = b[1]
            elif b[1] != resty:
                raise Unsupported("match arms of different types %s / %s" % (resty, b[1]))
            anyimpure = anyimpure or not b[2]
            compiled.append((cp, b))
        def mk(xs):
            arms_txt = ' '.join('| %s => %s' % (cp, (self.as_outcome(b) if anyimpure else b[0])) for cp, b in compiled)
            return '(match %s with %s end)' % (xs[0], arms_txt)
        return self.applyn([scrut], mk, resty, not anyimpure)


def translate_next(em, blk, self_ty, ret_inner):
    """Translates the body of `fn next(&mut self) -> Option<ret_inner>` into a Gallina term of
    type outcome (option ret_inner * self_ty).  `self` is threaded as the variable `self`."""
    env = {'self': ('self', self_ty)}
    ret_ty = 'Option<%s>' % ret_inner

    def ret(val):
        # val : (term, type, pure) of the returned Option
        if val[1] != ret_ty:
            raise Unsupported("return value has type %s, expected %s" % (val[1], ret_ty))
        if val[2]:
            return 'Val (%s, self)' % val[0]
        x = em.gensym('r')
        return 'bind %s (fun %s => Val (%s, self))' % (val[0], x, x)

    def assign_target(lhs):
        """returns ('var', name) or ('selffield', [path])"""
        if lhs[0] == 'path' and len(lhs[1]) == 1:
            return ('var', lhs[1][0])
        path = []
        cur = lhs
        while cur[0] == 'field':
            path.insert(0, cur[2])
            cur = cur[1]
        if cur == ('path', ['self']) and path:
            return ('selffield', path)
        raise Unsupported("assignment target")

    def set_self_field(path, newval_term):
        # functional update of a nested field of self
        def upd(ty, obj, path):
            if not path:
                return newval_term
            pre = prefix_of(ty)
            parts = []
            for f, fty in em.structs[ty]:
                cur = '(%s%s %s)' % (pre, f, obj)
                if f == path[0]:
                    parts.append('%s%s := %s' % (pre, f, upd(fty, cur, path[1:])))
                else:
                    parts.append('%s%s := %s' % (pre, f, cur))
            return '{| ' + '; '.join(parts) + ' |}'
        return upd(self_ty, 'self', path)

    def field_type(path):
        ty = self_ty
        for f in path:
            ty = dict(em.structs[ty])[f]
        return ty

    def stmts(ss, tail, env):
        if not ss:
            if tail is None:
                raise Unsupported("function body without tail expression")
            return ret(em.expr(tail, env, expect=ret_ty))
        s = ss[0]
        rest = ss[1:]
        if s[0] == 'let':
            pat, ty, e, els = s[1], s[2], s[3], s[4]
            if els is not None or pat[0] != 'pbind':
                raise Unsupported("let form")
            v = em.expr(e, env, expect=ty)
            env2 = dict(env)
            env2[pat[1]] = (pat[1], v[1])
            k = stmts(rest, tail, env2)
            if v[2]:
                return 'let %s := %s in\n  %s' % (pat[1], v[0], k)
            return 'bind %s (fun %s =>\n  %s)' % (v[0], pat[1], k)
        if s[0] == 'expr' and s[1][0] == 'if':
            _, cond, then, els = s[1]
            if els is not None:
                raise Unsupported("if/else statement")
            c = em.expr(cond, env)
            if c[1] != 'bool' or not c[2]:
                raise Unsupported("if condition")
            tstm, ttail = then[1], then[2]
            if len(tstm) == 1 and tstm[0][0] == 'expr' and tstm[0][1][0] == 'return' and ttail is None:
                r = em.expr(tstm[0][1][1], env, expect=ret_ty)
                return 'if %s then %s else\n  %s' % (c[0], ret(r), stmts(rest, tail, env))
            raise Unsupported("if statement body other than a return")
        if s[0] == 'assign':
            tgt = assign_target(s[1])
            op = s[2]
            if tgt[0] == 'var':
                name = tgt[1]
                if name not in env:
                    raise Unsupported("assignment to unknown %s" % name)
                cur = (env[name][0], env[name][1], True)
                ty = env[name][1]
            else:
                ty = field_type(tgt[1])
                cur = em.expr(s[1], env)
            rhs = em.expr(s[3], env, expect=ty)
            if op == '=':
                val = rhs
            else:
                key = (ty, op[0], rhs[1])
                if key not in BINOPS:
                    raise Unsupported("compound assignment %s on %s" % (op, ty))
                fn, rty, pure = BINOPS[key]
                val = em.apply(fn, [cur, rhs], rty, pure)
            if tgt[0] == 'var':
                k = stmts(rest, tail, env)
                if val[2]:
                    return 'let %s := %s in\n  %s' % (name, val[0], k)
                return 'bind %s (fun %s =>\n  %s)' % (val[0], name, k)
            x = em.gensym('v')
            k = stmts(rest, tail, env)
            upd = set_self_field(tgt[1], x)
            if val[2]:
                return 'let %s := %s in\n  let self := %s in\n  %s' % (x, val[0], upd, k)
            return 'bind %s (fun %s =>\n  let self := %s in\n  %s)' % (val[0], x, upd, k)
        if s[0] == 'expr' and s[1][0] == 'iflet':
            _, pat, e, then, els = s[1]
            if els is not None or then[2] is not None:
                raise Unsupported("if-let with else / tail")
            sc = em.expr(e, env)
            if not sc[2] or not sc[1].startswith('Option<') or pat[0] != 'ptuple_struct' or pat[1] != ['Some'] or pat[2][0][0] != 'pbind':
                raise Unsupported("if-let form")
            bound = pat[2][0][1]
            env2 = dict(env)
            env2[bound] = (bound, sc[1][7:-1])
            if len(then[1]) != 1 or then[1][0][0] != 'assign':
                raise Unsupported("if-let body other than a single assignment")
            a = then[1][0]
            tgt = assign_target(a[1])
            if tgt[0] != 'var' or a[2] != '=':
                raise Unsupported("if-let assignment form")
            name = tgt[1]
            rhs = em.expr(a[3], env2, expect=env[name][1])
            if not rhs[2] or rhs[1] != env[name][1]:
                raise Unsupported("if-let assignment value")
            k = stmts(rest, tail, env)
            return 'let %s := match %s with Some %s => %s | None => %s end in\n  %s' % (name, sc[0], bound, rhs[0], name, k)
        raise Unsupported("statement %r" % (s[0],))

    return stmts(blk[1], blk[2], env)


def generate(repo):
    path = repo + '/client/src/keep_alive/backoff_strategy.rs'
    src = open(path).read()
    main = src.split('#[cfg(test)]')[0]
    structs = {
        'NextAttempt': parse_struct(main, 'NextAttempt'),
        'BackoffStrategyState': parse_struct(main, 'BackoffStrategyState'),
        'BackoffStrategyIter': parse_struct(main, 'BackoffStrategyIter'),
    }
    enums = {'Strategy': parse_enum(main, 'Strategy')}
    consts = {}
    out = []
    out.append('(* GENERATED by translator/backoff.py from %s -- do not edit *)' % path)
    out.append('Require Import Selium.Base Selium.RustArith.')
    out.append('Open Scope N_scope.\n')
    for cname in ('NANOS_PER_SEC',):
        try:
            ty, val = find_const(main, cname)
        except Unsupported:
            continue
        consts[cname] = (ty, eval_const_int(val))
        out.append('Definition %s : N := %d.' % (cname, consts[cname][1]))
    ty, val = find_const(main, 'DEFAULT_MAX_ATTEMPTS')
    out.append('Definition DEFAULT_MAX_ATTEMPTS : N := %d.' % eval_const_int(val))
    out.append('')
    out.append('Inductive Strategy : Type :=')
    for v, tys in enums['Strategy']:
        out.append('| %s%s' % (v, ''.join(' (_ : %s)' % coq_type(t) for t in tys)))
    out[-1] += '.'
    out.append('')
    for name in ('NextAttempt', 'BackoffStrategyState', 'BackoffStrategyIter'):
        pre = prefix_of(name)
        out.append('Record %s : Type := { %s }.' % (name, '; '.join('%s%s : %s' % (pre, f, coq_type(t)) for f, t in structs[name])))
    out.append('')
    em = Emitter(structs, enums, consts)
    sig, blk = parse_fn_body(main, 'next', after='impl Iterator for BackoffStrategyIter')
    if not re.search(r'&mut\s+self', sig) or 'Option<Self::Item>' not in sig:
        raise Unsupported("signature of next: %s" % sig)
    body = translate_next(em, blk, 'BackoffStrategyIter', 'NextAttempt')
    out.append('Section Next.')
    out.append('Variable debug : bool.')
    out.append('Definition next (self : BackoffStrategyIter) : outcome (option NextAttempt * BackoffStrategyIter) :=')
    out.append('  ' + body + '.')
    out.append('End Next.')
    # into_iter: initial current_attempt
    sig2, blk2 = parse_fn_body(main, 'into_iter')
    tail = blk2[2]
    if tail is None or tail[0] != 'struct' or tail[1][-1] != 'BackoffStrategyIter':
        raise Unsupported("into_iter body")
    init = dict(tail[2]).get('current_attempt')
    if init is None or init[0] != 'num':
        raise Unsupported("into_iter: current_attempt initialiser")
    for f, v in tail[2]:
        if f == 'strategy_type' and v != ('field', ('path', ['self']), 'strategy_type'):
            raise Unsupported("into_iter: strategy_type")
        if f == 'state' and v != ('field', ('path', ['self']), 'state'):
            raise Unsupported("into_iter: state")
    out.append('Definition INITIAL_ATTEMPT : N := %d.' % init[1])
    return '\n'.join(out) + '\n', {'file': path, 'items': ['struct NextAttempt', 'struct BackoffStrategyState', 'struct BackoffStrategyIter', 'enum Strategy', 'fn next', 'fn into_iter']}


if __name__ == '__main__':
    import sys
    txt, _ = generate(sys.argv[1] if len(sys.argv) > 1 else '/repo')
    sys.stdout.write(txt)
