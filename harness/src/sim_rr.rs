//! Req/rep router simulation: drives the real `reqrep::Topic<MockErr>` future with mock
//! requestors (sink + stream sharing one label), mock repliers, and the executor of sim_ps.
//!
//! Frames in text: m:<cid>:<hdrs>:<body>   cid = - | <usize text> | x<junk>; hdrs = - | name=val,name=val (sorted)
//!                 e:<code>   (Frame::Error)      o:<tag>   (any other frame kind)
//! case rr <seed> <n> wake_driven=<0|1> final=<quiesce|close|none>
//! q client <label> <woke> | q server <label> <woke> | c <woke> | f k|s <label> <woke> | drain <end_streams>
//! k <label> ready|flush|close ok|err|pending | k <label> send <frame> ok|err | s <label> item <frame>|err|end|pending
use crate::sim::*;
use crate::sim_ps::{final_phase, fire, fire_one, Exec};
use crate::util::*;
use bytes::Bytes;
use futures::Future;
use selium_protocol::{ErrorPayload, Frame, MessagePayload};
use selium_server::topic::reqrep::{Socket, Topic};
use std::collections::HashMap;
use std::sync::{Arc, Mutex};

pub fn show_frame(f: &Frame) -> String {
    match f {
        Frame::Message(p) => {
            let mut cid = "-".to_string();
            let mut others: Vec<(String, String)> = vec![];
            if let Some(h) = &p.headers {
                for (k, v) in h {
                    if k == "cid" {
                        cid = if v.parse::<usize>().is_ok() { v.clone() } else { format!("x{}", v) };
                    } else {
                        others.push((k.clone(), v.clone()));
                    }
                }
            }
            others.sort();
            let hd = if others.is_empty() {
                "-".to_string()
            } else {
                others.iter().map(|(k, v)| format!("{}={}", k, v)).collect::<Vec<_>>().join(",")
            };
            // headers: None and Some({}) are told apart by a trailing marker so that the judge can
            // check the one normalisation the router performs
            let none_marker = if p.headers.is_none() { "n" } else { "s" };
            format!("m:{}:{}:{}:{}", cid, hd, String::from_utf8_lossy(&p.message), none_marker)
        }
        Frame::Error(e) => format!("e:{}", e.code),
        Frame::Ok => "o:7".to_string(),
        other => format!("o:{}", other.get_type()),
    }
}

pub fn parse_frame(s: &str) -> Frame {
    let t: Vec<&str> = s.split(':').collect();
    match t[0] {
        "m" => {
            let mut h: HashMap<String, String> = HashMap::new();
            if t[1] != "-" {
                let v = t[1].strip_prefix('x').unwrap_or(t[1]);
                h.insert("cid".into(), v.to_string());
            }
            if t[2] != "-" {
                for kv in t[2].split(',') {
                    let (k, v) = kv.split_once('=').unwrap();
                    h.insert(k.to_string(), v.to_string());
                }
            }
            let none = t.get(4).copied().unwrap_or("s") == "n" && h.is_empty();
            Frame::Message(MessagePayload { headers: if none { None } else { Some(h) }, message: Bytes::from(t[3].to_string()) })
        }
        "e" => Frame::Error(ErrorPayload { code: t[1].parse().unwrap(), message: Bytes::new() }),
        _ => {
            if t[1] == "7" {
                Frame::Ok
            } else {
                Frame::BatchMessage(Bytes::from_static(b"zz"))
            }
        }
    }
}

/// requests a mock replier has been handed and not answered yet: (cid text, other headers text)
pub struct ReplierState {
    pub outstanding: Vec<(String, String)>,
}

fn request_text(world: &mut World) -> String {
    world.next_item += 1;
    let body = world.next_item;
    // requestor-supplied headers, sometimes including a forged routing tag
    let cid = match world.rng.below(8) {
        0 => world.rng.below(4).to_string(),
        1 => "xforged".to_string(),
        _ => "-".to_string(),
    };
    let hd = match world.rng.below(4) {
        0 => "-".to_string(),
        1 => format!("req_id={}", world.rng.below(5)),
        2 => format!("a=1,req_id={}", world.rng.below(5)),
        _ => format!("req_id={}", body),
    };
    if world.rng.chance(1, 25) {
        return format!("o:{}", world.rng.below(8));
    }
    let marker = if cid == "-" && hd == "-" && world.rng.chance(1, 2) { "n" } else { "s" };
    format!("m:{}:{}:{}:{}", cid, hd, body, marker)
}

fn new_client(w: &W, label: u64) -> Socket<MockErr> {
    let si: MockSink<Frame> = MockSink { id: label, w: w.clone(), show: show_frame };
    let st: MockStream<Frame> = MockStream { id: label, ended: false, w: w.clone(), make: Box::new(request_text), parse: parse_frame };
    Socket::Client((Box::pin(si), Box::pin(st)))
}

fn new_server(w: &W, label: u64, replies: Arc<Mutex<ReplierState>>) -> Socket<MockErr> {
    let si: MockSink<Frame> = MockSink { id: label, w: w.clone(), show: show_frame };
    let st: MockStream<Frame> = MockStream {
        id: label,
        ended: false,
        w: w.clone(),
        make: Box::new(move |world: &mut World| {
            world.next_item += 1;
            let body = world.next_item;
            let mut rs = replies.lock().unwrap_or_else(|p| p.into_inner());
            let x = world.rng.below(20);
            if x < 14 && !rs.outstanding.is_empty() {
                // answer one of the requests received so far, not necessarily the oldest
                let i = world.rng.below(rs.outstanding.len() as u64) as usize;
                let (cid, hd) = rs.outstanding.remove(i);
                format!("m:{}:{}:{}:s", cid, hd, body)
            } else {
                match x {
                    14 => format!("m:-:req_id=1:{}:s", body),             // no routing tag
                    15 => format!("m:-:-:{}:n", body),                    // no headers at all
                    16 => format!("m:{}:req_id=2:{}:s", 1_000_000 + world.rng.below(5), body), // unknown requestor
                    17 => format!("m:xnot-a-number:-:{}:s", body),        // malformed tag
                    18 => format!("o:{}", world.rng.below(8)),            // not a message
                    _ => {
                        // the key of some requestor registered so far (an unsolicited reply), if any
                        let k = if world.aux > 0 { world.rng.below(world.aux) } else { 2_000_000 };
                        format!("m:{}:-:{}:s", k, body)
                    }
                }
            }
        }),
        parse: parse_frame,
    };
    Socket::Server((Box::pin(si), Box::pin(st)))
}

/// after each poll: requests the repliers were handed become answerable
fn harvest_requests(w: &W, from: &mut usize, servers: &HashMap<u64, Arc<Mutex<ReplierState>>>) {
    let wl = w.lock().unwrap_or_else(|p| p.into_inner());
    for l in &wl.log[*from..] {
        let t: Vec<&str> = l.split_whitespace().collect();
        if t.len() == 5 && t[0] == "k" && t[2] == "send" && t[4] == "ok" && t[3].starts_with("m:") {
            if let Ok(label) = t[1].parse::<u64>() {
                if let Some(rs) = servers.get(&label) {
                    let f: Vec<&str> = t[3].split(':').collect();
                    rs.lock().unwrap_or_else(|p| p.into_inner()).outstanding.push((f[1].to_string(), f[2].to_string()));
                }
            }
        }
    }
    *from = wl.log.len();
}

pub fn run_case(seed: u64, idx: u64, out: &mut String) {
    let mut r = Rng::new(seed.wrapping_mul(104729).wrapping_add(idx) ^ 0x22);
    let profile = Profile::random(&mut r);
    let wake_driven = r.chance(1, 2);
    let fin = *r.pick(&["quiesce", "close", "quiesce", "close", "none"]);
    let steps = r.range(4, 80);
    let w: W = Arc::new(Mutex::new(World::new(Rng::new(r.next()), profile)));
    let (topic, mut tx) = Topic::<MockErr>::pair();
    let mut fut: std::pin::Pin<Box<dyn Future<Output = ()>>> = Box::pin(topic);
    let mut ex = Exec::new(w.clone());
    let mut next_label = 0u64;
    let mut servers: HashMap<u64, Arc<Mutex<ReplierState>>> = HashMap::new();
    let mut harvested = 0usize;
    ex.log(format!("case rr {} {} wake_driven={} final={}", seed, idx, wake_driven as u8, fin));
    let mut closed = false;
    ex.poll(&mut fut);
    let replier_bias = r.below(3); // 0: few repliers, 2: many
    for _ in 0..steps {
        if ex.done {
            break;
        }
        let choice = r.below(100);
        if choice < 45 {
            if !wake_driven || ex.flagged() {
                ex.poll(&mut fut);
                harvest_requests(&w, &mut harvested, &servers);
            }
        } else if choice < 62 && !closed {
            let label = next_label;
            let before = ex.wake_count();
            if tx.try_send(new_client(&w, label)).is_ok() {
                next_label += 1;
                w.lock().unwrap_or_else(|p| p.into_inner()).aux += 1;
                ex.log(format!("q client {} {}", label, (ex.wake_count() > before) as u8));
            }
        } else if choice < 62 + 6 + 5 * replier_bias && !closed {
            let label = next_label;
            let rs = Arc::new(Mutex::new(ReplierState { outstanding: vec![] }));
            let before = ex.wake_count();
            if tx.try_send(new_server(&w, label, rs.clone())).is_ok() {
                servers.insert(label, rs);
                next_label += 1;
                ex.log(format!("q server {} {}", label, (ex.wake_count() > before) as u8));
            }
        } else if choice < 97 {
            fire_one(&mut r, &mut ex);
        } else if !closed && r.chance(1, 3) {
            closed = true;
            let before = ex.wake_count();
            tx.close_channel();
            ex.log(format!("c {}", (ex.wake_count() > before) as u8));
        }
    }
    final_phase(fin, &mut r, &mut ex, &mut fut, &mut closed, &mut || tx.close_channel());
    // every stream has ended (the bound replier's too) and the router is quiet: a replier that
    // registers now must become the bound one, not be refused
    let ended = w.lock().unwrap_or_else(|p| p.into_inner()).end_streams;
    if fin == "quiesce" && ended && !closed && !ex.done {
        let label = next_label;
        let rs = Arc::new(Mutex::new(ReplierState { outstanding: vec![] }));
        let before = ex.wake_count();
        if tx.try_send(new_server(&w, label, rs.clone())).is_ok() {
            servers.insert(label, rs);
            ex.log(format!("q server {} {}", label, (ex.wake_count() > before) as u8));
            ex.log(format!("late {}", label));
            let mut rounds = 0;
            while ex.flagged() && !ex.done && rounds < 1000 {
                ex.poll(&mut fut);
                rounds += 1;
            }
        }
    }
    drop(fut);
    let mut wl = w.lock().unwrap_or_else(|p| p.into_inner());
    wl.log.push("end".into());
    for l in wl.log.drain(..) {
        out.push_str(&l);
        out.push('\n');
    }
}

pub fn replay_case(block: &[&str], out: &mut String) {
    let w: W = Arc::new(Mutex::new(World::new(Rng::new(1), Profile::random(&mut Rng::new(1)))));
    w.lock().unwrap().scripted = Some(script_from_lines(block));
    let (topic, mut tx) = Topic::<MockErr>::pair();
    let mut fut: std::pin::Pin<Box<dyn Future<Output = ()>>> = Box::pin(topic);
    let mut ex = Exec::new(w.clone());
    ex.log(block[0].to_string());
    for l in &block[1..] {
        let t: Vec<&str> = l.split_whitespace().collect();
        if t.is_empty() {
            continue;
        }
        match t[0] {
            "pb" => {
                if !ex.done {
                    ex.poll(&mut fut);
                }
            }
            "q" => {
                let label: u64 = t[2].parse().unwrap();
                let before = ex.wake_count();
                let sock = if t[1] == "client" {
                    new_client(&w, label)
                } else {
                    new_server(&w, label, Arc::new(Mutex::new(ReplierState { outstanding: vec![] })))
                };
                if tx.try_send(sock).is_ok() {
                    ex.log(format!("q {} {} {}", t[1], label, (ex.wake_count() > before) as u8));
                }
            }
            "c" => {
                let before = ex.wake_count();
                tx.close_channel();
                ex.log(format!("c {}", (ex.wake_count() > before) as u8));
            }
            "f" => {
                let id: u64 = t[2].parse().unwrap();
                let s = if t[1] == "k" { Src::Sink(id) } else { Src::Stream(id) };
                fire(&mut ex, s);
            }
            "drain" | "late" => {
                let mut wl = w.lock().unwrap_or_else(|p| p.into_inner());
                wl.log.push(l.to_string());
            }
            _ => {}
        }
    }
    drop(fut);
    let mut wl = w.lock().unwrap_or_else(|p| p.into_inner());
    wl.log.push("end".into());
    for l in wl.log.drain(..) {
        out.push_str(&l);
        out.push('\n');
    }
}

pub fn main(args: &[String]) {
    let mut out = String::new();
    if args[0] == "gen" {
        let seed: u64 = args[1].parse().unwrap();
        let n: u64 = args[2].parse().unwrap();
        for i in 0..n {
            run_case(seed, i, &mut out);
            print!("{}", out);
            out.clear();
        }
    } else {
        let text = std::fs::read_to_string(&args[1]).unwrap();
        for b in case_blocks(&text) {
            if b[0].starts_with("case rr") {
                replay_case(&b, &mut out);
                print!("{}", out);
                out.clear();
            }
        }
    }
    print!("{}", out);
}
