//! C03 (and the end-to-end part of C14 / C06): real Publisher -> real server -> real Subscriber over
//! loopback QUIC for every client configuration, plus a raw subscriber that records the frames.
//!
//! case c03 <seed> <i>
//! cfg codec=<string|bytes|bincode> comp=<name> level=<preset|n|-> batch=<size:interval_ms|-> mode=<send|feed> count=<n>
//! sent <hex> ...            items as canonical bytes
//! got <hex> ...             what the real subscriber yielded (ERR for a stream error)
//! raw M <hex> | raw B <hex> | raw O      frames seen by the raw subscriber (payload bytes as on the wire)
//! fin ok|err
use crate::decoders::Dummy;
use crate::net::*;
use crate::util::*;
use anyhow::Result;
use bytes::Bytes;
use futures::{SinkExt, StreamExt};
use selium::batching::BatchConfig;
use selium::keep_alive::BackoffStrategy;
use selium::prelude::*;
use selium::std::codecs::{BincodeCodec, BytesCodec, StringCodec};
use selium::std::compression::{brotli, deflate, lz4, zstd};
use selium::std::traits::codec::{MessageDecoder, MessageEncoder};
use selium::std::traits::compression::{Compress, CompressionLevel, Decompress};
use selium::Client;
use selium_protocol::{Frame, SubscriberPayload, TopicName};
use std::fmt::Write as _;
use std::time::Duration;

pub const COMPS: &[&str] = &["none", "gzip", "zlib", "zstd", "lz4", "brotli_generic", "brotli_text", "brotli_font"];

pub enum AnyComp {
    Deflate(deflate::DeflateComp),
    Zstd(zstd::ZstdComp),
    Lz4(lz4::Lz4Comp),
    Brotli(brotli::BrotliComp),
}
impl Compress for AnyComp {
    fn compress(&self, input: Bytes) -> anyhow::Result<Bytes> {
        match self {
            AnyComp::Deflate(c) => c.compress(input),
            AnyComp::Zstd(c) => c.compress(input),
            AnyComp::Lz4(c) => c.compress(input),
            AnyComp::Brotli(c) => c.compress(input),
        }
    }
}
pub enum AnyDecomp {
    Deflate(deflate::DeflateDecomp),
    Zstd(zstd::ZstdDecomp),
    Lz4(lz4::Lz4Decomp),
    Brotli(brotli::BrotliDecomp),
}
impl Decompress for AnyDecomp {
    fn decompress(&self, input: Bytes) -> anyhow::Result<Bytes> {
        match self {
            AnyDecomp::Deflate(c) => c.decompress(input),
            AnyDecomp::Zstd(c) => c.decompress(input),
            AnyDecomp::Lz4(c) => c.decompress(input),
            AnyDecomp::Brotli(c) => c.decompress(input),
        }
    }
}

fn leveled<C: CompressionLevel>(c: C, level: &str) -> C {
    match level {
        "fastest" => c.fastest(),
        "balanced" => c.balanced(),
        "highest" => c.highest_ratio(),
        "-" => c,
        n => c.level(n.parse().unwrap()),
    }
}

pub fn make_comp(name: &str, level: &str) -> Option<(AnyComp, AnyDecomp)> {
    Some(match name {
        "gzip" => (AnyComp::Deflate(leveled(deflate::DeflateComp::gzip(), level)), AnyDecomp::Deflate(deflate::DeflateDecomp::gzip())),
        "zlib" => (AnyComp::Deflate(leveled(deflate::DeflateComp::zlib(), level)), AnyDecomp::Deflate(deflate::DeflateDecomp::zlib())),
        "zstd" => (AnyComp::Zstd(leveled(zstd::ZstdComp::new(), level)), AnyDecomp::Zstd(zstd::ZstdDecomp)),
        "lz4" => (AnyComp::Lz4(lz4::Lz4Comp), AnyDecomp::Lz4(lz4::Lz4Decomp)),
        "brotli_generic" => (AnyComp::Brotli(leveled(brotli::BrotliComp::generic(), level)), AnyDecomp::Brotli(brotli::BrotliDecomp)),
        "brotli_text" => (AnyComp::Brotli(leveled(brotli::BrotliComp::text(), level)), AnyDecomp::Brotli(brotli::BrotliDecomp)),
        "brotli_font" => (AnyComp::Brotli(leveled(brotli::BrotliComp::font(), level)), AnyDecomp::Brotli(brotli::BrotliDecomp)),
        _ => return None,
    })
}

pub fn level_for(name: &str, r: &mut Rng) -> String {
    let max = match name {
        "gzip" | "zlib" => 9,
        "zstd" => 19,
        "brotli_generic" | "brotli_text" | "brotli_font" => 11,
        _ => return "-".into(),
    };
    match r.below(6) {
        0 => "fastest".into(),
        1 => "balanced".into(),
        2 => "highest".into(),
        3 => "-".into(),
        _ => r.range(if name == "zstd" { 1 } else { 0 }, max).to_string(),
    }
}

#[derive(Clone)]
pub struct Cfg {
    pub codec: String,
    pub comp: String,
    pub level: String,
    pub batch: Option<(u32, u64)>,
    pub feed: bool,
    pub count: usize,
    pub size_class: u64,
}

impl Cfg {
    pub fn text(&self) -> String {
        format!(
            "cfg codec={} comp={} level={} batch={} mode={} count={} size={}",
            self.codec,
            self.comp,
            self.level,
            self.batch.map(|(s, i)| format!("{}:{}", s, i)).unwrap_or("-".into()),
            if self.feed { "feed" } else { "send" },
            self.count,
            self.size_class
        )
    }
    pub fn parse(line: &str) -> Cfg {
        let mut c = Cfg { codec: "string".into(), comp: "none".into(), level: "-".into(), batch: None, feed: false, count: 0, size_class: 0 };
        for t in line.split_whitespace().skip(1) {
            let (k, v) = t.split_once('=').unwrap();
            match k {
                "codec" => c.codec = v.into(),
                "comp" => c.comp = v.into(),
                "level" => c.level = v.into(),
                "batch" => c.batch = if v == "-" { None } else { v.split_once(':').map(|(a, b)| (a.parse().unwrap(), b.parse().unwrap())) },
                "mode" => c.feed = v == "feed",
                "count" => c.count = v.parse().unwrap(),
                "size" => c.size_class = v.parse().unwrap(),
                _ => {}
            }
        }
        c
    }
    pub fn random(r: &mut Rng) -> Cfg {
        let comp = if r.chance(3, 10) { "none".to_string() } else { r.pick(COMPS).to_string() };
        let level = level_for(&comp, r);
        let batch = if r.chance(2, 5) {
            None
        } else {
            let size = *r.pick(&[0u32, 1, 2, 3, 7, 100]);
            let interval = *r.pick(&[0u64, 5, 3_600_000]);
            Some((size, interval))
        };
        let count = match batch {
            Some((s, _)) if s > 0 && s < 100 => {
                let k = r.range(0, 3) as usize;
                (s as usize * k + r.below(3) as usize).min(40)
            }
            _ => r.range(0, 9) as usize,
        };
        let mut cfg = Cfg { codec: r.pick(&["string", "bytes", "bincode"]).to_string(), comp, level, batch, feed: r.chance(1, 2), count, size_class: r.below(5) };
        if r.chance(1, 12) {
            // a few large items (130-190 KB each, beyond the block sizes of the compression
            // libraries' stream buffers); at most 3 so that a batch stays under the frame limit
            cfg.size_class = 5;
            cfg.count = cfg.count.clamp(1, 3);
        }
        if r.chance(1, 10) {
            // mixed sizes inside ONE batch: small items with a single 70-200 kB item among them (not the
            // first), batch large enough to hold them all, flushed by finish()
            cfg.batch = Some((100, 3_600_000));
            cfg.size_class = 8;
            cfg.count = r.range(3, 6) as usize;
        }
        if r.chance(1, 14) {
            // the frame limit itself: items whose frame payload falls in the last bytes below the
            // limit (unbatched: 1 + 8 + n; a batch of one: 8 + 8 + n), no compression, byte items
            cfg.codec = "bytes".into();
            cfg.comp = "none".into();
            cfg.level = "-".into();
            cfg.batch = if r.chance(1, 2) { None } else { Some((1, 3_600_000)) };
            cfg.size_class = if cfg.batch.is_none() { 6 } else { 7 };
            cfg.count = 2;
        }
        cfg
    }
}

fn payload_len(r: &mut Rng, class: u64) -> usize {
    match class {
        0 => 0,
        1 => r.below(4) as usize,
        2 => r.below(200) as usize,
        3 => 2000 + r.below(3000) as usize,
        5 => 131_000 + r.below(60_000) as usize,
        // one byte is appended to every item (its index)
        8 => r.below(40) as usize,
        6 => crate::wire::MAX - 9 - 1 - r.below(12) as usize,
        7 => crate::wire::MAX - 16 - 1 - r.below(12) as usize,
        _ => r.below(40) as usize,
    }
}

async fn raw_subscriber(peer: &RawPeer, topic: &str) -> Result<selium_protocol::BiStream> {
    let mut st = peer.open().await?;
    let (ns, tp) = topic[1..].split_once('/').unwrap();
    st.send(Frame::RegisterSubscriber(SubscriberPayload { topic: TopicName::create(ns, tp)?, retention_policy: 0, operations: vec![] })).await?;
    match st.next().await {
        Some(Ok(Frame::Ok)) => Ok(st),
        other => anyhow::bail!("raw subscriber refused: {:?}", other.map(|r| r.is_ok())),
    }
}

async fn run_typed<E, D, Item>(
    client: &Client,
    raw: &RawPeer,
    topic: &str,
    cfg: &Cfg,
    items: Vec<Item>,
    enc: E,
    dec: D,
    to_bytes: fn(&Item) -> Vec<u8>,
    out: &mut String,
) -> Result<()>
where
    E: MessageEncoder<Item> + Clone + Send + Unpin + 'static,
    D: MessageDecoder<Item> + Send + Unpin + 'static,
    Item: Unpin + Send + Clone + 'static,
{
    let comp = make_comp(&cfg.comp, &cfg.level);
    let mut sub_b = client.subscriber(topic).with_decoder(dec);
    let mut pub_b = client.publisher(topic).with_encoder(enc);
    if let Some((c, d)) = comp {
        sub_b = sub_b.with_decompression(d);
        pub_b = pub_b.with_compression(c);
    }
    if let Some((size, interval)) = cfg.batch {
        pub_b = pub_b.with_batching(BatchConfig::new(size, Duration::from_millis(interval)));
    }
    let mut subscriber = sub_b.open().await?;
    let mut raw_st = raw_subscriber(raw, topic).await?;
    // the frame-recording subscriber reads all the time (a subscriber that does not read would, through
    // flow control, hold up the router and with it the subscriber under test)
    let (stop_tx, mut stop_rx) = tokio::sync::oneshot::channel::<()>();
    let big = cfg.size_class >= 5;
    let raw_task = tokio::spawn(async move {
        let mut lines: Vec<String> = vec![];
        let mut stopping = false;
        loop {
            let wait = if stopping { if big { 1500 } else { 150 } } else { 200 };
            tokio::select! {
                _ = &mut stop_rx, if !stopping => { stopping = true; }
                r = tokio::time::timeout(Duration::from_millis(wait), raw_st.next()) => {
                    match r {
                        Ok(Some(Ok(Frame::Message(p)))) => lines.push(format!("raw M {}", hex(&p.message))),
                        Ok(Some(Ok(Frame::BatchMessage(b)))) => lines.push(format!("raw B {}", hex(&b))),
                        Ok(Some(Ok(_))) => lines.push("raw O".to_string()),
                        Ok(_) => break,
                        Err(_) => { if stopping { break; } }
                    }
                }
            }
        }
        lines
    });
    // let the registrations reach the topic router before the first send
    tokio::time::sleep(Duration::from_millis(60)).await;
    let mut publisher = pub_b.open().await?;
    let _ = writeln!(out, "sent {}", items.iter().map(|i| hex(&to_bytes(i))).collect::<Vec<_>>().join(" "));
    let n = items.len();
    let mut send_ok = true;
    // batched cases with an even number of items: half-way through, while items may be queued in the
    // batch, the publisher is duplicated and the idle duplicate finished -- it has accepted nothing
    // and must deliver nothing
    let dup_at = if cfg.batch.is_some() && n >= 2 && n % 2 == 0 { Some(n / 2) } else { None };
    for (k, it) in items.into_iter().enumerate() {
        if Some(k) == dup_at {
            if let Ok(d) = publisher.duplicate().await {
                let _ = d.finish().await;
            }
        }
        let r = if cfg.feed { publisher.feed(it).await } else { publisher.send(it).await };
        if r.is_err() {
            send_ok = false;
            break;
        }
    }
    let fin = publisher.finish().await;
    let _ = writeln!(out, "fin {}", if fin.is_ok() && send_ok { "ok" } else { "err" });
    let mut got = String::from("got");
    let mut k = 0;
    while k < n {
        match tokio::time::timeout(Duration::from_millis(if cfg.size_class >= 5 { 45000 } else { 2500 }), subscriber.next()).await {
            Ok(Some(Ok(item))) => {
                let _ = write!(got, " {}", hex(&to_bytes(&item)));
                k += 1;
            }
            Ok(Some(Err(_))) => {
                got.push_str(" ERR");
                break;
            }
            Ok(None) => {
                got.push_str(" END");
                break;
            }
            Err(_) => break,
        }
    }
    // nothing beyond what was sent
    if k == n {
        if let Ok(Some(Ok(item))) = tokio::time::timeout(Duration::from_millis(150), subscriber.next()).await {
            let _ = write!(got, " EXTRA:{}", hex(&to_bytes(&item)));
        }
    }
    let _ = writeln!(out, "{}", got);
    let _ = stop_tx.send(());
    if let Ok(lines) = raw_task.await {
        for l in lines {
            let _ = writeln!(out, "{}", l);
        }
    }
    Ok(())
}

fn str_bytes(s: &String) -> Vec<u8> {
    s.as_bytes().to_vec()
}
fn vec_bytes(v: &Vec<u8>) -> Vec<u8> {
    v.clone()
}
fn dummy_bytes(d: &Dummy) -> Vec<u8> {
    bincode::serialize(d).unwrap()
}

/// items whose encoding is empty (the empty string / empty byte vector), favouring the positions
/// where framing decisions are taken: the last item of a batch and the last item before finish()
fn make_empty(r: &mut Rng, k: usize, cfg: &Cfg) -> bool {
    if cfg.size_class >= 6 {
        return false;
    }
    let last = k + 1 == cfg.count;
    let batch_end = matches!(cfg.batch, Some((s, _)) if s > 0 && (k + 1) % (s as usize) == 0);
    if last || batch_end {
        r.chance(1, 3)
    } else {
        r.chance(1, 10)
    }
}

pub async fn run_case(client: &Client, raw: &RawPeer, seed: u64, i: u64, cfg: &Cfg, out: &mut String) {
    let mut r = Rng::new(seed.wrapping_mul(31337).wrapping_add(i) ^ 0x03);
    let topic = format!("/c03ns{}/t{:03}", seed % 100_000, i);
    let _ = writeln!(out, "case c03 {} {}", seed, i);
    crate::util::set_case_header(&format!("case c03 {} {}", seed, i));
    let _ = writeln!(out, "{}", cfg.text());
    crate::util::set_case_header(&format!("case c03 {} {}\n{}", seed, i, cfg.text()));
    let res = match cfg.codec.as_str() {
        "string" => {
            let items: Vec<String> = (0..cfg.count)
                .map(|k| {
                    if make_empty(&mut r, k, cfg) {
                        return String::new();
                    }
                    let n = if cfg.size_class == 8 && k == 1 + (seed + i) as usize % (cfg.count.max(2) - 1) { 70_000 + r.below(130_000) as usize } else { payload_len(&mut r, cfg.size_class) };
                    let alphabet: &[char] = &['a', 'b', ' ', 'é', '\u{1F600}', 'Z', '7', '\n'];
                    let mut s: String = (0..n).map(|_| *r.pick(alphabet)).collect();
                    s.push_str(&format!("#{}", k));
                    s
                })
                .collect();
            run_typed(client, raw, &topic, cfg, items, StringCodec, StringCodec, str_bytes, out).await
        }
        "bytes" => {
            let items: Vec<Vec<u8>> = (0..cfg.count)
                .map(|k| {
                    if make_empty(&mut r, k, cfg) {
                        return vec![];
                    }
                    let n = if cfg.size_class == 8 && k == 1 + (seed + i) as usize % (cfg.count.max(2) - 1) { 70_000 + r.below(130_000) as usize } else { payload_len(&mut r, cfg.size_class) };
                    let mut v = if r.chance(1, 2) { r.bytes(n) } else { vec![r.next() as u8; n] };
                    v.push(k as u8);
                    v
                })
                .collect();
            run_typed(client, raw, &topic, cfg, items, BytesCodec, BytesCodec, vec_bytes, out).await
        }
        _ => {
            let items: Vec<Dummy> = (0..cfg.count)
                .map(|k| {
                    let n = if cfg.size_class == 8 && k == 1 + (seed + i) as usize % (cfg.count.max(2) - 1) { 70_000 + r.below(130_000) as usize } else { payload_len(&mut r, cfg.size_class) };
                    Dummy { foo: "x".repeat(n), bar: k as u64 }
                })
                .collect();
            run_typed(client, raw, &topic, cfg, items, BincodeCodec::<Dummy>::default(), BincodeCodec::<Dummy>::default(), dummy_bytes, out).await
        }
    };
    if let Err(e) = res {
        let _ = writeln!(out, "harness_error {}", format!("{:?}", e).replace(['\n', ' '], "_"));
    }
    let _ = writeln!(out, "end");
}

pub fn main(args: &[String]) {
    let rt = tokio::runtime::Builder::new_multi_thread().worker_threads(2).enable_all().build().unwrap();
    let out = rt.block_on(async {
        let mut out = String::new();
        let dir = work_dir();
        let certs = Certs::generate(&dir, "main").expect("certs");
        let addr = start_server(&certs).expect("server");
        let mut client = connect_client(addr, &certs, BackoffStrategy::constant().with_max_attempts(0)).await.expect("client");
        let mut raw = RawPeer::connect_trusted(addr, &certs).await.expect("raw peer");
        // every case leaves a few streams open on its connections and QUIC allows 100 concurrent
        // streams per connection: fresh connections every 20 cases
        if args[0] == "gen" {
            let seed: u64 = args[1].parse().unwrap();
            let n: u64 = args[2].parse().unwrap();
            let mut r = Rng::new(seed ^ 0xc03);
            for i in 0..n {
                if i > 0 && i % 20 == 0 {
                    client = connect_client(addr, &certs, BackoffStrategy::constant().with_max_attempts(0)).await.expect("client");
                    raw = RawPeer::connect_trusted(addr, &certs).await.expect("raw peer");
                }
                let cfg = Cfg::random(&mut r);
                crate::guard_case!(out, 300, run_case(&client, &raw, seed, i, &cfg, &mut out));
            }
        } else {
            let text = std::fs::read_to_string(&args[1]).unwrap();
            let mut i = 0;
            for l in text.lines() {
                if l.starts_with("cfg ") {
                    if i > 0 && i % 20 == 0 {
                        client = connect_client(addr, &certs, BackoffStrategy::constant().with_max_attempts(0)).await.expect("client");
                        raw = RawPeer::connect_trusted(addr, &certs).await.expect("raw peer");
                    }
                    let cfg = Cfg::parse(l);
                    crate::guard_case!(out, 300, run_case(&client, &raw, 77, i, &cfg, &mut out));
                    i += 1;
                }
            }
        }
        let _ = std::fs::remove_dir_all(&dir);
        out
    });
    print!("{}", out);
}
