//! Shared machinery of the router simulations (C01 C02 C08 C09 C10 C11 C16): scripted mock
//! sinks/streams that log every call, keep the waker they were given on a `Pending` answer and
//! log their own drop; a counting waker; response profiles; replay of recorded answers.
use crate::util::*;
use futures::{Sink, Stream};
use selium_std::errors::SeliumError;
use std::collections::{HashMap, VecDeque};
use std::pin::Pin;
use std::sync::atomic::{AtomicUsize, Ordering};
use std::sync::{Arc, Mutex};
use std::task::{Context, Poll, Wake, Waker};

#[derive(Debug)]
pub struct MockErr;

#[derive(Clone, Copy, PartialEq, Eq, Hash, Debug)]
pub enum Src {
    Sink(u64),
    Stream(u64),
}

impl Src {
    pub fn label(&self) -> String {
        match self {
            Src::Sink(k) => format!("k {}", k),
            Src::Stream(j) => format!("s {}", j),
        }
    }
}

#[derive(Clone, Copy, Debug)]
pub struct Profile {
    /// per mille
    pub sink_pending: u64,
    pub sink_err: u64,
    pub send_err: u64,
    pub stream_item: u64,
    pub stream_pending: u64,
    pub stream_err: u64,
    pub stream_end: u64,
    /// items the streams may hand over inside one poll (the routers loop while data is available)
    pub max_items: usize,
}

impl Profile {
    pub fn random(r: &mut Rng) -> Profile {
        if r.chance(1, 12) {
            // a burst: publishers / requestors / the replier have hundreds of frames ready at once and
            // every sink accepts them (well beyond any per-poll budget a router might apply)
            return Profile { sink_pending: 0, sink_err: 0, send_err: 0, stream_item: 990, stream_pending: 10, stream_err: 0, stream_end: 0, max_items: 300 };
        }
        let calm = r.chance(1, 3);
        Profile {
            sink_pending: *r.pick(&[0, 50, 200, 500, 800]),
            sink_err: if calm { 0 } else { *r.pick(&[0, 0, 20, 100]) },
            send_err: if calm { 0 } else { *r.pick(&[0, 0, 30, 150]) },
            stream_item: *r.pick(&[200, 500, 800]),
            stream_pending: *r.pick(&[100, 300, 600]),
            stream_err: if calm { 0 } else { *r.pick(&[0, 30, 100]) },
            stream_end: *r.pick(&[0, 20, 80, 200]),
            max_items: MAX_ITEMS_PER_POLL,
        }
    }
}

#[derive(Clone, Debug, PartialEq)]
pub enum Ans {
    Ok,
    Err,
    Pending,
    Item(String), // stream item, textual form (harness specific)
    End,
}

pub struct World {
    pub rng: Rng,
    pub log: Vec<String>,
    pub wakers: HashMap<Src, Waker>,
    pub profile: Profile,
    /// final phase: sinks always answer ok, streams stay pending (or end, if `end_streams`)
    pub drain: bool,
    /// final phase, pub/sub engine, one case in three: the first flush asked of a sink during the
    /// drain fails once (a peer that died while the router was parked) -- everybody else must
    /// still be flushed
    pub drain_fail: bool,
    pub end_streams: bool,
    pub calls_in_poll: usize,
    /// data "currently available" is finite: at most this many stream items per poll
    pub items_in_poll: usize,
    /// items handed over in the whole case (a burst profile falls back to the ordinary per-poll cap
    /// after 450 items, so that one case does not dominate the run)
    pub items_total: usize,
    /// streams that have answered End: like real (fused) streams they answer End ever after
    pub ended: std::collections::HashSet<Src>,
    /// replay: recorded answers per (source, operation)
    pub scripted: Option<HashMap<(Src, &'static str), VecDeque<Ans>>>,
    pub next_item: u64,
    /// harness-specific counter (req/rep: number of requestors queued so far)
    pub aux: u64,
}

pub type W = Arc<Mutex<World>>;

pub const SPIN_LIMIT: usize = 20_000;
pub const MAX_ITEMS_PER_POLL: usize = 40;

impl World {
    pub fn new(rng: Rng, profile: Profile) -> World {
        World {
            rng,
            log: vec![],
            wakers: HashMap::new(),
            profile,
            drain: false,
            drain_fail: false,
            end_streams: false,
            calls_in_poll: 0,
            items_in_poll: 0,
            items_total: 0,
            ended: std::collections::HashSet::new(),
            scripted: None,
            next_item: 0,
            aux: 0,
        }
    }

    fn count_call(&mut self) {
        self.calls_in_poll += 1;
        if self.calls_in_poll > SPIN_LIMIT {
            panic!("SPIN: more than {} peer calls inside one poll", SPIN_LIMIT);
        }
    }

    fn scripted_answer(&mut self, src: Src, op: &'static str) -> Option<Ans> {
        let m = self.scripted.as_mut()?;
        Some(match m.get_mut(&(src, op)).and_then(|q| q.pop_front()) {
            Some(a) => a,
            None => {
                if op == "next" {
                    Ans::Pending
                } else {
                    Ans::Ok
                }
            }
        })
    }

    pub fn sink_answer(&mut self, src: Src, op: &'static str) -> Ans {
        self.count_call();
        if let Some(a) = self.scripted_answer(src, op) {
            return a;
        }
        if self.drain {
            if self.drain_fail && op == "flush" {
                self.drain_fail = false;
                return Ans::Err;
            }
            return Ans::Ok;
        }
        let p = self.profile;
        let x = self.rng.below(1000);
        if op == "send" {
            return if x < p.send_err { Ans::Err } else { Ans::Ok };
        }
        if x < p.sink_pending {
            Ans::Pending
        } else if x < p.sink_pending + p.sink_err {
            Ans::Err
        } else {
            Ans::Ok
        }
    }

    /// `make_item` produces the textual form of a fresh item when the answer is an item
    pub fn stream_answer(&mut self, src: Src, make_item: &mut dyn FnMut(&mut World) -> String) -> Ans {
        self.count_call();
        if let Some(a) = self.scripted_answer(src, "next") {
            return a;
        }
        if self.ended.contains(&src) {
            return Ans::End;
        }
        if self.drain {
            if self.end_streams {
                self.ended.insert(src);
            }
            return if self.end_streams { Ans::End } else { Ans::Pending };
        }
        let p = self.profile;
        let total = p.stream_item + p.stream_pending + p.stream_err + p.stream_end;
        let x = self.rng.below(total.max(1));
        let cap = if self.items_total >= 450 { p.max_items.min(MAX_ITEMS_PER_POLL) } else { p.max_items };
        if x < p.stream_item && self.items_in_poll < cap {
            self.items_in_poll += 1;
            self.items_total += 1;
            let it = make_item(self);
            Ans::Item(it)
        } else if x < p.stream_item + p.stream_pending || x < p.stream_item {
            Ans::Pending
        } else if x < p.stream_item + p.stream_pending + p.stream_err {
            Ans::Err
        } else {
            self.ended.insert(src);
            Ans::End
        }
    }
}

pub struct CountWaker(pub AtomicUsize);

impl Wake for CountWaker {
    fn wake(self: Arc<Self>) {
        self.0.fetch_add(1, Ordering::SeqCst);
    }
    fn wake_by_ref(self: &Arc<Self>) {
        self.0.fetch_add(1, Ordering::SeqCst);
    }
}

/// Mock sink for items of type T; `show` renders an item for the log.
pub struct MockSink<T> {
    pub id: u64,
    pub w: W,
    pub show: fn(&T) -> String,
}

impl<T> Drop for MockSink<T> {
    fn drop(&mut self) {
        { let mut w = self.w.lock().unwrap_or_else(|p| p.into_inner());
            w.wakers.remove(&Src::Sink(self.id));
            let l = format!("d k {}", self.id);
            w.log.push(l);
        }
    }
}

impl<T> MockSink<T> {
    fn op(&self, cx: &mut Context<'_>, op: &'static str) -> Poll<Result<(), MockErr>> {
        let mut w = self.w.lock().unwrap_or_else(|p| p.into_inner());
        let src = Src::Sink(self.id);
        let a = w.sink_answer(src, op);
        let txt = match a {
            Ans::Ok => "ok",
            Ans::Err => "err",
            _ => "pending",
        };
        let l = format!("k {} {} {}", self.id, op, txt);
        w.log.push(l);
        match a {
            Ans::Ok => {
                w.wakers.remove(&src);
                Poll::Ready(Ok(()))
            }
            Ans::Err => {
                w.wakers.remove(&src);
                Poll::Ready(Err(MockErr))
            }
            _ => {
                w.wakers.insert(src, cx.waker().clone());
                Poll::Pending
            }
        }
    }
}

impl<T> Sink<T> for MockSink<T> {
    type Error = MockErr;
    fn poll_ready(self: Pin<&mut Self>, cx: &mut Context<'_>) -> Poll<Result<(), MockErr>> {
        self.op(cx, "ready")
    }
    fn start_send(self: Pin<&mut Self>, item: T) -> Result<(), MockErr> {
        let mut w = self.w.lock().unwrap_or_else(|p| p.into_inner());
        let a = w.sink_answer(Src::Sink(self.id), "send");
        let ok = a != Ans::Err;
        let l = format!("k {} send {} {}", self.id, (self.show)(&item), if ok { "ok" } else { "err" });
        w.log.push(l);
        if ok {
            Ok(())
        } else {
            Err(MockErr)
        }
    }
    fn poll_flush(self: Pin<&mut Self>, cx: &mut Context<'_>) -> Poll<Result<(), MockErr>> {
        self.op(cx, "flush")
    }
    fn poll_close(self: Pin<&mut Self>, cx: &mut Context<'_>) -> Poll<Result<(), MockErr>> {
        self.op(cx, "close")
    }
}

/// Mock stream; `make` builds (textual form, value) of a fresh item.
pub struct MockStream<T> {
    pub id: u64,
    pub ended: bool,
    pub w: W,
    pub make: Box<dyn FnMut(&mut World) -> String + Send>,
    pub parse: fn(&str) -> T,
}

impl<T> Drop for MockStream<T> {
    fn drop(&mut self) {
        { let mut w = self.w.lock().unwrap_or_else(|p| p.into_inner());
            w.wakers.remove(&Src::Stream(self.id));
            let l = format!("d s {}", self.id);
            w.log.push(l);
        }
    }
}

impl<T> Stream for MockStream<T> {
    type Item = Result<T, SeliumError>;
    fn poll_next(self: Pin<&mut Self>, cx: &mut Context<'_>) -> Poll<Option<Self::Item>> {
        let this = unsafe { self.get_unchecked_mut() };
        let wref = this.w.clone();
        let mut w = wref.lock().unwrap_or_else(|p| p.into_inner());
        let src = Src::Stream(this.id);
        let a = if this.ended {
            // a finished stream keeps answering None (FramedRead after EOF)
            w.calls_in_poll += 1;
            if w.calls_in_poll > SPIN_LIMIT {
                panic!("SPIN: more than {} peer calls inside one poll", SPIN_LIMIT);
            }
            Ans::End
        } else {
            w.stream_answer(src, &mut *this.make)
        };
        if a == Ans::End {
            this.ended = true;
        }
        match a {
            Ans::Item(txt) => {
                w.wakers.remove(&src);
                let l = format!("s {} item {}", this.id, txt);
                w.log.push(l);
                Poll::Ready(Some(Ok((this.parse)(&txt))))
            }
            Ans::Err => {
                w.wakers.remove(&src);
                let l = format!("s {} err", this.id);
                w.log.push(l);
                Poll::Ready(Some(Err(SeliumError::RequestTimeout)))
            }
            Ans::End => {
                w.wakers.remove(&src);
                let l = format!("s {} end", this.id);
                w.log.push(l);
                Poll::Ready(None)
            }
            _ => {
                w.wakers.insert(src, cx.waker().clone());
                let l = format!("s {} pending", this.id);
                w.log.push(l);
                Poll::Pending
            }
        }
    }
}

impl<T> Unpin for MockStream<T> {}

/// Parses the recorded answers of a trace block into the replay table.
pub fn script_from_lines(lines: &[&str]) -> HashMap<(Src, &'static str), VecDeque<Ans>> {
    let mut m: HashMap<(Src, &'static str), VecDeque<Ans>> = HashMap::new();
    for l in lines {
        let t: Vec<&str> = l.split_whitespace().collect();
        if t.len() < 3 {
            continue;
        }
        let id: u64 = match t[1].parse() {
            Ok(v) => v,
            Err(_) => continue,
        };
        if t[0] == "k" {
            let op: &'static str = match t[2] {
                "ready" => "ready",
                "send" => "send",
                "flush" => "flush",
                "close" => "close",
                _ => continue,
            };
            let a = match *t.last().unwrap() {
                "ok" => Ans::Ok,
                "err" => Ans::Err,
                _ => Ans::Pending,
            };
            m.entry((Src::Sink(id), op)).or_default().push_back(a);
        } else if t[0] == "s" {
            let a = match t[2] {
                "item" => Ans::Item(t[3..].join(" ")),
                "err" => Ans::Err,
                "end" => Ans::End,
                _ => Ans::Pending,
            };
            m.entry((Src::Stream(id), "next")).or_default().push_back(a);
        }
    }
    m
}

/// Splits a trace file into case blocks (each starting with a `case ` line).
pub fn case_blocks(text: &str) -> Vec<Vec<&str>> {
    let mut out: Vec<Vec<&str>> = vec![];
    for l in text.lines() {
        if l.starts_with("case ") {
            out.push(vec![l]);
        } else if let Some(b) = out.last_mut() {
            if !l.trim().is_empty() && !l.starts_with('#') {
                b.push(l);
            }
        }
    }
    out
}
