//! C14: codecs and every compression algorithm / mode / level are lossless; the wire composition.
//!   case comp <name> <level> <payload-class> <hex-or-len>
//!   r ok <same|DIFF:<hex>> | r err <msg> | r panic <msg>
//!   case codec <kind> <hex>            (string / bytes / bincode_*: the encoding of a value)
//!   r ok <hex of re-encoded decoded value> | r err
//!   case wire <codec> <comp> <level> <n> <hex items...>
//!   r ok <hex items...> | r err <stage>
use crate::decoders::{Dummy, OptT};
use crate::net_c03::{level_for, make_comp, COMPS};
use crate::util::*;
use bytes::{Bytes, BytesMut};
use selium_protocol::utils::{decode_message_batch, encode_message_batch};
use selium_std::codecs::{BincodeCodec, BytesCodec, StringCodec};
use selium_std::traits::codec::{MessageDecoder, MessageEncoder};
use selium_std::traits::compression::{Compress, Decompress};
use std::fmt::Write as _;

pub fn payload(r: &mut Rng, class: u64) -> Vec<u8> {
    match class {
        0 => vec![],
        1 => {
            let n = 1 + r.below(3) as usize;
            r.bytes(n)
        }
        2 => {
            let n = 500 + r.below(3000) as usize;
            r.bytes(n) // incompressible
        }
        3 => vec![r.next() as u8; 1000 + r.below(100_000) as usize], // highly repetitive
        4 => {
            // text-like
            let words = ["selium ", "topic ", "message ", "namespace ", "\n", "é", "0123456789 "];
            let mut v = vec![];
            for _ in 0..r.range(5, 400) {
                v.extend_from_slice(r.pick(&words).as_bytes());
            }
            v
        }
        5 => {
            // up to the frame limit
            let n = (1 << 20) - r.below(64) as usize;
            let b = r.next() as u8;
            (0..n).map(|i| if i % 97 == 0 { b.wrapping_add(i as u8) } else { b }).collect()
        }
        6 => {
            // incompressible, around the block sizes of the compression libraries' stream buffers
            let n = *r.pick(&[32 * 1024 - 1, 32 * 1024 + 1, 40_000, 64 * 1024 + 1, 128 * 1024 - 1, 128 * 1024, 128 * 1024 + 1, 200 * 1024]);
            r.bytes(n)
        }
        7 => {
            // incompressible, up to the frame limit
            let n = (1 << 20) - r.below(64) as usize;
            r.bytes(n)
        }
        8 => {
            // noise followed by a long run, then noise again
            let mut v = r.bytes(70_000);
            v.extend(std::iter::repeat(r.next() as u8).take(150_000));
            v.extend(r.bytes(70_000));
            v
        }
        _ => {
            let n = r.below(300) as usize;
            r.bytes(n)
        }
    }
}

pub fn levels_of(name: &str) -> Vec<String> {
    let mut v: Vec<String> = vec!["-".into(), "fastest".into(), "balanced".into(), "highest".into()];
    let (lo, hi) = match name {
        "gzip" | "zlib" => (0, 9),
        "zstd" => (1, 22),
        "lz4" | "none" => return vec!["-".into()],
        _ => (0, 11),
    };
    for l in lo..=hi {
        v.push(l.to_string());
    }
    v
}

pub fn comp_case(name: &str, level: &str, class: u64, data: &[u8], out: &mut String) {
    let shown = if data.len() > 4096 { format!("len:{}", data.len()) } else { hex(data) };
    let _ = writeln!(out, "case comp {} {} {} {}", name, level, class, shown);
    let res = catch(|| -> Result<Vec<u8>, String> {
        let (c, d) = make_comp(name, level).ok_or("no such algorithm")?;
        let z = c.compress(Bytes::copy_from_slice(data)).map_err(|e| format!("compress:{}", e))?;
        let b = d.decompress(z).map_err(|e| format!("decompress:{}", e))?;
        Ok(b.to_vec())
    });
    match res {
        Ok(Ok(b)) => {
            if b == data {
                let _ = writeln!(out, "r ok same");
            } else {
                let _ = writeln!(out, "r ok DIFF:{}", b.len());
            }
        }
        Ok(Err(e)) => {
            let _ = writeln!(out, "r err {}", e.replace(' ', "_"));
        }
        Err(m) => {
            let _ = writeln!(out, "r panic {}", m);
        }
    }
}

fn codec_case(r: &mut Rng, out: &mut String) {
    let kind = *r.pick(&["string", "bytes", "bincode_dummy", "bincode_vec", "bincode_opt"]);
    let text: String = {
        let alphabet: &[char] = &['a', ' ', 'é', '\u{203f}', '\u{1F600}', '\0', 'Z'];
        (0..r.below(40)).map(|_| *r.pick(alphabet)).collect()
    };
    let n = r.below(300) as usize;
    let raw = r.bytes(n);
    let (enc, redec): (Vec<u8>, Option<Vec<u8>>) = match kind {
        "string" => {
            let e = StringCodec.encode(text.clone()).unwrap();
            let d: Option<String> = StringCodec.decode(&mut BytesMut::from(&e[..])).ok();
            (e.to_vec(), d.map(|s| StringCodec.encode(s).unwrap().to_vec()))
        }
        "bytes" => {
            let e = BytesCodec.encode(raw.clone()).unwrap();
            let d: Option<Vec<u8>> = BytesCodec.decode(&mut BytesMut::from(&e[..])).ok();
            (e.to_vec(), d.map(|s| BytesCodec.encode(s).unwrap().to_vec()))
        }
        "bincode_dummy" => {
            let c = BincodeCodec::<Dummy>::default();
            let e = c.encode(Dummy { foo: text.clone(), bar: r.next() >> r.below(64) }).unwrap();
            let d = c.decode(&mut BytesMut::from(&e[..])).ok();
            (e.to_vec(), d.map(|s| c.encode(s).unwrap().to_vec()))
        }
        "bincode_vec" => {
            let c = BincodeCodec::<Vec<String>>::default();
            let v: Vec<String> = (0..r.below(5)).map(|i| format!("{}{}", text, i)).collect();
            let e = c.encode(v).unwrap();
            let d = c.decode(&mut BytesMut::from(&e[..])).ok();
            (e.to_vec(), d.map(|s| c.encode(s).unwrap().to_vec()))
        }
        _ => {
            let c = BincodeCodec::<OptT>::default();
            let v: OptT = if r.chance(1, 3) { None } else { Some((r.next() as u32, raw.clone())) };
            let e = c.encode(v).unwrap();
            let d = c.decode(&mut BytesMut::from(&e[..])).ok();
            (e.to_vec(), d.map(|s| c.encode(s).unwrap().to_vec()))
        }
    };
    let _ = writeln!(out, "case codec {} {}", kind, hex(&enc));
    match redec {
        Some(b) => {
            let _ = writeln!(out, "r ok {}", hex(&b));
        }
        None => {
            let _ = writeln!(out, "r err");
        }
    }
}

fn wire_case(r: &mut Rng, out: &mut String) {
    let comp = *r.pick(COMPS);
    let level = level_for(comp, r);
    let n = r.below(6) as usize;
    let items: Vec<Vec<u8>> = (0..n).map(|_| { let c = r.below(5); payload(r, c) }).collect();
    let _ = writeln!(out, "case wire bytes {} {} {} {}", comp, level, n, items.iter().map(|i| hex(i)).collect::<Vec<_>>().join(" "));
    let res = catch(|| -> Result<Vec<Vec<u8>>, String> {
        let encoded: Vec<Bytes> = items.iter().map(|i| BytesCodec.encode(i.clone()).unwrap()).collect();
        let mut b = encode_message_batch(encoded);
        let pair = make_comp(comp, &level);
        if let Some((c, _)) = &pair {
            b = c.compress(b).map_err(|_| "compress".to_string())?;
        }
        if let Some((_, d)) = &pair {
            b = d.decompress(b).map_err(|_| "decompress".to_string())?;
        }
        let ms = decode_message_batch(b);
        let mut out = vec![];
        for m in ms {
            let v: Vec<u8> = BytesCodec.decode(&mut BytesMut::from(&m[..])).map_err(|_| "decode".to_string())?;
            out.push(v);
        }
        Ok(out)
    });
    match res {
        Ok(Ok(v)) => {
            let _ = writeln!(out, "r ok {} {}", v.len(), v.iter().map(|i| hex(i)).collect::<Vec<_>>().join(" "));
        }
        Ok(Err(e)) => {
            let _ = writeln!(out, "r err {}", e);
        }
        Err(m) => {
            let _ = writeln!(out, "r panic {}", m);
        }
    }
}

pub fn main(args: &[String]) {
    let mut out = String::new();
    if args[0] == "gen" {
        let seed: u64 = args[1].parse().unwrap();
        let n: u64 = args[2].parse().unwrap();
        let mut r = Rng::new(seed ^ 0x14);
        // every algorithm x every level, once per run with a small and a repetitive payload,
        // spread over the shards (shard = seed % 16)
        let shard = (seed % 16) as usize;
        let mut k = 0usize;
        for name in COMPS.iter().filter(|n| **n != "none") {
            for level in levels_of(name) {
                if k % 16 == shard {
                    for class in [0u64, 1, 3, 4, 6] {
                        let data = payload(&mut r, class);
                        comp_case(name, &level, class, &data, &mut out);
                    }
                }
                k += 1;
            }
        }
        for i in 0..n {
            match r.below(10) {
                0..=4 => {
                    let name = *r.pick(&COMPS[1..]);
                    let level = level_for(name, &mut r);
                    let class = if i % 50 == 3 { 5 } else if i % 50 == 7 { 7 } else if i % 50 == 11 { 8 } else if i % 10 == 1 { 6 } else { r.below(5) };
                    let data = payload(&mut r, class);
                    comp_case(name, &level, class, &data, &mut out);
                }
                5..=7 => codec_case(&mut r, &mut out),
                _ => wire_case(&mut r, &mut out),
            }
        }
    } else {
        let text = std::fs::read_to_string(&args[1]).unwrap();
        for l in text.lines() {
            let t: Vec<&str> = l.split_whitespace().collect();
            if t.len() >= 6 && t[0] == "case" && t[1] == "comp" && !t[5].starts_with("len:") {
                comp_case(t[2], t[3], t[4].parse().unwrap_or(9), &unhex(t[5]), &mut out);
            }
        }
    }
    print!("{}", out);
}
