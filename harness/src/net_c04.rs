//! C04: real Requestors (clones and separate streams, concurrent calls) against a raw replier that
//! speaks the wire protocol directly and follows the action embedded in each request:
//!   quick   reply at once                         late    reply after the requestor's timeout
//!   never   no reply                               twice   reply two times
//!   foreign reply carrying a req_id nobody waits for
//!   hold    reply only after the NEXT request was answered (out-of-order replies)
//! case c04 <seed> <i> timeout_ms=<t>
//! call <stream> <k> <action> -> ok:<payload>|timeout|err:<text> <elapsed_ms>
//! (after the churn: a requestor with two clones survives a cut connection, then overlapping calls on the clones)
//! (after the two rounds: requestor churn -- a stream with a late-answered call is dropped, a new stream's first call is never answered)
use crate::net::*;
use crate::util::*;
use futures::{SinkExt, StreamExt};
use selium::keep_alive::BackoffStrategy;
use selium::prelude::*;
use selium::std::codecs::StringCodec;
use selium::std::errors::SeliumError;
use selium::Client;
use selium_protocol::{Frame, MessagePayload, ReplierPayload, TopicName};
use std::fmt::Write as _;
use std::time::{Duration, Instant};

const ACTIONS: &[&str] = &["quick", "quick", "quick", "late", "never", "twice", "foreign", "hold"];

async fn raw_replier(peer: RawPeer, topic: String, timeout_ms: u64) -> anyhow::Result<()> {
    let mut st = peer.open().await?;
    let (ns, tp) = topic[1..].split_once('/').unwrap();
    st.send(Frame::RegisterReplier(ReplierPayload { topic: TopicName::create(ns, tp)? })).await?;
    match st.next().await {
        Some(Ok(Frame::Ok)) => {}
        _ => anyhow::bail!("replier refused"),
    }
    let (mut write, mut read) = st.split();
    let (tx, mut rx) = tokio::sync::mpsc::unbounded_channel::<(Duration, Frame)>();
    // writer task: sends frames at their due time
    tokio::spawn(async move {
        while let Some((delay, frame)) = rx.recv().await {
            let txw = delay;
            if txw > Duration::ZERO {
                tokio::time::sleep(txw).await;
            }
            if write.send(frame).await.is_err() {
                break;
            }
        }
    });
    let mut held: Option<Frame> = None;
    while let Some(Ok(frame)) = read.next().await {
        if let Frame::Message(req) = frame {
            let text = String::from_utf8_lossy(&req.message).to_string();
            let action = text.rsplit('|').next().unwrap_or("quick").to_string();
            let short = abbrev(&text);
            let reply = |headers| Frame::Message(MessagePayload { headers, message: format!("re:{}", short).into() });
            match action.as_str() {
                "late" => {
                    // delivered by a separate task so that later requests are not delayed
                    let tx2 = tx.clone();
                    let f = reply(req.headers.clone());
                    tokio::spawn(async move {
                        tokio::time::sleep(Duration::from_millis(timeout_ms + 350)).await;
                        let _ = tx2.send((Duration::ZERO, f));
                    });
                }
                "never" => {}
                "garbage" => {
                    // a correctly correlated reply that the requestor's decoder rejects (invalid UTF-8)
                    let f = Frame::Message(MessagePayload { headers: req.headers.clone(), message: vec![0xffu8, 0xfe, 0xc0, 0x80].into() });
                    let _ = tx.send((Duration::ZERO, f));
                }
                "slow" => {
                    // a replier that is slow to take the next request: the router blocks on its sink, the
                    // requestors' streams fill up and their sends have to wait for one another
                    tokio::time::sleep(Duration::from_millis(120)).await;
                    let _ = tx.send((Duration::ZERO, reply(req.headers.clone())));
                }
                "twice" => {
                    let _ = tx.send((Duration::ZERO, reply(req.headers.clone())));
                    let _ = tx.send((Duration::ZERO, reply(req.headers.clone())));
                }
                "foreign" => {
                    let mut h = req.headers.clone().unwrap_or_default();
                    h.insert("req_id".into(), "4000000".into());
                    let _ = tx.send((Duration::ZERO, reply(Some(h))));
                }
                "hold" => {
                    if let Some(prev) = held.take() {
                        let _ = tx.send((Duration::ZERO, prev));
                    }
                    held = Some(reply(req.headers.clone()));
                    // never keep a held reply for longer than 150 ms (well inside the timeout)
                    let tx2 = tx.clone();
                    let f = held.clone().unwrap();
                    tokio::spawn(async move {
                        tokio::time::sleep(Duration::from_millis(150)).await;
                        let _ = tx2.send((Duration::ZERO, f));
                    });
                    held = None;
                }
                _ => {
                    let _ = tx.send((Duration::ZERO, reply(req.headers.clone())));
                    if let Some(prev) = held.take() {
                        let _ = tx.send((Duration::ZERO, prev));
                    }
                }
            }
        }
    }
    Ok(())
}

/// long payloads are shown (and answered) in abbreviated form: first 40 characters, length, action
fn abbrev(t: &str) -> String {
    if t.len() > 200 {
        format!("{}#{}|{}", &t[..40], t.len(), t.rsplit('|').next().unwrap_or(""))
    } else {
        t.to_string()
    }
}

fn outcome(r: Result<String, SeliumError>) -> String {
    match r {
        Ok(s) => format!("ok:{}", s),
        Err(SeliumError::RequestTimeout) => "timeout".to_string(),
        Err(e) => format!("err:{}", format!("{:?}", e).replace([' ', '\n'], "_").chars().take(60).collect::<String>()),
    }
}

pub async fn run_case(client: &Client, addr: std::net::SocketAddr, certs: &Certs, seed: u64, i: u64, out: &mut String) {
    let mut r = Rng::new(seed.wrapping_mul(9973).wrapping_add(i) ^ 0x04);
    let topic = format!("/c04ns{}/t{:03}", seed % 100_000, i);
    let timeout_ms = 400u64;
    let _ = writeln!(out, "case c04 {} {} timeout_ms={}", seed, i, timeout_ms);
    crate::util::set_case_header(&format!("case c04 {} {} timeout_ms={}", seed, i, timeout_ms));
    let raw = match RawPeer::connect_trusted(addr, certs).await {
        Ok(p) => p,
        Err(e) => {
            let _ = writeln!(out, "harness_error {:?}", e);
            return;
        }
    };
    let t2 = topic.clone();
    tokio::spawn(async move {
        let _ = raw_replier(raw, t2, timeout_ms).await;
    });
    tokio::time::sleep(Duration::from_millis(60)).await;
    let streams = r.range(1, 3) as usize;
    let mut reqs = vec![];
    for _ in 0..streams {
        let b = client
            .requestor(&topic)
            .with_request_encoder(StringCodec)
            .with_reply_decoder(StringCodec)
            .with_request_timeout(Duration::from_millis(timeout_ms));
        match b {
            Ok(b) => match b.open().await {
                Ok(q) => reqs.push(q),
                Err(e) => {
                    let _ = writeln!(out, "harness_error open:{:?}", e);
                    return;
                }
            },
            Err(e) => {
                let _ = writeln!(out, "harness_error builder:{:?}", e);
                return;
            }
        }
    }
    tokio::time::sleep(Duration::from_millis(60)).await;
    for round in 0..2u64 {
        let mut handles = vec![];
        for (s, q) in reqs.iter().enumerate() {
            let calls = r.range(1, 6);
            for k in 0..calls {
                let action = if round == 1 { "quick" } else { *r.pick(ACTIONS) };
                let mut qc = q.clone();
                let payload = format!("rq-{}-{}-{}|{}", s, round, k, action);
                let stagger = r.below(30);
                handles.push(tokio::spawn(async move {
                    tokio::time::sleep(Duration::from_millis(stagger)).await;
                    let t0 = Instant::now();
                    let res = qc.request(payload.clone()).await;
                    (s, round * 100 + k, action.to_string(), payload, outcome(res), t0.elapsed().as_millis())
                }));
            }
        }
        for h in handles {
            if let Ok((s, k, action, payload, res, ms)) = h.await {
                let _ = writeln!(out, "call {} {} {} {} -> {} {}", s, k, action, payload, res, ms);
            }
        }
        if round == 0 {
            // let every late reply arrive before the second round
            tokio::time::sleep(Duration::from_millis(timeout_ms + 500)).await;
        }
    }
    // requestor churn: a fresh requestor stream whose only call is answered late goes away, another
    // one registers on the same topic and makes its first call (never answered) while that late
    // reply is still on its way: it must time out, not receive the other stream's reply
    {
        let open = |name: &'static str| {
            let b = client
                .requestor(&topic)
                .with_request_encoder(StringCodec)
                .with_reply_decoder(StringCodec)
                .with_request_timeout(Duration::from_millis(timeout_ms));
            async move {
                match b {
                    Ok(b) => b.open().await.map_err(|e| format!("{}:{:?}", name, e)),
                    Err(e) => Err(format!("{}:{:?}", name, e)),
                }
            }
        };
        let s_old = streams + 10;
        let s_new = streams + 11;
        match open("churn_old").await {
            Ok(mut old) => {
                let payload = format!("rq-{}-2-0|late", s_old);
                let t0 = Instant::now();
                let res = old.request(payload.clone()).await;
                let _ = writeln!(out, "call {} 200 late {} -> {} {}", s_old, payload, outcome(res), t0.elapsed().as_millis());
                drop(old);
                match open("churn_new").await {
                    Ok(mut new) => {
                        let payload = format!("rq-{}-2-0|never", s_new);
                        let t0 = Instant::now();
                        let res = new.request(payload.clone()).await;
                        let _ = writeln!(out, "call {} 200 never {} -> {} {}", s_new, payload, outcome(res), t0.elapsed().as_millis());
                        // and the surviving streams still get their own replies
                        for (s, q) in reqs.iter().enumerate() {
                            let mut qc = q.clone();
                            let payload = format!("rq-{}-2-1|quick", s);
                            let t0 = Instant::now();
                            let res = qc.request(payload.clone()).await;
                            let _ = writeln!(out, "call {} 201 quick {} -> {} {}", s, payload, outcome(res), t0.elapsed().as_millis());
                        }
                    }
                    Err(e) => {
                        let _ = writeln!(out, "harness_error {}", e.replace(' ', "_"));
                    }
                }
            }
            Err(e) => {
                let _ = writeln!(out, "harness_error {}", e.replace(' ', "_"));
            }
        }
    }
    // straight after a timeout: on a fresh stream the first call is answered late (after its
    // timeout); the very next call, made while nothing else is in flight, is never answered: it must
    // time out too, not be handed the late reply that arrives meanwhile
    {
        let b = client
            .requestor(&topic)
            .with_request_encoder(StringCodec)
            .with_reply_decoder(StringCodec)
            .with_request_timeout(Duration::from_millis(timeout_ms));
        if let Ok(Ok(mut q)) = match b {
            Ok(b) => Ok(b.open().await),
            Err(e) => Err(e),
        } {
            let s_t = streams + 30;
            for k in 0..2u64 {
                let pa = format!("rq-{}-4-{}|late", s_t, 2 * k);
                let t0 = Instant::now();
                let ra = q.request(pa.clone()).await;
                let _ = writeln!(out, "call {} {} late {} -> {} {}", s_t, 400 + 2 * k, pa, outcome(ra), t0.elapsed().as_millis());
                let pb = format!("rq-{}-4-{}|never", s_t, 2 * k + 1);
                let t0 = Instant::now();
                let rb = q.request(pb.clone()).await;
                let _ = writeln!(out, "call {} {} never {} -> {} {}", s_t, 401 + 2 * k, pb, outcome(rb), t0.elapsed().as_millis());
                // a quick one in between rounds, so that the table has been used and emptied again
                let pc = format!("rq-{}-4-q{}|quick", s_t, k);
                let t0 = Instant::now();
                let rc = q.request(pc.clone()).await;
                let _ = writeln!(out, "call {} {} quick {} -> {} {}", s_t, 410 + k, pc, outcome(rc), t0.elapsed().as_millis());
                // on the same handle: a reply that cannot be decoded (an error for that call), then a quick
                // call that must get its own reply and nothing left over from the undecodable one
                let pg = format!("rq-{}-4-g{}|garbage", s_t, k);
                let t0 = Instant::now();
                let rg = q.request(pg.clone()).await;
                let _ = writeln!(out, "call {} {} garbage {} -> {} {}", s_t, 420 + k, pg, outcome(rg), t0.elapsed().as_millis());
                let ph = format!("rq-{}-4-h{}|quick", s_t, k);
                let t0 = Instant::now();
                let rh = q.request(ph.clone()).await;
                let _ = writeln!(out, "call {} {} quick {} -> {} {}", s_t, 430 + k, ph, outcome(rh), t0.elapsed().as_millis());
            }
        }
    }
    // contention on one requestor stream: six clones send 1 MB requests to a replier that is slow to
    // take them (their sends queue up behind one another on the shared write half); meanwhile one clone
    // makes a request that is too large to be sent at all (it fails locally, after waiting its turn),
    // another clone makes a small request while that one waits, and the first clone makes a small
    // request after its failure: every Ok must still carry the reply to its own request
    if i % 2 == 0 {
        let b = client
            .requestor(&topic)
            .with_request_encoder(StringCodec)
            .with_reply_decoder(StringCodec)
            .with_request_timeout(Duration::from_millis(8000));
        if let Ok(Ok(q)) = match b {
            Ok(b) => Ok(b.open().await),
            Err(e) => Err(e),
        } {
            let s_c = streams + 50;
            let mut bigs = vec![];
            for k in 0..6u64 {
                let mut qc = q.clone();
                let payload = format!("rq-{}-6-{}-{}|slow", s_c, k, "x".repeat(1_000_000));
                bigs.push(tokio::spawn(async move {
                    let t0 = Instant::now();
                    let r = qc.request(payload.clone()).await;
                    (k, abbrev(&payload), outcome(r), t0.elapsed().as_millis())
                }));
            }
            let (mut a, mut bq) = (q.clone(), q.clone());
            let ta = tokio::spawn(async move {
                tokio::time::sleep(Duration::from_millis(30)).await;
                let p1 = format!("rq-{}-6-10-{}|toobig", s_c, "y".repeat(2 * 1024 * 1024));
                let t0 = Instant::now();
                let r1 = a.request(p1.clone()).await;
                let m1 = t0.elapsed().as_millis();
                let p2 = format!("rq-{}-6-12|quick", s_c);
                let t0 = Instant::now();
                let r2 = a.request(p2.clone()).await;
                (abbrev(&p1), outcome(r1), m1, p2, outcome(r2), t0.elapsed().as_millis())
            });
            let tb = tokio::spawn(async move {
                tokio::time::sleep(Duration::from_millis(60)).await;
                let p = format!("rq-{}-6-11|quick", s_c);
                let t0 = Instant::now();
                let r = bq.request(p.clone()).await;
                (p, outcome(r), t0.elapsed().as_millis())
            });
            for h in bigs {
                if let Ok((k, p, res, ms)) = h.await {
                    let _ = writeln!(out, "call {} {} slow {} -> {} {}", s_c, 600 + k, p, res, ms);
                }
            }
            if let Ok((p1, r1, m1, p2, r2, m2)) = ta.await {
                let _ = writeln!(out, "call {} 610 toobig {} -> {} {}", s_c, p1, r1, m1);
                let _ = writeln!(out, "call {} 612 quick {} -> {} {}", s_c, p2, r2, m2);
            }
            if let Ok((p, r, ms)) = tb.await {
                let _ = writeln!(out, "call {} 611 quick {} -> {} {}", s_c, p, r, ms);
            }
        }
    }
    // an intruding requestor: a raw peer registers as a requestor of the topic and sends requests that
    // already carry a `cid` header naming every other requestor stream of the topic, with the req_id of
    // a call that is pending on a library requestor (its first: 0; never answered).  The server routes
    // by its own tag, so that call must time out, not return the reply made for the intruder's request
    {
        let b = client
            .requestor(&topic)
            .with_request_encoder(StringCodec)
            .with_reply_decoder(StringCodec)
            .with_request_timeout(Duration::from_millis(timeout_ms));
        let victim = match b {
            Ok(b) => b.open().await.ok(),
            Err(_) => None,
        };
        let intruder = RawPeer::connect_trusted(addr, certs).await.ok();
        if let (Some(mut victim), Some(intruder)) = (victim, intruder) {
            let s_v = streams + 40;
            if let Ok(mut st) = intruder.open().await {
                let (ns, tp) = topic[1..].split_once('/').unwrap();
                let _ = st.send(Frame::RegisterRequestor(selium_protocol::RequestorPayload { topic: TopicName::create(ns, tp).unwrap() })).await;
                let registered = matches!(tokio::time::timeout(Duration::from_millis(3000), st.next()).await, Ok(Some(Ok(Frame::Ok))));
                let pv = format!("rq-{}-5-0|never", s_v);
                let pv2 = pv.clone();
                let call = tokio::spawn(async move {
                    let t0 = Instant::now();
                    let r = victim.request(pv2).await;
                    (outcome(r), t0.elapsed().as_millis())
                });
                tokio::time::sleep(Duration::from_millis(80)).await;
                if registered {
                    for c in 0..(streams as u64 + 8) {
                        let mut h = std::collections::HashMap::new();
                        h.insert("req_id".to_string(), "0".to_string());
                        h.insert("cid".to_string(), format!("{}", c));
                        let f = Frame::Message(MessagePayload { headers: Some(h), message: format!("rq-{}-5-{}|quick", s_v + 1, c).into() });
                        let _ = tokio::time::timeout(Duration::from_millis(500), st.send(f)).await;
                    }
                }
                if let Ok((rv, mv)) = call.await {
                    let _ = writeln!(out, "call {} 500 never {} -> {} {}", s_v, pv, rv, mv);
                }
                if !registered {
                    let _ = writeln!(out, "note intruder_not_registered");
                }
            }
        }
    }
    // after a recovered outage: two clones of one requestor, each recovered on its own, have calls
    // in flight at the same time (the first answered after the second): each gets its own reply
    if let Ok(oc) = connect_client(addr, certs, BackoffStrategy::constant().with_max_attempts(3).with_step(Duration::from_millis(10))).await {
        let b = oc
            .requestor(&topic)
            .with_request_encoder(StringCodec)
            .with_reply_decoder(StringCodec)
            .with_request_timeout(Duration::from_millis(timeout_ms));
        if let Ok(Ok(q)) = match b {
            Ok(b) => Ok(b.open().await),
            Err(e) => Err(e),
        } {
            let s_out = streams + 20;
            let (mut a, mut b) = (q.clone(), q.clone());
            let _ = a.request(format!("rq-{}-3-0|quick", s_out)).await;
            let _ = b.request(format!("rq-{}-3-1|quick", s_out)).await;
            oc.__verif_close_connection().await;
            tokio::time::sleep(Duration::from_millis(40)).await;
            // each clone recovers on its own (retried: recovery itself is C12's subject)
            let mut recovered = true;
            for (k, c) in [&mut a, &mut b].into_iter().enumerate() {
                let mut ok = false;
                for t in 0..4 {
                    if c.request(format!("rq-{}-3-{}|quick", s_out, 10 + 4 * k + t)).await.is_ok() {
                        ok = true;
                        break;
                    }
                }
                recovered &= ok;
            }
            if recovered {
                let pa = format!("rq-{}-3-30|hold", s_out);
                let pb = format!("rq-{}-3-31|quick", s_out);
                let (pa2, pb2) = (pa.clone(), pb.clone());
                let ta = tokio::spawn(async move {
                    let t0 = Instant::now();
                    let r = a.request(pa2).await;
                    (outcome(r), t0.elapsed().as_millis())
                });
                tokio::time::sleep(Duration::from_millis(50)).await;
                let tb = tokio::spawn(async move {
                    let t0 = Instant::now();
                    let r = b.request(pb2).await;
                    (outcome(r), t0.elapsed().as_millis())
                });
                if let (Ok((ra, ma)), Ok((rb, mb))) = (ta.await, tb.await) {
                    let _ = writeln!(out, "call {} 330 hold {} -> {} {}", s_out, pa, ra, ma);
                    let _ = writeln!(out, "call {} 331 quick {} -> {} {}", s_out, pb, rb, mb);
                }
            } else {
                let _ = writeln!(out, "note clones_did_not_recover");
            }
        }
    }
    let _ = writeln!(out, "end");
}

pub fn main(args: &[String]) {
    let rt = tokio::runtime::Builder::new_multi_thread().worker_threads(3).enable_all().build().unwrap();
    let out = rt.block_on(async {
        let mut out = String::new();
        let dir = work_dir();
        let certs = Certs::generate(&dir, "main").expect("certs");
        let addr = start_server(&certs).expect("server");
        let mut client = connect_client(addr, &certs, BackoffStrategy::constant().with_max_attempts(0)).await.expect("client");
        let seed: u64 = args.get(1).and_then(|s| s.parse().ok()).unwrap_or(1);
        let n: u64 = if args[0] == "gen" { args[2].parse().unwrap() } else { 3 };
        for i in 0..n {
            // streams stay open on the connection (QUIC: 100 concurrent streams): fresh client every 8 cases
            if i > 0 && i % 8 == 0 {
                client = connect_client(addr, &certs, BackoffStrategy::constant().with_max_attempts(0)).await.expect("client");
            }
            crate::guard_case!(out, 300, run_case(&client, addr, &certs, seed, i, &mut out));
        }
        let _ = std::fs::remove_dir_all(&dir);
        out
    });
    print!("{}", out);
}
