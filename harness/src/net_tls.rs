//! C15: the identity matrix.  Two certificate sets from the repository's generator (fresh keys
//! every run): "trusted" (the CA both sides are configured with) and "other".
//! Servers: T presents the trusted set's server certificate, O the other set's; both are started
//! with the trusted CA for client authentication.  Clients trust the trusted CA and present:
//! trusted / other-CA / self-signed / the trusted *server* certificate / nothing.
//! Every pairing is tried through the client library (where the library can express it) and
//! through a raw QUIC peer; "registered" = a publisher registration was acknowledged.
//!
//! case tls <seed> <i>
//! pair <T|O> <trusted|otherca|selfsigned|servercert|none> <lib|raw> -> registered|refused:<stage>
//! pairt <T|O> trusted <lib|raw> other -> ...   (the client trusts the other CA instead)
//! pairb <otherca|trusted> <lib|raw> -> ...    (server with a PEM bundle [other leaf, other CA] as --cert; client trusts the other CA)
//! pairr <round> <lib|raw> -> ...             (a set renewed in place by running the generator again; trusted pairing)
//! end
use crate::net::*;
use crate::net_srv::{first_reply, frame_of};
use crate::util::*;
use clap::Parser as _;
use futures::SinkExt;
use selium::prelude::*;
use selium::std::codecs::StringCodec;
use selium_server::args::UserArgs;
use selium_server::server::Server;
use std::fmt::Write as _;
use std::net::SocketAddr;
use std::path::{Path, PathBuf};
use std::time::Duration;

fn start_server_files(cert: &Path, key: &Path, ca: &Path) -> anyhow::Result<SocketAddr> {
    let args = UserArgs::parse_from(["", "--bind-addr", "127.0.0.1:0", "--cert", cert.to_str().unwrap(), "--key", key.to_str().unwrap(), "--ca", ca.to_str().unwrap()]);
    let server = Server::try_from(args)?;
    let addr = server.addr()?;
    tokio::spawn(async move {
        let _ = server.listen().await;
    });
    Ok(addr)
}

fn pem(der: &[u8]) -> String {
    const T: &[u8; 64] = b"ABCDEFGHIJKLMNOPQRSTUVWXYZabcdefghijklmnopqrstuvwxyz0123456789+/";
    let mut b64 = String::new();
    for chunk in der.chunks(3) {
        let n = (chunk[0] as u32) << 16 | (*chunk.get(1).unwrap_or(&0) as u32) << 8 | *chunk.get(2).unwrap_or(&0) as u32;
        b64.push(T[(n >> 18) as usize & 63] as char);
        b64.push(T[(n >> 12) as usize & 63] as char);
        b64.push(if chunk.len() > 1 { T[(n >> 6) as usize & 63] as char } else { '=' });
        b64.push(if chunk.len() > 2 { T[n as usize & 63] as char } else { '=' });
    }
    let mut out = String::from("-----BEGIN CERTIFICATE-----\n");
    for line in b64.as_bytes().chunks(64) {
        out.push_str(std::str::from_utf8(line).unwrap());
        out.push('\n');
    }
    out.push_str("-----END CERTIFICATE-----\n");
    out
}

fn self_signed(dir: &Path) -> anyhow::Result<(PathBuf, PathBuf)> {
    let mut params = rcgen::CertificateParams::new(vec!["localhost".to_string()]);
    params.extended_key_usages.push(rcgen::ExtendedKeyUsagePurpose::ClientAuth);
    params.key_usages.push(rcgen::KeyUsagePurpose::DigitalSignature);
    let cert = rcgen::Certificate::from_params(params)?;
    let (c, k) = (dir.join("selfsigned.der"), dir.join("selfsigned.key.der"));
    std::fs::write(&c, cert.serialize_der()?)?;
    std::fs::write(&k, cert.serialize_private_key_der())?;
    Ok((c, k))
}

async fn via_lib(addr: SocketAddr, ca: &Path, cert: &Path, key: &Path, topic: &str) -> String {
    let fut = async {
        let builder = match selium::custom().keep_alive(5_000u64) {
            Ok(b) => b,
            Err(e) => return format!("refused:config:{:?}", e),
        };
        let builder = match builder.endpoint(&addr.to_string()).with_certificate_authority(ca) {
            Ok(b) => b,
            Err(e) => return format!("refused:ca:{:?}", e),
        };
        let builder = match builder.with_cert_and_key(cert, key) {
            Ok(b) => b,
            Err(e) => return format!("refused:identity:{:?}", e),
        };
        let client = match builder.connect().await {
            Ok(c) => c,
            Err(_) => return "refused:connect".to_string(),
        };
        match client.publisher(topic).with_encoder(StringCodec).open().await {
            Ok(mut p) => {
                let _ = p.send("hello".to_string()).await;
                "registered".to_string()
            }
            Err(_) => "refused:open".to_string(),
        }
    };
    match tokio::time::timeout(Duration::from_millis(6000), fut).await {
        Ok(s) => s.replace([' ', '\n'], "_").chars().take(60).collect(),
        Err(_) => "refused:timeout".to_string(),
    }
}

async fn via_raw(addr: SocketAddr, ca: &Path, identity: Option<(Vec<u8>, Vec<u8>)>, ns: &str, tp: &str) -> String {
    let fut = async {
        let peer = match RawPeer::connect(addr, ca, identity).await {
            Ok(p) => p,
            Err(_) => return "refused:connect".to_string(),
        };
        let mut st = match peer.open().await {
            Ok(s) => s,
            Err(_) => return "refused:open_stream".to_string(),
        };
        let mut r = Rng::new(1);
        if st.send(frame_of("regpub", ns, tp, 0, &mut r)).await.is_err() {
            return "refused:send".to_string();
        }
        match first_reply(&mut st, 4000).await.as_str() {
            "ok" => "registered".to_string(),
            other => format!("refused:{}", other),
        }
    };
    match tokio::time::timeout(Duration::from_millis(6000), fut).await {
        Ok(s) => s,
        Err(_) => "refused:timeout".to_string(),
    }
}

pub async fn run_case(seed: u64, i: u64, out: &mut String) {
    let _ = writeln!(out, "case tls {} {}", seed, i);
    crate::util::set_case_header(&format!("case tls {} {}", seed, i));
    let dir = work_dir().join(format!("tls{}", i));
    let res: anyhow::Result<()> = async {
        let trusted = Certs::generate(&dir, "trusted")?;
        let other = Certs::generate(&dir, "other")?;
        let (ss_cert, ss_key) = self_signed(&dir)?;
        let srv_t = start_server_files(&trusted.server("localhost.der"), &trusted.server("localhost.key.der"), &trusted.server("ca.der"))?;
        let srv_o = start_server_files(&other.server("localhost.der"), &other.server("localhost.key.der"), &trusted.server("ca.der"))?;
        let ca = trusted.client("ca.der");
        let ids: Vec<(&str, Option<(PathBuf, PathBuf)>)> = vec![
            ("trusted", Some((trusted.client("localhost.der"), trusted.client("localhost.key.der")))),
            ("otherca", Some((other.client("localhost.der"), other.client("localhost.key.der")))),
            ("selfsigned", Some((ss_cert.clone(), ss_key.clone()))),
            ("servercert", Some((trusted.server("localhost.der"), trusted.server("localhost.key.der")))),
            ("none", None),
        ];
        let mut k = 0;
        for (sname, addr) in [("T", srv_t), ("O", srv_o)] {
            for (cname, id) in ids.iter() {
                k += 1;
                let (ns, tp) = (format!("tls{}x{}", seed % 100_000, i), format!("topic{}", k));
                if let Some((c, key)) = id {
                    let r = via_lib(addr, &ca, c, key, &format!("/{}/{}l", ns, tp)).await;
                    let _ = writeln!(out, "pair {} {} lib -> {}", sname, cname, r);
                }
                let ident = id.as_ref().map(|(c, key)| (der(c), der(key)));
                let r = via_raw(addr, &ca, ident, &ns, &tp).await;
                let _ = writeln!(out, "pair {} {} raw -> {}", sname, cname, r);
            }
        }
        // a second client configuration in the same process: it trusts the OTHER CA (and presents the
        // trusted client certificate, which both servers accept): it must refuse server T and talk to O
        let ca_other = other.client("ca.der");
        for (sname, addr) in [("T", srv_t), ("O", srv_o)] {
            k += 1;
            let r = via_lib(addr, &ca_other, &trusted.client("localhost.der"), &trusted.client("localhost.key.der"), &format!("/tls{}x{}/trust{}", seed % 100_000, i, k)).await;
            let _ = writeln!(out, "pairt {} trusted lib other -> {}", sname, r);
            let r = via_raw(addr, &ca_other, Some((der(&trusted.client("localhost.der")), der(&trusted.client("localhost.key.der")))), &format!("tls{}x{}", seed % 100_000, i), &format!("trustraw{}", k)).await;
            let _ = writeln!(out, "pairt {} trusted raw other -> {}", sname, r);
        }
        // a server whose --cert file is a PEM bundle: the other set's server certificate followed by
        // the other CA; it still trusts only the trusted CA for clients.  Clients that trust the other
        // CA get through the server's authentication; only the trusted client certificate may register
        let bundle = dir.join("bundle.pem");
        std::fs::write(&bundle, format!("{}{}", pem(&der(&other.server("localhost.der"))), pem(&der(&other.server("ca.der")))))?;
        let srv_b = start_server_files(&bundle, &other.server("localhost.key.der"), &trusted.server("ca.der"))?;
        for (cname, c, key) in [
            ("otherca", other.client("localhost.der"), other.client("localhost.key.der")),
            ("trusted", trusted.client("localhost.der"), trusted.client("localhost.key.der")),
        ] {
            k += 1;
            let r = via_raw(srv_b, &ca_other, Some((der(&c), der(&key))), &format!("tls{}x{}", seed % 100_000, i), &format!("bundle{}", k)).await;
            let _ = writeln!(out, "pairb {} raw -> {}", cname, r);
            let r = via_lib(srv_b, &ca_other, &c, &key, &format!("/tls{}x{}/bundlel{}", seed % 100_000, i, k)).await;
            let _ = writeln!(out, "pairb {} lib -> {}", cname, r);
        }
        // a set that is renewed in place: the generator runs again into the same directories (first a
        // set without expiry, then ordinary ones, whose files are shorter); each renewed set must work
        let renewed = Certs::generate(&dir, "renewed")?;
        for round in 0..3 {
            renewed.regenerate(round == 0)?;
            k += 1;
            let (rl, rr) = match start_server_files(&renewed.server("localhost.der"), &renewed.server("localhost.key.der"), &renewed.server("ca.der")) {
                Ok(srv_r) => {
                    let rl = via_lib(srv_r, &renewed.client("ca.der"), &renewed.client("localhost.der"), &renewed.client("localhost.key.der"), &format!("/tls{}x{}/renewl{}", seed % 100_000, i, k)).await;
                    let rr = via_raw(srv_r, &renewed.client("ca.der"), Some((der(&renewed.client("localhost.der")), der(&renewed.client("localhost.key.der")))), &format!("tls{}x{}", seed % 100_000, i), &format!("renew{}", k)).await;
                    (rl, rr)
                }
                Err(e) => {
                    let why = format!("refused:server_start:{}", format!("{:?}", e).split_whitespace().take(6).collect::<Vec<_>>().join("_"));
                    (why.clone(), why)
                }
            };
            let _ = writeln!(out, "pairr {} lib -> {}", round, rl);
            let _ = writeln!(out, "pairr {} raw -> {}", round, rr);
        }
        Ok(())
    }
    .await;
    if let Err(e) = res {
        let _ = writeln!(out, "harness_error {:?}", e);
    }
    let _ = writeln!(out, "end");
    let _ = std::fs::remove_dir_all(&dir);
}

pub fn main(args: &[String]) {
    let rt = tokio::runtime::Builder::new_multi_thread().worker_threads(3).enable_all().build().unwrap();
    let out = rt.block_on(async {
        let mut out = String::new();
        if args[0] == "replay" {
            let text = std::fs::read_to_string(&args[1]).expect("replay file");
            for l in text.lines() {
                let t: Vec<&str> = l.split_whitespace().collect();
                if t.len() >= 4 && t[0] == "case" && t[1] == "tls" {
                    crate::guard_case!(out, 300, run_case(t[2].parse().unwrap(), t[3].parse().unwrap(), &mut out));
                }
            }
        } else {
            let seed: u64 = args.get(1).and_then(|s| s.parse().ok()).unwrap_or(1);
            let n: u64 = args.get(2).and_then(|s| s.parse().ok()).unwrap_or(1);
            for i in 0..n {
                crate::guard_case!(out, 300, run_case(seed, i, &mut out));
            }
        }
        let _ = std::fs::remove_dir_all(work_dir());
        out
    });
    print!("{}", out);
}
