//! C12: streams re-establish themselves after the client's QUIC connection is cut (hook
//! `Client::__verif_close_connection`, cargo feature verif-hooks) while the server stays up.
//!
//! case c12 <seed> <i> kind=<publisher|subscriber|requestor|replier|replier_exhaust|subscriber_exhaust|publisher_exhaust|requestor_exhaust> attempts=<n> outages=<k> step_ms=<s>
//! outage <j> before=<ok|fail:..> after=<ok|fail:..> ms=<t>
//! result <ok|too_many_retries|hung|err:..>
use crate::net::*;
use crate::util::*;
use futures::{SinkExt, StreamExt};
use selium::keep_alive::BackoffStrategy;
use selium::prelude::*;
use selium::std::codecs::StringCodec;
use selium::std::errors::{QuicError, SeliumError};
use selium::Client;
use std::fmt::Write as _;
use std::net::SocketAddr;
use std::time::{Duration, Instant};

fn backoff(kind: u64, attempts: u32, step_ms: u64) -> BackoffStrategy {
    let b = match kind {
        0 => BackoffStrategy::constant(),
        1 => BackoffStrategy::linear(),
        _ => BackoffStrategy::exponential(2),
    };
    b.with_max_attempts(attempts).with_step(Duration::from_millis(step_ms)).with_max_duration(Duration::from_millis(4 * step_ms.max(1)))
}

fn err_text(e: &SeliumError) -> String {
    match e {
        SeliumError::Quic(QuicError::TooManyRetries) => "too_many_retries".into(),
        SeliumError::RequestTimeout => "request_timeout".into(),
        other => format!("err:{}", format!("{:?}", other).replace([' ', '\n'], "_").chars().take(70).collect::<String>()),
    }
}

async fn with_deadline<T>(ms: u64, f: impl std::future::Future<Output = T>) -> Option<T> {
    tokio::time::timeout(Duration::from_millis(ms), f).await.ok()
}

pub async fn run_case(addr: SocketAddr, certs: &Certs, seed: u64, i: u64, kind: &str, out: &mut String) {
    let mut r = Rng::new(seed.wrapping_mul(7723).wrapping_add(i) ^ 0x12);
    // *_exhaust (pub/sub, requestor): no retry budget at all, the first outage must be reported
    let zero_budget = matches!(kind, "subscriber_exhaust" | "publisher_exhaust" | "requestor_exhaust");
    let attempts = if zero_budget { 0 } else { r.range(1, 3) as u32 };
    let outages = attempts as u64 + r.range(1, 2);
    // exhaustion scenario: the first retry must come after the squatter has bound the topic
    let step_ms = if kind == "replier_exhaust" { 300 } else { *r.pick(&[0u64, 10, 40]) };
    let bk = if kind == "replier_exhaust" { 0 } else { r.below(3) };
    let topic = format!("/c12ns{}/t{:03}", seed % 100_000, i);
    let _ = writeln!(out, "case c12 {} {} kind={} attempts={} outages={} step_ms={} backoff={}", seed, i, kind, attempts, outages, step_ms, bk);
    crate::util::set_case_header(&format!("case c12 {} {} kind={} attempts={} outages={} step_ms={} backoff={}", seed, i, kind, attempts, outages, step_ms, bk));
    // A: the client whose connection is cut; B: the stable peer
    let a = match connect_client(addr, certs, backoff(bk, attempts, step_ms)).await {
        Ok(c) => c,
        Err(e) => {
            let _ = writeln!(out, "harness_error connect:{:?}", e);
            return;
        }
    };
    let b = connect_client(addr, certs, BackoffStrategy::constant().with_max_attempts(0)).await.expect("client b");
    let budget = 3000 + 6 * (attempts as u64) * (4 * step_ms + 50);
    let res: Result<(), String> = async {
        match kind {
            "publisher" => {
                let mut sub = b.subscriber(&topic).with_decoder(StringCodec).open().await.map_err(|e| err_text(&e))?;
                tokio::time::sleep(Duration::from_millis(60)).await;
                let mut publ = a.publisher(&topic).with_encoder(StringCodec).open().await.map_err(|e| err_text(&e))?;
                for j in 0..=outages {
                    let t0 = Instant::now();
                    let msg = format!("m{}", j);
                    let sent = with_deadline(budget, publ.send(msg.clone())).await;
                    let sent = match sent {
                        None => "hung".to_string(),
                        Some(Ok(())) => "ok".to_string(),
                        Some(Err(e)) => err_text(&e),
                    };
                    // the message sent right after a cut may be lost with the old connection: what the
                    // property promises is that messages published after recovery are delivered
                    let mut got = "none".to_string();
                    if sent == "ok" {
                        let probe = format!("p{}", j);
                        let _ = with_deadline(budget, publ.send(probe.clone())).await;
                        let deadline = Instant::now() + Duration::from_millis(1500);
                        while Instant::now() < deadline {
                            match with_deadline(300, sub.next()).await {
                                Some(Some(Ok(m))) if m == probe => {
                                    got = "ok".into();
                                    break;
                                }
                                Some(Some(Ok(_))) => continue,
                                Some(Some(Err(e))) => {
                                    got = err_text(&e);
                                    break;
                                }
                                Some(None) => {
                                    got = "end".into();
                                    break;
                                }
                                None => {
                                    let _ = with_deadline(budget, publ.send(probe.clone())).await;
                                }
                            }
                        }
                    }
                    let _ = writeln!(out, "outage {} op={} delivered={} ms={}", j, sent, got, t0.elapsed().as_millis());
                    if sent != "ok" {
                        return Err(sent);
                    }
                    if j < outages {
                        // every second case: a backlog of unflushed frames (two 9 KiB messages fed, not
                        // flushed) sits in the write buffer when the connection is cut, so that the outage
                        // is first noticed by poll_ready of the next send, not by a flush
                        if (seed + i) % 2 == 0 {
                            for _ in 0..2 {
                                let _ = with_deadline(budget, publ.feed("b".repeat(9 * 1024))).await;
                            }
                        }
                        a.__verif_close_connection().await;
                        tokio::time::sleep(Duration::from_millis(30)).await;
                    }
                }
                Ok(())
            }
            "subscriber" => {
                let mut sub = a.subscriber(&topic).with_decoder(StringCodec).open().await.map_err(|e| err_text(&e))?;
                tokio::time::sleep(Duration::from_millis(60)).await;
                let mut publ = b.publisher(&topic).with_encoder(StringCodec).open().await.map_err(|e| err_text(&e))?;
                for j in 0..=outages {
                    let t0 = Instant::now();
                    let probe = format!("p{}", j);
                    let mut got = "none".to_string();
                    let deadline = Instant::now() + Duration::from_millis(budget);
                    while Instant::now() < deadline {
                        let _ = publ.send(probe.clone()).await;
                        match with_deadline(250, sub.next()).await {
                            Some(Some(Ok(m))) if m == probe => {
                                got = "ok".into();
                                break;
                            }
                            Some(Some(Ok(_))) => continue,
                            Some(Some(Err(e))) => {
                                got = err_text(&e);
                                break;
                            }
                            Some(None) => {
                                got = "end".into();
                                break;
                            }
                            None => continue,
                        }
                    }
                    let _ = writeln!(out, "outage {} op=recv delivered={} ms={}", j, got, t0.elapsed().as_millis());
                    if got != "ok" {
                        return Err(got);
                    }
                    if j < outages {
                        a.__verif_close_connection().await;
                        tokio::time::sleep(Duration::from_millis(30)).await;
                    }
                }
                Ok(())
            }
            "requestor" => {
                let mut replier = b
                    .replier(&topic)
                    .with_request_decoder(StringCodec)
                    .with_reply_encoder(StringCodec)
                    .with_handler(|req: String| async move {
                        if req.starts_with("slow") {
                            tokio::time::sleep(Duration::from_millis(350)).await;
                        }
                        Ok::<String, std::convert::Infallible>(format!("re:{}", req))
                    })
                    .open()
                    .await
                    .map_err(|e| err_text(&e))?;
                tokio::spawn(async move {
                    let _ = replier.listen().await;
                });
                tokio::time::sleep(Duration::from_millis(60)).await;
                let mut rq = a
                    .requestor(&topic)
                    .with_request_encoder(StringCodec)
                    .with_reply_decoder(StringCodec)
                    .with_request_timeout(Duration::from_millis(1500))
                    .map_err(|e| err_text(&e))?
                    .open()
                    .await
                    .map_err(|e| err_text(&e))?;
                // a clone made before any outage: clones share the table of pending requests
                let mut rq2 = rq.clone();
                for j in 0..=outages {
                    let t0 = Instant::now();
                    let q = format!("q{}", j);
                    let res = with_deadline(budget + 1500, rq.request(q.clone())).await;
                    let txt = match res {
                        None => "hung".to_string(),
                        Some(Ok(v)) if v == format!("re:{}", q) => "ok".to_string(),
                        Some(Ok(v)) => format!("wrong:{}", v),
                        Some(Err(e)) => err_text(&e),
                    };
                    let _ = writeln!(out, "outage {} op=request delivered={} ms={}", j, txt, t0.elapsed().as_millis());
                    if txt != "ok" {
                        return Err(txt);
                    }
                    // a call on the recovered handle is in flight (answered slowly) while the clone, which
                    // has not been used since the cut, makes its first call and recovers on its own; then
                    // the clone makes another call: each call must get the reply to its own request
                    let mut ca = rq.clone();
                    let (qa, qb) = (format!("slow{}", j), format!("fast{}", j));
                    let (qa2, qb2) = (qa.clone(), qb.clone());
                    let ta = tokio::spawn(async move { ca.request(qa2).await });
                    tokio::time::sleep(Duration::from_millis(100)).await;
                    let warm = with_deadline(budget + 1500, rq2.request(format!("w{}", j))).await;
                    let warm_txt = match warm {
                        None => "hung".to_string(),
                        Some(Ok(v)) if v == format!("re:w{}", j) => "ok".to_string(),
                        Some(Ok(v)) => format!("wrong:{}", v),
                        Some(Err(e)) => err_text(&e),
                    };
                    let mut cb = rq2.clone();
                    let tb = tokio::spawn(async move { cb.request(qb2).await });
                    let show = |r: Option<Result<Result<String, SeliumError>, tokio::task::JoinError>>, q: &str| match r {
                        None => "hung".to_string(),
                        Some(Ok(Ok(v))) if v == format!("re:{}", q) => "ok".to_string(),
                        Some(Ok(Ok(v))) => format!("wrong:{}", v),
                        Some(Ok(Err(e))) => err_text(&e),
                        Some(Err(_)) => "task_panicked".to_string(),
                    };
                    let ra = show(with_deadline(3000, ta).await, &qa);
                    let rb = show(with_deadline(3000, tb).await, &qb);
                    let _ = writeln!(out, "outage {} op=clones warm={} slow={} fast={}", j, warm_txt, ra, rb);
                    if warm_txt != "ok" || ra != "ok" || rb != "ok" {
                        return Err(format!("clones_after_outage_{}:warm={},slow={},fast={}", j, warm_txt, ra, rb));
                    }
                    // and once more with both handles already recovered: overlapping calls on the two
                    let mut ca = rq.clone();
                    let mut cb = rq2.clone();
                    let (qa, qb) = (format!("slowb{}", j), format!("fastb{}", j));
                    let (qa2, qb2) = (qa.clone(), qb.clone());
                    let ta = tokio::spawn(async move { ca.request(qa2).await });
                    tokio::time::sleep(Duration::from_millis(100)).await;
                    let tb = tokio::spawn(async move { cb.request(qb2).await });
                    let ra = show(with_deadline(3000, ta).await, &qa);
                    let rb = show(with_deadline(3000, tb).await, &qb);
                    let _ = writeln!(out, "outage {} op=clones2 slow={} fast={}", j, ra, rb);
                    if ra != "ok" || rb != "ok" {
                        return Err(format!("clones2_after_outage_{}:slow={},fast={}", j, ra, rb));
                    }
                    if j < outages {
                        a.__verif_close_connection().await;
                        tokio::time::sleep(Duration::from_millis(30)).await;
                    }
                }
                Ok(())
            }
            "subscriber_exhaust" => {
                // a task that does nothing but await the next item: it is woken only by the stream itself
                let mut sub = a.subscriber(&topic).with_decoder(StringCodec).open().await.map_err(|e| err_text(&e))?;
                let task = tokio::spawn(async move { sub.next().await });
                tokio::time::sleep(Duration::from_millis(80)).await;
                let t0 = Instant::now();
                a.__verif_close_connection().await;
                let txt = match with_deadline(4000, task).await {
                    None => "hung".to_string(),
                    Some(Ok(Some(Err(e)))) => err_text(&e),
                    Some(Ok(Some(Ok(m)))) => format!("item:{}", m),
                    Some(Ok(None)) => "end".to_string(),
                    Some(Err(_)) => "task_panicked".to_string(),
                };
                let _ = writeln!(out, "outage 0 op=next delivered={} ms={}", txt, t0.elapsed().as_millis());
                if txt == "too_many_retries" { Ok(()) } else { Err(format!("expected too_many_retries, got {}", txt)) }
            }
            "publisher_exhaust" => {
                let mut publ = a.publisher(&topic).with_encoder(StringCodec).open().await.map_err(|e| err_text(&e))?;
                publ.send("before".to_string()).await.map_err(|e| err_text(&e))?;
                tokio::time::sleep(Duration::from_millis(60)).await;
                a.__verif_close_connection().await;
                tokio::time::sleep(Duration::from_millis(30)).await;
                let t0 = Instant::now();
                // nothing but the publisher wakes this task
                let task = tokio::spawn(async move {
                    for k in 0..6 {
                        if let Err(e) = publ.send(format!("after{}", k)).await {
                            return Err(e);
                        }
                        tokio::task::yield_now().await;
                    }
                    Ok(())
                });
                let txt = match with_deadline(4000, task).await {
                    None => "hung".to_string(),
                    Some(Ok(Err(e))) => err_text(&e),
                    Some(Ok(Ok(()))) => "all_sent".to_string(),
                    Some(Err(_)) => "task_panicked".to_string(),
                };
                let _ = writeln!(out, "outage 0 op=send delivered={} ms={}", txt, t0.elapsed().as_millis());
                if txt == "too_many_retries" { Ok(()) } else { Err(format!("expected too_many_retries, got {}", txt)) }
            }
            "requestor_exhaust" => {
                let mut replier = b
                    .replier(&topic)
                    .with_request_decoder(StringCodec)
                    .with_reply_encoder(StringCodec)
                    .with_handler(|req: String| async move { Ok::<String, std::convert::Infallible>(format!("re:{}", req)) })
                    .open()
                    .await
                    .map_err(|e| err_text(&e))?;
                tokio::spawn(async move {
                    let _ = replier.listen().await;
                });
                tokio::time::sleep(Duration::from_millis(60)).await;
                let mut rq = a
                    .requestor(&topic)
                    .with_request_encoder(StringCodec)
                    .with_reply_decoder(StringCodec)
                    .with_request_timeout(Duration::from_millis(700))
                    .map_err(|e| err_text(&e))?
                    .open()
                    .await
                    .map_err(|e| err_text(&e))?;
                let first = rq.request("q0".to_string()).await.map_err(|e| err_text(&e))?;
                if first != "re:q0" {
                    return Err(format!("wrong:{}", first));
                }
                a.__verif_close_connection().await;
                tokio::time::sleep(Duration::from_millis(30)).await;
                let t0 = Instant::now();
                let task = tokio::spawn(async move { rq.request("q1".to_string()).await });
                let txt = match with_deadline(4000, task).await {
                    None => "hung".to_string(),
                    Some(Ok(Err(e))) => err_text(&e),
                    Some(Ok(Ok(v))) => format!("answered:{}", v),
                    Some(Err(_)) => "task_panicked".to_string(),
                };
                let _ = writeln!(out, "outage 0 op=request delivered={} ms={}", txt, t0.elapsed().as_millis());
                if txt == "too_many_retries" { Ok(()) } else { Err(format!("expected too_many_retries, got {}", txt)) }
            }
            "replier" | "replier_exhaust" => {
                let mut replier = a
                    .replier(&topic)
                    .with_request_decoder(StringCodec)
                    .with_reply_encoder(StringCodec)
                    .with_handler(|req: String| async move { Ok::<String, std::convert::Infallible>(format!("re:{}", req)) })
                    .open()
                    .await
                    .map_err(|e| err_text(&e))?;
                let listen = tokio::spawn(async move { replier.listen().await });
                tokio::time::sleep(Duration::from_millis(60)).await;
                let mut rq = b
                    .requestor(&topic)
                    .with_request_encoder(StringCodec)
                    .with_reply_decoder(StringCodec)
                    .with_request_timeout(Duration::from_millis(500))
                    .map_err(|e| err_text(&e))?
                    .open()
                    .await
                    .map_err(|e| err_text(&e))?;
                if kind == "replier_exhaust" {
                    // cut A, then immediately let a squatter bind the topic: every re-registration of A
                    // is refused with REPLIER_ALREADY_BOUND (a recoverable error) until the budget is spent
                    a.__verif_close_connection().await;
                    tokio::time::sleep(Duration::from_millis(80)).await;
                    let mut squatter = b
                        .replier(&topic)
                        .with_request_decoder(StringCodec)
                        .with_reply_encoder(StringCodec)
                        .with_handler(|req: String| async move { Ok::<String, std::convert::Infallible>(format!("sq:{}", req)) })
                        .open()
                        .await
                        .map_err(|e| format!("squatter:{}", err_text(&e)))?;
                    tokio::spawn(async move {
                        let _ = squatter.listen().await;
                    });
                    let t0 = Instant::now();
                    let fin = with_deadline(budget + 2000, listen).await;
                    let txt = match fin {
                        None => "hung".to_string(),
                        Some(Ok(Ok(()))) => "returned_ok".to_string(),
                        Some(Ok(Err(e))) => err_text(&e),
                        Some(Err(_)) => "task_panicked".to_string(),
                    };
                    let _ = writeln!(out, "outage 0 op=listen delivered={} ms={}", txt, t0.elapsed().as_millis());
                    return if txt == "too_many_retries" { Ok(()) } else { Err(format!("expected too_many_retries, got {}", txt)) };
                }
                for j in 0..=outages {
                    let t0 = Instant::now();
                    let mut txt = "none".to_string();
                    let deadline = Instant::now() + Duration::from_millis(budget + 1500);
                    let mut n = 0;
                    while Instant::now() < deadline {
                        let q = format!("q{}_{}", j, n);
                        n += 1;
                        match rq.request(q.clone()).await {
                            Ok(v) if v == format!("re:{}", q) => {
                                txt = "ok".into();
                                break;
                            }
                            Ok(v) => {
                                txt = format!("wrong:{}", v);
                                break;
                            }
                            Err(SeliumError::RequestTimeout) => continue,
                            Err(e) => {
                                txt = err_text(&e);
                                break;
                            }
                        }
                    }
                    let _ = writeln!(out, "outage {} op=serve delivered={} ms={}", j, txt, t0.elapsed().as_millis());
                    if txt != "ok" {
                        if listen.is_finished() {
                            let fin = listen.await;
                            return Err(format!("{} (listen ended: {:?})", txt, fin.map(|r| r.map_err(|e| err_text(&e)))).replace(' ', "_"));
                        }
                        return Err(txt);
                    }
                    if j < outages {
                        a.__verif_close_connection().await;
                        tokio::time::sleep(Duration::from_millis(30)).await;
                    }
                }
                Ok(())
            }
            _ => Err("unknown kind".into()),
        }
    }
    .await;
    match res {
        Ok(()) => {
            let _ = writeln!(out, "result ok");
        }
        Err(e) => {
            let _ = writeln!(out, "result {}", e);
        }
    }
    let _ = writeln!(out, "end");
}

pub const KINDS: &[&str] = &["publisher", "subscriber", "requestor", "replier", "replier_exhaust", "subscriber_exhaust", "publisher_exhaust", "requestor_exhaust"];

pub fn main(args: &[String]) {
    let rt = tokio::runtime::Builder::new_multi_thread().worker_threads(3).enable_all().build().unwrap();
    let out = rt.block_on(async {
        let mut out = String::new();
        let dir = work_dir();
        let certs = Certs::generate(&dir, "main").expect("certs");
        let addr = start_server(&certs).expect("server");
        let seed: u64 = args.get(1).and_then(|s| s.parse().ok()).unwrap_or(1);
        let n: u64 = if args[0] == "gen" { args[2].parse().unwrap() } else { KINDS.len() as u64 };
        for i in 0..n {
            let kind = KINDS[((seed + i) % KINDS.len() as u64) as usize];
            crate::guard_case!(out, 300, run_case(addr, &certs, seed, i, kind, &mut out));
        }
        let _ = std::fs::remove_dir_all(&dir);
        out
    });
    print!("{}", out);
}
