//! C13: drives the real `BackoffStrategy` iterator.
//! Line format:
//!   case <kind> <factor> <step_nanos> <max_attempts> <max_nanos|-> <take>
//!   out <attempt_num>:<nanos>:<max_attempts> ... [end]     (`end` = iterator returned None within `take`+1 calls)
//!   panic <message>
use crate::util::*;
use selium::keep_alive::BackoffStrategy;
use std::fmt::Write as _;
use std::time::Duration;

pub struct Case {
    pub kind: u8, // 0 linear 1 constant 2 exponential
    pub factor: u64,
    pub step: Duration,
    pub max_attempts: u32,
    pub max: Option<Duration>,
    pub take: u32,
}

fn dur_from_nanos(n: u128) -> Duration {
    Duration::new((n / 1_000_000_000) as u64, (n % 1_000_000_000) as u32)
}

fn interesting_u64(r: &mut Rng) -> u64 {
    match r.below(12) {
        0 | 11 => 0,
        1 => 1,
        2 => 2,
        3 => 3,
        4 => 10,
        5 => (1u64 << 31) + r.below(3) - 1,
        6 => (1u64 << 32) + r.below(3) - 1,
        7 => 1u64 << 63,
        8 => u64::MAX - r.below(2),
        9 => r.below(100),
        10 => r.next() >> r.below(64),
        _ => r.below(1_000_000),
    }
}

fn interesting_dur(r: &mut Rng) -> Duration {
    match r.below(15) {
        // the overflow boundary of attempt k: Duration::MAX / k, give or take a few nanoseconds or a
        // second (the carry out of the sub-second part decides whether step * k still fits)
        12 | 13 | 14 => {
            let k = 1 + r.below(64) as u128;
            let lim = Duration::MAX.as_nanos();
            let base = lim / k;
            let d: i128 = *r.pick(&[-2i128, -1, 0, 1, 2, 3, 999_999_999, 1_000_000_000, -1_000_000_000, 500_000_000]);
            let n = if d >= 0 { base.saturating_add(d as u128) } else { base.saturating_sub((-d) as u128) };
            dur_from_nanos(n.min(lim))
        }
        0 => Duration::ZERO,
        1 => Duration::from_nanos(1),
        2 => Duration::from_millis(r.below(5000)),
        3 => Duration::from_secs(r.below(10)),
        4 => Duration::MAX,
        5 => Duration::new(u64::MAX, 0),
        6 => Duration::new(u64::MAX / 2 + r.below(2), r.below(1_000_000_000) as u32),
        7 => Duration::new(r.next() >> r.below(64), r.below(1_000_000_000) as u32),
        8 => Duration::new((1u64 << 53) + r.below(5), r.below(1_000_000_000) as u32),
        9 => Duration::new(1, 1),
        10 => Duration::from_nanos(r.next() >> r.below(64)),
        _ => Duration::from_secs(1 + r.below(4)),
    }
}

pub fn gen_case(r: &mut Rng) -> Case {
    let kind = r.below(3) as u8;
    let factor = if kind == 2 { interesting_u64(r) } else { 0 };
    let step = interesting_dur(r);
    let max_attempts = match r.below(8) {
        0 => 0,
        1 => 1,
        2 => r.below(10) as u32,
        3 => r.below(200) as u32,
        4 => 1000 + r.below(4000) as u32,
        5 => u32::MAX - 1,
        6 => (r.next() >> 32) as u32 % (u32::MAX - 1),
        _ => r.below(70) as u32,
    };
    let max = if r.chance(1, 2) {
        if r.chance(1, 2) {
            // maxima in a particular relation to the step
            let n = step.as_nanos();
            let m = match r.below(6) {
                0 => n,
                1 => n.saturating_sub(1),
                2 => n / 2,
                3 => n.saturating_mul(2),
                4 => n.saturating_add(1),
                _ => n.saturating_mul(r.range(1, 50) as u128),
            };
            let lim = Duration::MAX.as_nanos();
            Some(dur_from_nanos(m.min(lim)))
        } else {
            Some(interesting_dur(r))
        }
    } else {
        None
    };
    let take = match r.below(4) {
        0 => r.below(5000) as u32,
        _ => r.below(130) as u32,
    };
    Case { kind, factor, step, max_attempts, max, take }
}

pub fn parse_case(line: &str) -> Case {
    let f: Vec<&str> = line.split_whitespace().collect();
    assert_eq!(f[0], "case");
    let kind = match f[1] {
        "linear" => 0,
        "constant" => 1,
        _ => 2,
    };
    Case {
        kind,
        factor: f[2].parse().unwrap(),
        step: dur_from_nanos(f[3].parse().unwrap()),
        max_attempts: f[4].parse().unwrap(),
        max: if f[5] == "-" { None } else { Some(dur_from_nanos(f[5].parse().unwrap())) },
        take: f[6].parse().unwrap(),
    }
}

pub fn run_case(c: &Case, out: &mut String) {
    let kind = ["linear", "constant", "exponential"][c.kind as usize];
    let _ = writeln!(
        out,
        "case {} {} {} {} {} {}",
        kind,
        c.factor,
        c.step.as_nanos(),
        c.max_attempts,
        c.max.map(|d| d.as_nanos().to_string()).unwrap_or("-".into()),
        c.take
    );
    let mut s = match c.kind {
        0 => BackoffStrategy::linear(),
        1 => BackoffStrategy::constant(),
        _ => BackoffStrategy::exponential(c.factor),
    };
    // the three setters in one of their six orders (a function of the case, so that a replay agrees)
    let order = (c.factor as u128 + c.step.as_nanos() + c.max_attempts as u128 + c.take as u128) % 6;
    let perm: [u8; 3] = [[0, 1, 2], [0, 2, 1], [1, 0, 2], [1, 2, 0], [2, 0, 1], [2, 1, 0]][order as usize];
    for which in perm {
        s = match which {
            0 => s.with_max_attempts(c.max_attempts),
            1 => s.with_step(c.step),
            _ => match c.max {
                Some(m) => s.with_max_duration(m),
                None => s,
            },
        };
    }
    let mut it = s.into_iter();
    let mut line = String::from("out");
    let mut panicked = None;
    for _ in 0..=c.take {
        match catch(|| it.next()) {
            Ok(Some(n)) => {
                let _ = write!(line, " {}:{}:{}", n.attempt_num, n.duration.as_nanos(), n.max_attempts);
            }
            Ok(None) => {
                line.push_str(" end");
                break;
            }
            Err(m) => {
                panicked = Some(m);
                break;
            }
        }
    }
    let _ = writeln!(out, "{}", line);
    if let Some(m) = panicked {
        let _ = writeln!(out, "panic {}", m);
    }
}

pub fn main(args: &[String]) {
    // backoff gen <seed> <n> | backoff replay <file>
    let mut out = String::new();
    if args[0] == "gen" {
        let seed: u64 = args[1].parse().unwrap();
        let n: u64 = args[2].parse().unwrap();
        let mut r = Rng::new(seed ^ 0x13);
        for _ in 0..n {
            let c = gen_case(&mut r);
            run_case(&c, &mut out);
        }
    } else {
        let text = std::fs::read_to_string(&args[1]).unwrap();
        for l in text.lines().filter(|l| l.starts_with("case ")) {
            run_case(&parse_case(l), &mut out);
        }
    }
    print!("{}", out);
}
