//! Pub/sub router simulation: drives the real `pubsub::Topic<u64, MockErr>` future with mock
//! publisher streams / subscriber sinks and a hand-rolled executor.
//!
//! case ps <seed> <n> wake_driven=<0|1> final=<quiesce|close|none>
//! pb | pe pending|ready|panic <msg>|spin
//! q stream <id> <woke> | q sink <id> <woke> | c <woke> | f k|s <id> <woke> | drain <end_streams>
//! k <id> ready|flush ok|err|pending | k <id> send <item> ok|err | s <id> item <x>|err|end|pending | d k|s <id>
use crate::sim::*;
use crate::util::*;
use futures::Future;
use selium_server::topic::pubsub::{Socket, Topic};
use std::sync::atomic::{AtomicUsize, Ordering};
use std::sync::{Arc, Mutex};
use std::task::{Context, Poll, Waker};

fn show_u64(x: &u64) -> String {
    x.to_string()
}
fn parse_u64(s: &str) -> u64 {
    s.parse().unwrap()
}

/// Watchdog for polls that never return without ever touching a mock (a router spinning on its
/// own state): after 4 s inside one poll the case's log so far is printed with `pe spin` and
/// the process exits normally, so that the judge sees the spin as the last case of the trace.
static WATCH: Mutex<Option<(std::time::Instant, W)>> = Mutex::new(None);
static WATCHDOG: std::sync::Once = std::sync::Once::new();

fn start_watchdog() {
    WATCHDOG.call_once(|| {
        std::thread::spawn(|| loop {
            std::thread::sleep(std::time::Duration::from_millis(200));
            let g = WATCH.lock().unwrap_or_else(|p| p.into_inner());
            if let Some((t0, w)) = g.as_ref() {
                if t0.elapsed() > std::time::Duration::from_secs(4) {
                    use std::io::Write;
                    let wl = w.lock().unwrap_or_else(|p| p.into_inner());
                    let mut o = std::io::stdout().lock();
                    for l in wl.log.iter() {
                        let _ = writeln!(o, "{}", l);
                    }
                    let _ = writeln!(o, "pe spin");
                    let _ = writeln!(o, "end");
                    let _ = o.flush();
                    std::process::exit(0);
                }
            }
        });
    });
}

pub struct Exec {
    pub w: W,
    pub counter: Arc<CountWaker>,
    pub waker: Waker,
    pub seen: usize,
    pub done: bool,
}

impl Exec {
    pub fn new(w: W) -> Exec {
        let counter = Arc::new(CountWaker(AtomicUsize::new(0)));
        let waker = Waker::from(counter.clone());
        Exec { w, counter, waker, seen: 0, done: false }
    }
    pub fn wake_count(&self) -> usize {
        self.counter.0.load(Ordering::SeqCst)
    }
    pub fn flagged(&self) -> bool {
        self.wake_count() > self.seen
    }
    pub fn log(&self, s: String) {
        self.w.lock().unwrap_or_else(|p| p.into_inner()).log.push(s);
    }
    /// polls the future once, logging the boundaries; returns false when it can no longer be polled
    pub fn poll<F: Future<Output = ()> + ?Sized>(&mut self, fut: &mut std::pin::Pin<Box<F>>) -> bool {
        if self.done {
            return false;
        }
        self.seen = self.wake_count();
        {
            let mut w = self.w.lock().unwrap_or_else(|p| p.into_inner());
            w.calls_in_poll = 0;
            w.items_in_poll = 0;
            w.log.push("pb".into());
        }
        let waker = self.waker.clone();
        start_watchdog();
        *WATCH.lock().unwrap_or_else(|p| p.into_inner()) = Some((std::time::Instant::now(), self.w.clone()));
        let res = catch(|| {
            let mut cx = Context::from_waker(&waker);
            fut.as_mut().poll(&mut cx)
        });
        *WATCH.lock().unwrap_or_else(|p| p.into_inner()) = None;
        // a panic while holding the world lock poisons it: recover the guard
        let mut w = match self.w.lock() {
            Ok(g) => g,
            Err(p) => p.into_inner(),
        };
        match res {
            Ok(Poll::Pending) => w.log.push("pe pending".into()),
            Ok(Poll::Ready(())) => {
                w.log.push("pe ready".into());
                self.done = true;
            }
            Err(m) => {
                if m.starts_with("SPIN") {
                    w.log.push("pe spin".into());
                } else {
                    w.log.push(format!("pe panic {}", m));
                }
                self.done = true;
            }
        }
        !self.done
    }
}

struct Env {
    next_stream: u64,
    next_sink: u64,
}

fn new_stream(w: &W, id: u64) -> Socket<u64, MockErr> {
    let st: MockStream<u64> = MockStream {
        id,
        ended: false,
        w: w.clone(),
        make: Box::new(|world: &mut World| {
            world.next_item += 1;
            world.next_item.to_string()
        }),
        parse: parse_u64,
    };
    Socket::Stream(Box::pin(st))
}

fn new_sink(w: &W, id: u64) -> Socket<u64, MockErr> {
    let si: MockSink<u64> = MockSink { id, w: w.clone(), show: show_u64 };
    Socket::Sink(Box::pin(si))
}

pub fn run_case(seed: u64, idx: u64, out: &mut String) {
    let mut r = Rng::new(seed.wrapping_mul(7919).wrapping_add(idx));
    let profile = Profile::random(&mut r);
    let wake_driven = r.chance(1, 2);
    let fin = *r.pick(&["quiesce", "close", "quiesce", "close", "none"]);
    let steps = r.range(4, 70);
    let w: W = Arc::new(Mutex::new(World::new(Rng::new(r.next()), profile)));
    let (topic, mut tx) = Topic::<u64, MockErr>::pair();
    let mut fut: std::pin::Pin<Box<dyn Future<Output = ()>>> = Box::pin(topic);
    let mut ex = Exec::new(w.clone());
    let mut env = Env { next_stream: 0, next_sink: 0 };
    ex.log(format!("case ps {} {} wake_driven={} final={}", seed, idx, wake_driven as u8, fin));
    let mut closed = false;
    // a spawned task is polled once right away
    ex.poll(&mut fut);
    let first = false;
    for _ in 0..steps {
        if ex.done {
            break;
        }
        let choice = r.below(100);
        if choice < 45 {
            if !wake_driven || ex.flagged() || first {
                ex.poll(&mut fut);
            }
        } else if choice < 60 && !closed {
            let id = env.next_stream;
            let before = ex.wake_count();
            if tx.try_send(new_stream(&w, id)).is_ok() {
                env.next_stream += 1;
                ex.log(format!("q stream {} {}", id, (ex.wake_count() > before) as u8));
            }
        } else if choice < 75 && !closed {
            let id = env.next_sink;
            let before = ex.wake_count();
            if tx.try_send(new_sink(&w, id)).is_ok() {
                env.next_sink += 1;
                ex.log(format!("q sink {} {}", id, (ex.wake_count() > before) as u8));
            }
        } else if choice < 97 {
            fire_one(&mut r, &mut ex);
        } else if !closed && r.chance(1, 3) {
            closed = true;
            let before = ex.wake_count();
            tx.close_channel();
            ex.log(format!("c {}", (ex.wake_count() > before) as u8));
        }
    }
    if idx % 3 == 2 {
        w.lock().unwrap_or_else(|p| p.into_inner()).drain_fail = true;
    }
    final_phase(fin, &mut r, &mut ex, &mut fut, &mut closed, &mut || tx.close_channel());
    drop(fut);
    let mut wl = w.lock().unwrap_or_else(|p| p.into_inner());
    wl.log.push("end".into());
    for l in wl.log.drain(..) {
        out.push_str(&l);
        out.push('\n');
    }
}

pub fn fire_one(r: &mut Rng, ex: &mut Exec) {
    let mut keys: Vec<Src> = ex.w.lock().unwrap_or_else(|p| p.into_inner()).wakers.keys().cloned().collect();
    keys.sort_by_key(|s| s.label());
    if keys.is_empty() {
        return;
    }
    let s = *r.pick(&keys);
    fire(ex, s);
}

pub fn fire(ex: &mut Exec, s: Src) {
    let wk = ex.w.lock().unwrap_or_else(|p| p.into_inner()).wakers.remove(&s);
    if let Some(wk) = wk {
        let before = ex.wake_count();
        wk.wake();
        ex.log(format!("f {} {}", s.label(), (ex.wake_count() > before) as u8));
    }
}

/// Final phase under the wake-driven executor: every sink is ready from now on, publishers are
/// idle (or finished); optionally the registration channel is closed first.
pub fn final_phase<F: Future<Output = ()> + ?Sized>(
    fin: &str,
    r: &mut Rng,
    ex: &mut Exec,
    fut: &mut std::pin::Pin<Box<F>>,
    closed: &mut bool,
    close: &mut dyn FnMut(),
) {
    if fin == "none" || ex.done {
        return;
    }
    let end_streams = r.chance(1, 3);
    {
        let mut w = ex.w.lock().unwrap_or_else(|p| p.into_inner());
        w.drain = true;
        w.end_streams = end_streams;
        w.log.push(format!("drain {}", end_streams as u8));
    }
    if fin == "close" && !*closed {
        *closed = true;
        let before = ex.wake_count();
        close();
        ex.log(format!("c {}", (ex.wake_count() > before) as u8));
    }
    // sinks that were pending become ready: their kept wakers fire; if streams are to end, so do theirs
    let mut keys: Vec<Src> = ex.w.lock().unwrap_or_else(|p| p.into_inner()).wakers.keys().cloned().collect();
    keys.sort_by_key(|s| s.label());
    for s in keys {
        match s {
            Src::Sink(_) => fire(ex, s),
            Src::Stream(_) if end_streams => fire(ex, s),
            _ => {}
        }
    }
    let mut rounds = 0;
    while ex.flagged() && !ex.done && rounds < 1000 {
        ex.poll(fut);
        rounds += 1;
    }
}

pub fn replay_case(block: &[&str], out: &mut String) {
    let w: W = Arc::new(Mutex::new(World::new(Rng::new(1), Profile::random(&mut Rng::new(1)))));
    w.lock().unwrap_or_else(|p| p.into_inner()).scripted = Some(script_from_lines(block));
    let (topic, mut tx) = Topic::<u64, MockErr>::pair();
    let mut fut: std::pin::Pin<Box<dyn Future<Output = ()>>> = Box::pin(topic);
    let mut ex = Exec::new(w.clone());
    ex.log(block[0].to_string());
    for l in &block[1..] {
        let t: Vec<&str> = l.split_whitespace().collect();
        if t.is_empty() {
            continue;
        }
        match t[0] {
            "pb" => {
                if !ex.done {
                    ex.poll(&mut fut);
                }
            }
            "q" => {
                let id: u64 = t[2].parse().unwrap();
                let before = ex.wake_count();
                let sock = if t[1] == "stream" { new_stream(&w, id) } else { new_sink(&w, id) };
                if tx.try_send(sock).is_ok() {
                    ex.log(format!("q {} {} {}", t[1], id, (ex.wake_count() > before) as u8));
                }
            }
            "c" => {
                let before = ex.wake_count();
                tx.close_channel();
                ex.log(format!("c {}", (ex.wake_count() > before) as u8));
            }
            "f" => {
                let id: u64 = t[2].parse().unwrap();
                let s = if t[1] == "k" { Src::Sink(id) } else { Src::Stream(id) };
                fire(&mut ex, s);
            }
            "drain" => {
                let mut wl = w.lock().unwrap_or_else(|p| p.into_inner());
                wl.log.push(l.to_string());
            }
            _ => {}
        }
    }
    drop(fut);
    let mut wl = w.lock().unwrap_or_else(|p| p.into_inner());
    wl.log.push("end".into());
    for l in wl.log.drain(..) {
        out.push_str(&l);
        out.push('\n');
    }
}

pub fn main(args: &[String]) {
    let mut out = String::new();
    if args[0] == "gen" {
        let seed: u64 = args[1].parse().unwrap();
        let n: u64 = args[2].parse().unwrap();
        for i in 0..n {
            run_case(seed, i, &mut out);
            print!("{}", out);
            out.clear();
        }
    } else {
        let text = std::fs::read_to_string(&args[1]).unwrap();
        for b in case_blocks(&text) {
            if b[0].starts_with("case ps") {
                replay_case(&b, &mut out);
                print!("{}", out);
                out.clear();
            }
        }
    }
    print!("{}", out);
}
