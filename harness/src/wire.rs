//! C05 / C06 (and the wire part of C14): drives `MessageCodec` through tokio_util's
//! Encoder/Decoder traits with arbitrary chunking, and the batch codec of utils.rs.
//!
//! case stream
//!   f <frame-descr>                    one per frame, in order
//!   enc ok <hex> | enc err             result of Encoder::encode on an empty buffer, per frame
//!   chunks <hex> <hex> ...             the concatenation of the ok encodings, cut into chunks
//!   got <frame-descr> | dec_err | dec_panic <msg>      Decoder::decode results, in order
//!   end <bytes left in buffer>
//! case raw                             arbitrary bytes through the decoder (same output lines)
//!   chunks ...
//! case batch
//!   msgs <hex> <hex> ...  |  bytes <hex>      (well-formed list, or arbitrary bytes)
//!   benc <hex>
//!   bdec <hex> ... | bdec_panic <msg>
use crate::util::*;
use bytes::{Bytes, BytesMut};
use selium_protocol::utils::{decode_message_batch, encode_message_batch};
use selium_protocol::*;
use std::collections::HashMap;
use std::fmt::Write as _;
use tokio_util::codec::{Decoder, Encoder};

pub const MAX: usize = 1024 * 1024;

fn ops_descr(ops: &[Operation]) -> String {
    let mut s = format!("{}", ops.len());
    for o in ops {
        match o {
            Operation::Map(m) => s.push_str(&format!(" M {}", hex(m.as_bytes()))),
            Operation::Filter(m) => s.push_str(&format!(" F {}", hex(m.as_bytes()))),
        }
    }
    s
}

pub fn descr(f: &Frame) -> String {
    match f {
        Frame::RegisterPublisher(p) => format!(
            "RP {} {} {} {}",
            hex(p.topic.namespace().as_bytes()),
            hex(p.topic.topic().as_bytes()),
            p.retention_policy,
            ops_descr(&p.operations)
        ),
        Frame::RegisterSubscriber(p) => format!(
            "RS {} {} {} {}",
            hex(p.topic.namespace().as_bytes()),
            hex(p.topic.topic().as_bytes()),
            p.retention_policy,
            ops_descr(&p.operations)
        ),
        Frame::RegisterReplier(p) => format!("RR {} {}", hex(p.topic.namespace().as_bytes()), hex(p.topic.topic().as_bytes())),
        Frame::RegisterRequestor(p) => format!("RQ {} {}", hex(p.topic.namespace().as_bytes()), hex(p.topic.topic().as_bytes())),
        Frame::Message(m) => {
            let h = match &m.headers {
                None => "N".to_string(),
                Some(h) => {
                    let mut kv: Vec<_> = h.iter().collect();
                    kv.sort();
                    let mut s = format!("S {}", kv.len());
                    for (k, v) in kv {
                        s.push_str(&format!(" {} {}", hex(k.as_bytes()), hex(v.as_bytes())));
                    }
                    s
                }
            };
            format!("M {} {}", h, hex(&m.message))
        }
        Frame::BatchMessage(b) => format!("B {}", hex(b)),
        Frame::Error(e) => format!("E {} {}", e.code, hex(&e.message)),
        Frame::Ok => "OK".to_string(),
    }
}

pub fn parse_descr(t: &[&str]) -> Frame {
    let s = |h: &str| String::from_utf8(unhex(h)).unwrap();
    let ops = |t: &[&str]| -> Vec<Operation> {
        let n: usize = t[0].parse().unwrap();
        (0..n)
            .map(|i| {
                if t[1 + 2 * i] == "M" {
                    Operation::Map(s(t[2 + 2 * i]))
                } else {
                    Operation::Filter(s(t[2 + 2 * i]))
                }
            })
            .collect()
    };
    match t[0] {
        "RP" => Frame::RegisterPublisher(PublisherPayload {
            topic: TopicName::_create_unchecked(&s(t[1]), &s(t[2])),
            retention_policy: t[3].parse().unwrap(),
            operations: ops(&t[4..]),
        }),
        "RS" => Frame::RegisterSubscriber(SubscriberPayload {
            topic: TopicName::_create_unchecked(&s(t[1]), &s(t[2])),
            retention_policy: t[3].parse().unwrap(),
            operations: ops(&t[4..]),
        }),
        "RR" => Frame::RegisterReplier(ReplierPayload { topic: TopicName::_create_unchecked(&s(t[1]), &s(t[2])) }),
        "RQ" => Frame::RegisterRequestor(RequestorPayload { topic: TopicName::_create_unchecked(&s(t[1]), &s(t[2])) }),
        "M" => {
            if t[1] == "N" {
                Frame::Message(MessagePayload { headers: None, message: Bytes::from(unhex(t[2])) })
            } else {
                let n: usize = t[2].parse().unwrap();
                let mut h = HashMap::new();
                for i in 0..n {
                    h.insert(s(t[3 + 2 * i]), s(t[4 + 2 * i]));
                }
                Frame::Message(MessagePayload { headers: Some(h), message: Bytes::from(unhex(t[3 + 2 * n])) })
            }
        }
        "B" => Frame::BatchMessage(Bytes::from(unhex(t[1]))),
        "E" => Frame::Error(ErrorPayload { code: t[1].parse().unwrap(), message: Bytes::from(unhex(t[2])) }),
        _ => Frame::Ok,
    }
}

fn rand_string(r: &mut Rng) -> String {
    let n = match r.below(6) {
        0 => 0,
        1 => 1,
        2 => r.below(40),
        _ => r.below(10),
    };
    let alphabet: &[char] = &['a', 'Z', '0', '/', '_', '-', ' ', 'é', 'ß', '\u{203f}', '\u{1F600}', '\u{4e2d}', '\0', '\n', 'c', 'i', 'd', 'r', 'e', 'q'];
    (0..n).map(|_| *r.pick(alphabet)).collect()
}

fn rand_payload(r: &mut Rng, allow_big: bool) -> Vec<u8> {
    if allow_big && r.chance(1, 2) {
        let n = MAX - 24 + r.below(48) as usize;
        let b = r.next() as u8;
        return vec![b; n];
    }
    let n = match r.below(if allow_big { 40 } else { 12 }) {
        0 => 0,
        1 => 1,
        2 => 8,
        3 => 9,
        4 => 255,
        5 => 256,
        6 => r.below(3000) as usize,
        39 => MAX - 20 + r.below(40) as usize,
        _ => r.below(64) as usize,
    };
    if n > 100_000 {
        // big payloads are constant-filled to keep traces compressible in memory
        let b = r.next() as u8;
        return vec![b; n];
    }
    r.bytes(n)
}

fn rand_topic(r: &mut Rng) -> TopicName {
    if r.chance(1, 2) {
        TopicName::_create_unchecked("namespace", "topic")
    } else {
        TopicName::_create_unchecked(&rand_string(r), &rand_string(r))
    }
}

fn rand_ops(r: &mut Rng) -> Vec<Operation> {
    let n = match r.below(4) {
        0 => 0,
        1 => 1,
        _ => r.below(4),
    };
    (0..n)
        .map(|_| if r.chance(1, 2) { Operation::Map(rand_string(r)) } else { Operation::Filter(rand_string(r)) })
        .collect()
}

pub fn rand_frame(r: &mut Rng, allow_big: bool) -> Frame {
    match r.below(12) {
        0 => Frame::RegisterPublisher(PublisherPayload { topic: rand_topic(r), retention_policy: r.next() >> r.below(64), operations: rand_ops(r) }),
        1 => Frame::RegisterSubscriber(SubscriberPayload { topic: rand_topic(r), retention_policy: r.below(100), operations: rand_ops(r) }),
        2 => Frame::RegisterReplier(ReplierPayload { topic: rand_topic(r) }),
        3 => Frame::RegisterRequestor(RequestorPayload { topic: rand_topic(r) }),
        4 | 5 | 6 => {
            let headers = match r.below(4) {
                0 => None,
                1 => Some(HashMap::new()),
                _ => {
                    let mut h = HashMap::new();
                    for _ in 0..r.range(1, 4) {
                        let k = if r.chance(1, 3) { "cid".to_string() } else if r.chance(1, 3) { "req_id".to_string() } else { rand_string(r) };
                        h.insert(k, rand_string(r));
                    }
                    Some(h)
                }
            };
            Frame::Message(MessagePayload { headers, message: Bytes::from(rand_payload(r, allow_big)) })
        }
        7 | 8 => {
            if r.chance(1, 2) {
                let n = r.below(4);
                let msgs: Vec<Bytes> = (0..n).map(|_| Bytes::from(rand_payload(r, false))).collect();
                Frame::BatchMessage(encode_message_batch(msgs))
            } else {
                Frame::BatchMessage(Bytes::from(rand_payload(r, allow_big)))
            }
        }
        9 | 10 => Frame::Error(ErrorPayload { code: (r.next() >> r.below(64)) as u32, message: Bytes::from(rand_payload(r, false)) }),
        _ => Frame::Ok,
    }
}

fn cut(r: &mut Rng, stream: &[u8]) -> Vec<Vec<u8>> {
    if stream.len() > 50_000 {
        // long streams: a handful of large chunks (the list-based model is quadratic in the
        // number of chunks times the buffered length)
        let k = r.range(1, 4) as usize;
        let mut cuts: Vec<usize> = (0..k - 1).map(|_| r.below(stream.len() as u64) as usize).collect();
        if r.chance(1, 2) && stream.len() > 9 {
            cuts.push(*r.pick(&[1usize, 8, 9, 10]));
        }
        cuts.push(0);
        cuts.push(stream.len());
        cuts.sort();
        cuts.dedup();
        return cuts.windows(2).map(|w| stream[w[0]..w[1]].to_vec()).collect();
    }
    let mode = r.below(6);
    let mut chunks = vec![];
    let mut i = 0;
    while i < stream.len() {
        let n = match mode {
            0 => stream.len(),
            1 => 1,
            2 => r.range(1, 3) as usize,
            3 => r.range(1, 12) as usize,
            4 => r.range(1, 2000) as usize,
            _ => *r.pick(&[1usize, 8, 9, 10, 17, 64, 4096]),
        };
        let n = n.min(stream.len() - i).max(1);
        chunks.push(stream[i..i + n].to_vec());
        i += n;
    }
    if r.chance(1, 8) {
        chunks.insert(r.below(chunks.len() as u64 + 1) as usize, vec![]);
    }
    chunks
}

fn hexs(v: &[Vec<u8>]) -> String {
    v.iter().map(|c| if c.is_empty() { "-".to_string() } else { hex(c) }).collect::<Vec<_>>().join(" ")
}

fn run_decoder(chunks: &[Vec<u8>], out: &mut String) {
    let mut codec = MessageCodec;
    let mut buf = BytesMut::new();
    let mut dead = false;
    for c in chunks {
        if dead {
            break;
        }
        buf.extend_from_slice(c);
        loop {
            match catch(|| codec.decode(&mut buf)) {
                Ok(Ok(Some(f))) => {
                    let _ = writeln!(out, "got {}", descr(&f));
                }
                Ok(Ok(None)) => break,
                Ok(Err(_)) => {
                    let _ = writeln!(out, "dec_err");
                    dead = true;
                    break;
                }
                Err(m) => {
                    let _ = writeln!(out, "dec_panic {}", m);
                    dead = true;
                    break;
                }
            }
        }
    }
    let _ = writeln!(out, "end {}", buf.len());
}

pub fn stream_case(frames: &[Frame], chunks_override: Option<Vec<Vec<u8>>>, r: &mut Rng, out: &mut String) {
    let _ = writeln!(out, "case stream");
    let mut stream = vec![];
    for f in frames {
        let _ = writeln!(out, "f {}", descr(f));
    }
    for f in frames {
        let mut codec = MessageCodec;
        let mut dst = BytesMut::new();
        match catch(|| codec.encode(f.clone(), &mut dst)) {
            Ok(Ok(())) => {
                let _ = writeln!(out, "enc ok {}", hex(&dst));
                stream.extend_from_slice(&dst);
            }
            Ok(Err(_)) => {
                let _ = writeln!(out, "enc err");
            }
            Err(m) => {
                let _ = writeln!(out, "enc panic {}", m);
            }
        }
    }
    // the same frames written one after the other into ONE buffer, as a framed writer does when
    // frames are queued faster than they are flushed: must be the concatenation of the encodings above
    {
        let mut codec = MessageCodec;
        let mut dst = BytesMut::new();
        let mut panicked = false;
        for f in frames {
            if catch(|| codec.encode(f.clone(), &mut dst)).is_err() {
                panicked = true;
                break;
            }
        }
        if panicked {
            let _ = writeln!(out, "shared panic");
        } else {
            let _ = writeln!(out, "shared {}", if dst.is_empty() { "-".to_string() } else { hex(&dst) });
        }
    }
    let chunks = chunks_override.unwrap_or_else(|| cut(r, &stream));
    let _ = writeln!(out, "chunks {}", hexs(&chunks));
    run_decoder(&chunks, out);
}

pub fn raw_case(chunks: &[Vec<u8>], out: &mut String) {
    let _ = writeln!(out, "case raw");
    let _ = writeln!(out, "chunks {}", hexs(chunks));
    run_decoder(chunks, out);
}

fn mutate(r: &mut Rng, mut v: Vec<u8>) -> Vec<u8> {
    match r.below(6) {
        0 => {
            let n = r.below(v.len() as u64 + 1) as usize;
            v.truncate(n);
        }
        1 | 2 => {
            for _ in 0..r.range(1, 3) {
                if !v.is_empty() {
                    let i = r.below(v.len() as u64) as usize;
                    v[i] ^= 1 << r.below(8);
                }
            }
        }
        3 => {
            // adversarial length somewhere
            if v.len() >= 8 {
                let i = r.below((v.len() - 7) as u64) as usize;
                let val: u64 = *r.pick(&[u64::MAX, 1 << 40, 1 << 32, (MAX as u64) + 1, MAX as u64, 1 << 63, 0]);
                let bytes = if r.chance(1, 2) { val.to_be_bytes() } else { val.to_le_bytes() };
                v[i..i + 8].copy_from_slice(&bytes);
            }
        }
        4 => {
            let k = r.below(20) as usize;
            let extra = r.bytes(k);
            v.extend_from_slice(&extra);
        }
        _ => {
            if !v.is_empty() {
                let i = r.below(v.len() as u64) as usize;
                v.remove(i);
            }
        }
    }
    v
}

pub fn batch_case(input: Result<Vec<Vec<u8>>, Vec<u8>>, out: &mut String) {
    let _ = writeln!(out, "case batch");
    let bytes = match &input {
        Ok(msgs) => {
            let _ = writeln!(out, "msgs {} {}", msgs.len(), hexs(msgs));
            let enc = encode_message_batch(msgs.iter().map(|m| Bytes::from(m.clone())).collect());
            let _ = writeln!(out, "benc {}", hex(&enc));
            enc
        }
        Err(b) => {
            let _ = writeln!(out, "bytes {}", hex(b));
            Bytes::from(b.clone())
        }
    };
    match catch(|| decode_message_batch(bytes)) {
        Ok(ms) => {
            let v: Vec<Vec<u8>> = ms.iter().map(|m| m.to_vec()).collect();
            let _ = writeln!(out, "bdec {} {}", v.len(), hexs(&v));
        }
        Err(m) => {
            let _ = writeln!(out, "bdec_panic {}", m);
        }
    }
}

pub fn gen(seed: u64, n: u64, out: &mut String) {
    let mut r = Rng::new(seed ^ 0x05);
    if seed % 1000 == 0 {
        // the limit boundary, deterministically, once per run (first shard)
        for (delta, batch) in [(0i64, true), (1, true), (0, false), (1, false), (-1, false)] {
            let f = if batch {
                Frame::BatchMessage(Bytes::from(vec![0xabu8; (MAX as i64 + delta) as usize]))
            } else {
                // payload = 1 (option tag) + 8 (length) + body
                Frame::Message(MessagePayload { headers: None, message: Bytes::from(vec![0x5au8; (MAX as i64 - 9 + delta) as usize]) })
            };
            let follow = Frame::Ok;
            stream_case(&[f, follow], None, &mut r, out);
        }
    }
    for i in 0..n {
        match r.below(10) {
            0..=3 => {
                let k = match r.below(4) {
                    0 => 1,
                    _ => r.range(1, 5),
                };
                // at most one near-limit frame every ~40 cases keeps traces small
                let allow_big = i % 25 == 7;
                let frames: Vec<Frame> = (0..k).map(|j| rand_frame(&mut r, allow_big && j == 0)).collect();
                stream_case(&frames, None, &mut r, out);
            }
            5 if r.chance(1, 2) => {
                // well-framed but type-confused: a valid length prefix, any type byte, and as
                // payload either random bytes or the payload of a valid frame of another type
                let body: Vec<u8> = if r.chance(1, 2) {
                    let k = r.below(24) as usize;
                    r.bytes(k)
                } else {
                    let f = rand_frame(&mut r, false);
                    let mut dst = BytesMut::new();
                    if MessageCodec.encode(f, &mut dst).is_ok() && dst.len() >= 9 { dst[9..].to_vec() } else { vec![] }
                };
                let mut v = (body.len() as u64).to_be_bytes().to_vec();
                v.push(r.below(11) as u8);
                v.extend_from_slice(&body);
                if r.chance(1, 3) {
                    let mut dst = BytesMut::new();
                    let _ = MessageCodec.encode(Frame::Ok, &mut dst);
                    v.extend_from_slice(&dst);
                }
                let chunks = cut(&mut r, &v);
                raw_case(&chunks, out);
            }
            5 => {
                // oversize length prefix, arbitrary type and tail
                let len: u64 = *r.pick(&[MAX as u64 + 1, MAX as u64 + 2, 1 << 21, 1 << 32, 1 << 40, u64::MAX, 1 << 63]);
                let mut v = len.to_be_bytes().to_vec();
                v.push(r.below(9) as u8);
                let k = r.below(12) as usize;
                v.extend_from_slice(&r.bytes(k));
                let chunks = cut(&mut r, &v);
                raw_case(&chunks, out);
            }
            6 | 7 => {
                // mutated valid stream
                let k = r.range(1, 3);
                let mut stream = vec![];
                for _ in 0..k {
                    let f = rand_frame(&mut r, false);
                    let mut dst = BytesMut::new();
                    if MessageCodec.encode(f, &mut dst).is_ok() {
                        stream.extend_from_slice(&dst);
                    }
                }
                let v = mutate(&mut r, stream);
                let chunks = cut(&mut r, &v);
                raw_case(&chunks, out);
            }
            8 => {
                let k = r.below(5);
                let msgs: Vec<Vec<u8>> = (0..k).map(|_| rand_payload(&mut r, false)).collect();
                batch_case(Ok(msgs), out);
            }
            _ => {
                let k = r.below(4);
                let msgs: Vec<Bytes> = (0..k).map(|_| Bytes::from(rand_payload(&mut r, false))).collect();
                let lens: Vec<usize> = msgs.iter().map(|m| m.len()).collect();
                let enc = encode_message_batch(msgs).to_vec();
                let k = r.below(24) as usize;
                let v = match r.below(5) {
                    0 => r.bytes(k),
                    1 | 2 => {
                        // a well-formed batch in which ONE aligned field -- the count, or the length marker of
                        // one entry -- is replaced by a boundary value (the top of the u64 range, around the
                        // bytes that remain, around the frame limit), optionally truncated after it
                        let mut v = enc.clone();
                        let mut offsets = vec![0usize];
                        let mut o = 8;
                        for l in &lens {
                            offsets.push(o);
                            o += 8 + l;
                        }
                        if r.chance(1, 3) {
                            // one more marker after the last entry
                            offsets.push(v.len());
                            v.extend_from_slice(&[0u8; 8]);
                        }
                        let at = *r.pick(&offsets);
                        let rest = (v.len() - at - 8) as u64;
                        let val: u64 = match r.below(12) {
                            0 => u64::MAX,
                            1 => u64::MAX - r.below(8),
                            2 => u64::MAX - 8,
                            3 => u64::MAX - 9,
                            4 => 1 << 63,
                            5 => (1 << 63) - 1,
                            6 => rest + 1,
                            7 => rest,
                            8 => rest.saturating_sub(1),
                            9 => MAX as u64 + r.below(3),
                            10 => u32::MAX as u64 + r.below(3),
                            _ => (usize::MAX as u64) - r.below(16),
                        };
                        v[at..at + 8].copy_from_slice(&val.to_be_bytes());
                        if r.chance(1, 4) {
                            let cut = at + 8 + r.below((v.len() - at - 8) as u64 + 1) as usize;
                            v.truncate(cut);
                        }
                        v
                    }
                    _ => mutate(&mut r, enc),
                };
                batch_case(Err(v), out);
            }
        }
    }
}

pub fn replay(path: &str, out: &mut String) {
    let text = std::fs::read_to_string(path).unwrap();
    let lines: Vec<&str> = text.lines().collect();
    let mut r = Rng::new(1);
    let mut i = 0;
    while i < lines.len() {
        let l = lines[i];
        i += 1;
        if l == "case stream" {
            let mut frames = vec![];
            let mut chunks = None;
            while i < lines.len() && !lines[i].starts_with("case ") {
                let t: Vec<&str> = lines[i].split_whitespace().collect();
                if !t.is_empty() && t[0] == "f" {
                    frames.push(parse_descr(&t[1..]));
                } else if !t.is_empty() && t[0] == "chunks" {
                    chunks = Some(t[1..].iter().map(|h| unhex(h)).collect::<Vec<_>>());
                }
                i += 1;
            }
            stream_case(&frames, chunks, &mut r, out);
        } else if l == "case raw" {
            while i < lines.len() && !lines[i].starts_with("case ") {
                let t: Vec<&str> = lines[i].split_whitespace().collect();
                if !t.is_empty() && t[0] == "chunks" {
                    let chunks: Vec<Vec<u8>> = t[1..].iter().map(|h| unhex(h)).collect();
                    raw_case(&chunks, out);
                }
                i += 1;
            }
        } else if l == "case batch" {
            while i < lines.len() && !lines[i].starts_with("case ") {
                let t: Vec<&str> = lines[i].split_whitespace().collect();
                if !t.is_empty() && t[0] == "msgs" {
                    batch_case(Ok(t[2..].iter().map(|h| unhex(h)).collect()), out);
                } else if !t.is_empty() && t[0] == "bytes" {
                    batch_case(Err(unhex(t.get(1).copied().unwrap_or("-"))), out);
                }
                i += 1;
            }
        }
    }
}

pub fn main(args: &[String]) {
    let mut out = String::new();
    if args[0] == "gen" {
        gen(args[1].parse().unwrap(), args[2].parse().unwrap(), &mut out);
    } else {
        replay(&args[1], &mut out);
    }
    print!("{}", out);
}
