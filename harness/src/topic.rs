//! C07: drives `TopicName::try_from`, `TopicName::create`, `is_valid`, `Display`.
//! Lines:
//!   tf <cps>                       input string as comma-separated decimal code points ("-" = empty)
//!   r ok <ns> <tp> <display> <is_valid> | r err <parse|reserved|other> | r panic <msg>
//!   cr <ns> <tp>
//!   r ok <display> | r err | r panic <msg>
use crate::util::*;
use selium_protocol::TopicName;
use selium_std::errors::SeliumError;
use std::fmt::Write as _;

pub fn cps(s: &str) -> String {
    if s.is_empty() {
        return "-".into();
    }
    s.chars().map(|c| (c as u32).to_string()).collect::<Vec<_>>().join(",")
}

pub fn uncps(s: &str) -> String {
    if s == "-" {
        return String::new();
    }
    s.split(',').map(|x| char::from_u32(x.parse().unwrap()).unwrap()).collect()
}

const WORD: &[char] = &['a', 'z', 'A', 'Z', 'm', 'Q', '0', '9', '5', '_', '-'];
const ODD: &[char] = &[
    '/', ' ', '!', '.', '\n', '\t', '\\', '$', '^', '+', '@', '`', '{', '[', ':', '\0', '\u{7f}',
    'é', 'ß', '\u{203f}', '\u{200d}', '\u{200c}', '\u{663}', '\u{301}', '\u{1F600}', '\u{4e2d}', '\u{2160}', '\u{ff3f}', '\u{aa}',
    '\u{80}', '\u{7ff}', '\u{800}', '\u{ffff}', '\u{10000}', '\u{10ffff}',
    // characters that case folding / compatibility mappings relate to ASCII letters and digits
    '\u{17f}', '\u{212a}', '\u{130}', '\u{131}', '\u{1e9e}', '\u{2126}', '\u{fb01}', '\u{ff21}', '\u{ff41}', '\u{ff10}', '\u{b5}', '\u{3c2}',
    '\u{1d7ce}', '\u{2460}', '\u{2d}', '\u{2010}', '\u{2212}', '\u{fe63}', '\u{ff0d}', '\u{5f}', '\u{ff3f}', '\u{fe4d}',
];

/// an odd character: half of the time from the list above, otherwise any Unicode scalar value
fn odd(r: &mut Rng) -> char {
    if r.chance(1, 2) {
        return *r.pick(ODD);
    }
    loop {
        let c = if r.chance(3, 4) { r.below(0x10000) } else { r.below(0x110000) };
        if let Some(ch) = char::from_u32(c as u32) {
            return ch;
        }
    }
}

fn component(r: &mut Rng) -> String {
    let len = match r.below(26) {
        0 => 0,
        1 => 1,
        2 => 2,
        3 => 3,
        4 => 4,
        5 => 63,
        6 => 64,
        7 => 65,
        8 => 66,
        9 => 130,
        _ => r.range(3, 12),
    } as usize;
    let mut s = String::new();
    let reserved = r.chance(1, 8);
    if reserved {
        s.push_str(*r.pick(&["selium", "seliu", "Selium", "seliumx", "sel", "selium_", "xselium"]));
    }
    let odd_at = if r.chance(1, 4) { Some(r.below(len.max(1) as u64) as usize) } else { None };
    while s.chars().count() < len {
        let i = s.chars().count();
        if Some(i) == odd_at {
            s.push(odd(r));
        } else {
            s.push(*r.pick(WORD));
        }
    }
    if !reserved || r.chance(1, 2) {
        // trim to exactly len characters
        s = s.chars().take(len).collect();
    }
    s
}

pub fn gen_string(r: &mut Rng) -> String {
    let ns = component(r);
    let tp = component(r);
    match r.below(16) {
        0 => String::new(),
        1 => format!("{ns}/{tp}"),
        2 => format!("/{ns}/{tp}/"),
        3 => format!("/{ns}/{tp}\n"),
        4 => format!("//{ns}/{tp}"),
        5 => format!("/{ns}//{tp}"),
        6 => format!("/{ns}"),
        7 => format!("/{ns}/"),
        8 => format!("/{ns}/{tp}/{tp}"),
        9 => format!("{}{ns}/{tp}", odd(r)),
        10 => format!(" /{ns}/{tp}"),
        11 => {
            let c = odd(r);
            format!("{c}{}", &ns)
        }
        _ => format!("/{ns}/{tp}"),
    }
}

fn err_kind(e: &SeliumError) -> &'static str {
    match e {
        SeliumError::ParseTopicNameError => "parse",
        SeliumError::ReservedNamespaceError => "reserved",
        _ => "other",
    }
}

pub fn run_try_from(s: &str, out: &mut String) {
    let _ = writeln!(out, "tf {}", cps(s));
    match catch(|| TopicName::try_from(s)) {
        Ok(Ok(t)) => {
            let _ = writeln!(
                out,
                "r ok {} {} {} {}",
                cps(t.namespace()),
                cps(t.topic()),
                cps(&t.to_string()),
                t.is_valid() as u8
            );
        }
        Ok(Err(e)) => {
            let _ = writeln!(out, "r err {}", err_kind(&e));
        }
        Err(m) => {
            let _ = writeln!(out, "r panic {}", m);
        }
    }
}

pub fn run_create(ns: &str, tp: &str, out: &mut String) {
    let _ = writeln!(out, "cr {} {}", cps(ns), cps(tp));
    match catch(|| TopicName::create(ns, tp)) {
        Ok(Ok(t)) => {
            let _ = writeln!(out, "r ok {}", cps(&t.to_string()));
        }
        Ok(Err(_)) => {
            let _ = writeln!(out, "r err");
        }
        Err(m) => {
            let _ = writeln!(out, "r panic {}", m);
        }
    }
}

/// exhaustive sweep: every Unicode scalar value congruent to `shard` modulo `nshards`, placed at
/// the first, a middle and the last position of the namespace and of the topic part of an
/// otherwise valid name, through try_from and create
pub fn main_sweep(args: &[String]) {
    let mut out = String::new();
    if args[0] != "gen" {
        return main(args);
    }
    let shard: u64 = args[1].parse::<u64>().unwrap() % 1000;
    let nshards: u64 = args[2].parse().unwrap();
    let mut c = shard;
    while c < 0x110000 {
        if let Some(ch) = char::from_u32(c as u32) {
            match (c / nshards) % 6 {
                0 => run_try_from(&format!("/{ch}bcd/topic"), &mut out),
                1 => run_try_from(&format!("/ab{ch}d/topic"), &mut out),
                2 => run_try_from(&format!("/abc{ch}/topic"), &mut out),
                3 => run_try_from(&format!("/name/{ch}opic"), &mut out),
                4 => run_try_from(&format!("/name/to{ch}ic"), &mut out),
                _ => run_try_from(&format!("/name/topi{ch}"), &mut out),
            }
            run_create(&format!("ab{ch}"), &format!("{ch}cd"), &mut out);
        }
        c += nshards;
    }
    print!("{}", out);
}

pub fn main(args: &[String]) {
    let mut out = String::new();
    if args[0] == "gen" {
        let seed: u64 = args[1].parse().unwrap();
        let n: u64 = args[2].parse().unwrap();
        let mut r = Rng::new(seed ^ 0x07);
        for _ in 0..n {
            if r.chance(3, 4) {
                let s = gen_string(&mut r);
                run_try_from(&s, &mut out);
            } else {
                let ns = component(&mut r);
                let tp = component(&mut r);
                run_create(&ns, &tp, &mut out);
            }
        }
    } else {
        let text = std::fs::read_to_string(&args[1]).unwrap();
        for l in text.lines() {
            let f: Vec<&str> = l.split_whitespace().collect();
            if f.is_empty() {
                continue;
            }
            if f[0] == "tf" {
                run_try_from(&uncps(f[1]), &mut out);
            } else if f[0] == "cr" {
                run_create(&uncps(f[1]), &uncps(f[2]), &mut out);
            }
        }
    }
    print!("{}", out);
}
