//! C17: a topic whose router is blocked on a subscriber that stopped reading, with N further
//! registrations queueing up on it, must not keep clients from using other topics.
//!
//! case stall <seed> <i> n=<N> order=<before|after|half>
//! stalled <yes|no> published=<k>
//! regs sent=<N> acked=<m>
//! (then: a zero-window peer asks for two roles of the wrong pattern on the stalled topic and never reads;
//!  the probing client asks for 5 more subscriptions on the stalled topic in the background, over the
//!  connection it then uses for the probes)
//! probe ps -> ok|fail:<text>
//! probe rr -> ok|fail:<text>
//! probe shared_calm -> ok|fail:<text>    (a second stalled topic, a calm pair and fresh streams all on one client connection)
//! probe shared_fresh -> ok|fail:<text>
//! end
use crate::net::*;
use crate::net_srv::{first_reply, frame_of, probe_pubsub, probe_reqrep};
use crate::util::*;
use futures::SinkExt;
use selium::keep_alive::BackoffStrategy;
use selium_protocol::{BiStream, Frame, MessagePayload};
use std::fmt::Write as _;
use std::sync::atomic::{AtomicU64, Ordering};
use std::sync::Arc;
use std::time::Duration;

const NS: &[u64] = &[0, 95, 100, 101, 102, 110, 130, 250];
const ROLES: &[&str] = &["regpub", "regsub", "regsub", "regpub"];

async fn register_many(addr: std::net::SocketAddr, certs: &Certs, ns: &str, tp: &str, n: u64, seed: u64, acked: Arc<AtomicU64>, keep: Arc<tokio::sync::Mutex<Vec<BiStream>>>) -> Vec<RawPeer> {
    // at most 60 streams per connection (QUIC allows 100 concurrent bidirectional streams by default)
    let mut peers = vec![];
    let mut left = n;
    let mut c = 0u64;
    while left > 0 {
        let k = left.min(60);
        left -= k;
        let peer = match RawPeer::connect_trusted(addr, certs).await {
            Ok(p) => p,
            Err(_) => break,
        };
        for j in 0..k {
            let conn = peer.conn.clone();
            let (ns, tp) = (ns.to_string(), tp.to_string());
            let acked = acked.clone();
            let keep = keep.clone();
            let role = ROLES[((seed + c * 60 + j) % ROLES.len() as u64) as usize];
            tokio::spawn(async move {
                let mut r = Rng::new(seed ^ (c * 60 + j));
                if let Ok(bi) = conn.open_bi().await {
                    let mut st = BiStream::from(bi);
                    if st.send(frame_of(role, &ns, &tp, 0, &mut r)).await.is_ok() {
                        if first_reply(&mut st, 8000).await == "ok" {
                            acked.fetch_add(1, Ordering::SeqCst);
                        }
                        keep.lock().await.push(st);
                    }
                }
            });
        }
        peers.push(peer);
        c += 1;
    }
    peers
}

pub async fn run_case(seed: u64, i: u64, out: &mut String) {
    let mut r = Rng::new(seed.wrapping_mul(4099).wrapping_add(i) ^ 0x17);
    let n = NS[((seed + i) % NS.len() as u64) as usize];
    // the first case of every shard queues everything after the stall; later ones vary the order
    let order = ["after", "half", "before"][(i % 3) as usize];
    let _ = writeln!(out, "case stall {} {} n={} order={}", seed, i, n, order);
    crate::util::set_case_header(&format!("case stall {} {} n={} order={}", seed, i, n, order));
    let dir = work_dir().join(format!("stall{}", i));
    let certs = match Certs::generate(&dir, "c") {
        Ok(c) => c,
        Err(e) => {
            let _ = writeln!(out, "harness_error certs:{:?}", e);
            return;
        }
    };
    // one server per case: the stalled topic is left behind
    let addr = match start_server(&certs) {
        Ok(a) => a,
        Err(e) => {
            let _ = writeln!(out, "harness_error server:{:?}", e);
            return;
        }
    };
    let (ns, tp) = (format!("stall{}", seed % 100_000), format!("topic-a{}", i));
    let acked = Arc::new(AtomicU64::new(0));
    let keep = Arc::new(tokio::sync::Mutex::new(vec![]));
    let mut peers = vec![];
    let before = match order {
        "before" => n,
        "half" => n / 2,
        _ => 0,
    };
    // the subscriber that will stop reading, and the publisher that floods it
    let sub_peer = RawPeer::connect_trusted(addr, &certs).await;
    let pub_peer = RawPeer::connect_trusted(addr, &certs).await;
    let (sub_peer, pub_peer) = match (sub_peer, pub_peer) {
        (Ok(a), Ok(b)) => (a, b),
        _ => {
            let _ = writeln!(out, "harness_error raw_connect");
            return;
        }
    };
    let mut sub_st = sub_peer.open().await.expect("open");
    let _ = sub_st.send(frame_of("regsub", &ns, &tp, 0, &mut r)).await;
    let sub_ok = first_reply(&mut sub_st, 3000).await;
    let mut pub_st = pub_peer.open().await.expect("open");
    let _ = pub_st.send(frame_of("regpub", &ns, &tp, 0, &mut r)).await;
    let pub_ok = first_reply(&mut pub_st, 3000).await;
    if sub_ok != "ok" || pub_ok != "ok" {
        let _ = writeln!(out, "harness_error stall_setup sub={} pub={}", sub_ok, pub_ok);
        return;
    }
    if before > 0 {
        peers.extend(register_many(addr, &certs, &ns, &tp, before, seed.wrapping_add(1), acked.clone(), keep.clone()).await);
        tokio::time::sleep(Duration::from_millis(300)).await;
    }
    // flood: 1 MB messages until a send does not complete within 1.5 s (the router no longer reads)
    let mut published = 0u64;
    let mut stalled = false;
    let payload = vec![0x5au8; 1024 * 1024 - 64];
    for _ in 0..14 {
        let f = Frame::Message(MessagePayload { headers: None, message: payload.clone().into() });
        match tokio::time::timeout(Duration::from_millis(1500), pub_st.send(f)).await {
            Ok(Ok(())) => published += 1,
            _ => {
                stalled = true;
                break;
            }
        }
    }
    let _ = writeln!(out, "stalled {} published={}", if stalled { "yes" } else { "no" }, published);
    if n - before > 0 {
        peers.extend(register_many(addr, &certs, &ns, &tp, n - before, seed.wrapping_add(2), acked.clone(), keep.clone()).await);
    }
    // give the registrations time to pile up on the stalled topic
    tokio::time::sleep(Duration::from_millis(1200)).await;
    let _ = writeln!(out, "regs sent={} acked={}", n, acked.load(Ordering::SeqCst));
    // a peer that grants the server no credit on its streams asks for roles the stalled topic
    // cannot give (request/reply on a pub/sub topic) and never reads the refusals
    let mute = RawPeer::connect_with(addr, &certs.client("ca.der"), Some((der(&certs.client("localhost.der")), der(&certs.client("localhost.key.der")))), Some(0)).await;
    let mut mute_streams = vec![];
    if let Ok(m) = &mute {
        for k in 0..4 {
            if let Ok(mut st) = m.open().await {
                // ... and, third and fourth, for roles that are fine (a subscription to the stalled
                // topic, one to a topic of its own): their acknowledgement cannot be written either
                let f = match k {
                    0 => frame_of("regreq", &ns, &tp, 0, &mut r),
                    1 => frame_of("regrep", &ns, &tp, 0, &mut r),
                    2 => frame_of("regsub", &ns, &tp, 0, &mut r),
                    _ => frame_of("regsub", &ns, &format!("{}-mute", tp), 0, &mut r),
                };
                let _ = tokio::time::timeout(Duration::from_millis(500), st.send(f)).await;
                mute_streams.push(st);
            }
        }
    }
    tokio::time::sleep(Duration::from_millis(200)).await;
    // the probing client first asks, in the background, for more subscriptions on the stalled topic
    // over the very connection it then uses for the other topics
    let probe_client = connect_client(addr, &certs, BackoffStrategy::constant().with_max_attempts(0)).await;
    let probe_client = match probe_client {
        Ok(c) => c,
        Err(e) => {
            let _ = writeln!(out, "harness_error probe_connect:{:?}", e);
            return;
        }
    };
    let mut background = vec![];
    for _ in 0..5 {
        let c = probe_client.clone();
        let topic_a = format!("/{}/{}", ns, tp);
        background.push(tokio::spawn(async move {
            use selium::prelude::*;
            use selium::std::codecs::StringCodec;
            let s = c.subscriber(&topic_a).with_decoder(StringCodec).open().await;
            // keep whatever was opened alive
            tokio::time::sleep(Duration::from_secs(30)).await;
            drop(s);
        }));
    }
    // ... and publishes to the stalled topic over that connection too: its publisher stream fills up
    // with bytes the stalled router never reads
    {
        let c = probe_client.clone();
        let topic_a = format!("/{}/{}", ns, tp);
        background.push(tokio::spawn(async move {
            use selium::prelude::*;
            use selium::std::codecs::BytesCodec;
            let opened = c.publisher(&topic_a).with_encoder(BytesCodec).open().await;
            if std::env::var("VERIF_DEBUG").is_ok() {
                eprintln!("bg publisher open -> {:?}", opened.is_ok());
            }
            if let Ok(mut p) = opened {
                // 200 KB messages: the stream takes whatever credit the server grants, to the last byte
                for k in 0..12 {
                    let r = tokio::time::timeout(Duration::from_millis(400), p.send(vec![0x33u8; 200 * 1024])).await;
                    if std::env::var("VERIF_DEBUG").is_ok() {
                        eprintln!("bg publish {} -> {:?}", k, r.map(|x| x.is_ok()));
                    }
                }
                tokio::time::sleep(Duration::from_secs(30)).await;
            }
        }));
    }
    tokio::time::sleep(Duration::from_millis(1500)).await;
    let res_ps = match tokio::time::timeout(Duration::from_millis(6000), async {
        let client = probe_client.clone();
        probe_pubsub(&client, &format!("/{}/topic-b{}", ns, i)).await
    })
    .await
    {
        Ok(r) => r,
        Err(_) => Err("deadline".to_string()),
    };
    let _ = writeln!(out, "probe ps -> {}", match res_ps {
        Ok(()) => "ok".to_string(),
        Err(e) => format!("fail:{}", e.replace([' ', '\n'], "_").chars().take(80).collect::<String>()),
    });
    let res_rr = match tokio::time::timeout(Duration::from_millis(6000), async {
        let client = connect_client(addr, &certs, BackoffStrategy::constant().with_max_attempts(0)).await.map_err(|e| format!("connect:{:?}", e))?;
        probe_reqrep(&client, &format!("/{}/topic-c{}", ns, i)).await
    })
    .await
    {
        Ok(r) => r,
        Err(_) => Err("deadline".to_string()),
    };
    let _ = writeln!(out, "probe rr -> {}", match res_rr {
        Ok(()) => "ok".to_string(),
        Err(e) => format!("fail:{}", e.replace([' ', '\n'], "_").chars().take(80).collect::<String>()),
    });
    // one more stalled topic, this time entirely on ONE client connection of the client library: a
    // subscriber that is never polled, a publisher that floods it until its sends stop completing,
    // and a calm pub/sub pair opened before the stall; the calm pair must still carry a message and
    // fresh streams must still open on that connection
    {
        use futures::StreamExt;
        use selium::prelude::*;
        use selium::std::codecs::{BytesCodec, StringCodec};
        let shared: Result<(String, String), String> = async {
            let c2 = connect_client(addr, &certs, BackoffStrategy::constant().with_max_attempts(0)).await.map_err(|e| format!("connect:{:?}", e))?;
            let a2 = format!("/{}/topic-a2x{}", ns, i);
            let calm = format!("/{}/topic-calm{}", ns, i);
            let _sub_a2 = c2.subscriber(&a2).with_decoder(BytesCodec).open().await.map_err(|e| format!("sub_a2:{:?}", e))?;
            let mut calm_sub = c2.subscriber(&calm).with_decoder(StringCodec).open().await.map_err(|e| format!("calm_sub:{:?}", e))?;
            let mut calm_pub = c2.publisher(&calm).with_encoder(StringCodec).open().await.map_err(|e| format!("calm_pub:{:?}", e))?;
            let mut pub_a2 = c2.publisher(&a2).with_encoder(BytesCodec).open().await.map_err(|e| format!("pub_a2:{:?}", e))?;
            tokio::time::sleep(Duration::from_millis(80)).await;
            let mut sent = 0;
            for _ in 0..60 {
                match tokio::time::timeout(Duration::from_millis(700), pub_a2.send(vec![0x44u8; 256 * 1024])).await {
                    Ok(Ok(())) => sent += 1,
                    _ => break,
                }
            }
            let calm_res = match tokio::time::timeout(Duration::from_millis(5000), async {
                calm_pub.send(format!("calm-{}", sent)).await.map_err(|e| format!("send:{:?}", e))?;
                match calm_sub.next().await {
                    Some(Ok(m)) if m == format!("calm-{}", sent) => Ok(()),
                    other => Err(format!("got_{:?}", other.map(|r| r.is_ok()))),
                }
            })
            .await
            {
                Ok(Ok(())) => "ok".to_string(),
                Ok(Err(e)) => format!("fail:{}", e),
                Err(_) => "fail:deadline".to_string(),
            };
            let fresh_res = match tokio::time::timeout(Duration::from_millis(6000), probe_pubsub(&c2, &format!("/{}/topic-fresh{}", ns, i))).await {
                Ok(Ok(())) => "ok".to_string(),
                Ok(Err(e)) => format!("fail:{}", e),
                Err(_) => "fail:deadline".to_string(),
            };
            Ok((calm_res, fresh_res))
        }
        .await;
        match shared {
            Ok((c, f)) => {
                let _ = writeln!(out, "probe shared_calm -> {}", c.replace([' ', '\n'], "_"));
                let _ = writeln!(out, "probe shared_fresh -> {}", f.replace([' ', '\n'], "_"));
            }
            Err(e) => {
                let _ = writeln!(out, "harness_error shared:{}", e.replace([' ', '\n'], "_"));
            }
        }
    }
    let _ = writeln!(out, "end");
    for b in background {
        b.abort();
    }
    drop(mute_streams);
    drop(mute);
    drop(peers);
    drop(sub_st);
    drop(pub_st);
    let _ = std::fs::remove_dir_all(&dir);
}

pub fn main(args: &[String]) {
    let rt = tokio::runtime::Builder::new_multi_thread().worker_threads(4).enable_all().build().unwrap();
    let out = rt.block_on(async {
        let mut out = String::new();
        if args[0] == "replay" {
            let text = std::fs::read_to_string(&args[1]).expect("replay file");
            for l in text.lines() {
                let t: Vec<&str> = l.split_whitespace().collect();
                if t.len() >= 4 && t[0] == "case" && t[1] == "stall" {
                    crate::guard_case!(out, 300, run_case(t[2].parse().unwrap(), t[3].parse().unwrap(), &mut out));
                }
            }
        } else {
            let seed: u64 = args.get(1).and_then(|s| s.parse().ok()).unwrap_or(1);
            let n: u64 = args.get(2).and_then(|s| s.parse().ok()).unwrap_or(2);
            for i in 0..n {
                crate::guard_case!(out, 300, run_case(seed, i, &mut out));
            }
        }
        let _ = std::fs::remove_dir_all(work_dir());
        out
    });
    print!("{}", out);
}
