mod backoff;
mod decoders;
mod net;
mod net_c03;
mod net_c04;
mod net_c12;
mod net_srv;
mod net_shut;
mod net_stall;
mod net_tls;
mod sim;
mod sim_ps;
mod sim_rr;
mod topic;
mod transforms;
mod wire;
mod util;

fn main() {
    util::quiet_panics();
    let args: Vec<String> = std::env::args().skip(1).collect();
    if args.is_empty() {
        eprintln!("usage: sim <engine> ...");
        std::process::exit(2);
    }
    match args[0].as_str() {
        "backoff" => backoff::main(&args[1..]),
        "topic" => topic::main(&args[1..]),
        "topicsweep" => topic::main_sweep(&args[1..]),
        "transforms" => transforms::main(&args[1..]),
        "c03" => net_c03::main(&args[1..]),
        "c04" => net_c04::main(&args[1..]),
        "c12" => net_c12::main(&args[1..]),
        "srv" => net_srv::main(&args[1..]),
        "stall" => net_stall::main(&args[1..]),
        "shut" => net_shut::main(&args[1..]),
        "tls" => net_tls::main(&args[1..]),
        "ps" => sim_ps::main(&args[1..]),
        "rr" => sim_rr::main(&args[1..]),
        "decoders" => decoders::main(&args[1..]),
        "wire" => wire::main(&args[1..]),
        other => {
            eprintln!("unknown engine {other}");
            std::process::exit(2);
        }
    }
}
