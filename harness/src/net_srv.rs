//! C11 / C07 (server side): raw peers open streams with first frames of all eight kinds, valid and
//! invalid names, roles matching and not matching the topic's messaging pattern, then send
//! unexpected frames mid-stream; afterwards well-behaved clients probe every topic that was ever
//! acknowledged.
//!
//! case srv <seed> <i>
//! open <stream#> <kind> <ns hex> <tp hex> <size> -> ok|err:<code>|closed|silent|other:<type>
//! mid <stream#> <kind> <size> -> sent|fail
//! probe <ns hex> <tp hex> <ps|rr> -> ok|fail:<text>
//! mute <kind> <ns hex> <tp hex> -> sent|fail   (zero-window peer asking for a wrong-pattern role, never reading)
//! oversize -> ok|fail:<text>  (bound replier survives a request that is too large only once tagged)
//! alive -> ok|fail:<text>
//! bigopen <kind> <payload bytes> -> <reply>   (invalid name, frame just under the limit: must be err:4)
//! race -> ok|fail:<text>      (first registrations of both patterns released together on fresh topics, 25 rounds)
//! iso -> ok|fail:<text>      (five confusable names used concurrently)
//! end
use crate::net::*;
use crate::util::*;
use futures::{SinkExt, StreamExt};
use selium::keep_alive::BackoffStrategy;
use selium::prelude::*;
use selium::std::codecs::StringCodec;
use selium::Client;
use selium_protocol::{BiStream, ErrorPayload, Frame, MessagePayload, PublisherPayload, ReplierPayload, RequestorPayload, SubscriberPayload, TopicName};
use std::collections::HashMap;
use std::fmt::Write as _;
use std::time::Duration;

pub const KINDS: &[&str] = &["regpub", "regsub", "regrep", "regreq", "msg", "batch", "error", "okf"];

/// a TopicName that did not go through the client library's validation
pub fn forged_name(ns: &str, tp: &str) -> TopicName {
    let bytes = bincode::serialize(&(ns.to_string(), tp.to_string())).unwrap();
    bincode::deserialize::<TopicName>(&bytes).unwrap()
}

pub fn frame_of(kind: &str, ns: &str, tp: &str, size: usize, r: &mut Rng) -> Frame {
    let topic = forged_name(ns, tp);
    match kind {
        "regpub" => Frame::RegisterPublisher(PublisherPayload { topic, retention_policy: 0, operations: vec![] }),
        "regsub" => Frame::RegisterSubscriber(SubscriberPayload { topic, retention_policy: 0, operations: vec![] }),
        "regrep" => Frame::RegisterReplier(ReplierPayload { topic }),
        "regreq" => Frame::RegisterRequestor(RequestorPayload { topic }),
        "msg" => Frame::Message(MessagePayload { headers: None, message: r.bytes(size).into() }),
        "msgh" => {
            let mut h = HashMap::new();
            h.insert("cid".to_string(), "77".to_string());
            h.insert("req_id".to_string(), "3".to_string());
            Frame::Message(MessagePayload { headers: Some(h), message: r.bytes(size).into() })
        }
        "batch" => Frame::BatchMessage(r.bytes(size).into()),
        "error" => Frame::Error(ErrorPayload { code: r.below(9) as u32, message: r.bytes(size.min(64)).into() }),
        _ => Frame::Ok,
    }
}

fn frame_type(f: &Frame) -> &'static str {
    match f {
        Frame::RegisterPublisher(_) => "regpub",
        Frame::RegisterSubscriber(_) => "regsub",
        Frame::RegisterReplier(_) => "regrep",
        Frame::RegisterRequestor(_) => "regreq",
        Frame::Message(_) => "msg",
        Frame::BatchMessage(_) => "batch",
        Frame::Error(_) => "error",
        Frame::Ok => "okf",
    }
}

/// first thing readable on the stream
pub async fn first_reply(st: &mut BiStream, wait_ms: u64) -> String {
    match tokio::time::timeout(Duration::from_millis(wait_ms), st.next()).await {
        Err(_) => "silent".into(),
        Ok(None) => "closed".into(),
        Ok(Some(Err(_))) => "closed".into(),
        Ok(Some(Ok(Frame::Ok))) => "ok".into(),
        Ok(Some(Ok(Frame::Error(p)))) => format!("err:{}", p.code),
        Ok(Some(Ok(f))) => format!("other:{}", frame_type(&f)),
    }
}

fn good_part(r: &mut Rng, seed: u64, i: u64, k: u64) -> String {
    // 3..=64 characters of the grammar's alphabet, unique per case
    let base = format!("s{}x{}x{}", seed % 100_000, i, k);
    let extra = r.below(6) as usize;
    let alphabet = b"abcXYZ019_-";
    let mut s = base;
    for _ in 0..extra {
        s.push(*r.pick(alphabet) as char);
    }
    s
}

fn bad_part(r: &mut Rng) -> String {
    match r.below(7) {
        0 => "ab".to_string(),
        1 => "a".repeat(65),
        2 => "with space".to_string(),
        3 => "sl/ash".to_string(),
        4 => "caf\u{e9}s".to_string(),
        5 => String::new(),
        _ => "dot.ted".to_string(),
    }
}

pub async fn probe_pubsub(client: &Client, topic: &str) -> Result<(), String> {
    let mut sub = client.subscriber(topic).with_decoder(StringCodec).open().await.map_err(|e| format!("sub_open:{:?}", e))?;
    let mut publ = client.publisher(topic).with_encoder(StringCodec).open().await.map_err(|e| format!("pub_open:{:?}", e))?;
    tokio::time::sleep(Duration::from_millis(80)).await;
    for k in 0..3 {
        publ.send(format!("probe-{}", k)).await.map_err(|e| format!("send:{:?}", e))?;
    }
    for k in 0..3 {
        match tokio::time::timeout(Duration::from_millis(2500), sub.next()).await {
            Ok(Some(Ok(s))) if s == format!("probe-{}", k) => {}
            Ok(Some(Ok(s))) => return Err(format!("got_{}_expected_probe-{}", s.chars().take(20).collect::<String>(), k)),
            Ok(Some(Err(e))) => return Err(format!("recv:{:?}", e)),
            Ok(None) => return Err("subscriber_ended".into()),
            Err(_) => return Err(format!("nothing_received_for_probe-{}", k)),
        }
    }
    let _ = publ.finish().await;
    Ok(())
}

pub async fn probe_reqrep(client: &Client, topic: &str) -> Result<(), String> {
    let mut replier = client
        .replier(topic)
        .with_request_decoder(StringCodec)
        .with_reply_encoder(StringCodec)
        .with_handler(|req: String| async move { Ok::<String, anyhow::Error>(format!("re:{}", req)) })
        .open()
        .await
        .map_err(|e| format!("rep_open:{:?}", e))?;
    // listen() returns an error when a request cannot be decoded (a raw peer's leftover request may
    // be handed to this replier first): the probe's replier keeps serving
    let h = tokio::spawn(async move {
        loop {
            if replier.listen().await.is_ok() {
                break;
            }
        }
    });
    tokio::time::sleep(Duration::from_millis(80)).await;
    let res = async {
        let mut rq = client
            .requestor(topic)
            .with_request_encoder(StringCodec)
            .with_reply_decoder(StringCodec)
            .with_request_timeout(Duration::from_millis(2500))
            .map_err(|e| format!("{:?}", e))?
            .open()
            .await
            .map_err(|e| format!("req_open:{:?}", e))?;
        for k in 0..2 {
            match rq.request(format!("probe-{}", k)).await {
                Ok(s) if s == format!("re:probe-{}", k) => {}
                Ok(s) => return Err(format!("got_{}", s.chars().take(20).collect::<String>())),
                Err(e) => return Err(format!("request:{:?}", e)),
            }
        }
        Ok(())
    }
    .await;
    h.abort();
    res
}

/// distinct names that a careless key would confuse: swapped parts, shifted split point, shared
/// namespace / shared topic.  Every subscriber must see exactly its own publisher's messages.
pub async fn probe_isolation(client: &Client, tag: &str) -> Result<(), String> {
    let names = [
        format!("/iso{}ab/cdefg", tag),
        format!("/iso{}abc/defg", tag),
        format!("/cdefg/iso{}ab", tag),
        format!("/iso{}ab/cdefh", tag),
        format!("/iso{}ac/cdefg", tag),
        // the same text split at different separators that are legal inside a part
        format!("/iso{}_eu/orders", tag),
        format!("/iso{}/eu_orders", tag),
        format!("/iso{}-eu/orders", tag),
        format!("/iso{}/eu-orders", tag),
    ];
    let mut subs = vec![];
    for n in names.iter() {
        subs.push(client.subscriber(n).with_decoder(StringCodec).open().await.map_err(|e| format!("sub_open:{:?}", e))?);
    }
    tokio::time::sleep(Duration::from_millis(80)).await;
    let mut pubs = vec![];
    for n in names.iter() {
        pubs.push(client.publisher(n).with_encoder(StringCodec).open().await.map_err(|e| format!("pub_open:{:?}", e))?);
    }
    tokio::time::sleep(Duration::from_millis(80)).await;
    for k in 0..3 {
        for (j, p) in pubs.iter_mut().enumerate() {
            p.send(format!("iso-{}-{}", j, k)).await.map_err(|e| format!("send:{:?}", e))?;
        }
    }
    for (j, sub) in subs.iter_mut().enumerate() {
        for k in 0..3 {
            match tokio::time::timeout(Duration::from_millis(2500), sub.next()).await {
                Ok(Some(Ok(s))) if s == format!("iso-{}-{}", j, k) => {}
                Ok(Some(Ok(s))) => return Err(format!("subscriber_of_{}_got_{}", names[j], s)),
                Ok(Some(Err(e))) => return Err(format!("recv:{:?}", e)),
                Ok(None) => return Err("subscriber_ended".into()),
                Err(_) => return Err(format!("subscriber_of_{}_missed_iso-{}-{}", names[j], j, k)),
            }
        }
        if let Ok(Some(Ok(s))) = tokio::time::timeout(Duration::from_millis(120), sub.next()).await {
            return Err(format!("subscriber_of_{}_got_extra_{}", names[j], s));
        }
    }
    Ok(())
}

/// a bound replier must survive (and keep being served) when another peer's request fits the frame
/// limit as sent but not once the server has added its routing tag
/// first registrations of both messaging patterns race for fresh topics: in every round eight
/// streams on four connections are released together, four asking to subscribe and four to request.
/// Every one must be answered Ok or the kind-mismatch error, the acknowledged ones must belong to one
/// pattern, and an acknowledged stream must still be open a moment later.
pub async fn probe_race(addr: std::net::SocketAddr, certs: &Certs, tag: &str, rounds: u64) -> Result<(), String> {
    let mut peers = vec![];
    for _ in 0..4 {
        peers.push(std::sync::Arc::new(RawPeer::connect_trusted(addr, certs).await.map_err(|e| format!("connect:{:?}", e))?));
    }
    for t in 0..rounds {
        let barrier = std::sync::Arc::new(tokio::sync::Barrier::new(8));
        let mut tasks = vec![];
        for k in 0..8usize {
            let peer = peers[k % 4].clone();
            let barrier = barrier.clone();
            let (ns, tp) = (format!("race{}", tag), format!("t{:03}", t));
            // the order of roles rotates with the round
            let kind = if (k + t as usize) % 2 == 0 { "regsub" } else { "regreq" };
            tasks.push(tokio::spawn(async move {
                let mut r = Rng::new(k as u64);
                let st = peer.open().await;
                barrier.wait().await;
                let mut st = match st {
                    Ok(s) => s,
                    Err(_) => return (kind, "open_failed".to_string(), false, None),
                };
                if st.send(frame_of(kind, &ns, &tp, 0, &mut r)).await.is_err() {
                    return (kind, "send_failed".to_string(), false, None);
                }
                let reply = first_reply(&mut st, 4000).await;
                let mut abandoned = false;
                if reply == "ok" {
                    abandoned = !matches!(tokio::time::timeout(Duration::from_millis(120), st.next()).await, Err(_));
                }
                (kind, reply, abandoned, Some(st))
            }));
        }
        let mut acked_ps = 0;
        let mut acked_rr = 0;
        let mut subscribers = vec![];
        for h in tasks {
            let (kind, reply, abandoned, st) = h.await.map_err(|e| format!("join:{:?}", e))?;
            if reply == "ok" && kind == "regsub" && !abandoned {
                if let Some(st) = st {
                    subscribers.push(st);
                }
            }
            if reply == "ok" {
                if abandoned {
                    return Err(format!("round_{}:a_{}_registration_was_acknowledged_and_then_abandoned", t, kind));
                }
                if kind == "regsub" { acked_ps += 1 } else { acked_rr += 1 }
            } else if reply != format!("err:{}", selium_protocol::error_codes::TOPIC_KIND_MISMATCH) {
                return Err(format!("round_{}:a_{}_registration_racing_for_a_fresh_topic_was_answered_{}", t, kind, reply));
            }
        }
        if acked_ps > 0 && acked_rr > 0 {
            return Err(format!("round_{}:roles_of_both_messaging_patterns_were_acknowledged_on_one_topic_({}_subscribers,_{}_requestors)", t, acked_ps, acked_rr));
        }
        if acked_ps + acked_rr == 0 {
            return Err(format!("round_{}:nobody_was_acknowledged_on_a_fresh_topic", t));
        }
        // every subscriber that was acknowledged in the race is registered on THE topic: a publisher that
        // comes afterwards reaches each of them (C01: all arrival orders of registrations)
        if acked_ps > 0 && !subscribers.is_empty() {
            let mut r = Rng::new(t);
            let (ns, tp) = (format!("race{}", tag), format!("t{:03}", t));
            let mut publ = peers[0].open().await.map_err(|e| format!("pub_open:{:?}", e))?;
            let _ = publ.send(frame_of("regpub", &ns, &tp, 0, &mut r)).await;
            if first_reply(&mut publ, 4000).await == "ok" {
                tokio::time::sleep(Duration::from_millis(60)).await;
                for _ in 0..3 {
                    let _ = publ.send(frame_of("msg", &ns, &tp, 24, &mut r)).await;
                }
                for (k, st) in subscribers.iter_mut().enumerate() {
                    let mut got = 0;
                    for _ in 0..3 {
                        match tokio::time::timeout(Duration::from_millis(3000), st.next()).await {
                            Ok(Some(Ok(Frame::Message(_)))) => got += 1,
                            _ => break,
                        }
                    }
                    if got < 3 {
                        return Err(format!("round_{}:subscriber_{}_acknowledged_in_the_race_received_{}_of_3_messages_published_afterwards", t, k, got));
                    }
                }
            }
        }
    }
    Ok(())
}

pub async fn probe_oversize(peer: &RawPeer, ns: &str, tp: &str, r: &mut Rng) -> Result<(), String> {
    async fn register(peer: &RawPeer, kind: &str, ns: &str, tp: &str, r: &mut Rng) -> Result<BiStream, String> {
        let mut st = peer.open().await.map_err(|e| format!("open:{:?}", e))?;
        st.send(frame_of(kind, ns, tp, 0, r)).await.map_err(|e| format!("send:{:?}", e))?;
        match first_reply(&mut st, 2000).await.as_str() {
            "ok" => Ok(st),
            other => Err(format!("{}_answered_{}", kind, other)),
        }
    }
    async fn expect_request(rep: &mut BiStream, body: &[u8]) -> Result<MessagePayload, String> {
        match tokio::time::timeout(Duration::from_millis(2500), rep.next()).await {
            Err(_) => Err(format!("replier_received_nothing_for_{}", String::from_utf8_lossy(body))),
            Ok(None) => Err("replier_stream_ended".into()),
            Ok(Some(Err(e))) => Err(format!("replier_stream_error:{:?}", e)),
            Ok(Some(Ok(Frame::Message(p)))) if &p.message[..] == body => Ok(p),
            Ok(Some(Ok(Frame::Message(p)))) => Err(format!("replier_received_other_request_of_{}_bytes", p.message.len())),
            Ok(Some(Ok(f))) => Err(format!("replier_received_{}", frame_type(&f))),
        }
    }
    let mut rep = register(peer, "regrep", ns, tp, r).await?;
    let mut req = register(peer, "regreq", ns, tp, r).await?;
    tokio::time::sleep(Duration::from_millis(60)).await;
    req.send(Frame::Message(MessagePayload { headers: None, message: b"small-a".to_vec().into() })).await.map_err(|e| format!("send_a:{:?}", e))?;
    let got = expect_request(&mut rep, b"small-a").await?;
    rep.send(Frame::Message(MessagePayload { headers: got.headers.clone(), message: b"re-a".to_vec().into() })).await.map_err(|e| format!("reply_a:{:?}", e))?;
    match tokio::time::timeout(Duration::from_millis(2500), req.next()).await {
        Ok(Some(Ok(Frame::Message(p)))) if &p.message[..] == b"re-a" => {}
        other => return Err(format!("requestor_got_{:?}", other.map(|o| o.map(|r| r.map(|f| frame_type(&f).to_string())))).replace(' ', "")),
    }
    // fits 1 MiB as sent (9 + n bytes), not with the cid header added
    let n = 1024 * 1024 - 9 - r.below(20) as usize;
    req.send(Frame::Message(MessagePayload { headers: None, message: vec![0x42u8; n].into() })).await.map_err(|e| format!("send_big:{:?}", e))?;
    tokio::time::sleep(Duration::from_millis(150)).await;
    req.send(Frame::Message(MessagePayload { headers: None, message: b"small-b".to_vec().into() })).await.map_err(|e| format!("send_b:{:?}", e))?;
    let got = expect_request(&mut rep, b"small-b").await?;
    rep.send(Frame::Message(MessagePayload { headers: got.headers.clone(), message: b"re-b".to_vec().into() })).await.map_err(|e| format!("reply_b:{:?}", e))?;
    match tokio::time::timeout(Duration::from_millis(2500), req.next()).await {
        Ok(Some(Ok(Frame::Message(p)))) if &p.message[..] == b"re-b" => Ok(()),
        other => Err(format!("requestor_got_{:?}", other.map(|o| o.map(|r| r.map(|f| frame_type(&f).to_string())))).replace(' ', "")),
    }
}

fn clean(s: String) -> String {
    s.replace([' ', '\n'], "_").chars().take(90).collect()
}

pub async fn run_case(addr: std::net::SocketAddr, certs: &Certs, seed: u64, i: u64, out: &mut String) {
    let mut r = Rng::new(seed.wrapping_mul(6151).wrapping_add(i) ^ 0x11);
    let _ = writeln!(out, "case srv {} {}", seed, i);
    crate::util::set_case_header(&format!("case srv {} {}", seed, i));
    let client = match connect_client(addr, certs, BackoffStrategy::constant().with_max_attempts(0)).await {
        Ok(c) => c,
        Err(e) => {
            let _ = writeln!(out, "harness_error connect:{:?}", e);
            return;
        }
    };
    let peer = match RawPeer::connect_trusted(addr, certs).await {
        Ok(p) => p,
        Err(e) => {
            let _ = writeln!(out, "harness_error raw:{:?}", e);
            return;
        }
    };
    // a small pool of names: 3 valid, 2 invalid
    let mut names: Vec<(String, String)> = vec![];
    for k in 0..3 {
        names.push((good_part(&mut r, seed, i, 2 * k), good_part(&mut r, seed, i, 2 * k + 1)));
    }
    names.push((bad_part(&mut r), good_part(&mut r, seed, i, 8)));
    names.push((good_part(&mut r, seed, i, 9), bad_part(&mut r)));
    if r.chance(1, 2) {
        names.push((format!("selium{}", r.below(100)), good_part(&mut r, seed, i, 10)));
    }
    let mut streams: Vec<Option<(String, BiStream)>> = vec![];
    let mut acked: Vec<(String, String, &'static str)> = vec![];
    let n_ops = r.range(6, 14);
    for _ in 0..n_ops {
        if !streams.is_empty() && r.chance(1, 4) {
            // unexpected frame on an acknowledged stream
            let idx = r.below(streams.len() as u64) as usize;
            if let Some((_role, st)) = streams[idx].as_mut() {
                let kind = *r.pick(&["regpub", "regsub", "regrep", "regreq", "msg", "msgh", "batch", "error", "okf", "bigreq", "bigreq"]);
                // bigreq: a message that fits the frame limit, but not once the server has added its routing tag
                let size = if kind == "bigreq" { 1024 * 1024 - 9 - r.below(8) as usize } else { *r.pick(&[0usize, 1, 30, 5000]) };
                let (ns, tp) = names[0].clone();
                let f = if kind == "bigreq" { frame_of("msg", &ns, &tp, size, &mut r) } else { frame_of(kind, &ns, &tp, size, &mut r) };
                let res = tokio::time::timeout(Duration::from_millis(3000), st.send(f)).await;
                let _ = writeln!(out, "mid {} {} {} -> {}", idx, kind, size, if matches!(res, Ok(Ok(()))) { "sent" } else { "fail" });
                continue;
            }
        }
        let kind = if r.chance(3, 4) { *r.pick(&KINDS[..4]) } else { *r.pick(&KINDS[4..]) };
        // mostly the valid names, so that roles meet on the same topic
        let (ns, tp) = if r.chance(3, 4) { r.pick(&names[..3]).clone() } else { r.pick(&names[3..]).clone() };
        let size = *r.pick(&[0usize, 10, 2000]);
        let mut st = match peer.open().await {
            Ok(s) => s,
            Err(e) => {
                let _ = writeln!(out, "harness_error open:{:?}", e);
                return;
            }
        };
        let f = frame_of(kind, &ns, &tp, size, &mut r);
        if st.send(f).await.is_err() {
            let _ = writeln!(out, "harness_error send_first");
            return;
        }
        let reply = first_reply(&mut st, 2000).await;
        let _ = writeln!(out, "open {} {} {} {} {} -> {}", streams.len(), kind, hex(ns.as_bytes()), hex(tp.as_bytes()), size, reply);
        if reply == "ok" {
            let pat = if kind == "regpub" || kind == "regsub" { "ps" } else { "rr" };
            if !acked.iter().any(|(a, b, _)| *a == ns && *b == tp) {
                acked.push((ns.clone(), tp.clone(), pat));
            }
            streams.push(Some((kind.to_string(), st)));
        } else {
            streams.push(None);
        }
        tokio::time::sleep(Duration::from_millis(r.below(15))).await;
    }
    let (ons, otp) = (good_part(&mut r, seed, i, 20), good_part(&mut r, seed, i, 21));
    let res = probe_oversize(&peer, &ons, &otp, &mut r).await;
    let _ = writeln!(out, "oversize -> {}", match res {
        Ok(()) => "ok".to_string(),
        Err(e) => format!("fail:{}", clean(e)),
    });
    // a peer that grants the server no credit on its streams asks for a role of the wrong messaging
    // pattern on an acknowledged topic and never reads the refusal
    let mute = match acked.first() {
        Some((ns, tp, pat)) => {
            let m = RawPeer::connect_with(addr, &certs.client("ca.der"), Some((der(&certs.client("localhost.der")), der(&certs.client("localhost.key.der")))), Some(0)).await;
            let mut held = vec![];
            if let Ok(m) = &m {
                for _ in 0..2 {
                    if let Ok(mut st) = m.open().await {
                        let kind = if *pat == "ps" { "regreq" } else { "regsub" };
                        let sent = tokio::time::timeout(Duration::from_millis(500), st.send(frame_of(kind, ns, tp, 0, &mut r))).await;
                        let _ = writeln!(out, "mute {} {} {} -> {}", kind, hex(ns.as_bytes()), hex(tp.as_bytes()), if matches!(sent, Ok(Ok(()))) { "sent" } else { "fail" });
                        held.push(st);
                    }
                }
            }
            tokio::time::sleep(Duration::from_millis(150)).await;
            Some((m, held))
        }
        None => None,
    };
    // the raw peer goes away; every acknowledged topic must still serve well-behaved clients
    tokio::time::sleep(Duration::from_millis(150)).await;
    drop(streams);
    peer.conn.close(0u32.into(), b"done");
    tokio::time::sleep(Duration::from_millis(250)).await;
    for (ns, tp, pat) in acked.iter() {
        let topic = format!("/{}/{}", ns, tp);
        let res = match tokio::time::timeout(Duration::from_millis(8000), async {
            if *pat == "ps" {
                probe_pubsub(&client, &topic).await
            } else {
                probe_reqrep(&client, &topic).await
            }
        })
        .await
        {
            Ok(r) => r,
            Err(_) => Err("no_answer_within_8s".to_string()),
        };
        let _ = writeln!(out, "probe {} {} {} -> {}", hex(ns.as_bytes()), hex(tp.as_bytes()), pat, match res {
            Ok(()) => "ok".to_string(),
            Err(e) => format!("fail:{}", clean(e)),
        });
    }
    let fresh = format!("/alive{}x{}/topic", seed % 100_000, i);
    let res = match tokio::time::timeout(Duration::from_millis(8000), probe_pubsub(&client, &fresh)).await {
        Ok(r) => r,
        Err(_) => Err("no_answer_within_8s".to_string()),
    };
    let _ = writeln!(out, "alive -> {}", match res {
        Ok(()) => "ok".to_string(),
        Err(e) => format!("fail:{}", clean(e)),
    });
    let res = match tokio::time::timeout(Duration::from_millis(20000), probe_isolation(&client, &format!("{}x{}", seed % 100_000, i))).await {
        Ok(r) => r,
        Err(_) => Err("no_answer_within_20s".to_string()),
    };
    let _ = writeln!(out, "iso -> {}", match res {
        Ok(()) => "ok".to_string(),
        Err(e) => format!("fail:{}", clean(e)),
    });
    // an invalid name so long that the registration frame lies just under the frame limit: it is still
    // refused with an error frame (whatever the refusal quotes must fit)
    {
        let kind = *r.pick(&["regsub", "regpub", "regreq", "regrep"]);
        let overhead = if kind == "regsub" || kind == "regpub" { 32 } else { 16 };
        let d = *r.pick(&[0usize, 1, 40, 100, 117, 133, 200, 4096]);
        let ns = "bad ns";
        let tp = "c".repeat(crate::wire::MAX - d - overhead - ns.len());
        let reply = match RawPeer::connect_trusted(addr, certs).await {
            Ok(p) => match p.open().await {
                Ok(mut st) => {
                    let sent = tokio::time::timeout(Duration::from_millis(8000), st.send(frame_of(kind, ns, &tp, 0, &mut r))).await;
                    if matches!(sent, Ok(Ok(()))) { first_reply(&mut st, 8000).await } else { "send_failed".to_string() }
                }
                Err(_) => "open_failed".to_string(),
            },
            Err(_) => "connect_failed".to_string(),
        };
        let _ = writeln!(out, "bigopen {} {} -> {}", kind, crate::wire::MAX - d, reply);
    }
    let res = match tokio::time::timeout(Duration::from_millis(60000), probe_race(addr, certs, &format!("{}x{}", seed % 100_000, i), 25)).await {
        Ok(r) => r,
        Err(_) => Err("no_answer_within_60s".to_string()),
    };
    let _ = writeln!(out, "race -> {}", match res {
        Ok(()) => "ok".to_string(),
        Err(e) => format!("fail:{}", clean(e)),
    });
    let _ = writeln!(out, "end");
    drop(mute);
}

pub fn main(args: &[String]) {
    let rt = tokio::runtime::Builder::new_multi_thread().worker_threads(3).enable_all().build().unwrap();
    let out = rt.block_on(async {
        let mut out = String::new();
        let dir = work_dir();
        let certs = Certs::generate(&dir, "main").expect("certs");
        let addr = start_server(&certs).expect("server");
        if args[0] == "replay" {
            // re-runs the scenarios named by the `case srv <seed> <i>` lines of a trace (the run is
            // timing-dependent, so the scenario is replayed, not the recorded answers)
            let text = std::fs::read_to_string(&args[1]).expect("replay file");
            for l in text.lines() {
                let t: Vec<&str> = l.split_whitespace().collect();
                if t.len() >= 4 && t[0] == "case" && t[1] == "srv" {
                    crate::guard_case!(out, 300, run_case(addr, &certs, t[2].parse().unwrap(), t[3].parse().unwrap(), &mut out));
                }
            }
        } else {
            let seed: u64 = args.get(1).and_then(|s| s.parse().ok()).unwrap_or(1);
            let n: u64 = args.get(2).and_then(|s| s.parse().ok()).unwrap_or(3);
            for i in 0..n {
                crate::guard_case!(out, 300, run_case(addr, &certs, seed, i, &mut out));
            }
        }
        let _ = std::fs::remove_dir_all(&dir);
        out
    });
    print!("{}", out);
}
