//! C06 (payload side) and C14 rejection: arbitrary bytes through the standard codecs and
//! the decompressors.  Every case runs in a child process under an address-space limit so that
//! an abort (failed allocation, capacity overflow) is observable: the child prints `in ...`,
//! flushes, runs the decoder, prints `out ...`; when it dies the parent records `out abort`
//! for the case in flight and restarts the child after it.
//!
//!   in <kind> <hex>
//!   out ok <value-descr> | out err | out panic <msg> | out abort <status>
use crate::util::*;
use bytes::{Bytes, BytesMut};
use selium_std::codecs::{BincodeCodec, BytesCodec, StringCodec};
use selium_std::compression::{brotli, deflate, lz4, zstd};
use selium_std::traits::codec::{MessageDecoder, MessageEncoder};
use selium_std::traits::compression::{Compress, Decompress};
use serde::{Deserialize, Serialize};
use std::io::{BufRead, BufReader, Write};
use std::os::unix::process::CommandExt;
use std::process::{Command, Stdio};

#[derive(Debug, PartialEq, Serialize, Deserialize, Clone)]
pub struct Dummy {
    pub foo: String,
    pub bar: u64,
}

pub type OptT = Option<(u32, Vec<u8>)>;

#[derive(Debug, PartialEq, Serialize, Deserialize, Clone)]
pub struct Ack;

pub const KINDS: &[&str] = &["string", "bytes", "bincode_dummy", "bincode_vec", "bincode_opt", "bincode_unit", "gzip", "zlib", "zstd", "lz4", "brotli"];

fn fnv(b: &[u8]) -> u64 {
    let mut h: u64 = 0xcbf29ce484222325;
    for x in b {
        h ^= *x as u64;
        h = h.wrapping_mul(0x100000001b3);
    }
    h
}

fn valid_input(kind: &str, r: &mut Rng) -> (Vec<u8>, Option<Vec<u8>>) {
    let text: String = {
        let n = r.below(30);
        let alphabet: &[char] = &['a', 'b', ' ', 'é', '\u{203f}', '\u{1F600}', '\0', 'Z', '7'];
        (0..n).map(|_| *r.pick(alphabet)).collect()
    };
    let n = r.below(200) as usize;
    let compressed_kind = matches!(kind, "gzip" | "zlib" | "zstd" | "lz4" | "brotli");
    let payload = if compressed_kind && r.chance(1, 10) {
        // beyond one block of the frame formats (lz4 frames: 4 MiB blocks): a decoder that fails on a later
        // block has already produced output
        let k = 4_300_000 + r.below(400_000) as usize;
        let b = r.next() as u8;
        (0..k).map(|i| if i % 1_000_003 == 0 { b.wrapping_add(1) } else { b }).collect()
    } else if r.chance(1, 2) {
        r.bytes(n)
    } else {
        vec![r.next() as u8; n]
    };
    let expected = if compressed_kind { Some(payload.clone()) } else { None };
    let bytes = match kind {
        "string" => text.into_bytes(),
        "bytes" => payload,
        "bincode_dummy" => bincode::serialize(&Dummy { foo: text, bar: r.next() >> r.below(64) }).unwrap(),
        "bincode_vec" => {
            let v: Vec<String> = (0..r.below(4)).map(|i| format!("{}{}", text, i)).collect();
            bincode::serialize(&v).unwrap()
        }
        "bincode_opt" => {
            let v: OptT = if r.chance(1, 3) { None } else { Some((r.next() as u32, payload)) };
            bincode::serialize(&v).unwrap()
        }
        // values whose encoding is empty: (), a unit struct, a tuple of both
        "bincode_unit" => bincode::serialize(&((), Ack)).unwrap(),
        "gzip" => deflate::DeflateComp::gzip().compress(Bytes::from(payload)).unwrap().to_vec(),
        "zlib" => deflate::DeflateComp::zlib().compress(Bytes::from(payload)).unwrap().to_vec(),
        "zstd" => zstd::ZstdComp::new().compress(Bytes::from(payload)).unwrap().to_vec(),
        "lz4" => lz4::Lz4Comp.compress(Bytes::from(payload)).unwrap().to_vec(),
        _ => brotli::BrotliComp::generic().compress(Bytes::from(payload)).unwrap().to_vec(),
    };
    (bytes, expected)
}

fn perturb(r: &mut Rng, mut v: Vec<u8>) -> Vec<u8> {
    match r.below(8) {
        0 => v, // valid
        1 => {
            let n = r.below(v.len() as u64 + 1) as usize;
            v.truncate(n);
            v
        }
        2 | 3 => {
            for _ in 0..r.range(1, 3) {
                if !v.is_empty() {
                    let i = r.below(v.len() as u64) as usize;
                    v[i] ^= 1 << r.below(8);
                }
            }
            v
        }
        4 => {
            if v.len() >= 8 {
                let i = if r.chance(1, 2) { 0 } else { r.below((v.len() - 7) as u64) as usize };
                let val: u64 = *r.pick(&[u64::MAX, 1 << 40, 1 << 32, 1 << 31, 1 << 63, (1 << 62) + 5, 1 << 24]);
                v[i..i + 8].copy_from_slice(&val.to_le_bytes());
            }
            v
        }
        5 => {
            let k = r.below(40) as usize;
            r.bytes(k)
        }
        6 => {
            let k = r.below(16) as usize;
            let extra = r.bytes(k);
            v.extend_from_slice(&extra);
            v
        }
        _ => {
            // invalid UTF-8 fragments
            let frag: &[&[u8]] = &[&[0xff], &[0xc0, 0x80], &[0xed, 0xa0, 0x80], &[0xf4, 0x90, 0x80, 0x80], &[0xe2, 0x80], &[0x80], &[0xf8, 0x88, 0x80, 0x80, 0x80]];
            let f = *r.pick(frag);
            let i = r.below(v.len() as u64 + 1) as usize;
            for (k, b) in f.iter().enumerate() {
                v.insert((i + k).min(v.len()), *b);
            }
            v
        }
    }
}

/// (kind, input, what a valid compressed input must decompress to: "<len>:<fnv64>")
pub fn gen_case(r: &mut Rng) -> (String, Vec<u8>, Option<String>) {
    let kind = *r.pick(KINDS);
    let (v, expected) = valid_input(kind, r);
    let p = perturb(r, v.clone());
    let exp = if p == v { expected.map(|e| format!("{}:{:016x}", e.len(), fnv(&e))) } else { None };
    (kind.to_string(), p, exp)
}

pub fn decode_one(kind: &str, input: &[u8]) -> String {
    let res = catch(|| -> Result<String, ()> {
        let mut buf = BytesMut::from(input);
        match kind {
            "string" => StringCodec.decode(&mut buf).map(|s: String| hex(s.as_bytes())).map_err(|_| ()),
            "bytes" => BytesCodec.decode(&mut buf).map(|v: Vec<u8>| hex(&v)).map_err(|_| ()),
            "bincode_dummy" => BincodeCodec::<Dummy>::default().decode(&mut buf).map(|d| format!("{} {}", hex(d.foo.as_bytes()), d.bar)).map_err(|_| ()),
            "bincode_vec" => BincodeCodec::<Vec<String>>::default()
                .decode(&mut buf)
                .map(|v| format!("{} {}", v.len(), v.iter().map(|s| hex(s.as_bytes())).collect::<Vec<_>>().join(" ")))
                .map_err(|_| ()),
            "bincode_opt" => BincodeCodec::<OptT>::default()
                .decode(&mut buf)
                .map(|v| match v {
                    None => "N".to_string(),
                    Some((a, b)) => format!("S {} {}", a, hex(&b)),
                })
                .map_err(|_| ()),
            "bincode_unit" => BincodeCodec::<((), Ack)>::default().decode(&mut buf).map(|_| "U".to_string()).map_err(|_| ()),
            "gzip" => deflate::DeflateDecomp::gzip().decompress(Bytes::copy_from_slice(input)).map(|b| format!("{}:{:016x}", b.len(), fnv(&b))).map_err(|_| ()),
            "zlib" => deflate::DeflateDecomp::zlib().decompress(Bytes::copy_from_slice(input)).map(|b| format!("{}:{:016x}", b.len(), fnv(&b))).map_err(|_| ()),
            "zstd" => zstd::ZstdDecomp.decompress(Bytes::copy_from_slice(input)).map(|b| format!("{}:{:016x}", b.len(), fnv(&b))).map_err(|_| ()),
            "lz4" => lz4::Lz4Decomp.decompress(Bytes::copy_from_slice(input)).map(|b| format!("{}:{:016x}", b.len(), fnv(&b))).map_err(|_| ()),
            _ => brotli::BrotliDecomp.decompress(Bytes::copy_from_slice(input)).map(|b| format!("{}:{:016x}", b.len(), fnv(&b))).map_err(|_| ()),
        }
    });
    match res {
        Ok(Ok(d)) => format!("out ok {}", d),
        Ok(Err(())) => "out err".to_string(),
        Err(m) => format!("out panic {}", m),
    }
}

fn cases_from(args: &[String]) -> Vec<(String, Vec<u8>, Option<String>)> {
    if args[0] == "gen" {
        let seed: u64 = args[1].parse().unwrap();
        let n: u64 = args[2].parse().unwrap();
        let mut r = Rng::new(seed ^ 0x06);
        (0..n).map(|_| gen_case(&mut r)).collect()
    } else {
        let text = std::fs::read_to_string(&args[1]).unwrap();
        text.lines()
            .filter(|l| l.starts_with("in "))
            .map(|l| {
                let f: Vec<&str> = l.split_whitespace().collect();
                let exp = f.get(3).and_then(|t| t.strip_prefix("exp=")).map(|t| t.to_string());
                (f[1].to_string(), unhex(f.get(2).copied().unwrap_or("-")), exp)
            })
            .collect()
    }
}

/// child: `decoders child <gen|replay> <args...> <skip>`
pub fn child(args: &[String]) {
    let skip: usize = args.last().unwrap().parse().unwrap();
    let cases = cases_from(&args[..args.len() - 1]);
    let stdout = std::io::stdout();
    for (kind, input, exp) in cases.into_iter().skip(skip) {
        {
            let mut o = stdout.lock();
            let _ = match &exp {
                Some(e) => writeln!(o, "in {} {} exp={}", kind, if input.is_empty() { "-".to_string() } else { hex(&input) }, e),
                None => writeln!(o, "in {} {}", kind, hex(&input)),
            };
            let _ = o.flush();
        }
        let line = decode_one(&kind, &input);
        let mut o = stdout.lock();
        let _ = writeln!(o, "{}", line);
        let _ = o.flush();
    }
}

pub fn main(args: &[String]) {
    if args[0] == "child" {
        child(&args[1..]);
        return;
    }
    let total = cases_from(args).len();
    let exe = std::env::current_exe().unwrap();
    let mut done = 0usize;
    let mut out = String::new();
    let mut restarts = 0;
    while done < total && restarts < 10_000 {
        let mut cmd = Command::new(&exe);
        cmd.arg("decoders").arg("child").args(args).arg(done.to_string()).stdout(Stdio::piped()).stderr(Stdio::null());
        unsafe {
            cmd.pre_exec(|| {
                // 1 GiB of address space: a decoder asking for memory unrelated to its input dies here
                let lim = libc::rlimit { rlim_cur: 1 << 30, rlim_max: 1 << 30 };
                libc::setrlimit(libc::RLIMIT_AS, &lim);
                Ok(())
            });
        }
        let mut ch = cmd.spawn().expect("spawn child");
        let rd = BufReader::new(ch.stdout.take().unwrap());
        let mut in_flight = false;
        for line in rd.lines() {
            let line = line.unwrap_or_default();
            if line.starts_with("in ") {
                in_flight = true;
            } else if line.starts_with("out ") {
                in_flight = false;
                done += 1;
            }
            out.push_str(&line);
            out.push('\n');
        }
        let status = ch.wait().unwrap();
        if in_flight {
            out.push_str(&format!("out abort {}\n", status.to_string().replace(' ', "_")));
            done += 1;
        } else if !status.success() && done < total {
            // died between cases: skip one to guarantee progress
            done += 1;
        }
        restarts += 1;
    }
    print!("{}", out);
}
