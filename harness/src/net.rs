//! Loopback-QUIC harness: an in-process `selium_server::server::Server` on 127.0.0.1:0 with
//! certificates freshly produced by the repository's own generator, real clients and raw peers.
use anyhow::Result;
use clap::Parser as _;
use selium::keep_alive::BackoffStrategy;
use selium::Client;
use selium_protocol::BiStream;
use selium_server::args::UserArgs;
use selium_server::server::Server;
use selium_tools::cli::GenCertsArgs;
use selium_tools::commands::gen_certs::GenCertsRunner;
use selium_tools::traits::CommandRunner;
use std::net::SocketAddr;
use std::path::{Path, PathBuf};
use std::sync::Arc;

pub struct Certs {
    pub dir: PathBuf,
}

impl Certs {
    /// runs the repository's certificate generator into `<base>/<name>/{client,server}/`
    pub fn generate(base: &Path, name: &str) -> Result<Certs> {
        let dir = base.join(name);
        let _ = std::fs::remove_dir_all(&dir);
        std::fs::create_dir_all(&dir)?;
        let args = GenCertsArgs { server_out_path: dir.join("server"), client_out_path: dir.join("client"), no_expiry: false };
        // the generator prints progress to stdout: keep the trace clean
        let gag = Gag::new();
        let r = GenCertsRunner::from(args).run();
        drop(gag);
        r?;
        Ok(Certs { dir })
    }
    /// runs the generator again into the directories of this set (as a user renewing a set does)
    pub fn regenerate(&self, no_expiry: bool) -> Result<()> {
        let args = GenCertsArgs { server_out_path: self.dir.join("server"), client_out_path: self.dir.join("client"), no_expiry };
        let gag = Gag::new();
        let r = GenCertsRunner::from(args).run();
        drop(gag);
        r?;
        Ok(())
    }
    pub fn client(&self, f: &str) -> PathBuf {
        self.dir.join("client").join(f)
    }
    pub fn server(&self, f: &str) -> PathBuf {
        self.dir.join("server").join(f)
    }
}

/// temporarily points fd 1 at /dev/null
pub struct Gag {
    saved: i32,
}
impl Gag {
    pub fn new() -> Gag {
        use std::io::Write;
        let _ = std::io::stdout().flush();
        unsafe {
            let saved = libc::dup(1);
            let null = libc::open(b"/dev/null\0".as_ptr() as *const libc::c_char, libc::O_WRONLY);
            libc::dup2(null, 1);
            libc::close(null);
            Gag { saved }
        }
    }
}
impl Drop for Gag {
    fn drop(&mut self) {
        use std::io::Write;
        let _ = std::io::stdout().flush();
        unsafe {
            libc::dup2(self.saved, 1);
            libc::close(self.saved);
        }
    }
}

pub fn work_dir() -> PathBuf {
    let base = std::env::var("VERIF_WORK").unwrap_or_else(|_| "/verif/.cache/work".to_string());
    let d = PathBuf::from(base).join(format!("net_{}", std::process::id()));
    let _ = std::fs::create_dir_all(&d);
    d
}

/// starts the real server (as tests/tests/streams/helpers.rs does) and returns its address
pub fn start_server(certs: &Certs) -> Result<SocketAddr> {
    start_server_on(certs, "127.0.0.1:0")
}

pub fn start_server_on(certs: &Certs, bind: &str) -> Result<SocketAddr> {
    let args = UserArgs::parse_from([
        "",
        "--bind-addr",
        bind,
        "--cert",
        certs.server("localhost.der").to_str().unwrap(),
        "--key",
        certs.server("localhost.key.der").to_str().unwrap(),
        "--ca",
        certs.server("ca.der").to_str().unwrap(),
    ]);
    let server = Server::try_from(args)?;
    let addr = server.addr()?;
    tokio::spawn(async move {
        let _ = server.listen().await;
    });
    Ok(addr)
}

pub async fn connect_client(addr: SocketAddr, certs: &Certs, backoff: BackoffStrategy) -> selium_std::errors::Result<Client> {
    selium::custom()
        .keep_alive(5_000u64)?
        .backoff_strategy(backoff)
        .endpoint(&addr.to_string())
        .with_certificate_authority(certs.client("ca.der"))?
        .with_cert_and_key(certs.client("localhost.der"), certs.client("localhost.key.der"))?
        .connect()
        .await
}

/// A raw peer: a QUIC connection speaking selium frames directly (bypasses the client library).
pub struct RawPeer {
    pub conn: quinn::Connection,
    pub _endpoint: quinn::Endpoint,
}

pub fn der(path: &Path) -> Vec<u8> {
    std::fs::read(path).expect("read der")
}

impl RawPeer {
    /// `identity`: (cert der, key der) presented to the server, if any; `ca`: trusted root
    pub async fn connect(addr: SocketAddr, ca: &Path, identity: Option<(Vec<u8>, Vec<u8>)>) -> Result<RawPeer> {
        RawPeer::connect_with(addr, ca, identity, None).await
    }

    /// `stream_window`: per-stream receive window granted to the server (Some(0) = a peer that never
    /// lets the server write anything on the streams it opens)
    pub async fn connect_with(addr: SocketAddr, ca: &Path, identity: Option<(Vec<u8>, Vec<u8>)>, stream_window: Option<u32>) -> Result<RawPeer> {
        let mut roots = rustls::RootCertStore::empty();
        roots.add(&rustls::Certificate(der(ca)))?;
        let builder = rustls::ClientConfig::builder().with_safe_defaults().with_root_certificates(roots);
        let mut crypto = match identity {
            Some((cert, key)) => builder.with_client_auth_cert(vec![rustls::Certificate(cert)], rustls::PrivateKey(key))?,
            None => builder.with_no_client_auth(),
        };
        crypto.alpn_protocols = vec![b"hq-29".to_vec()];
        let mut endpoint = quinn::Endpoint::client("0.0.0.0:0".parse().unwrap())?;
        let mut cfg = quinn::ClientConfig::new(Arc::new(crypto));
        // keep-alives always: a raw peer that is not reading for a while (or is blocked by flow control)
        // must not be dropped by the server's 15 s idle timeout
        let mut t = quinn::TransportConfig::default();
        t.keep_alive_interval(Some(std::time::Duration::from_secs(2)));
        if let Some(w) = stream_window {
            t.stream_receive_window(quinn::VarInt::from_u32(w));
        }
        cfg.transport_config(Arc::new(t));
        endpoint.set_default_client_config(cfg);
        let conn = endpoint.connect(addr, "localhost")?.await?;
        Ok(RawPeer { conn, _endpoint: endpoint })
    }

    pub async fn connect_trusted(addr: SocketAddr, certs: &Certs) -> Result<RawPeer> {
        RawPeer::connect(addr, &certs.client("ca.der"), Some((der(&certs.client("localhost.der")), der(&certs.client("localhost.key.der"))))).await
    }

    pub async fn open(&self) -> Result<BiStream> {
        Ok(BiStream::from(self.conn.open_bi().await?))
    }
}
