//! C16 over the network: `Server::shutdown` (reached through SIGINT inside `Server::listen`) must
//! return -- every topic router terminates -- whatever registrations are in flight.
//!
//! case shut <seed> <i> inflight=<none|ok_unread|ok_unread_x3> idle_publisher=<0|1>
//! traffic ps -> ok|fail:..     (before the signal: the topics work)
//! traffic rr -> ok|fail:..
//! shutdown -> completed <ms>|hung
//! end
use crate::net::*;
use crate::net_srv::{first_reply, frame_of, probe_pubsub, probe_reqrep};
use crate::util::*;
use clap::Parser as _;
use futures::SinkExt;
use selium::keep_alive::BackoffStrategy;
use selium::prelude::*;
use selium::std::codecs::StringCodec;
use selium_server::args::UserArgs;
use selium_server::server::Server;
use std::fmt::Write as _;
use std::time::{Duration, Instant};

pub async fn run_case(seed: u64, i: u64, out: &mut String) {
    let mut r = Rng::new(seed.wrapping_mul(2609).wrapping_add(i) ^ 0x16);
    let inflight = ["ok_unread", "none", "ok_unread_x3"][((seed + i) % 3) as usize];
    let idle_publisher = r.chance(1, 2);
    let _ = writeln!(out, "case shut {} {} inflight={} idle_publisher={}", seed, i, inflight, idle_publisher as u8);
    let dir = work_dir().join(format!("shut{}", i));
    let res: anyhow::Result<()> = async {
        let certs = Certs::generate(&dir, "c")?;
        let args = UserArgs::parse_from([
            "",
            "--bind-addr",
            "127.0.0.1:0",
            "--cert",
            certs.server("localhost.der").to_str().unwrap(),
            "--key",
            certs.server("localhost.key.der").to_str().unwrap(),
            "--ca",
            certs.server("ca.der").to_str().unwrap(),
        ]);
        let server = Server::try_from(args)?;
        let addr = server.addr()?;
        let listen = tokio::spawn(async move { server.listen().await });
        tokio::time::sleep(Duration::from_millis(50)).await;
        let client = connect_client(addr, &certs, BackoffStrategy::constant().with_max_attempts(0)).await.map_err(|e| anyhow::anyhow!("{:?}", e))?;
        let (ns, tp) = (format!("shut{}x{}", seed % 100_000, i), "topic-p".to_string());
        let ps = tokio::time::timeout(Duration::from_millis(6000), probe_pubsub(&client, &format!("/{}/{}", ns, tp))).await;
        let _ = writeln!(out, "traffic ps -> {}", match ps {
            Ok(Ok(())) => "ok".to_string(),
            Ok(Err(e)) => format!("fail:{}", e.replace(' ', "_")),
            Err(_) => "fail:deadline".to_string(),
        });
        let rr = tokio::time::timeout(Duration::from_millis(6000), probe_reqrep(&client, &format!("/{}/topic-r", ns))).await;
        let _ = writeln!(out, "traffic rr -> {}", match rr {
            Ok(Ok(())) => "ok".to_string(),
            Ok(Err(e)) => format!("fail:{}", e.replace(' ', "_")),
            Err(_) => "fail:deadline".to_string(),
        });
        // peers that stay connected: a subscriber that reads, optionally an idle publisher
        let mut sub = client.subscriber(&format!("/{}/{}", ns, tp)).with_decoder(StringCodec).open().await.map_err(|e| anyhow::anyhow!("{:?}", e))?;
        let reader = tokio::spawn(async move {
            use futures::StreamExt;
            // stop at the first error: after the server has gone the stream reports too-many-retries for ever
            while let Some(Ok(_m)) = sub.next().await {}
        });
        let idle = if idle_publisher {
            Some(client.publisher(&format!("/{}/{}", ns, tp)).with_encoder(StringCodec).open().await.map_err(|e| anyhow::anyhow!("{:?}", e))?)
        } else {
            None
        };
        // registrations in flight: a peer that grants the server no stream credit registers and never
        // reads, so the server task stays inside the registration path
        let mute = RawPeer::connect_with(addr, &certs.client("ca.der"), Some((der(&certs.client("localhost.der")), der(&certs.client("localhost.key.der")))), Some(0)).await?;
        let mut held = vec![];
        let n = match inflight {
            "ok_unread" => 1,
            "ok_unread_x3" => 3,
            _ => 0,
        };
        for k in 0..n {
            let mut st = mute.open().await?;
            let (kind, t) = if k % 2 == 0 { ("regsub", tp.as_str()) } else { ("regreq", "topic-r") };
            let _ = tokio::time::timeout(Duration::from_millis(500), st.send(frame_of(kind, &ns, t, 0, &mut r))).await;
            held.push(st);
        }
        tokio::time::sleep(Duration::from_millis(300)).await;
        let t0 = Instant::now();
        unsafe {
            libc::raise(libc::SIGINT);
        }
        let fin = tokio::time::timeout(Duration::from_millis(8000), listen).await;
        let _ = writeln!(out, "shutdown -> {}", match fin {
            Ok(_) => format!("completed {}", t0.elapsed().as_millis()),
            Err(_) => "hung".to_string(),
        });
        reader.abort();
        drop(idle);
        drop(held);
        let _ = first_reply; // (imported for symmetry with the other engines)
        Ok(())
    }
    .await;
    if let Err(e) = res {
        let _ = writeln!(out, "harness_error {}", format!("{:?}", e).replace([' ', '\n'], "_"));
    }
    let _ = writeln!(out, "end");
    let _ = std::fs::remove_dir_all(&dir);
}

pub fn main(args: &[String]) {
    let rt = tokio::runtime::Builder::new_multi_thread().worker_threads(3).enable_all().build().unwrap();
    let out = rt.block_on(async {
        let mut out = String::new();
        // keep SIGINT from killing the process before the first server installs its handler
        let _guard = tokio::spawn(async {
            let _ = tokio::signal::ctrl_c().await;
        });
        if args[0] == "replay" {
            let text = std::fs::read_to_string(&args[1]).expect("replay file");
            for l in text.lines() {
                let t: Vec<&str> = l.split_whitespace().collect();
                if t.len() >= 4 && t[0] == "case" && t[1] == "shut" {
                    run_case(t[2].parse().unwrap(), t[3].parse().unwrap(), &mut out).await;
                }
            }
        } else {
            let seed: u64 = args.get(1).and_then(|s| s.parse().ok()).unwrap_or(1);
            let n: u64 = args.get(2).and_then(|s| s.parse().ok()).unwrap_or(1);
            for i in 0..n {
                run_case(seed, i, &mut out).await;
            }
        }
        let _ = std::fs::remove_dir_all(work_dir());
        out
    });
    print!("{}", out);
}
