//! Shared helpers: deterministic PRNG, hex, panic capture.
use std::panic::{catch_unwind, AssertUnwindSafe};

#[derive(Clone)]
pub struct Rng(pub u64);

impl Rng {
    pub fn new(seed: u64) -> Self {
        // the seed goes through the output mixer, so that neighbouring seeds do not give
        // shifted copies of one stream (the state advances by a constant)
        let mut z = seed.wrapping_add(0xD1B54A32D192ED03);
        z = (z ^ (z >> 30)).wrapping_mul(0xBF58476D1CE4E5B9);
        z = (z ^ (z >> 27)).wrapping_mul(0x94D049BB133111EB);
        Rng(z ^ (z >> 31))
    }
    pub fn next(&mut self) -> u64 {
        self.0 = self.0.wrapping_add(0x9E3779B97F4A7C15);
        let mut z = self.0;
        z = (z ^ (z >> 30)).wrapping_mul(0xBF58476D1CE4E5B9);
        z = (z ^ (z >> 27)).wrapping_mul(0x94D049BB133111EB);
        z ^ (z >> 31)
    }
    pub fn below(&mut self, n: u64) -> u64 {
        if n == 0 {
            0
        } else {
            self.next() % n
        }
    }
    pub fn range(&mut self, lo: u64, hi: u64) -> u64 {
        lo + self.below(hi - lo + 1)
    }
    pub fn chance(&mut self, num: u64, den: u64) -> bool {
        self.below(den) < num
    }
    pub fn pick<'a, T>(&mut self, xs: &'a [T]) -> &'a T {
        &xs[self.below(xs.len() as u64) as usize]
    }
    pub fn bytes(&mut self, n: usize) -> Vec<u8> {
        (0..n).map(|_| self.next() as u8).collect()
    }
}

pub fn hex(b: &[u8]) -> String {
    if b.is_empty() {
        return "-".to_string();
    }
    let mut s = String::with_capacity(b.len() * 2);
    for x in b {
        s.push_str(&format!("{:02x}", x));
    }
    s
}

pub fn unhex(s: &str) -> Vec<u8> {
    if s == "-" {
        return vec![];
    }
    (0..s.len() / 2)
        .map(|i| u8::from_str_radix(&s[2 * i..2 * i + 2], 16).unwrap())
        .collect()
}

/// Runs `f`, turning a panic into `Err(message)`. The default panic hook is silenced
/// by `quiet_panics()` so that expected panics do not flood stderr.
pub fn catch<T>(f: impl FnOnce() -> T) -> Result<T, String> {
    match catch_unwind(AssertUnwindSafe(f)) {
        Ok(v) => Ok(v),
        Err(e) => {
            let msg = if let Some(s) = e.downcast_ref::<&str>() {
                s.to_string()
            } else if let Some(s) = e.downcast_ref::<String>() {
                s.clone()
            } else {
                "<non-string panic>".to_string()
            };
            Err(msg
                .chars()
                .map(|c| if c.is_ascii_graphic() { c } else { '_' })
                .take(160)
                .collect())
        }
    }
}

pub fn quiet_panics() {
    std::panic::set_hook(Box::new(|_| {}));
}

/// A watchdog on an OS thread of its own: the server under test runs inside the harness's tokio
/// runtime, so a change that parks every worker thread also stops the timers of `guard_case`.
/// When the deadline of the case in flight passes, the watchdog prints the case header followed by
/// a `harness_error hung` line and ends the process normally, so that the judge sees the case.
pub static CASE_DEADLINE: std::sync::atomic::AtomicU64 = std::sync::atomic::AtomicU64::new(0);
pub static CASE_HEADER: std::sync::Mutex<String> = std::sync::Mutex::new(String::new());

fn now_secs() -> u64 {
    std::time::SystemTime::now().duration_since(std::time::UNIX_EPOCH).map(|d| d.as_secs()).unwrap_or(0)
}

pub fn set_case_header(h: &str) {
    *CASE_HEADER.lock().unwrap_or_else(|p| p.into_inner()) = h.to_string();
}

pub fn arm_case_deadline(secs: u64) {
    static STARTED: std::sync::Once = std::sync::Once::new();
    STARTED.call_once(|| {
        std::thread::spawn(|| loop {
            std::thread::sleep(std::time::Duration::from_millis(500));
            let d = CASE_DEADLINE.load(std::sync::atomic::Ordering::SeqCst);
            if d != 0 && now_secs() > d {
                use std::io::Write;
                let h = CASE_HEADER.lock().unwrap_or_else(|p| p.into_inner()).clone();
                let mut o = std::io::stdout();
                let _ = writeln!(o, "{}", h);
                let _ = writeln!(o, "harness_error hung: the harness process (which hosts the server under test) stopped making progress: its runtime's worker threads are blocked");
                let _ = writeln!(o, "end");
                let _ = o.flush();
                std::process::exit(0);
            }
        });
    });
    CASE_DEADLINE.store(if secs == 0 { 0 } else { now_secs() + secs }, std::sync::atomic::Ordering::SeqCst);
}

/// runs one case under a deadline of its own: a case that never returns (a registration, a
/// connection or a library call without a deadline hung) is reported instead of stalling the run;
/// what the case wrote is printed as soon as it ends
#[macro_export]
macro_rules! guard_case {
    ($out:ident, $secs:expr, $call:expr) => {
        $crate::util::arm_case_deadline($secs + 45);
        if tokio::time::timeout(std::time::Duration::from_secs($secs), $call).await.is_err() {
            use std::fmt::Write as _;
            let _ = writeln!($out, "harness_error hung: the case did not complete within {} s (a call without a deadline of its own never returned)", $secs);
            let _ = writeln!($out, "end");
        }
        $crate::util::arm_case_deadline(0);
        {
            use std::io::Write as _;
            print!("{}", $out);
            let _ = std::io::stdout().flush();
            $out.clear();
        }
    };
}
