//! Shared helpers: deterministic PRNG, hex, panic capture.
use std::panic::{catch_unwind, AssertUnwindSafe};

#[derive(Clone)]
pub struct Rng(pub u64);

impl Rng {
    pub fn new(seed: u64) -> Self {
        // the seed goes through the output mixer, so that neighbouring seeds do not give
        // shifted copies of one stream (the state advances by a constant)
        let mut z = seed.wrapping_add(0xD1B54A32D192ED03);
        z = (z ^ (z >> 30)).wrapping_mul(0xBF58476D1CE4E5B9);
        z = (z ^ (z >> 27)).wrapping_mul(0x94D049BB133111EB);
        Rng(z ^ (z >> 31))
    }
    pub fn next(&mut self) -> u64 {
        self.0 = self.0.wrapping_add(0x9E3779B97F4A7C15);
        let mut z = self.0;
        z = (z ^ (z >> 30)).wrapping_mul(0xBF58476D1CE4E5B9);
        z = (z ^ (z >> 27)).wrapping_mul(0x94D049BB133111EB);
        z ^ (z >> 31)
    }
    pub fn below(&mut self, n: u64) -> u64 {
        if n == 0 {
            0
        } else {
            self.next() % n
        }
    }
    pub fn range(&mut self, lo: u64, hi: u64) -> u64 {
        lo + self.below(hi - lo + 1)
    }
    pub fn chance(&mut self, num: u64, den: u64) -> bool {
        self.below(den) < num
    }
    pub fn pick<'a, T>(&mut self, xs: &'a [T]) -> &'a T {
        &xs[self.below(xs.len() as u64) as usize]
    }
    pub fn bytes(&mut self, n: usize) -> Vec<u8> {
        (0..n).map(|_| self.next() as u8).collect()
    }
}

pub fn hex(b: &[u8]) -> String {
    if b.is_empty() {
        return "-".to_string();
    }
    let mut s = String::with_capacity(b.len() * 2);
    for x in b {
        s.push_str(&format!("{:02x}", x));
    }
    s
}

pub fn unhex(s: &str) -> Vec<u8> {
    if s == "-" {
        return vec![];
    }
    (0..s.len() / 2)
        .map(|i| u8::from_str_radix(&s[2 * i..2 * i + 2], 16).unwrap())
        .collect()
}

/// Runs `f`, turning a panic into `Err(message)`. The default panic hook is silenced
/// by `quiet_panics()` so that expected panics do not flood stderr.
pub fn catch<T>(f: impl FnOnce() -> T) -> Result<T, String> {
    match catch_unwind(AssertUnwindSafe(f)) {
        Ok(v) => Ok(v),
        Err(e) => {
            let msg = if let Some(s) = e.downcast_ref::<&str>() {
                s.to_string()
            } else if let Some(s) = e.downcast_ref::<String>() {
                s.clone()
            } else {
                "<non-string panic>".to_string()
            };
            Err(msg
                .chars()
                .map(|c| if c.is_ascii_graphic() { c } else { '_' })
                .take(160)
                .collect())
        }
    }
}

pub fn quiet_panics() {
    std::panic::set_hook(Box::new(|_| {}));
}

/// runs one case under a deadline of its own: a case that never returns (a registration, a
/// connection or a library call without a deadline hung) is reported instead of stalling the run
#[macro_export]
macro_rules! guard_case {
    ($out:ident, $secs:expr, $call:expr) => {
        if tokio::time::timeout(std::time::Duration::from_secs($secs), $call).await.is_err() {
            use std::fmt::Write as _;
            let _ = writeln!($out, "harness_error hung: the case did not complete within {} s (a call without a deadline of its own never returned)", $secs);
            let _ = writeln!($out, "end");
        }
    };
}
