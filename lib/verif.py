"""Orchestration shared by every check: regenerate the translated Coq files from /repo, build
the Coq development (full .vo, never -vos), audit assumptions, extract and build the OCaml
driver, build the Rust harness against /repo's working tree, run harness and driver, decide,
write evidence.  See DESIGN.md section 2.3."""
import fcntl
import resource
import hashlib
import json
import os
import re
import shutil
import subprocess
import sys
import time

VERIF = os.path.dirname(os.path.dirname(os.path.abspath(__file__)))
REPO = os.environ.get('VERIF_REPO', '/repo')
COQ = os.path.join(VERIF, 'coq')
GEN = os.path.join(COQ, 'gen')
SNAP = os.path.join(COQ, 'gen.snapshot')
OCAML = os.path.join(VERIF, 'ocaml')
HARNESS = os.path.join(VERIF, 'harness')
CACHE = os.path.join(VERIF, '.cache')
TARGET = os.path.join(CACHE, 'target')
WORK = os.path.join(CACHE, 'work')
EVID = os.path.join(VERIF, 'evidence')
REPLAYS = os.path.join(EVID, 'replays')
NPROC = min(16, os.cpu_count() or 4)

sys.path.insert(0, os.path.join(VERIF, 'translator'))

FORBIDDEN = re.compile(r'\b(Admitted|admit|Axiom|Axioms|Parameter|Parameters|Conjecture|Conjectures|Hypothesis|Hypotheses|Variables?)\b|Unset\s+Guard|bypass_check|type-in-type|impredicative-set|Admit\s+Obligations|Unset\s+Positivity|Unset\s+Universe')
# stdlib axioms that may appear (none is expected); anything else fails the audit
ALLOWED_AXIOMS = {
    'Coq.Logic.FunctionalExtensionality.functional_extensionality_dep',
    'FunctionalExtensionality.functional_extensionality_dep',
    'functional_extensionality_dep',
}


def log(msg):
    sys.stderr.write('[verif] %s\n' % msg)
    sys.stderr.flush()


class Lock:
    def __init__(self, name):
        os.makedirs(CACHE, exist_ok=True)
        self.path = os.path.join(CACHE, name + '.lock')

    def __enter__(self):
        self.f = open(self.path, 'w')
        fcntl.flock(self.f, fcntl.LOCK_EX)
        return self

    def __exit__(self, *a):
        fcntl.flock(self.f, fcntl.LOCK_UN)
        self.f.close()


def big_stack():
    """extracted OCaml code recurses over long byte lists: lift the stack limit for children"""
    try:
        soft, hard = resource.getrlimit(resource.RLIMIT_STACK)
        resource.setrlimit(resource.RLIMIT_STACK, (hard, hard))
    except Exception:
        pass


def sh(cmd, cwd=None, timeout=None, env=None, input=None):
    e = dict(os.environ)
    e['CARGO_NET_OFFLINE'] = 'true'
    if env:
        e.update(env)
    try:
        p = subprocess.run(cmd, cwd=cwd, timeout=timeout, env=e, input=input,
                           stdout=subprocess.PIPE, stderr=subprocess.STDOUT, text=True, shell=isinstance(cmd, str))
        return p.returncode, p.stdout
    except subprocess.TimeoutExpired as ex:
        out = ex.stdout or ''
        if isinstance(out, bytes):
            out = out.decode('utf-8', 'replace')
        return 124, out + '\n[timeout after %ss]' % timeout


def file_hash(paths):
    h = hashlib.sha256()
    for p in sorted(paths):
        h.update(p.encode())
        try:
            with open(p, 'rb') as f:
                h.update(f.read())
        except OSError:
            h.update(b'<missing>')
    return h.hexdigest()


# --------------------------------------------------------------------------------------------
# translator
# --------------------------------------------------------------------------------------------

def regenerate():
    """Runs every translator against REPO.  Returns {genfile: None | error message} and the list
    of source items read.  A gen file is rewritten only when its content changes (keeps make's
    timestamps meaningful)."""
    import gen as gen_all
    os.makedirs(GEN, exist_ok=True)
    status = {}
    manifest = []
    for name, fn in gen_all.GENERATORS:
        path = os.path.join(GEN, name)
        try:
            text, info = fn(REPO)
            manifest.append(info)
            old = open(path).read() if os.path.exists(path) else None
            if old != text:
                with open(path, 'w') as f:
                    f.write(text)
            status[name] = None
        except Exception as ex:  # Unsupported or a parse error: the obligation cannot be regenerated
            status[name] = '%s: %s' % (type(ex).__name__, ex)
            snap = os.path.join(SNAP, name)
            # keep the development buildable for the search: fall back to the committed snapshot
            if os.path.exists(snap):
                shutil.copyfile(snap, path)
    return status, manifest


# --------------------------------------------------------------------------------------------
# Coq
# --------------------------------------------------------------------------------------------

def coq_files():
    out = []
    for d in ('theories', 'gen', 'extract'):
        dd = os.path.join(COQ, d)
        if os.path.isdir(dd):
            out += [os.path.join(dd, f) for f in sorted(os.listdir(dd)) if f.endswith('.v')]
    return out


def audit_sources():
    """grep for declarations/flags that would weaken the development."""
    bad = []
    for p in coq_files():
        txt = open(p).read()
        # strip comments (non-nested is enough for our sources, nested handled by loop)
        prev = None
        while prev != txt:
            prev = txt
            txt = re.sub(r'\(\*(?:(?!\(\*|\*\)).)*\*\)', ' ', txt, flags=re.S)
        in_section = 0
        for ln, line in enumerate(txt.split('\n'), 1):
            if re.match(r'\s*Section\b', line):
                in_section += 1
            if re.match(r'\s*End\b', line) and in_section:
                in_section -= 1
            m = FORBIDDEN.search(line)
            if m:
                word = m.group(0)
                if word in ('Variable', 'Variables', 'Hypothesis', 'Hypotheses') and in_section:
                    continue
                bad.append('%s:%d: %s' % (os.path.relpath(p, VERIF), ln, line.strip()[:120]))
    return bad


def coq_make(targets, timeout=1500):
    """Builds the given .vo targets (paths relative to coq/).  Returns (ok, output)."""
    with Lock('coq'):
        rc, out = sh('coq_makefile -f _CoqProject -o Makefile', cwd=COQ, timeout=120)
        if rc != 0:
            return False, out
        rc, out = sh(['make', '-j%d' % NPROC] + targets, cwd=COQ, timeout=timeout)
        # keep the Print Assumptions output of up-to-date targets: re-run coqc output capture
        return rc == 0, out


def assumptions_of(props_file):
    """Re-runs coqc on a Props file (cheap: statements + exact) to capture Print Assumptions.
    Returns {theorem: [axioms]} (empty list = closed under the global context)."""
    with Lock('coq'):
        rc, out = sh(['coqc', '-Q', 'theories', 'Selium', '-Q', 'gen', 'SeliumGen',
                      '-w', '-notation-overridden,-ambiguous-paths', props_file], cwd=COQ, timeout=600)
    if rc != 0:
        return None, out
    src = open(os.path.join(COQ, props_file)).read()
    names = re.findall(r'Print Assumptions\s+([A-Za-z0-9_\.]+)\s*\.', src)
    # output blocks in order: either "Closed under the global context" or "Axioms:\n name : type ..."
    blocks = re.split(r'(?m)^(?=Closed under the global context|Axioms:)', out)
    blocks = [b for b in blocks if b.startswith('Closed under') or b.startswith('Axioms:')]
    res = {}
    for name, b in zip(names, blocks):
        if b.startswith('Closed under'):
            res[name] = []
        else:
            res[name] = re.findall(r'(?m)^([A-Za-z0-9_\.\']+)\s*:', b[len('Axioms:'):])
    if len(blocks) != len(names):
        return None, 'could not match Print Assumptions output to theorems (%d blocks, %d names)\n%s' % (len(blocks), len(names), out)
    return res, out


def pins_ok(prop_id):
    """Pins.v contains `Check (name : statement).` lines; compiled as part of the targets."""
    return True


# --------------------------------------------------------------------------------------------
# OCaml driver (extracted model)
# --------------------------------------------------------------------------------------------

def build_driver():
    """Extracts the models and builds ocaml/driver.  Cached on the hash of every .v and .ml input."""
    with Lock('ocaml'):
        ml = [os.path.join(OCAML, f) for f in sorted(os.listdir(OCAML)) if f.endswith('.ml') or f.endswith('.sh')]
        models = [p for p in coq_files() if not os.path.basename(p).startswith(('P_', 'Props_', 'Pins'))]
        h = file_hash(ml + models)
        stamp = os.path.join(CACHE, 'driver.stamp')
        if os.path.exists(stamp) and open(stamp).read() == h and os.path.exists(os.path.join(OCAML, 'driver')):
            return True, 'cached'
        gen_dir = os.path.join(OCAML, 'gen')
        os.makedirs(gen_dir, exist_ok=True)
        # every model file the extraction imports must be compiled from its current source
        ext_src = open(os.path.join(COQ, 'extract', 'Extract.v')).read()
        targets = []
        for line in re.findall(r'Require Import ([^.]*(?:\.[A-Za-z][^.]*)*)\.\s', ext_src):
            for mod in line.split():
                if mod.startswith('Selium.'):
                    targets.append('theories/%s.vo' % mod[len('Selium.'):])
                elif mod.startswith('SeliumGen.'):
                    targets.append('gen/%s.vo' % mod[len('SeliumGen.'):])
        okm, outm = coq_make(targets)
        if not okm:
            return False, outm
        with Lock('coq'):
            rc, out = sh(['coqc', '-Q', os.path.join(COQ, 'theories'), 'Selium', '-Q', GEN, 'SeliumGen',
                          '-w', '-notation-overridden,-ambiguous-paths,-extraction',
                          os.path.join(COQ, 'extract', 'Extract.v')], cwd=gen_dir, timeout=900)
        if rc != 0:
            return False, out
        rc, out2 = sh(['sh', os.path.join(OCAML, 'build.sh')], cwd=OCAML, timeout=900)
        if rc != 0:
            return False, out + out2
        with open(stamp, 'w') as f:
            f.write(h)
        return True, out + out2


def run_driver(args, timeout=3600):
    rc, out = sh([os.path.join(OCAML, 'driver')] + args, timeout=timeout, env={'OCAMLRUNPARAM': 'l=8G'})
    return rc, out


# --------------------------------------------------------------------------------------------
# Rust harness
# --------------------------------------------------------------------------------------------

def build_harness(release=False, bins=None):
    """cargo build of the harness against REPO's working tree (path dependencies), hooks on."""
    with Lock('cargo'):
        lock_src = os.path.join(REPO, 'Cargo.lock')
        lock_dst = os.path.join(HARNESS, 'Cargo.lock')
        if not os.path.exists(lock_dst):
            shutil.copyfile(lock_src, lock_dst)
        cmd = ['cargo', 'build', '--offline']
        if release:
            cmd.append('--release')
        rc, out = sh(cmd, cwd=HARNESS, timeout=3000,
                     env={'CARGO_TARGET_DIR': TARGET, 'RUSTFLAGS': os.environ.get('VERIF_RUSTFLAGS', '-Awarnings')})
        if rc != 0 and 'Cargo.lock' in out and 'needs to be updated' in out:
            shutil.copyfile(lock_src, lock_dst)
            rc, out = sh(cmd, cwd=HARNESS, timeout=3000, env={'CARGO_TARGET_DIR': TARGET, 'RUSTFLAGS': '-Awarnings'})
        return rc == 0, out


def harness_bin(name='verif-harness', release=False):
    return os.path.join(TARGET, 'release' if release else 'debug', name)


def run_parallel(cmds, timeout=3600):
    """cmds: list of (argv, stdout_path).  Runs up to NPROC at once.  Returns list of return codes."""
    procs = []
    rcs = [None] * len(cmds)
    pending = list(enumerate(cmds))
    running = []
    start = time.time()
    while pending or running:
        while pending and len(running) < NPROC:
            i, (argv, outp) = pending.pop(0)
            f = open(outp, 'w')
            p = subprocess.Popen(argv, stdout=f, stderr=subprocess.DEVNULL, env=dict(os.environ, OCAMLRUNPARAM='l=8G'), preexec_fn=big_stack)
            running.append((i, p, f))
        still = []
        for i, p, f in running:
            rc = p.poll()
            if rc is None:
                if time.time() - start > timeout:
                    p.kill()
                    rcs[i] = 124
                    f.close()
                else:
                    still.append((i, p, f))
            else:
                rcs[i] = rc
                f.close()
        running = still
        if running:
            time.sleep(0.02)
    return rcs


# --------------------------------------------------------------------------------------------
# known findings, evidence, verdict
# --------------------------------------------------------------------------------------------

def known_findings(prop_id):
    p = os.path.join(VERIF, 'known_findings.json')
    if not os.path.exists(p):
        return []
    data = json.load(open(p))
    return [e for e in data.get('findings', []) if e.get('property') == prop_id and e.get('kind') == 'known']


def write_replay(prop_id, name, text):
    os.makedirs(REPLAYS, exist_ok=True)
    path = os.path.join(REPLAYS, '%s_%s' % (prop_id, name))
    with open(path, 'w') as f:
        f.write(text)
    return path


def write_evidence(prop_id, tier, seed, coverage, wall_s, violations, assumptions):
    os.makedirs(EVID, exist_ok=True)
    if coverage.get('discharged', 1) == 0:
        # nothing was proved in this run (broken build / translator): the proof keys of the schema
        # require at least one discharged obligation, so report the counts under other names and
        # let the exploration-style counts describe what was covered
        coverage = dict(coverage)
        coverage['obligations_total'] = coverage.pop('obligations', 0)
        coverage['obligations_discharged'] = coverage.pop('discharged')
    ev = {
        'property_id': prop_id,
        'tier': tier,
        'seed': seed,
        'level': 'proof',
        'coverage': coverage,
        'assumptions': assumptions,
        'wall_s': round(wall_s, 2),
        'violations': violations,
    }
    tmp = os.path.join(EVID, prop_id + '.json.tmp')
    with open(tmp, 'w') as f:
        json.dump(ev, f, indent=1)
    os.replace(tmp, os.path.join(EVID, prop_id + '.json'))


TRUSTED_BASE_COMMON = [
    'Coq 8.16.1 kernel (coqc), including its vm_compute machine for the Examples and finite sweeps; no native_compute',
    'no Axiom/Parameter/Admitted anywhere (source audit on every run); Print Assumptions of every property theorem must be "Closed under the global context"',
    'extraction with ExtrOcamlBasic only (Extract Inductive: bool, option, unit, list, prod, sumbool, sumor; Extract Inlined Constant: andb, orb) + OCaml 4.13 ocamlopt + ocaml/*.ml drivers: trusted for the correspondence check only',
    'translator/*.py (python3) trusted to report the Rust source faithfully; Rust harness trusted to report the implementation behaviour faithfully',
]


class Check:
    """Accumulates the outcome of one check run."""

    def __init__(self, prop_id, tier, seed):
        self.prop_id = prop_id
        self.tier = tier
        self.seed = seed
        self.t0 = time.time()
        self.broken = []        # proof / translator / correspondence obligations that no longer check
        self.violations = []    # (description, replay_path) with a concrete failing input
        self.known_hits = []    # descriptions of listed findings that were reproduced
        self.coverage = {}
        self.assumptions = []

    def obligation_broken(self, what, detail):
        self.broken.append((what, detail))
        log('obligation broken: %s' % what)

    def violation(self, desc, replay_path):
        self.violations.append((desc, replay_path))

    def finish(self):
        wall = time.time() - self.t0
        nviol = len(self.violations)
        lines = []
        for desc in self.known_hits:
            lines.append('KNOWN-FINDING: property=%s %s' % (self.prop_id, desc))
        if self.violations:
            desc, path = self.violations[0]
            lines.append('VIOLATION property=%s replay=%s' % (self.prop_id, path))
            log('violation: %s' % desc)
        elif self.broken:
            text = 'The following obligations of %s no longer check on the current tree and the search found no concrete failing input:\n\n' % self.prop_id
            for what, detail in self.broken:
                text += '== %s ==\n%s\n\n' % (what, detail[-6000:])
            path = write_replay(self.prop_id, 'broken_obligation.txt', text)
            lines.append('VIOLATION property=%s replay=%s no-failing-input-found' % (self.prop_id, path))
            nviol = 1
        self.coverage.setdefault('trusted_base', TRUSTED_BASE_COMMON)
        write_evidence(self.prop_id, self.tier, self.seed, self.coverage, wall, nviol, self.assumptions)
        for l in lines:
            print(l)
        sys.stdout.flush()
        return 1 if (self.violations or self.broken) else 0


def gen_deps(props_file):
    """names of the generated files (gen/X.v) the given theorem file depends on, transitively"""
    seen, todo, gens = set(), [props_file], set()
    while todo:
        f = todo.pop()
        if f in seen:
            continue
        seen.add(f)
        try:
            src = open(os.path.join(COQ, f)).read()
        except OSError:
            continue
        for line in re.findall(r'Require (?:Import|Export) ([^.]*(?:\.[A-Za-z][^.]*)*)\.\s', src):
            for mod in line.split():
                if mod.startswith('Selium.'):
                    todo.append('theories/%s.v' % mod[len('Selium.'):])
                elif mod.startswith('SeliumGen.'):
                    gens.add(mod[len('SeliumGen.'):] + '.v')
                    todo.append('gen/%s.v' % mod[len('SeliumGen.'):])
    return gens


def prove(check, props_file, theorems, extra_targets=()):
    """Regenerates gen/, builds the property's theorem file, audits sources and assumptions.
    Fills coverage.obligations/discharged.  Returns True when every obligation is discharged."""
    gen_status, manifest = regenerate()
    needed = gen_deps(props_file)
    # a translator failure concerns this property only when its theorems are stated over that file
    gen_status = {k: v for k, v in gen_status.items() if k in needed}
    for name, err in gen_status.items():
        if err:
            check.obligation_broken('translator could not regenerate gen/%s from the current source' % name, err)
    bad = audit_sources()
    if bad:
        check.obligation_broken('source audit (Admitted/Axiom/... found)', '\n'.join(bad))
    target = props_file[:-2] + '.vo'
    ok, out = coq_make([target] + list(extra_targets))
    discharged = 0
    details = {}
    if not ok:
        m = re.search(r'File "([^"]+)", line (\d+)[^\n]*\n(.*?)(?:\nmake|\Z)', out, re.S)
        where = ('%s line %s' % (m.group(1), m.group(2))) if m else 'see output'
        check.obligation_broken('Coq build of %s failed (%s)' % (target, where), out)
    else:
        ass, aout = assumptions_of(props_file)
        if ass is None:
            check.obligation_broken('Print Assumptions of %s' % props_file, aout)
        else:
            for th in theorems:
                if th not in ass:
                    check.obligation_broken('theorem %s is missing from %s' % (th, props_file), '')
                    continue
                extra = [a for a in ass[th] if a not in ALLOWED_AXIOMS]
                details[th] = ass[th]
                if extra:
                    check.obligation_broken('theorem %s depends on axioms outside the allow-list' % th, ', '.join(extra))
                else:
                    discharged += 1
    if any(err for err in gen_status.values()):
        # theorems proved about the snapshot, not about the current source
        discharged = 0
    if ok and check.tier == 'thorough':
        # independent re-check of the compiled theorem file and everything below it
        mod = 'Selium.' + os.path.basename(props_file)[:-2]
        with Lock('coq'):
            rc, cout = sh(['coqchk', '-o', '-silent', '-Q', 'theories', 'Selium', '-Q', 'gen', 'SeliumGen', mod], cwd=COQ, timeout=1800)
        m = re.search(r'\* Axioms:\s*(.*?)\n\s*\n', cout, re.S)
        axioms = m.group(1).strip() if m else 'unparsed'
        check.coverage.setdefault('coqchk', {})[mod] = {'exit': rc, 'axioms': axioms}
        if rc != 0 or axioms != '<none>':
            check.obligation_broken('coqchk of %s (exit %s, axioms: %s)' % (mod, rc, axioms[:200]), cout[-2000:])
    # a check may prove several theorem files: the counts add up
    check.coverage['obligations'] = check.coverage.get('obligations', 0) + len(theorems)
    check.coverage['discharged'] = check.coverage.get('discharged', 0) + discharged
    check.coverage['theorems'] = check.coverage.get('theorems', []) + list(theorems)
    check.coverage.setdefault('print_assumptions', {}).update(details)
    cmd = 'cd coq && coq_makefile -f _CoqProject -o Makefile && make %s && coqc %s  (Print Assumptions parsed against an allow-list)' % (target, props_file)
    check.coverage['checker_cmd'] = (check.coverage['checker_cmd'] + ' ; ' + cmd) if check.coverage.get('checker_cmd') else cmd
    check.coverage['translated_from'] = manifest
    return discharged == len(theorems)


# --------------------------------------------------------------------------------------------
# generic differential stage: harness (real code) -> traces -> driver (extracted model + predicates)
# --------------------------------------------------------------------------------------------

def parse_summary(text, agg, extra_maps):
    for line in text.splitlines():
        if line.startswith('summary '):
            for k, v in re.findall(r'(\w+)=([0-9]+)\b', line):
                agg[k] = agg.get(k, 0) + int(v)
            for k, v in re.findall(r'(\w+)=((?:[\w\-\.]+:[0-9]+,?)+)', line):
                d = extra_maps.setdefault(k, {})
                for kv in v.split(','):
                    if ':' in kv:
                        a, b = kv.rsplit(':', 1)
                        d[a] = d.get(a, 0) + int(b)


def differential(check, prop_id, harness_engine, driver_engine, tier, seed, replay,
                 quick_per_shard, thorough_per_shard, replay_extract, sample_lines=2, harness_extra=(),
                 driver_extra=(), shards=None, release=False, timeout=3000):
    """Runs corpus + generated cases of `harness_engine` through the real code, judges the traces
    with `driver <driver_engine>`.  Registers violations / broken correspondence on `check`.
    replay_extract(failing_lines) -> text of a replay file in the harness's `replay` input format.
    Returns (agg, maps, failing_lines, samples)."""
    ok, out = build_driver()
    if not ok:
        check.obligation_broken('extraction / driver build', out)
    okh, outh = build_harness(release=release)
    if not okh:
        check.obligation_broken('harness does not build against the current /repo', outh)
    agg, maps, failing, samples = {}, {}, [], []
    blocks = {}
    if not (ok and okh):
        return agg, maps, failing, samples
    os.makedirs(WORK, exist_ok=True)
    hb = harness_bin(release=release)
    cmds = []
    tag = prop_id.lower()
    if replay:
        cmds.append(([hb, harness_engine, 'replay', replay] + list(harness_extra), os.path.join(WORK, '%s_replay.trace' % tag)))
    else:
        corpus = os.path.join(VERIF, 'corpus', prop_id)
        if os.path.isdir(corpus):
            for f in sorted(os.listdir(corpus)):
                cmds.append(([hb, harness_engine, 'replay', os.path.join(corpus, f)] + list(harness_extra),
                             os.path.join(WORK, '%s_corpus_%s.trace' % (tag, f))))
        nsh = shards or NPROC
        per = quick_per_shard if tier == 'quick' else thorough_per_shard
        for i in range(nsh):
            cmds.append(([hb, harness_engine, 'gen', str(seed * 1000 + i), str(per)] + list(harness_extra),
                         os.path.join(WORK, '%s_gen_%d.trace' % (tag, i))))
    rcs = run_parallel(cmds, timeout=timeout)
    traces = []
    for (argv, t), rc in zip(cmds, rcs):
        if rc != 0:
            check.obligation_broken('harness run failed (exit %s): %s' % (rc, ' '.join(argv[1:])), open(t).read()[-2000:])
        else:
            traces.append(t)
    outs = [t + '.verdict' for t in traces]
    rcs = run_parallel([([os.path.join(OCAML, 'driver'), driver_engine, t] + list(driver_extra), o) for t, o in zip(traces, outs)], timeout=timeout)
    for rc, o, t in zip(rcs, outs, traces):
        text = open(o).read()
        if rc != 0 or 'summary ' not in text:
            check.obligation_broken('driver failed on %s (exit %s)' % (os.path.basename(t), rc), text[-2000:])
            continue
        parse_summary(text, agg, maps)
        for line in text.splitlines():
            if 'corr=DIFF' in line or 'prop=FAIL' in line:
                failing.append(line)
                m = re.search(r'\| line=(\d+) \|', line)
                if m:
                    blocks[line] = (t, int(m.group(1)))
    for t in traces[-1:]:
        lines = open(t).read().splitlines()
        for i in range(0, min(len(lines), 4 * sample_lines), sample_lines):
            samples.append(' / '.join(l[:240] for l in lines[i:i + sample_lines]))
    prop_fail = [l for l in failing if 'prop=FAIL' in l]
    corr_only = [l for l in failing if 'prop=FAIL' not in l]
    if prop_fail:
        if all(l in blocks for l in prop_fail):
            # the verdict names the trace line of the case: copy the complete case blocks (smallest first)
            texts = []
            for l in prop_fail[:200]:
                t, ln = blocks[l]
                texts.append(case_block(t, ln))
            texts.sort(key=len)
            text = ''.join(texts[:10])
        else:
            text = replay_extract(prop_fail[:25])
        path = write_replay(prop_id, 'failing_cases.txt', text + '\n# verdicts\n' + '\n'.join('# ' + l[:1500] for l in prop_fail[:25]) + '\n')
        check.violation('%d case(s) on which the real code violates the property predicate' % len(prop_fail), path)
    if corr_only:
        check.obligation_broken('correspondence: model and implementation differ on %d case(s) on which the property predicate still holds' % len(corr_only),
                                '\n'.join(l[:1500] for l in corr_only[:10]))
    cov = check.coverage
    cov['evaluations'] = cov.get('evaluations', 0) + agg.get('cases', 0)
    cov['distinct_nontrivial'] = cov.get('distinct_nontrivial', 0) + agg.get('nontrivial', 0)
    cov['traces_validated_against_impl'] = cov.get('traces_validated_against_impl', 0) + agg.get('cases', 0) - agg.get('corr_fail', 0) - agg.get('skipped', 0)
    cov['samples'] = cov.get('samples', []) + samples
    cov['disagreements'] = cov.get('disagreements', 0) + agg.get('corr_fail', 0)
    cov['property_failures'] = cov.get('property_failures', 0) + agg.get('prop_fail', 0)
    cov.setdefault('input_distribution', {})[harness_engine] = dict({k: v for k, v in agg.items() if k not in ('cases', 'corr_fail', 'prop_fail', 'nontrivial')}, **maps)
    return agg, maps, failing, samples


_TRACE_CACHE = {}


def case_block(trace, line_no):
    """the lines of the case that starts at (1-based) line_no of trace, up to the next `case ` line"""
    if trace not in _TRACE_CACHE:
        _TRACE_CACHE[trace] = open(trace).read().split('\n')
    lines = _TRACE_CACHE[trace]
    out = [lines[line_no - 1]]
    i = line_no
    while i < len(lines) and not lines[i].startswith('case '):
        out.append(lines[i])
        i += 1
    return '\n'.join(l for l in out if l != '') + '\n'


def extract_between_bars(lines, index=1):
    """failing verdict lines are `case N corr=.. prop=.. | <input> | impl: .. | model: ..`"""
    out = []
    for l in lines:
        parts = l.split(' | ')
        if len(parts) > index:
            out.append(parts[index].strip())
    return '\n'.join(out) + '\n'
